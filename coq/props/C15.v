(* C15 -- HDC coordinates are exactly the boundary cells of the enclosed region; the line sorter returns a permutation.
   Property theorems only.  Models: model/Hdc.v (boundary, labels, coordinate sets), model/Sorter.v (the sorter as
   repaired: the walk continues from the nearest unvisited point until every point is visited).
   Proofs: proofs/HdcBoundaryProofs.v, proofs/SorterProofs.v. *)
From Coq Require Import List Bool Arith ZArith Permutation Sorted PrimFloat Lia.
From V.model Require Import Hdc Sorter.
From V.proofs Require Import HdcArrayProofs HdcBoundaryProofs SorterProofs.
Import ListNotations.

(* a cell is returned (is in HDC = HDR - erosion) iff it is in the region and at least one of its 3^n - 1 neighbours
   is outside the grid or outside the region -- any number of dimensions n, any grid shape (cell sizes play no role) *)
Theorem C15_boundary_cells : forall sh m idx, in_shape sh idx ->
  (boundary_at sh m idx = true <->
   mget sh m idx = true /\
   exists off, In off (offsets (length sh)) /\ off <> centre (length sh) /\
     (neighbour sh idx off = None \/ exists j, neighbour sh idx off = Some j /\ mget sh m j = false)).
Proof. exact boundary_characterisation. Qed.

(* the neighbourhood: all 3^n offset vectors over {-1, 0, +1} (coded 0, 1, 2), no repetition; Some j is the cell
   idx + off - 1 of the grid, None means that cell lies outside the grid on some axis *)
Theorem C15_neighbourhood : forall n,
  length (offsets n) = 3 ^ n /\ NoDup (offsets n) /\ In (centre n) (offsets n) /\
  (forall off, In off (offsets n) <-> length off = n /\ Forall (fun o => o < 3) off).
Proof. exact (fun n => conj (offsets_length n) (conj (offsets_nodup n) (conj (centre_in n) (offsets_in n)))). Qed.
Theorem C15_neighbour_cells : forall sh idx off, in_shape sh idx -> In off (offsets (length sh)) ->
  (forall j, neighbour sh idx off = Some j ->
     in_shape sh j /\ forall a, a < length sh -> nth a j 0 + 1 = nth a idx 0 + nth a off 0) /\
  (neighbour sh idx off = None ->
     exists a, a < length sh /\ (nth a idx 0 + nth a off 0 = 0 \/ nth a idx 0 + nth a off 0 = nth a sh 0 + 1)).
Proof.
  exact (fun sh idx off Hi Ho =>
           conj (fun j H => neighbour_some sh idx off j Hi (proj2 (proj1 (offsets_in _ off) Ho)) H)
                (fun H => neighbour_none sh idx off Hi (proj1 (proj1 (offsets_in _ off) Ho)) (proj2 (proj1 (offsets_in _ off) Ho)) H)).
Qed.

(* the flat HDC / erosion arrays of the model hold, at row-major position k, the test of the cell unravel k *)
Theorem C15_flat_arrays : forall sh m k, k < prod sh ->
  (length (boundary sh m) = prod sh /\ nth k (boundary sh m) false = boundary_at sh m (unravel sh k)) /\
  (length (erode sh m) = prod sh /\ nth k (erode sh m) false = erode_at sh m (unravel sh k)).
Proof. exact (fun sh m k H => conj (boundary_flat sh m k H) (erode_flat sh m k H)). Qed.

(* every boundary cell centre is returned exactly once: the concatenation of the per-region coordinate sets is a
   permutation of the centres of the boundary cells.  The label array is scipy.ndimage.label's (oracle); its contract
   -- label 0 exactly off the boundary, labels at most n_modes -- is the hypothesis *)
Theorem C15_each_boundary_cell_once : forall (T : Type) (d0 : T) sh coords (bnd : list bool) labels n_modes,
  length labels = length bnd ->
  (forall k, k < length bnd -> (nth k labels 0 <> 0 <-> nth k bnd false = true) /\ nth k labels 0 <= n_modes) ->
  Permutation (concat (map (region_coords d0 sh coords) (regions labels n_modes)))
              (map (fun k => centre_of d0 coords (unravel sh k)) (filter (fun k => nth k bnd false) (seq 0 (length bnd)))).
Proof. exact (@coordinates_are_boundary_cells). Qed.

(* one coordinate set per region: set i holds exactly the cells labelled i, in C order, none twice *)
Theorem C15_one_set_per_region : forall labels i,
  (forall k, In k (region_cells labels i) <-> k < length labels /\ nth k labels 0 = i) /\
  NoDup (region_cells labels i) /\ StronglySorted lt (region_cells labels i).
Proof. exact (fun labels i => conj (region_cells_spec labels i) (region_cells_sorted labels i)). Qed.

(* a single region is stored as one array (the sorted line in 2-D), several regions as one coordinate set each *)
Theorem C15_single_or_many : forall (T : Type) n_dim (sets : list (list (list T))),
  (forall pts, sets = [pts] -> dispatch n_dim sets = if n_dim =? 2 then SortedLine pts else OneRegion pts) /\
  (length sets <> 1 -> dispatch n_dim sets = ManyRegions sets).
Proof. exact (@dispatch_spec). Qed.

(* the line sorter: for ANY neighbour graph on the points (sklearn's kNN graph is an oracle; only "neighbours are
   points" is assumed), any distance and any cost summation, the walk ends within fuel_bound steps and returns every
   point exactly once *)
Theorem C15_sorter_permutation : forall (V : Type) (veqb : V -> V -> bool), (forall a b, veqb a b = true <-> a = b) ->
  forall (T : Type) (ltb : T -> T -> bool) (inf : T) (tsum : list T -> T) (nodes : list V) (adj : V -> list V) (d2 : V -> V -> T),
  NoDup nodes -> (forall v w, In v nodes -> In w (adj v) -> In w nodes) ->
  forall search, exists r,
    sort_points V veqb T ltb inf tsum nodes adj d2 search (fuel_bound V nodes adj) = Some r /\ Permutation r nodes.
Proof. exact sort_points_permutation. Qed.

(* the returned coordinate arrays x[order], y[order] are the input points, none lost or duplicated *)
Theorem C15_sorted_points_are_the_points : forall (V : Type) (veqb : V -> V -> bool), (forall a b, veqb a b = true <-> a = b) ->
  forall (T : Type) (ltb : T -> T -> bool) (inf : T) (tsum : list T -> T) (nodes : list V) (adj : V -> list V) (d2 : V -> V -> T),
  NoDup nodes -> (forall v w, In v nodes -> In w (adj v) -> In w nodes) ->
  forall (P : Type) (pt : V -> P) search r,
    sort_points V veqb T ltb inf tsum nodes adj d2 search (fuel_bound V nodes adj) = Some r ->
    Permutation (map pt r) (map pt nodes).
Proof. exact sorted_points_are_the_points. Qed.

(* without the start search the line starts at the first point, as before the repair *)
Theorem C15_sorter_starts_at_first : forall (V : Type) (veqb : V -> V -> bool), (forall a b, veqb a b = true <-> a = b) ->
  forall (T : Type) (ltb : T -> T -> bool) (inf : T) (tsum : list T -> T) (nodes : list V) (adj : V -> list V) (d2 : V -> V -> T),
  NoDup nodes -> (forall v w, In v nodes -> In w (adj v) -> In w nodes) ->
  forall first rest, nodes = first :: rest ->
  exists tl, sort_points V veqb T ltb inf tsum nodes adj d2 false (fuel_bound V nodes adj) = Some (first :: tl).
Proof. exact sort_points_starts_at_first. Qed.

(* the binary64 entry point that the correspondence check runs against the implementation, with the recorded kNN
   lists: a permutation of 0 .. n-1 whenever the recorded lists name points *)
Theorem C15_sorter_entry_point : forall xs ys nbr search, length nbr = length xs -> knn_in_range nbr ->
  exists r, f_sort_points xs ys nbr search = Some r /\ Permutation r (znodes (length xs)).
Proof. exact f_sort_points_permutation. Qed.

(* what _compute stores in self.coordinates (the composed binary64 model run against the implementation): a single
   2-D region is returned as ONE array holding the region's boundary cell centres in the sorter's order -- a
   permutation of them; in every other case the coordinate sets are returned as they are *)
Theorem C15_single_region_sorted_line : forall sh labels coords nbr pts,
  map (region_coords nan sh coords) (regions labels 1) = [pts] ->
  length nbr = length pts -> knn_in_range nbr ->
  exists line, f_hdc_coordinates 2 sh labels 1 coords nbr = FOne line /\ Permutation line pts.
Proof. exact single_region_line. Qed.
Theorem C15_other_regions_as_they_are : forall n_dim sh labels n_modes coords nbr,
  (n_dim <> 2 \/ n_modes <> 1) ->
  f_hdc_coordinates n_dim sh labels n_modes coords nbr =
    match map (region_coords nan sh coords) (regions labels n_modes) with
    | [pts] => FOne pts
    | sets => FMany sets
    end.
Proof. exact other_regions_unsorted. Qed.

(* the graph that networkx builds from the kNN lists is undirected and has no parallel edges: w is a neighbour of u iff
   the edge stream contains (u, w) or (w, u), iff u is a neighbour of w; no neighbour is listed twice *)
Theorem C15_adjacency_undirected : forall es u w,
  (In w (adj_of es u) <-> In (u, w) es \/ In (w, u) es) /\
  (In w (adj_of es u) <-> In u (adj_of es w)) /\ NoDup (adj_of es u).
Proof. exact adjacency_undirected. Qed.

(* search_for_optimal_start: for a transitive, irreflexive comparison of costs the kept start has minimal cost -- no
   start's walk is strictly cheaper than the kept value, which is the cost of the chosen start's walk (or still the
   initial inf with the first point chosen, when no cost is below inf) *)
Theorem C15_start_search_minimal : forall (V : Type) (veqb : V -> V -> bool) (T : Type) (ltb : T -> T -> bool) (inf : T)
  (tsum : list T -> T) (nodes : list V) (adj : V -> list V) (d2 : V -> V -> T) (fuel : nat),
  (forall a b c, ltb a b = true -> ltb b c = true -> ltb a c = true) -> (forall a, ltb a a = false) ->
  forall first s, best_start V veqb T ltb tsum nodes adj d2 fuel nodes inf first = Some s ->
  exists m, ((m = inf /\ s = first) \/ m = cost_of V veqb T ltb inf tsum nodes adj d2 fuel s) /\
            forall j, In j nodes -> ltb (cost_of V veqb T ltb inf tsum nodes adj d2 fuel j) m = false.
Proof.
  exact (fun V veqb T ltb inf tsum nodes adj d2 fuel Ht Hi first s H =>
           best_start_minimal V veqb T ltb inf tsum nodes adj d2 fuel Ht Hi nodes inf first [] s first
                              (or_introl (conj eq_refl eq_refl)) (fun j (Hj : In j []) => match Hj with end) H).
Qed.

(* the sorter BEFORE the repair (depth-first walk of the start node's component only) loses points: six points in two
   groups of three, 2-NN graph with two components, three points returned (the defect of lead L7) *)
Theorem C15_unrepaired_sorter_refuted :
  exists nbr, knn_in_range nbr /\ length nbr = 6 /\ unrepaired_path nbr 0%Z = Some [0; 1; 2]%Z.
Proof. exact unrepaired_sorter_refuted. Qed.

(* non-vacuity: (i) two far-apart triples of points, 2-NN graph with two components: all six points are returned;
   (ii) a full 3 x 3 region: every cell but the middle one is a boundary cell (grid edge counts as outside) *)
Example C15_nonvacuous :
  f_sort_points [0; 1; 2; 10; 11; 12]%float [0; 0; 0; 0; 0; 0]%float
                [[1; 2]; [0; 2]; [1; 0]; [4; 5]; [3; 5]; [4; 3]]%Z true = Some [0; 1; 2; 3; 4; 5]%Z /\
  knn_in_range [[1; 2]; [0; 2]; [1; 0]; [4; 5]; [3; 5]; [4; 3]]%Z /\
  boundary [3; 3] (repeat true 9) = [true; true; true; true; false; true; true; true; true] /\
  in_shape [3; 3] [1; 1].
Proof.
  split; [vm_compute; reflexivity|]. split.
  - intros row j Hr Hj. simpl in Hr. simpl. repeat (destruct Hr as [<-|Hr]; [simpl in Hj; lia|]). contradiction.
  - split; [vm_compute; reflexivity|repeat constructor].
Qed.

Print Assumptions C15_boundary_cells.
Print Assumptions C15_neighbourhood.
Print Assumptions C15_neighbour_cells.
Print Assumptions C15_flat_arrays.
Print Assumptions C15_each_boundary_cell_once.
Print Assumptions C15_one_set_per_region.
Print Assumptions C15_single_or_many.
Print Assumptions C15_sorter_permutation.
Print Assumptions C15_sorted_points_are_the_points.
Print Assumptions C15_sorter_starts_at_first.
Print Assumptions C15_sorter_entry_point.
Print Assumptions C15_single_region_sorted_line.
Print Assumptions C15_other_regions_as_they_are.
Print Assumptions C15_unrepaired_sorter_refuted.
Print Assumptions C15_adjacency_undirected.
Print Assumptions C15_start_search_minimal.
