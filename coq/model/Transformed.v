(* Hand model of TransformedModel (virocon/jointmodels.py) over the generated transformation triples. *)
From Coq Require Import List Bool.
From V.base Require Import Num.
Import ListNotations.
Set Implicit Arguments.
Section TM.
  Context {T : Type} (N : NumOps T).
  Variable base_pdf : T * T -> T.
  Variables transform inverse : T * T -> T * T.
  Variable jacobian : T * T -> T.
  (* pdf(x) = model.pdf(transform(x)) * jacobian(x), row by row *)
  Definition tm_pdf (x : T * T) : T := n_mul N (base_pdf (transform x)) (jacobian x).
  Definition tm_pdf_rows (xs : list (T * T)) : list T := map tm_pdf xs.
  (* draw_sample(n) = inverse(model.draw_sample(n)) *)
  Definition tm_draw (base_sample : list (T * T)) : list (T * T) := map inverse base_sample.
  (* empirical_cdf(x, sample) = #{rows with every coordinate <= x} / n *)
  Definition leq_all (s x : T * T) : bool := n_leb N (fst s) (fst x) && n_leb N (snd s) (snd x).
  Definition tm_empirical_count (sample : list (T * T)) (x : T * T) : nat := length (filter (fun s => leq_all s x) sample).
End TM.
