(* Executable model of virocon/_intersection.py (intersection) and of
   virocon/utils.py calculate_design_conditions, generic over the number type: the arithmetic,
   ONE boolean comparison and the embedding of the integers are Section variables.
   Instances: R (comparison through Rle_dec; object of the C17 theorems, proofs/IntersectionProofs.v)
   and Q (exact rationals, executable by vm_compute; run against the implementation by
   tools/harness/c17.py on the exact rational values of the binary64 inputs).
   NO proofs in this file.

   The 4x4 system AA.T = BB of the source,
        dx1*t1 - x0 = -x1     dx2*t2 - x0 = -x2     dy1*t1 - y0 = -y1     dy2*t2 - y0 = -y2,
   is solved in closed form (Cramer); numpy.linalg.solve is an engine whose contract is exactly
   "returns the solution, LinAlgError iff the matrix is singular" (singular <-> D = 0).

   calculate_design_conditions is modelled AS REPAIRED (fixes/C17-*.patch): no `assert len(x) <= 2`,
   and the vertical probe segment is extended by a tenth of max(|min y|, |max y|) (the source used a
   tenth of max(y), which SHORTENS the probe when the ordinates are negative; for contours with
   non-negative ordinates the two expressions are the same floating-point value). *)
From Coq Require Import List Bool ZArith.
Import ListNotations.

Inductive steps_spec (F : Type) := StepsDefault | StepsNum (n : nat) | StepsList (l : list F).
Arguments StepsDefault {F}. Arguments StepsNum {F}. Arguments StepsList {F}.

Section Gen.
  Variable F : Type.
  Variables add sub mul div : F -> F -> F.
  Variable leb : F -> F -> bool.
  Variable ofz : Z -> F.

  Notation pt := (F * F)%type.
  Notation seg := ((F * F) * (F * F))%type.
  Local Infix "+" := add. Local Infix "-" := sub. Local Infix "*" := mul. Local Infix "/" := div.

  Definition zero : F := ofz 0.
  Definition one : F := ofz 1.
  Definition eqb (a b : F) : bool := leb a b && leb b a.
  Definition fmin (a b : F) : F := if leb a b then a else b.
  Definition fmax (a b : F) : F := if leb a b then b else a.

  (* consecutive vertices of a polyline *)
  Fixpoint segments (c : list pt) : list seg :=
    match c with a :: ((b :: _) as tl) => (a, b) :: segments tl | _ => [] end.

  (* _rectangle_intersection_: C1 & C2 & C3 & C4 for one pair of segments *)
  Definition bbox_overlap (s1 s2 : seg) : bool :=
    let '((ax, ay), (bx, by_)) := s1 in
    let '((cx, cy), (dx, dy)) := s2 in
    leb (fmin ax bx) (fmax cx dx) && leb (fmin cx dx) (fmax ax bx) &&
    leb (fmin ay by_) (fmax cy dy) && leb (fmin cy dy) (fmax ay by_).

  Definition det (s1 s2 : seg) : F :=
    let '((ax, ay), (bx, by_)) := s1 in
    let '((cx, cy), (dx, dy)) := s2 in
    (dx - cx) * (by_ - ay) - (bx - ax) * (dy - cy).

  (* np.linalg.solve(AA[:, :, i], BB[:, i]) : (t1, t2, (x0, y0)); None = LinAlgError (T = inf) *)
  Definition solve_pair (s1 s2 : seg) : option (F * F * pt) :=
    let '((ax, ay), (bx, by_)) := s1 in
    let '((cx, cy), (dx, dy)) := s2 in
    let dx1 := bx - ax in let dy1 := by_ - ay in
    let dx2 := dx - cx in let dy2 := dy - cy in
    let D := det s1 s2 in
    if eqb D zero then None else
    let t1 := (dx2 * (cy - ay) - dy2 * (cx - ax)) / D in
    let t2 := (dx1 * (cy - ay) - dy1 * (cx - ax)) / D in
    Some (t1, t2, (ax + t1 * dx1, ay + t1 * dy1)).

  Definition in_range (t : F) : bool := leb zero t && leb t one.

  Definition pair_result (s1 s2 : seg) : list pt :=
    if bbox_overlap s1 s2 then
      match solve_pair s1 s2 with
      | Some (t1, t2, p) => if in_range t1 && in_range t2 then [p] else []
      | None => []
      end
    else [].

  (* intersection(x1, y1, x2, y2): candidate pairs in row-major order (np.nonzero), in-range filter *)
  Definition intersection (c1 c2 : list pt) : list pt :=
    flat_map (fun s1 => flat_map (fun s2 => pair_result s1 s2) (segments c2)) (segments c1).

  (* ---------------------------------------------------------------- calculate_design_conditions *)
  Definition proj (swap : bool) (p : pt) : pt := if swap then (snd p, fst p) else p.

  (* x1, y1 = np.append(coords[:, idx], coords[0, idx]) *)
  Definition closed_of (swap : bool) (coords : list pt) : list pt :=
    match map (proj swap) coords with [] => [] | p0 :: tl => (p0 :: tl) ++ [p0] end.

  Definition minl (d : F) (l : list F) : F := fold_left fmin l d.
  Definition maxl (d : F) (l : list F) : F := fold_left fmax l d.
  Definition lmin (l : list F) : F := match l with [] => zero | a :: tl => minl a tl end.
  Definition lmax (l : list F) : F := match l with [] => zero | a :: tl => maxl a tl end.

  (* np.linspace(lo, hi, num, endpoint=True) in exact arithmetic *)
  Definition linspace (lo hi : F) (num : nat) : list F :=
    match num with
    | O => []
    | S O => [lo]
    | S m => map (fun i => lo + ofz (Z.of_nat i) * ((hi - lo) / ofz (Z.of_nat m))) (seq 0 num)
    end.

  Definition small_spacer (cl : list pt) : F :=
    (one / ofz 10000) * (lmax (map fst cl) - lmin (map fst cl)).
  Definition default_lower (cl : list pt) : F := lmin (map fst cl) + small_spacer cl.
  Definition default_upper (cl : list pt) : F := lmax (map fst cl) - small_spacer cl.

  Definition steps_of (cl : list pt) (st : steps_spec F) : list F :=
    match st with
    | StepsDefault => linspace (default_lower cl) (default_upper cl) 10
    | StepsNum n => linspace (default_lower cl) (default_upper cl) n
    | StepsList l => l
    end.

  (* the vertical probe segment at abscissa x (repaired extent) *)
  Definition fabs (a : F) : F := if leb zero a then a else zero - a.
  Definition probe_pad (cl : list pt) : F :=
    (one / ofz 10) * fmax (fabs (lmin (map snd cl))) (fabs (lmax (map snd cl))).
  Definition probe_lo (cl : list pt) : F := lmin (map snd cl) - probe_pad cl.
  Definition probe_hi (cl : list pt) : F := lmax (map snd cl) + probe_pad cl.
  Definition probe (cl : list pt) (x : F) : list pt := [(x, probe_lo cl); (x, probe_hi cl)].

  (* one abscissa: omitted when nothing is hit, else (x2, max of the ordinates) *)
  Definition dc_one (cl : list pt) (x : F) : list pt :=
    match map snd (intersection cl (probe cl x)) with
    | [] => []
    | y :: ys => [(x, maxl y ys)]
    end.

  Definition design_conditions_closed (cl : list pt) (st : steps_spec F) : list pt :=
    flat_map (dc_one cl) (steps_of cl st).

  Definition design_conditions (swap : bool) (coords : list pt) (st : steps_spec F) : list pt :=
    design_conditions_closed (closed_of swap coords) st.
End Gen.

Arguments segments {F}. Arguments proj {F}.

(* ------------------------------------------------------------------ exact rational instance *)
From Coq Require Import QArith.

(* exact rational arithmetic, results kept in lowest terms (Coq's Z is not a machine bignum: the
   cost of vm_compute is quadratic in the bit length, so the fractions must not be left to grow) *)
Definition Qadd_r (a b : Q) : Q := Qred (Qplus a b).
Definition Qsub_r (a b : Q) : Q := Qred (Qminus a b).
Definition Qmul_r (a b : Q) : Q := Qred (Qmult a b).
Definition Qdiv_r (a b : Q) : Q := Qred (Qdiv a b).

Definition Qintersection := intersection Q Qadd_r Qsub_r Qmul_r Qdiv_r Qle_bool inject_Z.
Definition Qdesign_conditions := design_conditions Q Qadd_r Qsub_r Qmul_r Qdiv_r Qle_bool inject_Z.
Definition Qsteps_of := steps_of Q Qadd_r Qsub_r Qmul_r Qdiv_r Qle_bool inject_Z.
Definition Qclosed_of := closed_of Q.
