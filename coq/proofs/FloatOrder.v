(* The binary64 comparison PrimFloat.leb is transitive on ALL floats (NaN included: a NaN operand makes a
   premise false) and total on non-NaN floats, so the abstract-order theorems of C10 apply verbatim to the
   executable binary64 model.  Uses Flocq's bridge between primitive floats and its IEEE-754 formalisation. *)
From Coq Require Import Reals PrimFloat FloatOps ZArith Lia Lra Bool SpecFloat.
From Flocq Require Import Core BinarySingleNaN PrimFloat.
Local Open Scope R_scope.

Notation B := (binary_float prec emax).

Lemma Bleb_inf_l (y : B) : Bleb (B754_infinity true) y = negb (match y with B754_nan => true | _ => false end).
Proof. destruct y as [s|s| |s m e H]; try reflexivity; destruct s; reflexivity. Qed.

Lemma Bleb_fin (x y : B) : is_finite x = true -> is_finite y = true -> Bleb x y = Rle_bool (B2R x) (B2R y).
Proof. intros. apply Bleb_correct; assumption. Qed.

Lemma Bleb_trans (x y z : B) : Bleb x y = true -> Bleb y z = true -> Bleb x z = true.
Proof.
  intros H1 H2.
  destruct x as [sx|sx| |sx mx ex Hx], y as [sy|sy| |sy my ey Hy], z as [sz|sz| |sz mz ez Hz];
    try destruct sx; try destruct sy; try destruct sz;
    try discriminate H1; try discriminate H2; try reflexivity;
    (rewrite Bleb_fin in * by reflexivity; apply Rle_bool_true;
     match goal with |- B2R ?a <= B2R ?c => match type of H1 with Rle_bool _ (B2R ?b) = true =>
       apply Rle_trans with (B2R b); [revert H1|revert H2]; case Rle_bool_spec; intros; auto; discriminate end end).
Qed.

Theorem fleb_trans (a b c : PrimFloat.float) :
  PrimFloat.leb a b = true -> PrimFloat.leb b c = true -> PrimFloat.leb a c = true.
Proof. rewrite !leb_equiv. apply Bleb_trans. Qed.

Definition not_nan (x : PrimFloat.float) : bool := negb (PrimFloat.is_nan x).

Lemma Bleb_total (x y : B) : is_nan x = false -> is_nan y = false -> Bleb x y = false -> Bleb y x = true.
Proof.
  intros Nx Ny H.
  destruct x as [sx|sx| |sx mx ex Hx], y as [sy|sy| |sy my ey Hy];
    try destruct sx; try destruct sy; try discriminate Nx; try discriminate Ny; try discriminate H; try reflexivity;
    (rewrite Bleb_fin in * by reflexivity; apply Rle_bool_true; revert H; case Rle_bool_spec; intros; [discriminate|lra]).
Qed.

Theorem fleb_total (a b : PrimFloat.float) : PrimFloat.is_nan a = false -> PrimFloat.is_nan b = false ->
  PrimFloat.leb a b = false -> PrimFloat.leb b a = true.
Proof. rewrite !leb_equiv, !is_nan_equiv. apply Bleb_total. Qed.
