"""Shared by c06.py / c07.py: random hierarchical model descriptions (JSON-able specs), building the real
virocon objects from a spec, and an INDEPENDENT evaluation of the same spec with scipy.stats only
(the harness' own parameter maps, written from virocon's documentation -- no virocon code)."""
import math

import numpy as np
import scipy.stats as sts_real

# family -> (virocon class name, parameter names in virocon order)
FAMS = {
    "W": ("WeibullDistribution", ["alpha", "beta", "gamma"]),
    "LN": ("LogNormalDistribution", ["mu", "sigma"]),
    "NF": ("LogNormalNormFitDistribution", ["mu_norm", "sigma_norm"]),
    "EW": ("ExponentiatedWeibullDistribution", ["alpha", "beta", "delta"]),
    "GG": ("GeneralizedGammaDistribution", ["m", "c", "lambda_"]),
    "N": ("NormalDistribution", ["mu", "sigma"]),
    "VM": ("VonMisesDistribution", ["kappa", "mu"]),
    # a user-defined family derived from virocon.distributions.ScipyDistribution (scipy's weibull_min: c, loc, scale)
    "SW": ("@ScipyWeibullMin", ["c", "loc", "scale"]),
}
NONNEG = ["W", "LN", "NF", "EW", "GG", "SW"]


# ----------------------------------------------------------------------------- dependence functions
def dep_eval(name, co, x):
    """the harness' own formula of dependence function `name` with coefficients co"""
    x = np.asarray(x, dtype=float)
    if name == "lin":
        return co[0] + co[1] * x
    if name == "pw":
        return co[0] + co[1] * x ** co[2]
    if name == "asym":
        return co[0] + co[1] / (1 + co[2] * x)
    if name == "lnsq":
        return np.log(co[0] + co[1] * np.sqrt(x / 9.81))
    if name == "sat":
        return co[0] + co[1] * x / (1 + x)
    if name == "cos":
        return co[0] + co[1] * np.cos(x - co[2])          # defined (and positive for co[0] > co[1] > 0) on the whole real line
    if name == "const":
        return co[0]          # a scalar whatever the shape of x (a dependence function may ignore x)
    raise KeyError(name)


def dep_callable(name, co):
    """a Python function for virocon.DependenceFunction: coefficients are the defaults"""
    if name == "lin":
        def lin(x, a=co[0], b=co[1]):
            return a + b * x
        return lin
    if name == "pw":
        def pw(x, a=co[0], b=co[1], c=co[2]):
            return a + b * x ** c
        return pw
    if name == "asym":
        def asym(x, a=co[0], b=co[1], c=co[2]):
            return a + b / (1 + c * x)
        return asym
    if name == "lnsq":
        def lnsq(x, a=co[0], b=co[1]):
            return np.log(a + b * np.sqrt(np.divide(x, 9.81)))
        return lnsq
    if name == "sat":
        def sat(x, a=co[0], b=co[1]):
            return a + b * x / (1 + x)
        return sat
    if name == "cos":
        def cosdep(x, a=co[0], b=co[1], c=co[2]):
            return a + b * np.cos(x - c)
        return cosdep
    if name == "const":
        def const(x, a=co[0]):
            return a
        return const
    raise KeyError(name)


# how a parameter may depend on the conditioning value: shape-like parameters and log-scale parameters get bounded /
# slowly growing functions, so that chains of conditional variables stay inside the floating-point range
PCLASS = {("W", "alpha"): "scale", ("W", "beta"): "shape", ("W", "gamma"): "lower", ("LN", "mu"): "log", ("LN", "sigma"): "shape",
          ("NF", "mu_norm"): "scale", ("NF", "sigma_norm"): "scale", ("EW", "alpha"): "scale", ("EW", "beta"): "shape",
          ("EW", "delta"): "shape", ("GG", "m"): "shape", ("GG", "c"): "shape", ("GG", "lambda_"): "scale",
          ("N", "mu"): "loc", ("N", "sigma"): "shape", ("VM", "kappa"): "shape", ("VM", "mu"): "angle",
          ("SW", "c"): "shape", ("SW", "scale"): "scale", ("SW", "loc"): "lower"}


def rand_dep(rng, pclass="scale", allow_const=False):
    u = rng.uniform
    kinds = {"scale": ["lin", "pw", "asym", "sat"], "shape": ["asym", "sat"], "log": ["asym", "lnsq", "sat"],
             "loc": ["lin", "asym"], "angle": ["angle"], "lower": ["asym", "sat", "lin"]}[pclass] + (["const"] if allow_const else [])
    k = rng.choice(kinds)
    if k == "lin":
        return ["dep", "lin", [u(0.3, 2.0), u(0.1, 0.8)]]
    if k == "pw":
        return ["dep", "pw", [u(0.3, 2.0), u(0.1, 0.8), u(0.5, 1.3)]]
    if k == "asym":
        return ["dep", "asym", [u(0.3, 1.0), u(0.3, 1.5), u(0.1, 2.0)]]
    if k == "sat":
        return ["dep", "sat", [u(0.3, 1.0), u(0.3, 1.5)]]
    if k == "lnsq":
        return ["dep", "lnsq", [u(1.0, 4.0), u(0.5, 8.0)]]
    if k == "angle":
        return ["dep", "sat", [u(-1.0, 1.0), u(0.5, 1.5)]]
    return ["dep", "const", [u(0.4, 1.5)]]


# ----------------------------------------------------------------------------- specs
def rand_uncond(rng, fam):
    u = rng.uniform
    lg = lambda a, b: math.exp(u(math.log(a), math.log(b)))
    if fam == "W":
        return {"alpha": lg(0.5, 4), "beta": lg(0.8, 3.5), "gamma": rng.choice([0.0, 0.0, u(0, 1.5)])}
    if fam == "LN":
        return {"mu": u(-0.5, 1.5), "sigma": lg(0.15, 0.8)}
    if fam == "NF":
        return {"mu_norm": lg(0.5, 6), "sigma_norm": lg(0.2, 3)}
    if fam == "EW":
        return {"alpha": lg(0.5, 3), "beta": lg(0.7, 2.5), "delta": lg(0.6, 6)}
    if fam == "GG":
        return {"m": lg(0.8, 4), "c": lg(0.7, 2.5), "lambda_": lg(0.3, 2)}
    if fam == "N":
        return {"mu": u(-3, 8), "sigma": lg(0.2, 3)}
    if fam == "VM":
        return {"kappa": lg(0.3, 8), "mu": u(-2.5, 2.5)}
    if fam == "SW":
        return {"c": lg(0.8, 3.5), "loc": rng.choice([0.0, 0.0, u(0, 1.0)]), "scale": lg(0.5, 4)}
    raise KeyError(fam)


def rand_dim(rng, fam, cond, allow_const=False):
    """one dimension: unconditional -> plain parameter values; conditional -> every parameter fixed or a dependence function"""
    base = rand_uncond(rng, fam)
    names = FAMS[fam][1]
    if cond is None:
        return {"fam": fam, "cond": None, "params": {n: ["val", base[n]] for n in names}}
    params = {}
    dep_names = [n for n in names if rng.random() < 0.6]
    if not dep_names:
        dep_names = [rng.choice(names)]
    for n in names:
        if n in dep_names:
            params[n] = rand_dep(rng, PCLASS[(fam, n)], allow_const=allow_const)
        else:
            params[n] = ["fix", base[n]]
    if all(p[0] == "fix" for p in params.values()):
        n = names[0]
        params[n] = rand_dep(rng, PCLASS[(fam, n)], allow_const=allow_const)
    return {"fam": fam, "cond": cond, "params": params}


def rand_spec(rng, n_dim=None, fams=None, force_cond=False, allow_const=False, first=None):
    fams = fams or NONNEG
    n_dim = n_dim or rng.choice([2, 2, 3, 3, 3])
    dims = []
    for i in range(n_dim):
        if i == 0:
            cond = None
        else:
            opts = [None] + list(range(i))
            cond = rng.choice(opts[1:]) if (force_cond or rng.random() < 0.75) else None
        fam = rng.choice(fams) if not (i == 0 and first) else first
        dims.append(rand_dim(rng, fam, cond, allow_const=allow_const))
    return {"dims": dims}


def structure(spec):
    return tuple(d["cond"] for d in spec["dims"])


# ----------------------------------------------------------------------------- real objects
_CLS = {}


def fam_class(fam):
    import virocon.distributions as vd
    name = FAMS[fam][0]
    if not name.startswith("@"):
        return getattr(vd, name)
    if fam not in _CLS:
        _CLS[fam] = type("ScipyWeibullMin", (vd.ScipyDistribution,), {"scipy_dist_name": "weibull_min"})
    return _CLS[fam]


PREDEFINED = {"DNVGL_Hs_Tz": "ec-benchmark_dataset_A_1year.txt", "DNVGL_Hs_U": "ec-benchmark_dataset_D_1year.txt",
              "OMAE2020_Hs_Tz": "ec-benchmark_dataset_A_1year.txt", "OMAE2020_V_Hs": "ec-benchmark_dataset_D_1year.txt",
              "Windmeier_EW_Hs_S": "ec-benchmark_dataset_A_1year.txt", "Nonzero_EW_Hs_S": "ec-benchmark_dataset_B_1year.txt"}
_FITTED = {}


def predefined_spec(name):
    """a spec standing for virocon.predefined.get_<name>() fitted to a benchmark data set (no independent formulas:
    the oracles of such a spec use the model's own per-dimension distributions)"""
    return {"predefined": name, "dims": [{"fam": "P", "cond": None, "params": {}}, {"fam": "P", "cond": 0, "params": {}}]}


def predefined_parts(name):
    """(fresh fitted GlobalHierarchicalModel, transformations dict or None) of a predefined model"""
    import copy
    import os
    import virocon
    import virocon.predefined as pre
    import vlib
    if name not in _FITTED:
        out = getattr(pre, "get_" + name)()
        dd, fd = out[0], out[1]
        trans = out[3] if len(out) > 3 else None
        data = virocon.read_ec_benchmark_dataset(os.path.join(vlib.REPO, "datasets", PREDEFINED[name]))
        if name in ("DNVGL_Hs_U",):
            data = data[[data.columns[1], data.columns[0]]]
        arr = np.asarray(data, dtype=float)
        if trans is not None:
            arr = trans["transform"](arr)
        model = virocon.GlobalHierarchicalModel(dd)
        model.fit(arr, fit_descriptions=fd)
        _FITTED[name] = (model, trans)
    model, trans = _FITTED[name]
    return copy.deepcopy(model), trans


def build_model(spec):
    import virocon
    import virocon.distributions as vd
    if "predefined" in spec:
        return predefined_parts(spec["predefined"])[0]
    descs = []
    for d in spec["dims"]:
        cls = fam_class(d["fam"])
        if d["cond"] is None:
            descs.append({"distribution": cls(**{n: v[1] for n, v in d["params"].items()})})
        else:
            fixed = {"f_" + n: v[1] for n, v in d["params"].items() if v[0] == "fix"}
            deps = {n: virocon.DependenceFunction(dep_callable(v[1], v[2])) for n, v in d["params"].items() if v[0] == "dep"}
            descs.append({"distribution": cls(**fixed), "conditional_on": d["cond"], "parameters": deps})
    return virocon.GlobalHierarchicalModel(descs)


def build_dist(dimspec):
    """the (unconditional) virocon distribution of one dimension spec"""
    cls = fam_class(dimspec["fam"])
    return cls(**{n: v[1] for n, v in dimspec["params"].items()})


# ----------------------------------------------------------------------------- independent evaluation
def param_values(dimspec, given):
    """parameter name -> value (scalar or array) at the conditioning value(s) `given`"""
    out = {}
    for n, v in dimspec["params"].items():
        if v[0] in ("val", "fix"):
            out[n] = v[1]
        else:
            out[n] = dep_eval(v[1], v[2], given)
    return out


def scipy_args(fam, pv):
    """(scipy distribution, positional args) as documented for the virocon family"""
    if fam == "W":
        return sts_real.weibull_min, (pv["beta"], pv["gamma"], pv["alpha"])
    if fam == "LN":
        return sts_real.lognorm, (pv["sigma"], 0, np.exp(pv["mu"]))
    if fam == "NF":
        mn, sn = np.asarray(pv["mu_norm"], float), np.asarray(pv["sigma_norm"], float)
        q = 1 + sn ** 2 / mn ** 2
        return sts_real.lognorm, (np.sqrt(np.log(q)), 0, mn / np.sqrt(q))
    if fam == "EW":
        return sts_real.exponweib, (pv["delta"], pv["beta"], 0, pv["alpha"])
    if fam == "GG":
        return sts_real.gengamma, (pv["m"], pv["c"], 0, 1 / np.asarray(pv["lambda_"], float))
    if fam == "N":
        return sts_real.norm, (pv["mu"], pv["sigma"])
    if fam == "VM":
        return sts_real.vonmises, (pv["kappa"], pv["mu"])
    if fam == "SW":
        return sts_real.weibull_min, (pv["c"], pv["loc"], pv["scale"])
    raise KeyError(fam)


def dim_method(dimspec, method, x, given=None):
    dist, args = scipy_args(dimspec["fam"], param_values(dimspec, given))
    x = np.asarray(x, dtype=float)
    if method == "pdf":
        r = dist.pdf(x, *args)
        if dimspec["fam"] == "EW":
            r = np.where(x > 0, r, 0.0)
        return r
    if method == "cdf":
        return dist.cdf(x, *args)
    if method == "ppf":
        return dist.ppf(x, *args)
    raise KeyError(method)


def spec_pdf(spec, rows):
    """independent joint density: product of the per-dimension densities, conditioning value from the same row"""
    rows = np.atleast_2d(np.asarray(rows, dtype=float))
    f = np.ones(len(rows))
    for i, d in enumerate(spec["dims"]):
        g = None if d["cond"] is None else rows[:, d["cond"]]
        f = f * dim_method(d, "pdf", rows[:, i], g)
    return f


def spec_point(spec, us):
    """inverse Rosenblatt of the probabilities us (one row) with the independent formulas"""
    row = []
    for i, d in enumerate(spec["dims"]):
        g = None if d["cond"] is None else row[d["cond"]]
        row.append(float(dim_method(d, "ppf", us[i], g)))
    return row


def spec_rosenblatt(spec, sample):
    """column-wise conditional cdf of a sample (independent formulas): should be iid uniform"""
    sample = np.asarray(sample, dtype=float)
    u = np.empty_like(sample)
    for i, d in enumerate(spec["dims"]):
        g = None if d["cond"] is None else sample[:, d["cond"]]
        x = sample[:, i]
        if d["fam"] == "VM":
            mu = param_values(d, g)["mu"]
            x = mu + np.mod(x - mu + np.pi, 2 * np.pi) - np.pi      # compare modulo 2 pi
        u[:, i] = dim_method(d, "cdf", x, g)
    return u


def rand_prob(rng):
    r = rng.random()
    if r < 0.7:
        return rng.uniform(0.03, 0.97)
    if r < 0.85:
        return rng.choice([1e-6, 1e-4, 1e-3])
    return 1 - rng.choice([1e-6, 1e-4, 1e-3])
