#!/bin/bash
# ./check.sh <CXX> [quick|thorough]   |   ./check.sh setup   |   ./check.sh replay <file>
cd "$(dirname "$0")"
HERE="$(pwd)"
export VIROCON_REPO="${VIROCON_REPO:-/repo}"
export PYTHONPATH="$VIROCON_REPO:$HERE/tools:$HERE/tools/lib"
export PYTHONHASHSEED=0 MPLBACKEND=Agg PYTHONWARNINGS=ignore PYTHONDONTWRITEBYTECODE=1
export OMP_NUM_THREADS=1 OPENBLAS_NUM_THREADS=1 MKL_NUM_THREADS=1
export VIROCON_VERIF=1
PY=/venv/bin/python
case "$1" in
  setup) exec $PY -W ignore tools/run_check.py setup ;;
  replay) exec $PY -W ignore tools/run_check.py replay "$2" ;;
  C[0-9][0-9]) T="${2:-${VERIF_TIER:-quick}}"; exec $PY -W ignore tools/run_check.py "$1" "$T" ;;
  *) echo "usage: $0 CXX [quick|thorough] | setup | replay <file>"; exit 2 ;;
esac
