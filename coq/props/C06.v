(* C06 -- joint density factorises hierarchically; cdf and marginals are its integrals.
   Property theorems only; proofs in proofs/JointProofs.v, model in model/Joint.v.
   Oracle contracts (hypotheses, validated by tools/harness/c06.py, not proved):
     nquad_is_iterated_integral  scipy.integrate.nquad(func, ranges, args) is the iterated integral,
                                 argument k of func over ranges[k] (ranges[0] innermost), args appended;
     the per-dimension pdf / cdf / icdf of (argument, given) are the distributions' own methods (C05, C08). *)
From Coq Require Import List Bool Arith ZArith Permutation Reals Lra PrimFloat.
From V.base Require Import FloatBits.
From V.model Require Import Joint.
From V.proofs Require Import JointProofs.
Import ListNotations.

Section Abstract.
  Variable T : Type.
  Variables zero one inf : T.
  Variable mul : T -> T -> T.
  Variable of_int : Z -> T.

  (* (a) the joint pdf of a row is the product over the dimensions of the dimension's density at the
     row's value, given the value of the declared conditioning variable of the same row *)
  Theorem C06_pdf_is_product : forall (ds : list (dim T)) (row : list T),
    pdf_row T zero one mul ds row = fold_left mul (factors T zero ds row) one /\
    length (factors T zero ds row) = length ds /\
    forall k d, nth_error ds k = Some d ->
      nth_error (factors T zero ds row) k =
      Some (dpdf d (nth k row zero) (match cond d with None => None | Some j => Some (nth j row zero) end)).
  Proof. exact (pdf_is_product T zero one mul). Qed.

  (* (a) ... is non-negative (any ordered structure in which products of non-negatives are non-negative) *)
  Theorem C06_pdf_nonneg : forall (le : T -> T -> Prop), le zero one ->
    (forall a b, le zero a -> le zero b -> le zero (mul a b)) ->
    forall (ds : list (dim T)) (row : list T),
      (forall d x g, In d ds -> le zero (dpdf d x g)) -> le zero (pdf_row T zero one mul ds row).
  Proof. exact (pdf_nonneg T zero one mul). Qed.

  (* (a) row vector / list / (n, n_dim) array, integer or float dtype give the same numbers, row by row *)
  Theorem C06_input_forms : forall (ds : list (dim T)),
    (forall v, pdf_in T zero one mul of_int ds (VecF v) = pdf_in T zero one mul of_int ds (MatF [v])) /\
    (forall v, pdf_in T zero one mul of_int ds (VecI v) = pdf_in T zero one mul of_int ds (VecF (map of_int v))) /\
    (forall m, pdf_in T zero one mul of_int ds (MatI m) = pdf_in T zero one mul of_int ds (MatF (map (map of_int) m))) /\
    (forall m, pdf_in T zero one mul of_int ds (MatF m) = map (pdf_row T zero one mul ds) m).
  Proof. exact (pdf_input_forms T zero one mul of_int). Qed.

  (* (b) permutation lemma, EVERY permutation arg_order: feeding nquad's k-th argument with the value of
     model variable arg_order[k] hands pdf the point in model order; conversely model variable
     arg_order[k] receives nquad's k-th argument *)
  Theorem C06_argument_order_every_permutation : forall (ao : list nat),
    (forall v : list T, Permutation ao (seq 0 (length v)) ->
       reorder T zero ao (map (fun k => nth k v zero) ao) = v) /\
    (forall (args : list T) k, Permutation ao (seq 0 (length args)) -> k < length args ->
       nth (nth k ao 0) (reorder T zero ao args) zero = nth k args zero).
  Proof. exact (fun ao => conj (reorder_perm T zero ao) (fun args k => reorder_scatter T zero ao args k)). Qed.

  (* (b) the orders the code builds are permutations of 0..n-1, for every n and every dim < n *)
  Theorem C06_code_orders_are_permutations : forall n dimi,
    Permutation (cdf_order n) (seq 0 n) /\
    (dimi < n -> Permutation (marg_order n dimi) (seq 0 n) /\ nth (n - 1) (marg_order n dimi) 0 = dimi).
  Proof. exact (fun n dimi => conj (Permutation_refl _) (fun H => conj (marg_order_perm n dimi H) (marg_order_last n dimi H))). Qed.

  Section Integrals.
    Variable integral : (T -> T) -> T -> T -> T.
    Variable nquad : (list T -> T) -> list (T * T) -> list T -> T.
    Hypothesis nquad_contract : nquad_is_iterated_integral T integral nquad.

    (* (b) the joint cdf is the iterated integral of the pdf over the lower-left orthant *)
    Theorem C06_cdf_is_orthant_integral : forall (ds : list (dim T)) (x : list T), length x = length ds ->
      run_nq T zero one mul nquad ds (cdf_call T zero (length ds) x) =
      iint T integral (pdf_row T zero one mul ds) (rev (map (fun xi => (zero, xi)) x)) [].
    Proof. exact (cdf_is_orthant_integral T zero one mul integral nquad nquad_contract). Qed.

    (* (b) marginal pdf of a conditional variable: the others over (0, inf), variable dim fixed to x,
       each integration variable in its model position *)
    Theorem C06_marginal_pdf_is_integral : forall (ds : list (dim T)) dimi (x : T),
      let n := length ds in let ao := marg_order n dimi in
      dimi < n ->
      run_nq T zero one mul nquad ds (mpdf_call T zero inf n dimi x) =
        iint T integral (fun a => pdf_row T zero one mul ds (reorder T zero ao (a ++ [x])))
             (rev (repeat (zero, inf) (n - 1))) [] /\
      forall a, length a = n - 1 ->
        let row := reorder T zero ao (a ++ [x]) in
        length row = n /\ nth dimi row zero = x /\
        forall k, k < n - 1 -> nth (nth k ao 0) row zero = nth k a zero.
    Proof. exact (marginal_pdf_is_integral T zero one inf mul integral nquad nquad_contract). Qed.

    (* (b) marginal cdf of a conditional variable: the others over (0, inf), variable dim outermost over (0, x) *)
    Theorem C06_marginal_cdf_is_integral : forall (ds : list (dim T)) dimi (x : T),
      let n := length ds in let ao := marg_order n dimi in
      dimi < n ->
      run_nq T zero one mul nquad ds (mcdf_call T zero inf n dimi x) =
        iint T integral (fun a => pdf_row T zero one mul ds (reorder T zero ao a))
             ((zero, x) :: rev (repeat (zero, inf) (n - 1))) [] /\
      nth (n - 1) ao 0 = dimi /\
      forall a, length a = n ->
        let row := reorder T zero ao a in
        length row = n /\ forall k, k < n -> nth (nth k ao 0) row zero = nth k a zero.
    Proof. exact (marginal_cdf_is_integral T zero one inf mul integral nquad nquad_contract). Qed.

    (* (c) the hierarchical product integrates to one when every (conditional) density does.
       PARTIAL: the integral is an abstract linear operator (integrability is not modelled) and the order
       of integration is fixed, last variable innermost; Fubini (to reach nquad's order) is not proved. *)
    Theorem C06_integrates_to_one_partial :
      (forall c, mul c one = c) ->
      (forall c f a b, integral (fun t => mul c (f t)) a b = mul c (integral f a b)) ->
      forall ds : list (dim T), wf_from T 0 ds ->
        (forall d g, In d ds -> integral (fun t => dpdf d t g) zero inf = one) ->
        iint_lo T zero inf integral (length ds) (pdf_row T zero one mul ds) [] = one.
    Proof. exact (pdf_integrates_to_one T zero one inf mul integral). Qed.
  End Integrals.

  Section Marginals.
    Variable nquad : (list T -> T) -> list (T * T) -> list T -> T.

    (* (d) unconditional variable: the marginal is the distribution itself; conditional: one nquad call per point *)
    Theorem C06_marginal_dispatch : forall (ds : list (dim T)) dimi d x, nth_error ds dimi = Some d ->
      (cond d = None ->
         marginal_pdf T zero one inf mul of_int nquad ds x dimi = Some (map (fun v => dpdf d v None) (as_vals T of_int x)) /\
         marginal_cdf T zero one inf mul of_int nquad ds x dimi = Some (map (fun v => dcdf d v None) (as_vals T of_int x))) /\
      (forall j, cond d = Some j ->
         marginal_pdf T zero one inf mul of_int nquad ds x dimi =
           Some (map (fun v => run_nq T zero one mul nquad ds (mpdf_call T zero inf (length ds) dimi v)) (as_vals T of_int x)) /\
         marginal_cdf T zero one inf mul of_int nquad ds x dimi =
           Some (map (fun v => run_nq T zero one mul nquad ds (mcdf_call T zero inf (length ds) dimi v)) (as_vals T of_int x))).
    Proof.
      exact (fun ds dimi d x H => conj (marginal_unconditional T zero one inf mul of_int nquad ds dimi d x H)
                                       (fun j => marginal_conditional T zero one inf mul of_int nquad ds dimi d j x H)).
    Qed.

    (* marginal_cdf(marginal_icdf(p)) = p, exactly, for an unconditional variable whose own cdf inverts its icdf.
       PARTIAL: for a conditional variable marginal_icdf is the numpy.quantile of a Monte-Carlo sample of the model
       (model: Joint.marginal_icdf); that it approximates the inverse of marginal_cdf is a statistical statement,
       validated by the harness with a DKW band, not proved. *)
    Theorem C06_marginal_roundtrip_partial : forall (G P : Type) (seed_state : Z -> G)
        (quantile : list T -> list T -> list T) (okp : T -> Prop)
        (ds : list (dim T)) (sds : list (sdim T G P)) dimi d ps mc g rs,
      nth_error ds dimi = Some d -> cond d = None ->
      (forall p, okp p -> dcdf d (dicdf d p None) None = p) -> Forall okp ps ->
      exists xs, marginal_icdf T zero G P seed_state quantile ds sds ps dimi mc g rs = Some xs /\
                 xs = map (fun p => dicdf d p None) ps /\
                 marginal_cdf T zero one inf mul of_int nquad ds (ArrF xs) dimi = Some ps.
    Proof. exact (marginal_roundtrip_unconditional T zero one inf mul of_int nquad). Qed.

    (* marginal_icdf of a CONDITIONAL variable is the numpy.quantile of column dim of one Monte-Carlo sample of the whole
       model drawn with the caller's random_state (data flow; that the quantile approximates the inverse marginal cdf is
       statistical: see C06_marginal_roundtrip_partial) ... *)
    Theorem C06_marginal_icdf_is_sample_quantile : forall (G P : Type) (seed_state : Z -> G)
        (quantile : list T -> list T -> list T) (ds : list (dim T)) (sds : list (sdim T G P)) dimi d j ps mc g rs,
      nth_error ds dimi = Some d -> cond d = Some j ->
      marginal_icdf T zero G P seed_state quantile ds sds ps dimi mc g rs =
      Some (quantile (map (fun row => nth dimi row zero) (draw_sample T zero G P seed_state sds mc g rs)) ps).
    Proof. exact (marginal_icdf_conditional T zero). Qed.
    (* ... hence reproducible: a function of the initial generator state only (same int seed, whatever the global state;
       int seed = Generator in the state default_rng(seed) produces) *)
    Theorem C06_marginal_icdf_reproducible : forall (G P : Type) (seed_state : Z -> G)
        (quantile : list T -> list T -> list T) (ds : list (dim T)) (sds : list (sdim T G P)) dimi ps mc g g' rs rs',
      initial_state G seed_state g rs = initial_state G seed_state g' rs' ->
      marginal_icdf T zero G P seed_state quantile ds sds ps dimi mc g rs =
      marginal_icdf T zero G P seed_state quantile ds sds ps dimi mc g' rs'.
    Proof. exact (marginal_icdf_reproducible T zero). Qed.

    (* several points in one call: one entry per point, in the order given, entry r = the one nquad call of point r *)
    Theorem C06_cdf_multi_point : forall (ds : list (dim T)) (rows : list (list T)),
      length (cdf T zero one mul nquad ds rows) = length rows /\
      (forall r x, nth_error rows r = Some x ->
         nth_error (cdf T zero one mul nquad ds rows) r = Some (run_nq T zero one mul nquad ds (cdf_call T zero (length ds) x))) /\
      (forall a b, cdf T zero one mul nquad ds (a ++ b) = cdf T zero one mul nquad ds a ++ cdf T zero one mul nquad ds b).
    Proof. exact (cdf_rowwise T zero one mul nquad). Qed.
    Theorem C06_cdf_input_forms : forall (ds : list (dim T)),
      (forall v, cdf_in T zero one mul of_int nquad ds (VecF v) = cdf_in T zero one mul of_int nquad ds (MatF [v])) /\
      (forall v, cdf_in T zero one mul of_int nquad ds (VecI v) = cdf_in T zero one mul of_int nquad ds (VecF (map of_int v))) /\
      (forall m, cdf_in T zero one mul of_int nquad ds (MatI m) = cdf_in T zero one mul of_int nquad ds (MatF (map (map of_int) m))).
    Proof. exact (cdf_input_forms T zero one mul of_int nquad). Qed.
    Theorem C06_marginal_multi_point : forall (ds : list (dim T)) dimi (a b : list T),
      marginal_pdf T zero one inf mul of_int nquad ds (ArrF (a ++ b)) dimi =
        match marginal_pdf T zero one inf mul of_int nquad ds (ArrF a) dimi, marginal_pdf T zero one inf mul of_int nquad ds (ArrF b) dimi with
        | Some ya, Some yb => Some (ya ++ yb) | _, _ => None end /\
      marginal_cdf T zero one inf mul of_int nquad ds (ArrF (a ++ b)) dimi =
        match marginal_cdf T zero one inf mul of_int nquad ds (ArrF a) dimi, marginal_cdf T zero one inf mul of_int nquad ds (ArrF b) dimi with
        | Some ya, Some yb => Some (ya ++ yb) | _, _ => None end.
    Proof. exact (marginal_pointwise T zero one inf mul of_int nquad). Qed.
  End Marginals.
End Abstract.

(* the Monte-Carlo sample of marginal_icdf never has fewer than 100000 rows *)
Theorem C06_mc_size_at_least : forall ps pf n, fmc_size ps pf = Some n -> (100000 <= n)%Z.
Proof. exact fmc_size_at_least. Qed.

(* the real-number instance of the two order / ring side conditions *)
Theorem C06_pdf_nonneg_R : forall (ds : list (dim R)) (row : list R),
  (forall d x g, In d ds -> (0 <= dpdf d x g)%R) -> (0 <= pdf_row R 0%R 1%R Rmult ds row)%R.
Proof. exact (pdf_nonneg R 0%R 1%R Rmult Rle Rle_0_1 Rmult_le_pos). Qed.

Theorem C06_integrates_to_one_R_partial : forall (inf : R) (integral : (R -> R) -> R -> R -> R),
  (forall c f a b, integral (fun t => (c * f t)%R) a b = (c * integral f a b)%R) ->
  forall ds : list (dim R), wf_from R 0 ds ->
    (forall d g, In d ds -> integral (fun t => dpdf d t g) 0%R inf = 1%R) ->
    iint_lo R 0%R inf integral (length ds) (pdf_row R 0%R 1%R Rmult ds) [] = 1%R.
Proof. exact (fun inf integral => pdf_integrates_to_one R 0%R 1%R inf Rmult integral Rmult_1_r). Qed.

(* the binary64 entry points evaluated by the correspondence check ARE the generic definitions *)
Theorem C06_float_entry_points : forall t ds x x1 dimi,
  fpdf_in ds x = pdf_in float 0%float 1%float PrimFloat.mul FloatBits.of_Z ds x /\
  fcdf_in t ds x = cdf_in float 0%float 1%float PrimFloat.mul FloatBits.of_Z (fnquad t) ds x /\
  fmarginal_pdf t ds x1 dimi = marginal_pdf float 0%float 1%float infinity PrimFloat.mul FloatBits.of_Z (fnquad t) ds x1 dimi /\
  fmarginal_cdf t ds x1 dimi = marginal_cdf float 0%float 1%float infinity PrimFloat.mul FloatBits.of_Z (fnquad t) ds x1 dimi.
Proof. repeat split; reflexivity. Qed.

(* non-vacuity: a 3-dimensional chain (variable 1 given 0, variable 2 given 1) over nat, one row; the order
   marginal_pdf builds for dim 1 of a 3-D model is a permutation that reorder inverts; the unrepaired integer
   container loses the product *)
Example C06_nonvacuous :
  let d0 := mkdim None (fun x _ => x + 1) (fun _ _ => 0) (fun _ _ => 0) in
  let d1 := mkdim (Some 0) (fun x g => match g with Some y => x + 10 * y | None => 0 end) (fun _ _ => 0) (fun _ _ => 0) in
  let d2 := mkdim (Some 1) (fun x g => match g with Some y => x + 100 * y | None => 0 end) (fun _ _ => 0) (fun _ _ => 0) in
  wf_from nat 0 [d0; d1; d2] /\
  factors nat 0 [d0; d1; d2] [1; 2; 3] = [2; 12; 203] /\
  pdf_row nat 0 1 Nat.mul [d0; d1; d2] [1; 2; 3] = 2 * 12 * 203 /\
  marg_order 3 1 = [2; 0; 1] /\ Permutation (marg_order 3 1) (seq 0 3) /\
  reorder nat 0 (marg_order 3 1) [30; 10; 20] = [10; 20; 30] /\
  (pdf_stored float 0%float 1%float PrimFloat.mul trunc_store
     [mkdim None (fun _ _ => 0.5%float) (fun _ _ => 0%float) (fun _ _ => 0%float);
      mkdim None (fun _ _ => 0.5%float) (fun _ _ => 0%float) (fun _ _ => 0%float)] [[3%float; 7%float]] = [0%float]).
Proof.
  cbn zeta. split; [cbn; repeat split; auto|]. split; [reflexivity|]. split; [reflexivity|]. split; [reflexivity|].
  split; [apply marg_order_perm; auto|]. split; [reflexivity|]. vm_compute. reflexivity.
Qed.

Print Assumptions C06_pdf_is_product.
Print Assumptions C06_pdf_nonneg.
Print Assumptions C06_input_forms.
Print Assumptions C06_argument_order_every_permutation.
Print Assumptions C06_code_orders_are_permutations.
Print Assumptions C06_cdf_is_orthant_integral.
Print Assumptions C06_marginal_pdf_is_integral.
Print Assumptions C06_marginal_cdf_is_integral.
Print Assumptions C06_integrates_to_one_partial.
Print Assumptions C06_marginal_dispatch.
Print Assumptions C06_marginal_roundtrip_partial.
Print Assumptions C06_marginal_icdf_is_sample_quantile.
Print Assumptions C06_marginal_icdf_reproducible.
Print Assumptions C06_cdf_multi_point.
Print Assumptions C06_cdf_input_forms.
Print Assumptions C06_marginal_multi_point.
Print Assumptions C06_mc_size_at_least.
Print Assumptions C06_pdf_nonneg_R.
Print Assumptions C06_integrates_to_one_R_partial.
Print Assumptions C06_float_entry_points.
