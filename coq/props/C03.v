(* C03 -- direct-sampling contour edges are (1-alpha)-quantile tangent lines of the sample.
   Property theorems only; proofs are in proofs/DirectSamplingProofs.v, the model in model/DirectSampling.v
   (the model is the code after the repair of lead L9: N = 360/deg_step directions, last line closed with the first).
   Real-number instance [Rops] of the generic model; cos / sin are the real functions, the quantile engine is the
   function C (angle |-> offset) with the contract [is_quantile] of np.quantile as hypothesis. *)
From Coq Require Import Reals Lra List ZArith Permutation Sorted PrimFloat.
From V.model Require Import DirectSampling.
From V.proofs Require Import DirectSamplingProofs DirectSamplingMore.
Import ListNotations.
Local Open Scope R_scope.

(* every edge lies on a tangent line whose offset along its outward normal is the (1-alpha)-quantile of the sample
   projected on that normal: the polygon has one vertex per direction; edge i runs from vertex (i-1) mod N to vertex i
   and both end points -- hence every point of the edge -- satisfy <V, (cos a_i, sin a_i)> = C a_i, where C a_i is
   (oracle contract) np.quantile of [proj xs ys a_i] at 1-alpha *)
Theorem C03_edges_on_quantile_tangent_lines :
  forall (xs ys : list R) (alpha : R) (C : R -> R) (N : nat) (deg_step : R),
    (forall a, is_quantile (proj R Rops xs ys a) (1 - alpha) (C a)) ->        (* contract of np.quantile *)
    (3 <= N)%nat -> INR N * deg_step = 360 ->                                 (* the step divides 360 degrees *)
    let s := rad_step R Rops deg_step in
    let P := ds_polygon R Rops C N deg_step in
    length P = N /\
    forall i, (i < N)%nat ->
      let a := angle R Rops s i in
      let V := nth ((i + N - 1) mod N) P (0, 0) in
      let W := nth i P (0, 0) in
      is_quantile (proj R Rops xs ys a) (1 - alpha) (fst V * cos a + snd V * sin a) /\
      is_quantile (proj R Rops xs ys a) (1 - alpha) (fst W * cos a + snd W * sin a) /\
      forall t, on_line ((1 - t) * fst V + t * fst W, (1 - t) * snd V + t * snd W) a (C a).
Proof. exact edges_on_quantile_tangent_lines. Qed.

(* "i.e. a fraction alpha of the sample lies beyond it" (exact up to one observation): for any value q meeting the
   contract of np.quantile at 1-alpha, fewer than (n-1) alpha + 1 observations are strictly beyond q and at least
   (n-1) alpha are at or beyond q *)
Theorem C03_fraction_alpha_beyond : forall (z : list R) (alpha q : R),
  is_quantile z (1 - alpha) q ->
  INR (count_gt R Rops z q) < INR (length z - 1) * alpha + 1 /\
  INR (length z - 1) * alpha <= INR (count_ge R Rops z q).
Proof. exact quantile_fraction_beyond. Qed.

(* successive edge normals advance by exactly the angular step and together cover the full circle once:
   N directions a_0 - i s, N s = 2 pi, and the step from the last direction back to the first closes the turn *)
Theorem C03_normals_cover_circle_once : forall (N : nat) (deg_step : R),
  (3 <= N)%nat -> INR N * deg_step = 360 ->
  let s := rad_step R Rops deg_step in
  s = deg_step * PI / 180 /\ INR N * s = 2 * PI /\
  length (angles R Rops N s) = N /\
  (forall i, angle R Rops s (S i) = angle R Rops s i - s) /\
  (forall i, angle R Rops s i = angle R Rops s 0 - INR i * s) /\
  angle R Rops s 0 = angle R Rops s (N - 1) - s + 2 * PI.
Proof. exact normals_cover_circle_once. Qed.

(* no vertex formula divides by zero: neighbouring directions (the closing pair included) are never parallel *)
Theorem C03_vertices_well_defined : forall (N : nat) (deg_step : R),
  (3 <= N)%nat -> INR N * deg_step = 360 -> forall i, (i < N)%nat ->
  den R Rops (angle R Rops (rad_step R Rops deg_step) i) (angle R Rops (rad_step R Rops deg_step) (S i mod N)) <> 0.
Proof. exact den_cyclic. Qed.

(* when no sample is supplied n = int(100/alpha) points are drawn (any number type, binary64 included); a supplied
   sample is used as it is *)
Theorem C03_sample_size : forall T (O : ops T) S (draw : Z -> S) (smp : S) n n_opt alpha,
  used_sample T O draw None None alpha = draw (trunc O (div O (c100 O) alpha)) /\
  used_sample T O draw None (Some n) alpha = draw n /\
  used_sample T O draw (Some smp) n_opt alpha = smp.
Proof. exact sample_size_clauses. Qed.
Theorem C03_sample_size_real : forall alpha, 0 < alpha ->
  IZR (sample_size R Rops None alpha) <= 100 / alpha < IZR (sample_size R Rops None alpha) + 1.
Proof. exact sample_size_R. Qed.

(* the executable binary64 entry point run against the implementation IS the generic model *)
Theorem C03_float_model_is_generic : forall ctab stab qtab N deg_step,
  ds_polygon_f ctab stab qtab N deg_step = ds_polygon float (fops ctab stab) (lookup qtab) N deg_step.
Proof. reflexivity. Qed.

(* lead L9, for the record: the unrepaired grid np.arange(pi/2+2s, -3pi/2+s, -s) has exactly N+1 entries in exact
   arithmetic and its closing vertex pairs two parallel lines (denominator 0) *)
Theorem C03_unrepaired_closing_vertex_degenerate : forall N, (3 <= N)%nat ->
  let s := 2 * PI / INR N in
  ((- 3 * PI / 2 + s) - (PI / 2 + 2 * s)) / (- s) = INR (N + 1) /\
  den R Rops (legacy_angle N N) (legacy_angle N 0) = 0.
Proof. exact unrepaired_closing_vertex_degenerate. Qed.

(* ---- audit round: behaviour outside "the step divides 360", the checked contract, every number type ---- *)

(* any step below 120 degrees, N = round(360/deg_step) directions (what the code computes; |N*deg_step - 360| <= deg_step/2):
   every edge still lies on the (1-alpha)-quantile tangent line of its direction; the normals advance by the step, except
   that the gap that closes the turn lies between half a step and one and a half steps *)
Theorem C03_any_step_edges_on_tangent_lines :
  forall (xs ys : list R) (alpha : R) (C : R -> R) (N : nat) (deg_step : R),
    (forall a, is_quantile (proj R Rops xs ys a) (1 - alpha) (C a)) ->
    0 < deg_step < 120 -> Rabs (INR N * deg_step - 360) <= deg_step / 2 ->
    let s := rad_step R Rops deg_step in
    let P := ds_polygon R Rops C N deg_step in
    length P = N /\
    (forall i, (i < N)%nat ->
      let a := angle R Rops s i in
      let V := nth ((i + N - 1) mod N) P (0, 0) in
      let W := nth i P (0, 0) in
      is_quantile (proj R Rops xs ys a) (1 - alpha) (fst V * cos a + snd V * sin a) /\
      is_quantile (proj R Rops xs ys a) (1 - alpha) (fst W * cos a + snd W * sin a) /\
      forall t, on_line ((1 - t) * fst V + t * fst W, (1 - t) * snd V + t * snd W) a (C a)) /\
    (forall i, angle R Rops s (S i) = angle R Rops s i - s) /\
    angle R Rops s 0 = angle R Rops s (N - 1) - (2 * PI - INR (N - 1) * s) + 2 * PI /\
    s / 2 <= 2 * PI - INR (N - 1) * s <= 3 * s / 2.
Proof. exact any_step_edges_on_tangent_lines. Qed.

(* the contract of np.quantile that the theorems assume is the one the correspondence run checks: over the reals, a value
   that passes the executable check [quantile_ok_at] at the virtual index (n-1) p IS the linear-interpolated order statistic
   ([ninf] / [pinf] stand for -inf / +inf); the full check [quantile_okb] also accepts the two neighbouring virtual indices
   (n-1) p (1 -+ eps) and then yields the order statistic at a probability within eps*p of p *)
Theorem C03_quantile_check_sound : forall (z : list R) (p q ninf pinf : R),
  (forall v, In v z -> ninf < v) -> (forall v, In v z -> v < pinf) -> 0 <= INR (length z - 1) * p ->
  quantile_ok_at R Rops z (INR (length z - 1) * p) q ninf pinf = true -> is_quantile z p q.
Proof. exact quantile_check_sound. Qed.
Theorem C03_quantile_okb_sound : forall (z : list R) (p q eps ninf pinf : R),
  (forall v, In v z -> ninf < v) -> (forall v, In v z -> v < pinf) -> 0 <= p -> 0 <= eps <= 1 ->
  quantile_okb R Rops z p q eps ninf pinf = true ->
  exists p', Rabs (p' - p) <= eps * p /\ is_quantile z p' q.
Proof. exact quantile_okb_sound. Qed.

(* every number type (binary64 included), every N and step: the contour has N vertices and vertex i is computed from
   directions i and (i+1) mod N and their two offsets only *)
Theorem C03_vertex_pairing_any_number_type : forall T (O : ops T) (C : T -> T) N deg_step i d, (i < N)%nat ->
  let s := rad_step T O deg_step in
  length (ds_polygon T O C N deg_step) = N /\
  nth i (ds_polygon T O C N deg_step) (vertex T O (d, C d) (d, C d)) =
  vertex T O (angle T O s i, C (angle T O s i)) (angle T O s (S i mod N), C (angle T O s (S i mod N))).
Proof. exact vertex_pairing. Qed.

(* non-vacuity: a concrete sample, quantile and grid meeting the hypotheses *)
Example C03_nonvacuous :
  is_quantile [3; 1; 2] (1 - / 2) 2 /\ (3 <= 4)%nat /\ INR 4 * 90 = 360 /\
  length (ds_polygon R Rops (fun _ => 1) 4 90) = 4%nat /\
  (0 < 7 < 120 /\ Rabs (INR 51 * 7 - 360) <= 7 / 2) /\                         (* a step that does not divide 360 *)
  quantile_ok_at R Rops [3; 1; 2] (INR 2 * / 2) 2 0 4 = true.
Proof.
  split; [|split; [|split; [|split; [|split]]]].
  - exists [1; 2; 3]. split; [|split].
    + apply (perm_trans (l' := [1; 3; 2])); [apply perm_skip, perm_swap|].
      apply (perm_trans (l' := [3; 1; 2])); [apply perm_swap|apply Permutation_refl].
    + repeat constructor; lra.
    + exists 1%nat. cbn. repeat split; try lra; auto.
  - auto.
  - simpl. lra.
  - apply ds_polygon_length.
  - split; [lra|]. replace (INR 51 * 7 - 360) with (- (3)) by (simpl; lra). rewrite Rabs_Ropp, Rabs_right; lra.
  - apply nonvacuous_check.
Qed.

Print Assumptions C03_edges_on_quantile_tangent_lines.
Print Assumptions C03_fraction_alpha_beyond.
Print Assumptions C03_normals_cover_circle_once.
Print Assumptions C03_vertices_well_defined.
Print Assumptions C03_sample_size.
Print Assumptions C03_sample_size_real.
Print Assumptions C03_float_model_is_generic.
Print Assumptions C03_unrepaired_closing_vertex_degenerate.
Print Assumptions C03_any_step_edges_on_tangent_lines.
Print Assumptions C03_quantile_check_sound.
Print Assumptions C03_quantile_okb_sound.
Print Assumptions C03_vertex_pairing_any_number_type.
