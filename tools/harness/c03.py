"""C03 -- direct-sampling contour edges are (1-alpha)-quantile tangent lines (DESIGN.md section 6, C03).

proof gate: props/C03.v (tangent-line algebra over R, angle grid covers the circle once, quantile contract =>
            a fraction alpha lies beyond, sample size default)
correspondence: binary64 model model/DirectSampling.v evaluated by vm_compute vs virocon.contours.DirectSamplingContour
            (cos / sin / quantile values recorded from the run by rebinding virocon.contours.np; the quantile contract
            is re-checked in Coq on the model's own projections)
search: property oracle on the real contour (every edge on the tangent line of its direction with the
            (1-alpha)-quantile offset, directions advance by the step, one vertex per direction)
"""
import math
import struct

import numpy as np

import vlib
from vlib import fl, fl_list

INT_DIVISORS = [1, 2, 3, 4, 5, 6, 8, 9, 10, 12, 15, 18, 20, 24, 30, 36, 40, 45, 60]
FRAC_DIVISORS = [1.2, 1.25, 1.5, 1.6, 2.4, 2.5, 3.6, 3.75, 4.5, 4.8, 7.2, 7.5, 11.25, 14.4, 22.5]
SEARCH_DIVISORS = INT_DIVISORS + FRAC_DIVISORS


def _bits(x):
    return struct.unpack("<q", struct.pack("<d", float(x)))[0]


# ------------------------------------------------------------------ recording numpy's engines from outside
class NpRecorder:
    """Stands in for the name `np` inside virocon.contours: everything is numpy, cos / sin / quantile are recorded."""

    def __init__(self, real):
        self._real = real
        self.cos_tab, self.sin_tab = {}, {}
        self.quantiles = []     # (p, value, len(z), angle of the preceding scalar cos call) in call order
        self.conflicts = 0
        self.last_scalar = float("nan")

    def __getattr__(self, name):
        return getattr(self._real, name)

    def _rec(self, tab, x, v):
        xs = self._real.atleast_1d(self._real.asarray(x, dtype=float)).ravel()
        vs = self._real.atleast_1d(self._real.asarray(v, dtype=float)).ravel()
        for a, b in zip(xs, vs):
            k = _bits(a)
            if k in tab:
                if _bits(tab[k][1]) != _bits(b):
                    self.conflicts += 1
            else:
                tab[k] = (float(a), float(b))

    def cos(self, x, *a, **k):
        v = self._real.cos(x, *a, **k)
        if self._real.ndim(x) == 0:
            self.last_scalar = float(x)
        self._rec(self.cos_tab, x, v)
        return v

    def sin(self, x, *a, **k):
        v = self._real.sin(x, *a, **k)
        self._rec(self.sin_tab, x, v)
        return v

    def quantile(self, z, p, *a, **k):
        v = self._real.quantile(z, p, *a, **k)
        for pp, vv in zip(self._real.atleast_1d(p).ravel(), self._real.atleast_1d(v).ravel()):
            self.quantiles.append((float(pp), float(vv), len(z), self.last_scalar))
        return v


class StubModel:
    """2-D model whose draw_sample hands out a prepared sample (so runs are replayable) and records the request."""

    n_dim = 2

    def __init__(self, sample=None, gen=None):
        self._sample = sample
        self._gen = gen
        self.requested = []

    def draw_sample(self, n, *a, **k):
        self.requested.append(n)
        if self._gen is not None:
            return self._gen(n)
        return np.array(self._sample[:n], dtype=float)


def as_layout(arr, layout):
    """the same (n, 2) values in another memory layout"""
    if layout == "F":
        return np.asfortranarray(arr)
    if layout == "strided":
        big = np.empty((2 * len(arr), 4), dtype=arr.dtype)
        big[:] = -777
        big[::2, ::2] = arr
        return big[::2, ::2]
    if layout == "readonly":
        arr = arr.copy()
        arr.setflags(write=False)
        return arr
    return arr


def run_impl(sample, alpha, deg_step, supplied=True, n=None, gen=None, record=True, dtype=None, layout=None):
    """Runs the real DirectSamplingContour.  Returns dict(coords, rec, n_attr, sample_attr, requested) or dict(err)."""
    import virocon.contours as vc
    rec = NpRecorder(np)
    model = StubModel(sample, gen)
    old = vc.np
    if record:
        vc.np = rec
    try:
        try:
            if supplied:
                c = vc.DirectSamplingContour(model, alpha, n=n, deg_step=deg_step,
                                             sample=as_layout(np.array(sample, dtype=float).astype(dtype or float), layout))
            else:
                c = vc.DirectSamplingContour(model, alpha, n=n, deg_step=deg_step)
        except Exception as e:  # noqa
            return {"err": type(e).__name__ + ": " + str(e)[:200]}
    finally:
        vc.np = old
    return {"coords": np.array(c.coordinates, dtype=float), "rec": rec, "n_attr": c.n,
            "sample_attr": np.array(c.sample, dtype=float), "requested": model.requested}


def with_dtype(rng, c):
    """supplied samples also come as integer-typed or single-precision arrays (same values, so the model's answer is unchanged)"""
    smp = np.asarray(c["sample"], dtype=float)
    r = rng.random()
    if np.all(smp == np.round(smp)) and r < 0.6:
        c["dtype"] = "int64"
    elif r < 0.15:
        c["sample"] = smp.astype(np.float32).astype(float)
        c["dtype"] = "float32"
    return c


# ------------------------------------------------------------------ case generation
def gen_cloud(rng, nprng, n):
    kind = rng.choice(["gauss", "gauss", "model", "model", "ties", "lattice", "heavy", "heavy", "lognormal", "collinear", "mixture"])
    if kind == "gauss":
        rho = rng.uniform(-0.95, 0.95)
        s1, s2 = rng.uniform(0.1, 5), rng.uniform(0.1, 5)
        z = nprng.standard_normal((n, 2))
        x = rng.uniform(-5, 5) + s1 * z[:, 0]
        y = rng.uniform(-5, 5) + s2 * (rho * z[:, 0] + math.sqrt(1 - rho * rho) * z[:, 1])
    elif kind == "model":
        # sea-state like: Weibull Hs, log-normal Tz conditional on Hs (same structure as virocon's models)
        hs = 0.9 + 2.8 * nprng.weibull(1.5, n)
        mu = 0.1 + 1.49 * hs ** 0.19
        sg = 0.04 + 0.175 * np.exp(-0.224 * hs)
        x, y = hs, np.exp(mu + sg * nprng.standard_normal(n))
    elif kind == "ties":
        d = rng.choice([0, 1])
        z = nprng.standard_normal((n, 2)) * rng.uniform(0.5, 4) + rng.uniform(0, 6)
        x, y = np.round(z[:, 0], d), np.round(z[:, 1], d)
    elif kind == "lattice":
        x = nprng.integers(0, rng.choice([3, 6, 12]), n).astype(float)
        y = nprng.integers(0, rng.choice([3, 6, 12]), n).astype(float)
    elif kind == "heavy":
        x = nprng.standard_cauchy(n) * rng.uniform(0.5, 3)
        y = nprng.pareto(rng.uniform(0.8, 2.5), n) * rng.choice([1.0, -1.0])
    elif kind == "lognormal":
        x = np.exp(nprng.standard_normal(n) * rng.uniform(0.2, 1.5))
        y = np.exp(nprng.standard_normal(n) * rng.uniform(0.2, 1.5) + 0.3 * np.log(x))
    elif kind == "collinear":
        t = nprng.standard_normal(n)
        x, y = 1.0 + 2.0 * t, -0.5 + 0.5 * t
        if rng.random() < 0.5:
            y = y + 1e-9 * nprng.standard_normal(n)
    else:
        z = nprng.standard_normal((n, 2))
        m = nprng.random(n) < 0.3
        x = np.where(m, 8 + 0.3 * z[:, 0], z[:, 0])
        y = np.where(m, -3 + 0.3 * z[:, 1], 2 * z[:, 1])
    return kind, np.column_stack([x, y]).astype(float)


def gen_alpha(rng, n):
    r = rng.random()
    if r < 0.3:
        return rng.choice([0.3, 0.25, 0.2, 0.1, 0.05, 0.02, 0.01, 0.001, 1e-4])
    if r < 0.45:
        # (n-1)*(1-alpha) an integer (or within rounding of one): virtual index on an order statistic
        k = rng.randrange(max(1, int(0.7 * (n - 1))), n)
        a = 1.0 - k / (n - 1)
        return min(max(a, 1e-4), 0.3)
    return math.exp(rng.uniform(math.log(1e-4), math.log(0.3)))


def gen_cases(ctx):
    rng = ctx.rng
    nprng = ctx.np_rng(0)
    cases = []
    n_clouds = ctx.n(220, 2600)
    n_all = ctx.n(8, 80)       # clouds run through every divisor
    for ci in range(n_clouds):
        r = rng.random()
        n = 50 if r < 0.1 else (rng.randrange(50, 200) if r < 0.75 else rng.randrange(200, ctx.n(900, 4000)))
        if ci < n_all:
            n = rng.randrange(50, 90)
        kind, cloud = gen_cloud(rng, nprng, n)
        dt = with_dtype(rng, {"sample": cloud})          # one decision per cloud (the cloud is shared by its cases)
        cloud, cloud_dtype = dt["sample"], dt.get("dtype")
        alpha = gen_alpha(rng, n)
        if ci < n_all:
            steps = list(SEARCH_DIVISORS)
        else:
            steps = [rng.choice(INT_DIVISORS) for _ in range(2)] + [rng.choice(SEARCH_DIVISORS)]
            if n > 400:
                steps = [s for s in steps if s >= 4][:2] or [rng.choice([5, 6, 10, 20, 60])]
        for s in dict.fromkeys(steps):
            ds = s if (isinstance(s, float) or rng.random() < 0.7) else float(s)
            cases.append({"cloud": ci, "kind": kind, "sample": cloud, "alpha": alpha, "deg_step": ds, "supplied": True, "n": None, "dtype": cloud_dtype})
    # sample drawn from the model: n = int(100 / alpha) (or the given n)
    for j in range(ctx.n(10, 60)):
        alpha = rng.choice([0.3, 0.25, 0.2, 0.15, 0.1, 0.07, 0.05, 0.03, 0.3 * rng.random() + 0.02])
        n_given = None if rng.random() < 0.75 else rng.randrange(50, 400)
        n_eff = int(100 / alpha) if n_given is None else n_given
        kind, cloud = gen_cloud(rng, nprng, max(n_eff, 50) + 7)
        cases.append({"cloud": 100000 + j, "kind": kind, "sample": cloud, "alpha": alpha, "deg_step": rng.choice([5, 6, 10, 12, 20, 30, 45, 60]),
                      "supplied": False, "n": n_given})
    cases += edge_cases(ctx, rng, nprng)
    return cases


NON_DIVISORS = [7, 11, 13, 17, 50, 0.7, 2.3, 33.3, 59, 7.0, 100, 90, 120, 180, 360]


def edge_cases(ctx, rng, nprng):
    """outside or on the rim of the property's quantifier, inside the model: steps that do not divide 360 (and steps giving
    fewer than 3 directions), tiny samples, degenerate clouds, alpha at and beyond its range, memory layouts, n given together
    with a sample.  All go through the correspondence; the oracle judges them as far as the property's claim extends."""
    out = []
    cid = [300000]

    def add(kind, pts, alpha, ds, **kw):
        cid[0] += 1
        c = {"cloud": kw.pop("cloud", cid[0]), "kind": kind, "sample": np.asarray(pts, dtype=float), "alpha": alpha, "deg_step": ds,
             "supplied": True, "n": None}
        c.update(kw)
        if c.get("dtype"):
            c["sample"] = c["sample"].astype(c["dtype"]).astype(float)
        out.append(c)
        return c

    reps = ctx.n(1, 6)
    for _ in range(reps):
        kind, cloud = gen_cloud(rng, nprng, rng.randrange(50, 120))
        cid[0] += 1
        for ds in NON_DIVISORS if _ == 0 else rng.sample(NON_DIVISORS, 6):
            add("nondivisor/" + kind, cloud, gen_alpha(rng, len(cloud)), ds, cloud=cid[0])
        # tiny samples (below the property's n >= 50)
        for n in [1, 2, 3, 5, 10, 49]:
            kind2, small = gen_cloud(rng, nprng, n)
            add("tiny/" + kind2, small, rng.choice([0.3, 0.1, 0.01, 0.5]), rng.choice([5, 10, 7, 45]))
        # alpha on and beyond the rim
        kind3, cloud3 = gen_cloud(rng, nprng, rng.randrange(50, 90))
        cid[0] += 1
        for a in [1e-4, 0.3, 0.5, 0.9, 0.999, 1e-6, 1.0]:
            add("alpha-rim/" + kind3, cloud3, a, rng.choice([10, 12, 36]), cloud=cid[0])
        # degenerate clouds
        m = rng.randrange(50, 80)
        add("constant", np.full((m, 2), rng.choice([0.0, 3.5, -2.0])), 0.1, rng.choice([10, 30]))
        add("two-points", np.array([[0.0, 0.0], [1.0, 2.0]] * (m // 2)), rng.choice([0.1, 0.5, 0.01]), 10)
        add("on-axis", np.column_stack([nprng.standard_normal(m), np.zeros(m)]), 0.1, rng.choice([5, 10]))
        add("one-outlier", np.vstack([np.zeros((m - 1, 2)), [[1e6, -1e6]]]), rng.choice([0.1, 1e-4]), 10)
        # memory layouts and dtypes of the supplied array; n given although a sample is supplied (n is then unused)
        kind4, cloud4 = gen_cloud(rng, nprng, rng.randrange(50, 90))
        cloud4 = np.clip(np.round(cloud4 * 4), -1000, 1000)
        cid[0] += 1
        for lay, dt in [("F", None), ("strided", None), ("readonly", None), (None, "int32"), ("F", "int64"), ("strided", "float32"), (None, "float16")]:
            add("layout/" + kind4, cloud4, 0.07, rng.choice([6, 10]), cloud=cid[0], layout=lay, dtype=dt)
        add("n-and-sample/" + kind4, cloud4, 0.1, 10, cloud=cid[0], n=rng.choice([1, 17, 100000]))
    # drawn samples of unusual size
    for n_given, alpha in [(1, 0.1), (3, 0.2), (49, 0.05), (None, 0.3), (None, 0.29)]:
        kind5, cloud5 = gen_cloud(rng, nprng, (n_given or int(100 / alpha)) + 3)
        add("drawn-edge/" + kind5, cloud5, alpha, rng.choice([10, 7]), supplied=False, n=n_given)
    return out


def corpus_cases():
    """minimised past failures (corpus/C03/*.json, replay dictionaries): always run first through the oracle"""
    import glob
    import json
    import os
    out = []
    for fn in sorted(glob.glob(os.path.join(vlib.VERIF, "corpus", "C03", "*.json"))):
        d = json.load(open(fn))
        d = d.get("replay", d)
        out.append(dict(d, cloud=-1, kind="corpus/" + os.path.basename(fn), sample=np.array(d["sample"], dtype=float)))
    return out


# ------------------------------------------------------------------ Coq side
PRELUDE = """From V.base Require Import FloatBits.
From V.model Require Import DirectSampling.
Local Open Scope float_scope.
Definition fclose (a b : float) : bool :=
  fbits_eq a b || (PrimFloat.leb (abs (a - b)) (0x1.12e0be826d695p-30 * (if PrimFloat.ltb (abs a) (abs b) then abs b else abs a))).
Fixpoint all2 {A B} (f : A -> B -> bool) (a : list A) (b : list B) : bool :=
  match a, b with [], [] => true | x :: a', y :: b' => f x y && all2 f a' b' | _, _ => false end.
Definition pclose (a b : float * float) := fclose (fst a) (fst b) && fclose (snd a) (snd b).
Definition pexact (a b : float * float) := fbits_eq (fst a) (fst b) && fbits_eq (snd a) (snd b).
(* 0 bit-exact; 1 within 1e-9; 2 number of vertices differs; 3 coordinates differ; 4 quantile contract fails on the
   model's projection; 5 no direction count; 6 sample size differs *)
Definition check (ctab stab qtab : list (float * float)) (deg_step alpha : float) (xs ys : list float)
           (n_opt : option Z) (n_attr : Z) (coords : list (float * float)) : Z * Z :=
  match n_angles deg_step with
  | None => (5, 0)%Z
  | Some N =>
      let P := ds_polygon_f ctab stab qtab N deg_step in
      if negb (Z.eqb (ds_sample_size_f n_opt alpha) n_attr) then (6, Z.of_nat N)
      else if negb (Nat.eqb (List.length P) (List.length coords)) then (2, Z.of_nat N)
      else if negb (ds_contract_f ctab stab qtab N deg_step alpha xs ys) then (4, Z.of_nat N)
      else if all2 pexact P coords then (0, Z.of_nat N)
      else if all2 pclose P coords then (1, Z.of_nat N) else (3, Z.of_nat N)
  end%Z.
"""
CODES = {2: "number of vertices differs from the number of directions 360/deg_step", 3: "coordinates differ",
         4: "recorded np.quantile value is not the (1-alpha)-quantile of the model's projection", 5: "no direction count",
         6: "sample size n differs from int(100/alpha)"}


def tab_lit(tab):
    return "[" + "; ".join("(%s, %s)" % (fl(a), fl(b)) for a, b in tab.values()) + "]"


def coq_case(c, r):
    rec = r["rec"]
    # quantile table keyed by the angle (the argument of the scalar np.cos call that precedes the np.quantile call)
    qtab = "[" + "; ".join("(%s, %s)" % (fl(q[3]), fl(q[1])) for q in rec.quantiles) + "]"
    coords = "[" + "; ".join("(%s, %s)" % (fl(x), fl(y)) for x, y in r["coords"]) + "]"
    nopt = "None" if c["n"] is None else "(Some %d%%Z)" % c["n"]
    return "(check %s %s %s %s %s xs_%d ys_%d %s %d%%Z %s)" % (
        tab_lit(rec.cos_tab), tab_lit(rec.sin_tab), qtab, fl(c["deg_step"]), fl(c["alpha"]), c["sid"], c["sid"],
        nopt, int(r["n_attr"]), coords)


# ------------------------------------------------------------------ property oracle (search)
def n_directions(deg_step):
    return int(round(360.0 / deg_step))


def oracle(c, r=None):
    """None if the property holds on this configuration, else (signature, message)."""
    if r is None:
        r = run_impl(c["sample"], c["alpha"], c["deg_step"], c["supplied"], c["n"], dtype=c.get("dtype"), layout=c.get("layout"))
    cls = "DirectSamplingContour"
    if "err" in r:
        return ({"class": cls, "clause": "exception"}, "DirectSamplingContour raised " + r["err"])
    alpha, deg_step = c["alpha"], c["deg_step"]
    smp = r["sample_attr"]
    if not c["supplied"]:
        want = int(100 / alpha) if c["n"] is None else c["n"]
        if r["requested"] != [want] or len(smp) != want or r["n_attr"] != want:
            return ({"class": cls, "clause": "sample-size"},
                    "no sample supplied, alpha=%r: draw_sample was asked for %r points, the contour's sample has %d rows (n attribute %r), expected int(100/alpha)=%d" % (
                        alpha, r["requested"], len(smp), r["n_attr"], want))
    else:
        if smp.shape != np.asarray(c["sample"]).shape or not np.array_equal(smp, np.asarray(c["sample"], dtype=float)):
            return ({"class": cls, "clause": "sample-size"}, "the supplied sample is not the one stored on the contour")
    if not np.all(np.isfinite(smp)):
        return None      # the property is about finite samples
    x, y = smp[:, 0], smp[:, 1]
    V = r["coords"]
    N = n_directions(deg_step)
    s = math.radians(deg_step)
    n_q = len(r["rec"].quantiles) if r.get("rec") is not None else None
    cond = None
    if n_q is not None and n_q != N:
        cond = "len(angles)==360/deg_step+%d" % (n_q - N) if n_q > N else "len(angles)==360/deg_step-%d" % (N - n_q)
    if V.ndim != 2 or V.shape[1] != 2:
        return ({"class": cls, "clause": "shape"}, "coordinates have shape %r" % (V.shape,))
    M = len(V)
    if N < 3:
        return None      # fewer than three directions do not bound a polygon (neighbouring tangent lines are parallel)
    n = len(x)
    pmax = float(np.max(np.hypot(x, y)))
    beyond = []
    # direction of edge k (from V[k-1] to V[k]): the first direction is 90 deg + deg_step, decreasing by deg_step
    bad = []
    for k in range(M):
        a = 0.5 * math.pi + s - k * s
        nx, ny = math.cos(a), math.sin(a)
        q = float(np.quantile(x * nx + y * ny, 1 - alpha))
        p0, p1 = V[k - 1], V[k]
        tol = 1e-7 * max(1.0, abs(q), float(np.hypot(*p0)) if np.all(np.isfinite(p0)) else 1.0,
                         float(np.hypot(*p1)) if np.all(np.isfinite(p1)) else 1.0) + 1e-12 * pmax
        proj = x * nx + y * ny
        for which, p in (("start", p0), ("end", p1)):
            off = p[0] * nx + p[1] * ny
            if not (abs(off - q) <= tol):
                bad.append((k, which, float(off), q))
            elif 0 <= alpha <= 1:
                # "a fraction alpha of the sample lies beyond it", counted on the polygon's own line (exact up to one
                # observation: fewer than (n-1) alpha + 1 strictly beyond, at least (n-1) alpha at or beyond)
                n_gt = int(np.sum(proj > off + tol))
                n_ge = int(np.sum(proj >= off - tol))
                if not (n_gt < (n - 1) * alpha + 1 + 1e-9 and n_ge >= (n - 1) * alpha - 1e-9):
                    beyond.append((k, n_gt, n_ge))
    if M != N:
        sig = {"class": cls, "vertex": "count", "clause": "cover-once"}
        if abs(360.0 / deg_step - round(360.0 / deg_step)) > 1e-9:
            sig["step"] = "non-divisor"      # beyond the property's quantifier: the code documents round(360/deg_step) directions
        if cond:
            sig["condition"] = cond
        return (sig, "deg_step=%r: %d vertices for %d directions (the normals do not cover the circle exactly once)%s" % (
            deg_step, M, N, "; first edge off its tangent line: edge %d" % bad[0][0] if bad else ""))
    if bad:
        verts = sorted({k if which == "end" else (k - 1) % M for k, which, _, _ in bad})
        sig = {"class": cls, "clause": "edge-on-quantile-line"}
        sig["vertex"] = "last" if verts == [M - 1] else "other"
        if cond:
            sig["condition"] = cond
        k, which, off, q = bad[0]
        return (sig, "deg_step=%r alpha=%r n=%d: vertex %s of %d is not on the tangent line of direction %.6g deg "
                     "(offset %r along the normal, (1-alpha)-quantile of the projected sample %r)" % (
                         deg_step, alpha, len(x), verts if len(verts) <= 8 else "%r ... (%d vertices)" % (verts[:8], len(verts)), M,
                         math.degrees(0.5 * math.pi + s - k * s), off, q))
    if beyond:
        k, n_gt, n_ge = beyond[0]
        return ({"class": cls, "clause": "fraction-beyond"},
                "deg_step=%r alpha=%r n=%d: %d observations strictly beyond / %d at or beyond the line of edge %d, expected a fraction alpha "
                "(fewer than %.6g strictly beyond, at least %.6g at or beyond)" % (deg_step, alpha, n, n_gt, n_ge, k, (n - 1) * alpha + 1, (n - 1) * alpha))
    return None


def shrink(c, sig):
    base = dict(c)

    def fails(rows):
        if len(rows) < 50:
            return False
        o = oracle(dict(base, sample=np.array(rows, dtype=float)))  # base is rebound below: late binding intended
        return o is not None and o[0].get("clause") == sig.get("clause") and o[0].get("vertex") == sig.get("vertex")
    if not c["supplied"]:
        return c
    rows = [list(map(float, p)) for p in c["sample"]]
    # simpler parameters first (same signature class), then fewer points
    for key, cands in (("alpha", [0.1, 0.05]), ("deg_step", [10, 5, 6])):
        for v in cands:
            trial = dict(base, **{key: v})
            o = oracle(dict(trial, sample=np.array(rows, dtype=float)))
            if o is not None and o[0] == sig:
                base = trial
                break
    rows = vlib.shrink_list(rows[:400], fails, min_len=50) if fails(rows[:400]) else rows
    # round the numbers when the failure survives it
    rr = [[round(a, 2), round(b, 2)] for a, b in rows]
    if fails(rr):
        rows = rr
    return dict(base, sample=np.array(rows, dtype=float))


def large_sample(seed, n):
    """a large sea-state like cloud, reproducible from (seed, n): replays name the generator instead of storing 1e5 rows"""
    g = np.random.default_rng([int(seed), 3030])
    hs = 0.9 + 2.8 * g.weibull(1.5, int(n))
    tz = np.exp(0.1 + 1.49 * hs ** 0.19 + (0.04 + 0.175 * np.exp(-0.224 * hs)) * g.standard_normal(int(n)))
    return np.column_stack([hs, tz])


def large_cases(ctx):
    """large samples with fine steps (oracle only: too large for a Coq case file): 1e5 .. 3e5 points, many directions --
    an implementation that treats the directions in chunks sized by the sample shows its seams only here"""
    rng = ctx.rng
    specs = [(60000, 1, True), (250000, 5, True), (250000, 2, False)]          # (n, deg_step, supplied); the last: alpha = 100/n
    if not ctx.quick():
        specs += [(150000, 1, True), (300000, 3, True), (120000, 2.5, True), (200000, 4, False), (1000000, 10, True)]
    out = []
    for n, ds, supplied in specs:
        seed = rng.randrange(2 ** 31)
        n = n + (rng.randrange(0, 1000) if supplied else 0)
        alpha = rng.choice([0.1, 0.02, 0.003]) if supplied else 100.0 / n
        c = {"cloud": -2, "kind": "large", "gen": {"seed": seed, "n": n}, "sample": large_sample(seed, n), "alpha": alpha, "deg_step": ds,
             "supplied": supplied, "n": None}
        r = run_impl(c["sample"], alpha, ds, supplied, None)
        out.append((c, r))
    return out


def shrink_large(c, sig):
    """smaller n from the same generator while the same clause fails"""
    best = c
    n = c["gen"]["n"]
    if not c["supplied"]:
        return c
    while n > 100:
        n2 = n // 2
        trial = dict(c, gen={"seed": c["gen"]["seed"], "n": n2}, sample=large_sample(c["gen"]["seed"], n2))
        o = oracle(trial)
        if o is None or o[0].get("clause") != sig.get("clause"):
            break
        best, n = trial, n2
    return best


def to_replay(c):
    if "gen" in c:
        return {"gen": c["gen"], "alpha": c["alpha"], "deg_step": c["deg_step"], "supplied": c["supplied"], "n": c["n"],
                "note": "sample = harness.c03.large_sample(seed, n)"}
    return {"dtype": c.get("dtype"), "layout": c.get("layout"), "sample": [[float(a), float(b)] for a, b in c["sample"]], "alpha": c["alpha"], "deg_step": c["deg_step"],
            "supplied": c["supplied"], "n": c["n"]}


def replay(ctx, d):
    if "history" in d:
        _, v = run_history(d["history"])
        if v:
            print("  ", v[1])
        return v is not None
    if "gen" in d:
        c = dict(d, sample=large_sample(d["gen"]["seed"], d["gen"]["n"]))
    else:
        c = dict(d, sample=np.array(d["sample"], dtype=float))
    o = oracle(c)
    if o:
        print("  ", o[1])
    return o is not None


def seastate_model(rng=None):
    """a fitted two-variable virocon model (Weibull Hs, log-normal Tz conditional on Hs; Vanem & Bitner-Gregersen 2012,
    the model of virocon's own contour tests), parameters varied a little when rng is given"""
    from virocon import GlobalHierarchicalModel, WeibullDistribution, LogNormalDistribution, DependenceFunction
    j = (lambda v, s=0.1: v * (1 + s * (rng.random() - 0.5))) if rng is not None else (lambda v, s=0.1: v)
    a1, b1, c1 = j(0.1), j(1.489), j(0.1901)
    a2, b2, c2 = j(0.04), j(0.1748), j(-0.2243)

    def _power3(x, a=a1, b=b1, c=c1):
        return a + b * x ** c

    def _exp3(x, a=a2, b=b2, c=c2):
        return a + b * np.exp(c * x)

    bounds = [(0, None), (0, None), (None, None)]
    d0 = {"distribution": WeibullDistribution(alpha=j(2.776), beta=j(1.471), gamma=j(0.8888))}
    d1 = {"distribution": LogNormalDistribution(), "conditional_on": 0,
          "parameters": {"mu": DependenceFunction(_power3, bounds), "sigma": DependenceFunction(_exp3, bounds)}}
    return GlobalHierarchicalModel([d0, d1])


def transformed_model(name, fit_seed):
    """a 2-D TransformedModel built through the public API: the sea-state model expressed in Hs-Tp space, or one of the predefined
    exponentiated-Weibull Hs-steepness models (their own triples + transformations) fitted to data drawn from the sea-state model"""
    from virocon import GlobalHierarchicalModel, TransformedModel, variable_transform
    ghm = seastate_model()
    if name == "hs-tp":
        f = 1.2796
        return TransformedModel(ghm, lambda a: np.c_[a[:, 0], a[:, 1] / f], lambda a: np.c_[a[:, 0], a[:, 1] * f],
                                lambda a: np.full(len(a), 1 / f)), None
    from virocon.predefined import get_Windmeier_EW_Hs_S, get_Nonzero_EW_Hs_S
    dd, fd, _, tr = (get_Windmeier_EW_Hs_S if name == "windmeier" else get_Nonzero_EW_Hs_S)()
    data = ghm.draw_sample(3000, random_state=fit_seed)
    _, steep = variable_transform.hs_tz_to_hs_s(data[:, 0], data[:, 1])
    inner = GlobalHierarchicalModel(dd)
    inner.fit(np.c_[data[:, 0], steep], fd)
    return TransformedModel(inner, tr["transform"], tr["inverse"], tr["jacobian"], precision_factor=0.2), data


def run_history(spec):
    """A history on one TransformedModel: contour without a sample, then a public call that makes the model keep a large Monte-Carlo
    sample of its own (empirical_cdf / .sample), then contours without a sample again (other alpha, same alpha twice), then a re-fit
    and one more.  Every contour must be computed from int(100/alpha) freshly drawn points.  Returns (n_contours, violation or None)."""
    np.random.seed(spec["seed"] % (2 ** 32))
    model, data = transformed_model(spec["model"], spec["seed"] % 1000)
    ds = spec["deg_step"]
    done = 0
    prev = None

    def contour(alpha, stage):
        nonlocal done, prev
        c = {"cloud": -3, "kind": "history", "alpha": alpha, "deg_step": ds, "supplied": False, "n": None}
        r = run_impl(None, alpha, ds, supplied=False, gen=lambda n: model.draw_sample(n))
        c["sample"] = r["sample_attr"] if "err" not in r else np.zeros((50, 2))
        done += 1
        o = oracle(c, r)
        if o is None and "err" not in r and prev is not None and len(prev) and len(r["sample_attr"]) >= len(prev) \
                and np.array_equal(prev, r["sample_attr"][:len(prev)]):
            o = ({"class": "DirectSamplingContour", "clause": "sample-size"},
                 "no sample supplied: the contour was computed from the same points as the previous contour of this model (nothing was drawn)")
        prev = None if "err" in r else r["sample_attr"]
        if o is not None:
            o[0]["history"] = "TransformedModel"
            return (o[0], "TransformedModel(%s), %s: %s" % (spec["model"], stage, o[1]))
        return None

    a1, a2 = spec["alphas"]
    v = contour(a1, "fresh model")
    if v is None:
        if spec["access"] == "empirical_cdf":
            model.empirical_cdf([[2.0, 8.0]])
        else:
            _ = model.sample
        v = contour(a1, "after %s" % spec["access"]) or contour(a2, "after %s, other alpha" % spec["access"]) or contour(a2, "same alpha again")
    if v is None and data is not None:
        model.fit(data[: len(data) // 2])
        v = contour(a1, "after a re-fit")
    return done, v


def history_specs(ctx):
    names = ["hs-tp", "windmeier", "nonzero"]
    out = []
    for k in range(ctx.n(3, 9)):
        out.append({"model": names[k % 3], "seed": ctx.rng.randrange(2 ** 31), "deg_step": ctx.rng.choice([6, 10, 15, 30]),
                    "alphas": [ctx.rng.choice([0.01, 0.02, 0.05]), ctx.rng.choice([0.1, 0.07, 0.004])],
                    "access": "empirical_cdf" if k % 2 == 0 else "sample"})
    return out


def real_model_cases(ctx):
    """contours of a real virocon model, the sample drawn by the model itself (oracle only: the draw is not replayed in Coq)"""
    out = []
    for k in range(ctx.n(3, 12)):
        real = seastate_model(ctx.rng if k else None)
        seed = ctx.rng.randrange(2 ** 31)
        alpha = ctx.rng.choice([0.2, 0.1, 0.05, 0.02])
        c = {"cloud": 200000 + k, "kind": "virocon-model", "alpha": alpha, "deg_step": ctx.rng.choice([5, 6, 10, 15, 45]), "supplied": False, "n": None}
        r = run_impl(None, alpha, c["deg_step"], supplied=False, gen=lambda n, real=real, seed=seed: real.draw_sample(n, random_state=seed))
        c["sample"] = r["sample_attr"] if "err" not in r else np.zeros((50, 2))
        out.append((c, r))
    return out


# ------------------------------------------------------------------ run
def run(ctx):
    ctx.proof_gate()
    cases = gen_cases(ctx)
    results = []
    dist, conflicts = {}, 0
    sid_of = {}
    for c in cases:
        c["sid"] = sid_of.setdefault(c["cloud"], len(sid_of))
        r = run_impl(c["sample"], c["alpha"], c["deg_step"], c["supplied"], c["n"], dtype=c.get("dtype"), layout=c.get("layout"))
        results.append(r)
        key = "%s/%s" % (c["kind"].split("/")[0], "supplied" if c["supplied"] else "drawn")
        if c.get("dtype") or c.get("layout"):
            dist["array:%s/%s" % (c.get("dtype") or "float64", c.get("layout") or "C")] = dist.get("array:%s/%s" % (c.get("dtype") or "float64", c.get("layout") or "C"), 0) + 1
        dist[key] = dist.get(key, 0) + 1
        if "err" not in r:
            conflicts += r["rec"].conflicts
        ctx.count((c["cloud"], c["alpha"], float(c["deg_step"]), c["supplied"]),
                  "err" not in r and len(r["coords"]) >= 3 and len({tuple(np.round(p, 9)) for p in r["coords"]}) >= 3)
    ctx.notes["input_distribution"] = dist
    ctx.notes["sample_sizes"] = {"min": min(len(c["sample"]) for c in cases), "max": max(len(c["sample"]) for c in cases)}
    ctx.notes["deg_steps"] = sorted({float(c["deg_step"]) for c in cases})
    ctx.notes["alpha_range"] = [min(c["alpha"] for c in cases), max(c["alpha"] for c in cases)]
    ctx.notes["cos_sin_scalar_vs_array_conflicts"] = conflicts
    for c, r in list(zip(cases, results))[:2]:
        ctx.sample({"kind": c["kind"], "n": len(c["sample"]), "alpha": c["alpha"], "deg_step": c["deg_step"],
                    "coordinates_head": [] if "err" in r else r["coords"][:3].tolist()})
    # ---- correspondence (cases of one cloud share the sample definition; shards by data volume)
    shards, cur, vol, defined = [], [], 0, set()
    suspects = []
    for idx, (c, r) in enumerate(zip(cases, results)):
        if "err" in r:
            ctx.mismatch("direct sampling case %d" % idx, "implementation raised %s" % r["err"])
            suspects.append(idx)
            continue
        rec = r["rec"]
        smp = r["sample_attr"]
        w = len(smp) * 2 + 6 * len(r["coords"])
        if cur and (vol + w > 60000 or len(cur) >= 400):
            shards.append(cur)
            cur, vol, defined = [], 0, set()
        head = ""
        if c["sid"] not in defined:
            defined.add(c["sid"])
            head = "Definition xs_%d := %s.\nDefinition ys_%d := %s.\n" % (c["sid"], fl_list(smp[:, 0]), c["sid"], fl_list(smp[:, 1]))
            vol += len(smp) * 2
        cur.append((idx, head, coq_case(c, r)))
        vol += 6 * len(r["coords"])
    if cur:
        shards.append(cur)
    items = []
    for k, sh in enumerate(shards):
        body = PRELUDE + "".join(h for _, h, _ in sh) + "Definition results : list (Z * Z) := [\n" + ";\n".join(t for _, _, t in sh) + "].\nEval vm_compute in results.\n"
        items.append(("cases_%d" % k, body))
    outs = ctx.coq_eval_many(items, jobs=12)
    ncmp = nexact = 0
    for sh, o in zip(shards, outs):
        if o is None:
            continue
        codes = vlib.parse_term(o[0])
        for (idx, _, _), (code, N) in zip(sh, codes):
            ncmp += 1
            if code == 0:
                nexact += 1
            if code >= 2:
                ctx.mismatch("direct sampling case %d" % idx, "%s (deg_step=%r, alpha=%r, n=%d, model directions=%d, implementation vertices=%d)" % (
                    CODES.get(code, code), cases[idx]["deg_step"], cases[idx]["alpha"], len(cases[idx]["sample"]), N, len(results[idx]["coords"])))
                suspects.append(idx)
    ctx.cov["programs"] = 1
    ctx.notes["correspondence"] = {"cases_compared": ncmp, "bit_exact": nexact, "mismatches": len(suspects), "shards": len(shards)}
    # ---- search: property oracle on the disagreeing inputs first, then on everything
    found = 0
    seen_sig = set()
    order = suspects + [i for i in range(len(cases)) if i not in set(suspects)]
    stream = [(c, None) for c in corpus_cases()] + [(cases[i], results[i]) for i in order]
    ctx.notes["corpus_cases"] = len(stream) - len(order)
    try:
        extra = real_model_cases(ctx) + large_cases(ctx)
        stream += extra
        ctx.cov["evaluations"] += len(extra)
        ctx.notes["large_samples"] = [(c["gen"]["n"], c["deg_step"], "supplied" if c["supplied"] else "drawn") for c, _ in extra if "gen" in c]
    except Exception as e:  # noqa
        ctx.notes["real_model_cases_error"] = repr(e)[:300]
    for c, r in stream:
        if found >= 8:
            break
        o = oracle(c, r)
        if r is None:
            ctx.cov["evaluations"] += 1
        if o is None:
            continue
        sig, msg = o
        key = tuple(sorted(sig.items()))
        if key in seen_sig:
            continue
        seen_sig.add(key)
        small = shrink_large(c, sig) if "gen" in c else shrink(c, sig)
        o2 = (oracle(small) if small is not c else None) or o
        if ctx.violation(o2[0], o2[1], to_replay(small)):
            found += 1
    # ---- histories on real TransformedModels (the drawn-sample clause after the model cached a sample of its own)
    try:
        nh = 0
        for spec in history_specs(ctx):
            if found >= 8:
                break
            done, v = run_history(spec)
            nh += done
            if v is not None and ctx.violation(v[0], v[1], {"history": spec}):
                found += 1
        ctx.cov["evaluations"] += nh
        ctx.notes["history_contours_on_transformed_models"] = nh
    except Exception as e:  # noqa
        import traceback
        ctx.broken.append(("harness-crash", "C03 history cases", traceback.format_exc()[-1500:]))
    ctx.cov["rule"] = ("point clouds (bivariate normal, sea-state like Weibull/log-normal, rounded values with ties, integer lattices, Cauchy/Pareto tails, "
                       "log-normal, collinear, two clusters; n 50..900 quick / ..4000 thorough) x alpha in [1e-4, 0.3] (incl. virtual index on an order statistic) x "
                       "deg_step over all divisors of 360 in [1, 60] (int and float typed, plus fractional divisors), sample supplied or drawn; "
                       "non-trivial = contour computed with >= 3 distinct vertices; distinct = hash of (cloud, alpha, deg_step, supplied)")
    ctx.cov["trusted_base"] = ["Coq 8.16.1 kernel + vm_compute (primitive floats)", "harness tools/harness/c03.py (generators, recorder, comparison)",
                               "np.cos / np.sin as recorded tables (oracles)",
                               "np.quantile as a recorded table whose contract (linear-interpolated order statistic of the model's projection) is re-checked per case in Coq"]
    ctx.assumptions += ["theorems are over exact reals; binary64 rounding of the vertex formulas is modelled (bit-exact correspondence), not bounded",
                        "oracle contract quantile_def: np.quantile(z, p) = s_k + (h-k)(s_{k+1}-s_k), h=(n-1)p, k=floor h, s = sorted z",
                        "deg_step divides 360 (N*deg_step = 360, N >= 3)"]
