(* Hand-written models of the few distribution functions outside the translator's subset; each is tied
   to the code by the correspondence runs of C05/C07/C11/C12 (tools/harness/_dist.py). *)
From Coq Require Import List String Bool ZArith.
From V.base Require Import Num.
From V.gen Require Import Distributions.
Import ListNotations.
Set Implicit Arguments.

Section Gen.
  Context {T : Type} (N : NumOps T).

  (* ExponentiatedWeibullDistribution.pdf: x <= 0 (and NaN results) give 0, otherwise scipy's pdf with the same map *)
  Definition EW_pdf_guard (x : T) : bool := n_ltb N (n_Z N 0) x.
  Definition EW_pdf (sts : call T -> T -> T) (self : ExponentiatedWeibullDistribution) (x : T) (a b d : option T) : T :=
    let '(p1, p2, p3, p4) := ExponentiatedWeibullDistribution__get_scipy_parameters N self a b d in
    if EW_pdf_guard x then sts (mkcall "exponweib" "pdf" [p1; p2; p3; p4]) x else n_Z N 0.

  (* LogNormalNormFitDistribution._fit_mle: closed form (sample mean / sample std), fixed values win *)
  Definition NF_fit_mle (mean std : T) (self : LogNormalNormFitDistribution) : LogNormalNormFitDistribution :=
    {| LogNormalNormFitDistribution_mu_norm := match LogNormalNormFitDistribution_f_mu_norm self with None => mean | Some v => v end;
       LogNormalNormFitDistribution_sigma_norm := match LogNormalNormFitDistribution_f_sigma_norm self with None => std | Some v => v end;
       LogNormalNormFitDistribution_f_mu_norm := LogNormalNormFitDistribution_f_mu_norm self;
       LogNormalNormFitDistribution_f_sigma_norm := LogNormalNormFitDistribution_f_sigma_norm self |}.
End Gen.

(* Distribution.fit dispatch on the (lower-cased) method keyword *)
Inductive fit_route := RouteMLE | RouteLSQ | RouteValueError.
Definition fit_dispatch (method_lower : string) : fit_route :=
  if String.eqb method_lower "mle" then RouteMLE
  else if String.eqb method_lower "lsq" || String.eqb method_lower "wlsq" then RouteLSQ
  else RouteValueError.

(* Distribution._get_rvs_size: (n, len of the LAST iterable parameter) if any parameter is iterable, else n *)
Definition rvs_size (n : nat) (par_lengths : list (option nat)) : nat * option nat :=
  match fold_left (fun acc p => match p with Some l => Some l | None => acc end) par_lengths None with
  | Some l => (n, Some l)
  | None => (n, None)
  end.
