(* C02 -- the highest-density contour encloses the highest-density region of content 1-alpha.
   Property theorems only; the model is model/Hdc.v (the same generic definitions are run at binary64 by the
   correspondence check), proofs in proofs/HdcProofs.v, HdcArrayProofs.v, HdcRProofs.v.
   Exact arithmetic (R); "cells" are flat row-major indices k of the cell-probability array a,
   cellp a k its k-th entry, lim = 1 - alpha, sel the selected (enclosed) cells. *)
From Coq Require Import Reals List Bool ZArith Lra Lia PrimFloat.
From V.model Require Import Hdc.
From V.proofs Require Import HdcProofs HdcArrayProofs HdcRProofs.
Import ListNotations.
Local Open Scope R_scope.

(* the enclosed cells: each a cell of the grid, none twice, and a prefix of the stable descending order *)
Theorem C02_region_cells : forall a lim sel lastv warn, nonnegR a -> Rcbu a lim = CbuOk sel lastv warn ->
  NoDup sel /\ (forall k, In k sel -> in_range a k) /\ exists n, sel = map snd (firstn n (argsort_desc R Rleb a)).
Proof. exact region_cells_R. Qed.

(* total cell probability of the enclosed region is at most 1 - alpha *)
Theorem C02_content_at_most_limit : forall a lim sel lastv warn, nonnegR a -> Rcbu a lim = CbuOk sel lastv warn ->
  sumR a sel <= lim.
Proof. exact (fun a lim sel lastv warn Hn => content_le_limit a lim Hn sel lastv warn). Qed.

(* ... and misses 1 - alpha by less than the probability of the densest excluded cell *)
Theorem C02_misses_by_less_than_densest_excluded : forall a lim sel lastv warn, nonnegR a -> Rcbu a lim = CbuOk sel lastv warn ->
  forall k, in_range a k -> ~ In k sel ->
  exists e, in_range a e /\ ~ In e sel /\
            (forall k', in_range a k' -> ~ In k' sel -> cellp a k' <= cellp a e) /\
            lim - sumR a sel < cellp a e.
Proof. exact (fun a lim sel lastv warn Hn => misses_by_less_than_densest_excluded a lim Hn sel lastv warn). Qed.

(* every enclosed cell is at least as dense as every excluded cell *)
Theorem C02_enclosed_at_least_as_dense : forall a lim sel lastv warn, nonnegR a -> Rcbu a lim = CbuOk sel lastv warn ->
  forall c e, In c sel -> in_range a e -> ~ In e sel -> cellp a e <= cellp a c.
Proof. exact (fun a lim sel lastv warn Hn => enclosed_denser a lim Hn sel lastv warn). Qed.

(* the reported value is the probability of the last selected cell, which is the least probable enclosed cell;
   fm = prob_m / prod(deltas) is that cell's DENSITY (cell_prob = f * prod(deltas)), and densities are ordered
   like probabilities *)
Theorem C02_fm_is_least_dense_enclosed : forall f deltas lim sel lastv warn,
  Forall (fun d => 0 < d) deltas -> nonnegR (scale_cells R Rmult f deltas) ->
  Rcbu (scale_cells R Rmult f deltas) lim = CbuOk sel lastv warn ->
  exists k, In k sel /\ last sel 0%Z = k /\
            fm_of R Rdiv lastv deltas = nth (Z.to_nat k) f 0 /\
            forall c, In c sel -> nth (Z.to_nat k) f 0 <= nth (Z.to_nat c) f 0.
Proof. exact fm_is_least_dense_enclosed. Qed.

(* the enclosed region is the super-level set {p >= p_m} -- exactly, unless an excluded cell ties with the
   threshold; a tying excluded cell has exactly the threshold probability *)
Theorem C02_region_is_superlevel_set : forall a lim sel lastv warn, nonnegR a -> Rcbu a lim = CbuOk sel lastv warn ->
  (forall k, in_range a k -> (In k sel -> lastv <= cellp a k) /\ (~ In k sel -> lastv <= cellp a k -> cellp a k = lastv)) /\
  ((forall e, in_range a e -> ~ In e sel -> cellp a e <> lastv) -> forall k, in_range a k -> (In k sel <-> lastv <= cellp a k)).
Proof. exact superlevel_set_R. Qed.

(* summed_fields has the shape of the input; the entry at a multi-index is set iff its row-major position was selected *)
Theorem C02_mask_positions : forall sh sel idx, in_shape sh idx ->
  length (mask_of (prod sh) sel) = prod sh /\
  (nth (ravel sh idx) (mask_of (prod sh) sel) false = true <-> In (Z.of_nat (ravel sh idx)) sel) /\
  unravel sh (ravel sh idx) = idx.
Proof. exact mask_positions. Qed.

(* if the grid cannot capture 1 - alpha: flag set (the RuntimeWarning is raised again), whole grid returned, prob_m = 0;
   otherwise the mask of the selection and its last summed value *)
Theorem C02_warning_when_unreachable : forall cp lim m pm w, nonnegR cp -> Rhdr cp lim = HdrOk m pm w ->
  (w = true <-> sum_all cp < lim) /\
  (w = true -> m = map (fun _ => true) cp /\ pm = 0) /\
  (w = false -> exists sel, Rcbu cp lim = CbuOk sel pm false /\ m = mask_of (length cp) sel).
Proof. exact hdr_fallback. Qed.

(* cell probabilities are the documented CDF differences, for EVERY multi-index and any number of dimensions,
   provided each variable is conditional on an earlier one; cdfv_pointwise is the oracle contract of the
   distributions' vectorised cdf *)
Section CellProbabilities.
  Variable cdfv : nat -> option R -> list R -> list R.
  Variable cdf1 : nat -> option R -> R -> R.
  Hypothesis cdfv_pointwise : forall d g xs, cdfv d g xs = map (cdf1 d g) xs.

  Theorem C02_cell_probabilities : forall cond coords deltas idx,
    Forall (fun c => (0 < length c)%nat) coords ->
    (forall d ci, nth d cond None = Some ci -> (ci < d)%nat) ->
    deltas = map (dx_of R 0 Rminus) coords -> Forall (fun d => d <> 0) deltas ->
    in_shape (grid_shape coords) idx ->
    a_shape (Rjoint cdfv cond coords) = grid_shape coords /\
    length (cell_prob cdfv cond coords deltas) = prod (grid_shape coords) /\
    nth (ravel (grid_shape coords) idx) (cell_prob cdfv cond coords deltas) 0
      = prodR (map (cdf_difference cdf1 cond coords idx) (seq 0 (length coords))).
  Proof. exact (fun cond coords deltas idx A B C D => cell_probability cdfv cdf1 cdfv_pointwise cond coords deltas A B C D idx). Qed.
End CellProbabilities.

(* the same statement for any number type (no algebraic law is used): the binary64 array computed by the
   correspondence check holds, at every multi-index, the left-to-right product of the per-dimension factors *)
Section CellProbabilitiesGeneric.
  Variable T : Type.
  Variables zero one half : T.
  Variables add sub mul div : T -> T -> T.
  Variable cdfv : nat -> option T -> list T -> list T.
  Variable cdf1 : nat -> option T -> T -> T.
  Hypothesis cdfv_pointwise : forall d g xs, cdfv d g xs = map (cdf1 d g) xs.

  Theorem C02_joint_pdf_entries : forall cond coords idx,
    Forall (fun c => (0 < length c)%nat) coords ->
    (forall d ci, nth d cond None = Some ci -> (ci < d)%nat) ->
    in_shape (map (@length T) coords) idx ->
    a_shape (cell_averaged_joint_pdf T zero one half add sub mul div cdfv cond coords) = map (@length T) coords /\
    length (a_data (cell_averaged_joint_pdf T zero one half add sub mul div cdfv cond coords)) = prod (map (@length T) coords) /\
    aget zero (cell_averaged_joint_pdf T zero one half add sub mul div cdfv cond coords) idx
      = factor_product T zero half add sub mul div cdf1 cond coords (seq 0 (length coords)) idx one.
  Proof. exact (fun cond coords idx A B => joint_spec T zero one half add sub mul div cdfv cdf1 cdfv_pointwise cond coords A B idx). Qed.
End CellProbabilitiesGeneric.

(* error branches of cumsum_biggest_until: ValueError iff the array holds a nan (any number type); IndexError iff the
   array is empty or the densest cell alone exceeds the limit (lead L14: then nothing can be enclosed) *)
Theorem C02_error_branches :
  (forall (T : Type) (zero : T) (add : T -> T -> T) (leb ltb : T -> T -> bool) (isnan : T -> bool) a lim,
     cumsum_biggest_until T zero add leb ltb isnan a lim = CbuNan <-> existsb isnan a = true) /\
  (forall a lim, nonnegR a ->
     (Rcbu a lim = CbuIndexError <-> a = [] \/ exists k, in_range a k /\ lim < cellp a k)).
Proof. exact (conj (fun T zero add leb ltb isnan a lim => proj1 (cbu_error_cases T zero add leb ltb isnan a lim)) index_error_iff). Qed.

(* _compute up to HDR and fm IS the selection on the cell probabilities with limit 1 - alpha: without warning the mask of
   the selected cells and fm = prob_m / prod(deltas), so that all theorems above apply to what _compute returns;
   with the warning the whole grid and fm = 0 *)
Theorem C02_compute_is_selection : forall cdfv cond coords deltas alpha m pm fm,
  Forall (fun c => (2 <= length c)%nat) coords ->
  nonnegR (cell_prob cdfv cond coords deltas) ->
  (Rregion cdfv cond coords deltas alpha = (HdrOk m pm false, fm) ->
     exists sel, Rcbu (cell_prob cdfv cond coords deltas) (1 - alpha) = CbuOk sel pm false /\
                 m = mask_of (length (cell_prob cdfv cond coords deltas)) sel /\
                 fm = fm_of R Rdiv pm deltas /\ ~ (sum_all (cell_prob cdfv cond coords deltas) < 1 - alpha)) /\
  (Forall (fun d => d <> 0) deltas -> Rregion cdfv cond coords deltas alpha = (HdrOk m pm true, fm) ->
     sum_all (cell_prob cdfv cond coords deltas) < 1 - alpha /\
     m = map (fun _ => true) (cell_prob cdfv cond coords deltas) /\ fm = 0).
Proof.
  exact (fun cdfv cond coords deltas alpha m pm fm H2 Hn =>
           conj (region_ok cdfv cond coords deltas alpha H2 m pm fm Hn)
                (fun Hd => region_warned cdfv cond coords deltas alpha H2 m pm fm Hn Hd)).
Qed.

(* a grid axis with fewer than two cells (e.g. a non-positive cell size): IndexError, nothing is returned *)
Theorem C02_short_axis_is_an_error : forall cdfv cond coords deltas alpha,
  Exists (fun c : list R => (length c < 2)%nat) coords ->
  Rregion cdfv cond coords deltas alpha = (HdrIndexError, 0).
Proof. exact region_short_axis. Qed.

(* a grid start + i*delta (arange in exact arithmetic) has spacing dx = delta: the hypothesis `deltas = map dx_of coords`
   of C02_cell_probabilities holds for it *)
Theorem C02_equidistant_grid_spacing : forall start delta n, (2 <= n)%nat ->
  length (Rgrid start delta n) = n /\ dx_of R 0 Rminus (Rgrid start delta n) = delta.
Proof. exact (fun start delta n H => conj (Rgrid_length start delta n) (Rgrid_spacing start delta n H)). Qed.

(* the binary64 entry points run against the implementation ARE the generic model *)
Theorem C02_float_entry_points :
  f_cbu = cumsum_biggest_until float 0%float PrimFloat.add PrimFloat.leb PrimFloat.ltb fisnan /\
  f_hdr_select = hdr_select float 0%float PrimFloat.add PrimFloat.leb PrimFloat.ltb fisnan /\
  f_joint = cell_averaged_joint_pdf float 0%float 1%float 0.5%float PrimFloat.add PrimFloat.sub PrimFloat.mul PrimFloat.div /\
  f_region = hdc_region float 0%float 1%float 0.5%float PrimFloat.add PrimFloat.sub PrimFloat.mul PrimFloat.div
                        PrimFloat.leb PrimFloat.ltb fisnan.
Proof. exact float_entry_points. Qed.

(* non-vacuity: three cells, limit 4/5: cells 1 and 0 are enclosed, cell 2 is excluded, no warning *)
Example C02_nonvacuous :
  let a := [1/4; 1/2; 1/8] in
  nonnegR a /\ Rcbu a (4/5) = CbuOk [1%Z; 0%Z] (1/4) false /\ in_range a 2%Z /\ ~ In 2%Z [1%Z; 0%Z].
Proof.
  simpl. split; [repeat constructor; lra|]. split; [|split; [unfold in_range; simpl; lia|intros [H|[H|[]]]; discriminate]].
  unfold Rcbu, cumsum_biggest_until, cums, argsort_desc, Rnan. simpl.
  unfold Rleb, Rltb. repeat (destruct (Rle_dec _ _); try lra; simpl).
  all: repeat (destruct (Rlt_dec _ _); try lra; simpl); try reflexivity.
Qed.

Print Assumptions C02_region_cells.
Print Assumptions C02_content_at_most_limit.
Print Assumptions C02_misses_by_less_than_densest_excluded.
Print Assumptions C02_enclosed_at_least_as_dense.
Print Assumptions C02_fm_is_least_dense_enclosed.
Print Assumptions C02_region_is_superlevel_set.
Print Assumptions C02_mask_positions.
Print Assumptions C02_warning_when_unreachable.
Print Assumptions C02_cell_probabilities.
Print Assumptions C02_joint_pdf_entries.
Print Assumptions C02_float_entry_points.
Print Assumptions C02_error_branches.
Print Assumptions C02_compute_is_selection.
Print Assumptions C02_equidistant_grid_spacing.
Print Assumptions C02_short_axis_is_an_error.
