(* C15, line sorter: for ANY adjacency structure on the points (the k-nearest-neighbour graph is an oracle) and any
   distance function, the walk of model/Sorter.v terminates within fuel_bound steps and returns every point
   exactly once (a permutation of the input), starting at the chosen start node. *)
From Coq Require Import List Bool Arith Lia Permutation.
From V.model Require Import Hdc Sorter.
Import ListNotations.

Section SorterProofs.
  Variable V : Type.
  Variable veqb : V -> V -> bool.
  Hypothesis veqb_spec : forall a b, veqb a b = true <-> a = b.
  Variable T : Type.
  Variable ltb : T -> T -> bool.
  Variable inf : T.
  Variable tsum : list T -> T.
  Variable nodes : list V.
  Variable adj : V -> list V.
  Variable d2 : V -> V -> T.
  Hypothesis nodes_nodup : NoDup nodes.
  (* oracle contract of the neighbour graph: neighbours of a point are points *)
  Hypothesis adj_in : forall v w, In v nodes -> In w (adj v) -> In w nodes.

  Notation mem := (mem V veqb).
  Notation dfs := (dfs V veqb adj).
  Notation unvisited := (unvisited V veqb nodes).
  Notation sweep := (sweep V veqb T ltb nodes adj d2).
  Notation path := (path V veqb T ltb nodes adj d2).
  Notation argmin := (argmin V T ltb).

  Lemma mem_spec v l : mem v l = true <-> In v l.
  Proof.
    unfold Sorter.mem. rewrite existsb_exists. split.
    - intros [x [H E]]. apply veqb_spec in E. now subst.
    - intros H. exists v. split; auto. apply veqb_spec. reflexivity.
  Qed.
  Lemma mem_false v l : mem v l = false <-> ~ In v l.
  Proof. rewrite <- mem_spec. destruct (mem v l); split; intros H; try congruence; try (exfalso; apply H; reflexivity). Qed.

  (* ---- one depth-first walk *)
  Lemma dfs_spec : forall fuel stack visited r, dfs fuel stack visited = Some r ->
    NoDup visited -> (forall v, In v stack -> In v nodes) -> (forall v, In v visited -> In v nodes) ->
    NoDup r /\ (exists new, r = new ++ visited) /\ (forall v, In v stack -> In v r) /\ (forall v, In v r -> In v nodes).
  Proof.
    induction fuel as [|f IH]; intros stack visited r H ND Hs Hv; [discriminate|].
    simpl in H. destruct stack as [|v st].
    - inversion H; subst. repeat split; auto. exists []. reflexivity. intros ? [].
    - destruct (mem v visited) eqn:E.
      + destruct (IH _ _ _ H ND) as [A [[new B] [C D]]]; auto. { intros x Hx. apply Hs. right. exact Hx. }
        repeat split; auto. { exists new. exact B. }
        intros x [<-|Hx]; auto. rewrite B. apply in_or_app. right. now apply mem_spec.
      + assert (Hnv : ~ In v visited) by (apply mem_false; exact E).
        destruct (IH _ _ _ H) as [A [[new B] [C D]]].
        * constructor; auto.
        * intros x Hx. apply in_app_or in Hx. destruct Hx as [Hx|Hx]; [eapply adj_in; [|exact Hx]; apply Hs; left; reflexivity|apply Hs; right; exact Hx].
        * intros x [<-|Hx]; auto. apply Hs. left. reflexivity.
        * repeat split; auto.
          -- exists (new ++ [v]). rewrite B. rewrite <- app_assoc. reflexivity.
          -- intros x [<-|Hx]. { rewrite B. apply in_or_app. right. left. reflexivity. } apply C. apply in_or_app. right. exact Hx.
  Qed.

  (* ---- fuel: every step pops one stack entry; visiting v pushes its neighbours once *)
  Definition W (l : list V) : nat := fold_right (fun v s => S (length (adj v)) + s) 0 l.

  Lemma W_filter_le p : forall l, W (filter p l) <= W l.
  Proof. induction l as [|x l IH]; simpl; auto. destruct (p x); simpl; lia. Qed.

  Lemma W_remove p v : forall l, NoDup l -> In v l -> p v = true ->
    W (filter (fun x => p x && negb (veqb x v)) l) + S (length (adj v)) = W (filter p l).
  Proof.
    induction l as [|x l IH]; intros ND Hin Hp; simpl in *; [contradiction|]. inversion ND; subst.
    destruct Hin as [->|Hin].
    - rewrite Hp. assert (E : veqb v v = true) by (apply veqb_spec; reflexivity). rewrite E. simpl.
      assert (F : filter (fun x => p x && negb (veqb x v)) l = filter p l).
      { apply filter_ext_in. intros y Hy. destruct (veqb y v) eqn:Ey; [apply veqb_spec in Ey; subst; contradiction|].
        rewrite andb_true_r. reflexivity. }
      rewrite F. lia.
    - assert (E : veqb x v = false).
      { destruct (veqb x v) eqn:Ex; auto. apply veqb_spec in Ex. subst. contradiction. }
      rewrite E. simpl. rewrite andb_true_r. destruct (p x); simpl; rewrite <- (IH H2 Hin Hp); lia.
  Qed.

  Lemma unvisited_cons v visited :
    unvisited (v :: visited) = filter (fun x => negb (mem x visited) && negb (veqb x v)) nodes.
  Proof.
    unfold Sorter.unvisited. apply filter_ext. intros x. unfold Sorter.mem. simpl.
    rewrite negb_orb. apply andb_comm.
  Qed.

  Lemma dfs_fuel : forall fuel stack visited, (forall v, In v stack -> In v nodes) ->
    length stack + W (unvisited visited) < fuel -> exists r, dfs fuel stack visited = Some r.
  Proof.
    induction fuel as [|f IH]; intros stack visited Hs Hf; [lia|].
    simpl. destruct stack as [|v st]; [eauto|]. simpl in Hf.
    destruct (mem v visited) eqn:E.
    - apply IH; [intros x Hx; apply Hs; right; exact Hx|lia].
    - assert (Hv : In v nodes) by (apply Hs; left; reflexivity).
      apply IH.
      + intros x Hx. apply in_app_or in Hx. destruct Hx as [Hx|Hx]; [eapply adj_in; eauto|apply Hs; right; exact Hx].
      + rewrite unvisited_cons. rewrite app_length.
        pose proof (W_remove (fun x => negb (mem x visited)) v nodes nodes_nodup Hv) as HW.
        cbv beta in HW. rewrite E in HW. specialize (HW eq_refl). unfold Sorter.unvisited in Hf. lia.
  Qed.

  (* ---- the restart loop *)
  Lemma argmin_in f : forall cs c, In (argmin f c cs) (c :: cs).
  Proof.
    unfold Sorter.argmin. induction cs as [|x cs IH]; intros c; simpl; auto.
    destruct (IH (if ltb (f x) (f c) then x else c)) as [H|H]; auto.
    destruct (ltb (f x) (f c)); rewrite <- H; auto.
  Qed.

  Lemma unvisited_in visited x : In x (unvisited visited) <-> In x nodes /\ ~ In x visited.
  Proof. unfold Sorter.unvisited. rewrite filter_In. rewrite negb_true_iff, mem_false. tauto. Qed.

  Lemma filter_length_lt {A} (p q : A -> bool) : forall l x, (forall y, q y = true -> p y = true) ->
    In x l -> p x = true -> q x = false -> length (filter q l) < length (filter p l).
  Proof.
    induction l as [|y l IH]; intros x Hpq Hin Hp Hq; simpl in *; [contradiction|].
    assert (Hle : forall l', length (filter q l') <= length (filter p l')).
    { induction l' as [|z l' IH']; simpl; auto. destruct (q z) eqn:Ez; [rewrite (Hpq z Ez); simpl; lia|destruct (p z); simpl; lia]. }
    destruct Hin as [->|Hin].
    - rewrite Hp, Hq. simpl. specialize (Hle l). lia.
    - specialize (IH x Hpq Hin Hp Hq). destruct (q y) eqn:Ey; [rewrite (Hpq y Ey); simpl; lia|destruct (p y); simpl; lia].
  Qed.

  Lemma sweep_spec fuel : 1 + W nodes < fuel -> forall k visited,
    NoDup visited -> (forall v, In v visited -> In v nodes) -> length (unvisited visited) <= k ->
    exists r, sweep k fuel visited = Some r /\ NoDup r /\ (forall v, In v r -> In v nodes) /\
              unvisited r = [] /\ exists new, r = new ++ visited.
  Proof.
    intros Hfuel. induction k as [|k IH]; intros visited ND Hv Hk.
    - simpl. destruct (unvisited visited) eqn:E; [|simpl in Hk; lia].
      exists visited. repeat split; auto. exists []. reflexivity.
    - simpl. destruct (unvisited visited) as [|c cs] eqn:E.
      + exists visited. repeat split; auto. exists []. reflexivity.
      + set (s := argmin (d2 (hd c visited)) c cs).
        assert (Hs : In s (unvisited visited)) by (rewrite E; apply argmin_in).
        apply unvisited_in in Hs. destruct Hs as [Hsn Hsv].
        destruct (dfs_fuel fuel [s] visited) as [v' Hd].
        { intros x [<-|[]]. exact Hsn. }
        { simpl. pose proof (W_filter_le (fun v => negb (mem v visited)) nodes). unfold Sorter.unvisited. lia. }
        rewrite Hd. destruct (dfs_spec _ _ _ _ Hd ND) as [A [[new B] [C D]]]; auto.
        { intros x [<-|[]]. exact Hsn. }
        destruct (IH v' A D) as [r [R1 [R2 [R3 [R4 [new' R5]]]]]].
        { assert (Hlt : length (unvisited v') < length (unvisited visited)).
          { unfold Sorter.unvisited. apply (filter_length_lt _ _ nodes s); auto.
            - intros y Hy. apply negb_true_iff in Hy. apply negb_true_iff. apply mem_false. apply mem_false in Hy.
              intro Hc. apply Hy. rewrite B. apply in_or_app. right. exact Hc.
            - apply negb_true_iff. apply mem_false. exact Hsv.
            - apply negb_false_iff. apply mem_spec. apply C. left. reflexivity. }
          rewrite E in Hlt. simpl in Hlt. simpl in Hk. lia. }
        exists r. repeat split; auto. exists (new' ++ new). rewrite R5, B. rewrite app_assoc. reflexivity.
  Qed.

  (* ---- a complete walk from a start node *)
  Lemma fuel_bound_enough : 1 + W nodes < fuel_bound V nodes adj.
  Proof.
    unfold fuel_bound, W. assert (G : forall l, fold_right (fun v s => S (length (adj v)) + s) 0 l
                                    = length l + fold_right (fun v s => length (adj v) + s) 0 l).
    { induction l as [|x l IH]; simpl in *; auto. rewrite IH. lia. }
    rewrite G. lia.
  Qed.

  Theorem path_permutation fuel start : 1 + W nodes < fuel -> In start nodes ->
    exists r, path fuel start = Some r /\ Permutation r nodes /\ exists tl, r = start :: tl.
  Proof.
    intros Hfuel Hst. unfold Sorter.path.
    destruct (dfs_fuel fuel [start] []) as [v Hd].
    { intros x [<-|[]]. exact Hst. }
    { simpl. pose proof (W_filter_le (fun v => negb (mem v [])) nodes). unfold Sorter.unvisited. lia. }
    rewrite Hd.
    assert (Hfirst : exists new, v = new ++ [start]).
    { destruct fuel as [|f]; [lia|]. simpl in Hd.
      destruct (dfs_spec _ _ _ _ Hd) as [_ [[new B] _]].
      - repeat constructor. intros [].
      - intros x Hx. apply in_app_or in Hx. destruct Hx as [Hx|[]]. eapply adj_in; eauto.
      - intros x [<-|[]]. exact Hst.
      - exists new. exact B. }
    destruct (dfs_spec _ _ _ _ Hd) as [A [_ [_ D]]]; [constructor| |intros ? []|].
    { intros x [<-|[]]. exact Hst. }
    destruct (sweep_spec fuel Hfuel (length nodes) v A D) as [r [R1 [R2 [R3 [R4 [new' R5]]]]]].
    { unfold Sorter.unvisited. clear. induction nodes as [|x l IH]; simpl; auto. destruct (negb (mem x v)); simpl; lia. }
    rewrite R1. simpl. exists (rev r). split; [reflexivity|]. split.
    - apply NoDup_Permutation; [apply NoDup_rev; exact R2|exact nodes_nodup|].
      intros x. rewrite <- in_rev. split; [apply R3|]. intros Hx.
      destruct (mem x r) eqn:Em; [apply mem_spec; exact Em|]. apply mem_false in Em. rename Em into Hn.
      exfalso. assert (Hu : In x (unvisited r)) by (apply unvisited_in; auto). rewrite R4 in Hu. exact Hu.
    - destruct Hfirst as [new ->]. rewrite R5. rewrite app_assoc. rewrite rev_app_distr. simpl. eauto.
  Qed.

  (* ---- the start chosen by search_for_optimal_start is a point; the result is a permutation either way *)
  Lemma best_start_in fuel : 1 + W nodes < fuel -> forall cands mind best,
    (forall v, In v cands -> In v nodes) -> In best nodes ->
    exists s, best_start V veqb T ltb tsum nodes adj d2 fuel cands mind best = Some s /\ In s nodes.
  Proof.
    intros Hfuel. induction cands as [|i cs IH]; intros mind best Hc Hb; simpl; [eauto|].
    destruct (path_permutation fuel i Hfuel) as [p [Hp _]]; [apply Hc; left; reflexivity|].
    rewrite Hp. destruct (ltb _ mind); apply IH; auto; try (intros v Hv; apply Hc; right; exact Hv).
    apply Hc. left. reflexivity.
  Qed.

  Theorem sort_points_permutation search :
    exists r, sort_points V veqb T ltb inf tsum nodes adj d2 search (fuel_bound V nodes adj) = Some r /\ Permutation r nodes.
  Proof.
    unfold sort_points. pose proof fuel_bound_enough as Hf.
    destruct nodes as [|first rest] eqn:En; [exists []; split; [reflexivity|constructor]|]. rewrite <- En in *.
    assert (Hfirst : In first nodes) by (rewrite En; left; reflexivity).
    destruct search.
    - destruct (best_start_in _ Hf nodes inf first (fun v H => H) Hfirst) as [s [Hs Hin]]. rewrite Hs.
      destruct (path_permutation _ s Hf Hin) as [r [Hr [Hp _]]]. eauto.
    - destruct (path_permutation _ first Hf Hfirst) as [r [Hr [Hp _]]]. eauto.
  Qed.

  (* without the search the walk starts at the first point *)
  Theorem sort_points_starts_at_first first rest : nodes = first :: rest ->
    exists tl, sort_points V veqb T ltb inf tsum nodes adj d2 false (fuel_bound V nodes adj) = Some (first :: tl).
  Proof.
    intros En. pose proof fuel_bound_enough as Hf.
    destruct (path_permutation _ first Hf) as [r [Hr [_ [tl ->]]]]; [rewrite En; left; reflexivity|].
    exists tl. rewrite <- Hr. unfold sort_points. rewrite En. reflexivity.
  Qed.

  (* the returned coordinates are the input points, each exactly once *)
  Corollary sorted_points_are_the_points {P} (pt : V -> P) search r :
    sort_points V veqb T ltb inf tsum nodes adj d2 search (fuel_bound V nodes adj) = Some r ->
    Permutation (map pt r) (map pt nodes).
  Proof.
    intros H. destruct (sort_points_permutation search) as [r' [H' Hp]]. rewrite H in H'. inversion H'; subst.
    apply Permutation_map. exact Hp.
  Qed.
End SorterProofs.

(* ------------------------------------------------------------------ the binary64 entry point *)
From Coq Require Import ZArith PrimFloat.

Lemma znodes_in n v : In v (znodes n) <-> (0 <= v < Z.of_nat n)%Z.
Proof.
  unfold znodes. rewrite in_map_iff. split.
  - intros [i [<- Hi]]. apply in_seq in Hi. lia.
  - intros H. exists (Z.to_nat v). split; [lia|]. apply in_seq. lia.
Qed.
Lemma znodes_nodup n : NoDup (znodes n).
Proof. unfold znodes. apply FinFun.Injective_map_NoDup; [intros x y; lia|apply seq_NoDup]. Qed.

Lemma dedupZ_in : forall l seen x, In x (dedupZ l seen) -> In x l.
Proof.
  induction l as [|y l IH]; intros seen x H; simpl in *; [contradiction|].
  destruct (existsb (Z.eqb y) seen); [right; eapply IH; eauto|].
  destruct H as [<-|H]; [left; reflexivity|right; eapply IH; eauto].
Qed.

(* rows of the kNN lists name points: then so do the adjacency lists built from them *)
Definition knn_in_range (nbr : list (list Z)) : Prop :=
  forall row j, In row nbr -> In j row -> (0 <= j < Z.of_nat (length nbr))%Z.

Lemma edge_stream_in nbr a b : knn_in_range nbr -> In (a, b) (edge_stream nbr) ->
  (0 <= a < Z.of_nat (length nbr))%Z /\ (0 <= b < Z.of_nat (length nbr))%Z.
Proof.
  intros Hr H. unfold edge_stream in H. apply in_flat_map in H. destruct H as [[i row] [Hin Hm]].
  apply in_map_iff in Hm. destruct Hm as [j [E Hj]]. simpl in E. inversion E; subst.
  pose proof (in_combine_l _ _ _ _ Hin) as Hi. pose proof (in_combine_r _ _ _ _ Hin) as Hrow.
  apply in_map_iff in Hi. destruct Hi as [k [<- Hk]]. apply in_seq in Hk. split; [lia|]. apply (Hr row b Hrow Hj).
Qed.

Lemma adj_table_in nbr v w : knn_in_range nbr -> In w (nth (Z.to_nat v) (adj_table nbr) []) ->
  (0 <= w < Z.of_nat (length nbr))%Z.
Proof.
  intros Hr H. unfold adj_table in H.
  destruct (Nat.lt_ge_cases (Z.to_nat v) (length nbr)) as [Hv|Hv].
  - rewrite (nth_indep _ [] (adj_of (edge_stream nbr) (Z.of_nat 0))) in H by (rewrite map_length, seq_length; exact Hv).
    rewrite (map_nth (fun i => adj_of (edge_stream nbr) (Z.of_nat i))) in H.
    unfold adj_of in H. apply dedupZ_in in H. apply in_flat_map in H. destruct H as [[a b] [He Hw]]. simpl in Hw.
    destruct (edge_stream_in nbr a b Hr He) as [Ha Hb].
    destruct (Z.eqb a _); [destruct Hw as [<-|[]]; exact Hb|].
    destruct (Z.eqb b _); [destruct Hw as [<-|[]]; exact Ha|contradiction].
  - rewrite nth_overflow in H by (rewrite map_length, seq_length; exact Hv). contradiction.
Qed.

Theorem f_sort_points_permutation xs ys nbr search : length nbr = length xs -> knn_in_range nbr ->
  exists r, f_sort_points xs ys nbr search = Some r /\ Permutation r (znodes (length xs)).
Proof.
  intros Hl Hr. unfold f_sort_points.
  apply (sort_points_permutation Z Z.eqb Z.eqb_eq float PrimFloat.ltb infinity np_sum (znodes (length xs))
           (fun v => nth (Z.to_nat v) (adj_table nbr) []) (fd2 xs ys) (znodes_nodup _)).
  intros v w _ Hw. apply znodes_in. rewrite <- Hl. apply (adj_table_in nbr v w Hr Hw).
Qed.

(* ------------------------------------------------------------------ the coordinates of a single 2-D region *)
Lemma nth_map_seq {A B} (f : A -> B) : forall l i d d', i < length l -> nth i (map f l) d = f (nth i l d').
Proof. induction l as [|x l IH]; intros i d d' H; simpl in *; [lia|]. destruct i; auto. apply IH. lia. Qed.

Lemma take_rows_znodes p : take_rows p (znodes (length p)) = p.
Proof.
  unfold take_rows, znodes. rewrite map_map.
  apply (nth_ext _ _ [] []); [rewrite map_length, seq_length; reflexivity|].
  intros i Hi. rewrite map_length, seq_length in Hi.
  rewrite (nth_map_seq _ _ i [] 0) by (rewrite seq_length; exact Hi). rewrite seq_nth by exact Hi.
  simpl. rewrite Nat2Z.id. reflexivity.
Qed.

Theorem single_region_line sh labels coords nbr pts :
  map (region_coords nan sh coords) (regions labels 1) = [pts] ->
  length nbr = length pts -> knn_in_range nbr ->
  exists line, f_hdc_coordinates 2 sh labels 1 coords nbr = FOne line /\ Permutation line pts.
Proof.
  intros Hs Hl Hr. unfold f_hdc_coordinates. rewrite Hs. simpl.
  destruct (f_sort_points_permutation (column 0 pts) (column 1 pts) nbr true) as [r [Hf Hp]]; auto.
  { unfold column. rewrite map_length. exact Hl. }
  rewrite Hf. exists (take_rows pts r). split; [reflexivity|].
  unfold column in Hp. rewrite map_length in Hp.
  rewrite <- (take_rows_znodes pts) at 2. unfold take_rows. apply Permutation_map. exact Hp.
Qed.

Theorem other_regions_unsorted n_dim sh labels n_modes coords nbr :
  (n_dim <> 2 \/ n_modes <> 1) ->
  f_hdc_coordinates n_dim sh labels n_modes coords nbr =
    match map (region_coords nan sh coords) (regions labels n_modes) with
    | [pts] => FOne pts
    | sets => FMany sets
    end.
Proof.
  intros H. unfold f_hdc_coordinates, dispatch, regions. rewrite map_map.
  destruct n_modes as [|[|m]]; simpl.
  - reflexivity.
  - destruct H as [H|H]; [|congruence]. destruct (n_dim =? 2) eqn:E; [apply Nat.eqb_eq in E; congruence|reflexivity].
  - rewrite <- seq_shift. simpl. destruct (seq 1 m); reflexivity.
Qed.

(* the walk before the repair is not a permutation: two triples of points, 2-NN graph with two components *)
Theorem unrepaired_sorter_refuted :
  exists nbr, knn_in_range nbr /\ length nbr = 6 /\ unrepaired_path nbr 0%Z = Some [0; 1; 2]%Z.
Proof.
  exists [[1; 2]; [0; 2]; [1; 0]; [4; 5]; [3; 5]; [4; 3]]%Z. split; [|split; [reflexivity|vm_compute; reflexivity]].
  intros row j Hr Hj. simpl in Hr. simpl. repeat (destruct Hr as [<-|Hr]; [simpl in Hj; lia|]). contradiction.
Qed.

(* ------------------------------------------------------------------ the graph built from the kNN lists is undirected *)
Lemma dedupZ_spec : forall l seen x, In x (dedupZ l seen) <-> In x l /\ ~ In x seen.
Proof.
  induction l as [|y l IH]; intros seen x; simpl; [tauto|].
  destruct (existsb (Z.eqb y) seen) eqn:E.
  - rewrite IH. apply existsb_exists in E. destruct E as [z [Hz Ez]]. apply Z.eqb_eq in Ez. subst z.
    split; [tauto|]. intros [[<-|H] Hn]; [contradiction|tauto].
  - assert (Hy : ~ In y seen).
    { intro Hc. assert (existsb (Z.eqb y) seen = true) by (apply existsb_exists; exists y; split; [exact Hc|apply Z.eqb_refl]). congruence. }
    simpl. rewrite IH. simpl. split.
    + intros [<-|[H1 H2]]; [tauto|]. split; [tauto|]. intro Hc. apply H2. right. exact Hc.
    + intros [[<-|H1] H2]; [tauto|]. destruct (Z.eq_dec y x) as [->|Hne]; [tauto|]. right. split; [exact H1|]. intros [Hc|Hc]; tauto.
Qed.

Lemma dedupZ_nodup : forall l seen, NoDup (dedupZ l seen).
Proof.
  induction l as [|y l IH]; intros seen; simpl; [constructor|].
  destruct (existsb (Z.eqb y) seen); [apply IH|]. constructor; [|apply IH].
  intro Hc. apply dedupZ_spec in Hc. destruct Hc as [_ Hc]. apply Hc. left. reflexivity.
Qed.

Theorem adjacency_undirected es u w :
  (In w (adj_of es u) <-> In (u, w) es \/ In (w, u) es) /\
  (In w (adj_of es u) <-> In u (adj_of es w)) /\ NoDup (adj_of es u).
Proof.
  assert (G : forall a b, In b (adj_of es a) <-> In (a, b) es \/ In (b, a) es).
  { intros a b. unfold adj_of. rewrite dedupZ_spec. rewrite in_flat_map. split.
    - intros [[[p q] [He Hin]] _]. simpl in Hin. destruct (Z.eqb p a) eqn:E1.
      + apply Z.eqb_eq in E1. subst p. destruct Hin as [<-|[]]. left. exact He.
      + destruct (Z.eqb q a) eqn:E2; [|contradiction]. apply Z.eqb_eq in E2. subst q. destruct Hin as [<-|[]]. right. exact He.
    - intros Hor. split; [|intros []]. destruct Hor as [He|He].
      + exists (a, b). split; [exact He|]. simpl. rewrite Z.eqb_refl. left. reflexivity.
      + exists (b, a). split; [exact He|]. simpl. destruct (Z.eqb b a) eqn:E1.
        * apply Z.eqb_eq in E1. subst. left. reflexivity.
        * rewrite Z.eqb_refl. left. reflexivity. }
  split; [apply G|]. split; [rewrite (G u w), (G w u); tauto|apply dedupZ_nodup].
Qed.

(* ------------------------------------------------------------------ search_for_optimal_start keeps a start of minimal cost *)
Section StartSearch.
  Variable V : Type.
  Variable veqb : V -> V -> bool.
  Variable T : Type.
  Variable ltb : T -> T -> bool.
  Variable inf : T.
  Variable tsum : list T -> T.
  Variable nodes : list V.
  Variable adj : V -> list V.
  Variable d2 : V -> V -> T.
  Variable fuel : nat.
  Hypothesis ltb_trans : forall a b c, ltb a b = true -> ltb b c = true -> ltb a c = true.
  Hypothesis ltb_irrefl : forall a, ltb a a = false.

  Definition cost_of (i : V) : T :=
    match path V veqb T ltb nodes adj d2 fuel i with Some p => cost V T tsum d2 p | None => inf end.

  Lemma best_start_minimal : forall cands mind best done s first,
    ((mind = inf /\ best = first) \/ mind = cost_of best) ->
    (forall j, In j done -> ltb (cost_of j) mind = false) ->
    best_start V veqb T ltb tsum nodes adj d2 fuel cands mind best = Some s ->
    exists mind', ((mind' = inf /\ s = first) \/ mind' = cost_of s) /\
                  (forall j, In j (done ++ cands) -> ltb (cost_of j) mind' = false).
  Proof.
    induction cands as [|i cs IH]; intros mind best done s first HI HJ H; simpl in H.
    - inversion H; subst. exists mind. split; [exact HI|]. rewrite app_nil_r. exact HJ.
    - destruct (path V veqb T ltb nodes adj d2 fuel i) as [p|] eqn:Ep; [|discriminate].
      assert (Ec : cost_of i = cost V T tsum d2 p) by (unfold cost_of; rewrite Ep; reflexivity).
      destruct (ltb (cost V T tsum d2 p) mind) eqn:El.
      + assert (HI' : (cost V T tsum d2 p = inf /\ i = first) \/ cost V T tsum d2 p = cost_of i) by (right; symmetry; exact Ec).
        assert (HJ' : forall j, In j (done ++ [i]) -> ltb (cost_of j) (cost V T tsum d2 p) = false).
        { intros j Hj. apply in_app_or in Hj. destruct Hj as [Hj|[E|[]]].
          - destruct (ltb (cost_of j) (cost V T tsum d2 p)) eqn:E2; [|reflexivity].
            rewrite <- (HJ j Hj). symmetry. apply (ltb_trans _ _ _ E2 El).
          - subst j. rewrite Ec. apply ltb_irrefl. }
        destruct (IH _ _ _ s first HI' HJ' H) as [m' [A B]].
        exists m'. split; [exact A|]. intros j Hj. apply B. rewrite <- app_assoc. exact Hj.
      + assert (HJ' : forall j, In j (done ++ [i]) -> ltb (cost_of j) mind = false).
        { intros j Hj. apply in_app_or in Hj. destruct Hj as [Hj|[E|[]]]; [apply HJ; exact Hj|]. subst j. rewrite Ec. exact El. }
        destruct (IH _ _ _ s first HI HJ' H) as [m' [A B]].
        exists m'. split; [exact A|]. intros j Hj. apply B. rewrite <- app_assoc. exact Hj.
  Qed.
End StartSearch.
