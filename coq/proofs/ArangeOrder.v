(* The edge vectors of the Width slicer are non-decreasing for EVERY binary64 input:
   numpy.arange(start, stop, step) = [start, start+step, start + i*((start+step)-start) ...] is sorted by
   PrimFloat.leb whenever start and step are finite and step >= 0, and appending last+step keeps it sorted.
   (model: base/FloatBits.arange, model/Intervals.width_edges; used by props/C10.v) *)
From Coq Require Import Reals PrimFloat FloatOps ZArith Lia Lra Bool SpecFloat Psatz List Uint63.
From Flocq Require Import Core BinarySingleNaN PrimFloat Mult_error Plus_error.
From V.base Require Import FloatBits.
From V.model Require Import Intervals.
From V.proofs Require Import FloatOrder FloatMono IntervalsProofs.
Import ListNotations.
Local Open Scope R_scope.

Notation fexp := (SpecFloat.fexp prec emax).
Local Instance Hprec' : FLX.Prec_gt_0 prec := FloatMono.Hprec.
Local Instance Hfexp' : Valid_exp fexp := FloatMono.Hfexp.
Notation rnd := (round radix2 fexp (round_mode mode_NE)).
Notation M := (bpow radix2 emax).
Notation fmt := (generic_format radix2 fexp).
Notation emin := (SpecFloat.emin prec emax).

Lemma fexp_FLT : fexp = FLT_exp emin prec.
Proof. reflexivity. Qed.

Lemma fmt_B2R (x : B) : fmt (B2R x).
Proof. apply generic_format_B2R. Qed.

Lemma fmt_bpow e : (emin <= e)%Z -> fmt (bpow radix2 e).
Proof. intros H. rewrite fexp_FLT. apply generic_format_FLT_bpow; [exact FloatMono.Hprec|exact H]. Qed.

Lemma rnd_id x : fmt x -> rnd x = x.
Proof. intros H. apply round_generic; auto with typeclass_instances. Qed.

Lemma rnd_ge_fmt x t : fmt x -> x <= t -> x <= rnd t.
Proof. intros F H. apply round_ge_generic; auto with typeclass_instances. Qed.

(* rounding a non-negative difference of two floats loses at most half of it *)
Lemma rnd_diff_ge_half a b : fmt a -> fmt b -> 0 <= a - b -> (a - b) / 2 <= rnd (a - b).
Proof.
  intros Fa Fb Hp. set (t := a - b) in *.
  destruct (Rle_lt_dec t (bpow radix2 (prec + emin))) as [Hs|Hl].
  - assert (Ft : fmt t).
    { unfold t. replace (a - b) with (a + - b) by ring. rewrite fexp_FLT.
      apply FLT_format_plus_small; [exact FloatMono.Hprec| | |].
      - rewrite <- fexp_FLT. exact Fa.
      - rewrite <- fexp_FLT. now apply generic_format_opp.
      - replace (a + - b) with t by (unfold t; ring). rewrite Rabs_pos_eq by exact Hp. exact Hs. }
    rewrite rnd_id by exact Ft. lra.
  - assert (Ht : 0 < t) by (pose proof (bpow_gt_0 radix2 (prec + emin)); lra).
    pose proof (bpow_mag_le radix2 t (Rgt_not_eq _ _ Ht)) as Hlo.
    pose proof (bpow_mag_gt radix2 t) as Hhi.
    rewrite Rabs_pos_eq in Hlo, Hhi by lra.
    set (e := (mag radix2 t - 1)%Z) in *.
    assert (He : (emin <= e)%Z).
    { assert (bpow radix2 (prec + emin) < bpow radix2 (mag radix2 t)) by lra.
      apply lt_bpow in H. unfold e. unfold prec in *. lia. }
    assert (Hb : bpow radix2 e <= rnd t) by (apply rnd_ge_fmt; [apply fmt_bpow; exact He|exact Hlo]).
    replace (mag radix2 t : Z) with (e + 1)%Z in Hhi by (unfold e; lia).
    rewrite bpow_plus in Hhi. simpl bpow at 2 in Hhi. change (IZR (Z.pow_pos 2 1)) with 2 in Hhi. lra.
Qed.

Lemma fmt_double x : fmt x -> fmt (x * 2).
Proof.
  intros F. change 2 with (bpow radix2 1). rewrite fexp_FLT.
  apply mult_bpow_pos_exact_FLT; [|lia]. rewrite <- fexp_FLT. exact F.
Qed.

(* ------------------------------------------------------------ of_nat *)
Lemma of_nat_spec i : (Z.of_nat i < 2 ^ 62)%Z ->
  pfin (of_nat i) /\ pR (of_nat i) = rnd (IZR (Z.of_nat i)).
Proof.
  intros Hi. unfold pfin, pR, of_nat. rewrite of_int63_equiv.
  rewrite Uint63.of_Z_spec. rewrite Z.mod_small by (change wB with (2 ^ 63)%Z; lia).
  set (z := Z.of_nat i) in *.
  generalize (binary_normalize_correct prec emax Flocq.IEEE754.PrimFloat.Hprec Flocq.IEEE754.PrimFloat.Hmax mode_NE z 0 false).
  cbv zeta. assert (Ez : F2R (Float radix2 z 0) = IZR z) by (unfold F2R; simpl; ring).
  rewrite Ez. rewrite Rlt_bool_true.
  - intros [E [F _]]. split; [exact F|exact E].
  - assert (0 <= IZR z) by (apply IZR_le; unfold z; lia).
    assert (IZR z <= bpow radix2 62) by (change (bpow radix2 62) with (IZR (2 ^ 62)); apply IZR_le; lia).
    assert (0 <= rnd (IZR z)) by (rewrite <- rnd_0; now apply rnd_le).
    assert (rnd (IZR z) <= bpow radix2 62).
    { rewrite <- (rnd_id (bpow radix2 62)) by (apply fmt_bpow; unfold emin, prec, emax; lia). now apply rnd_le. }
    rewrite Rabs_pos_eq by assumption.
    apply Rle_lt_trans with (1 := H2). apply bpow_lt. unfold emax. lia.
Qed.

Lemma of_nat_mono i j : (i <= j)%nat -> (Z.of_nat j < 2 ^ 62)%Z -> pR (of_nat i) <= pR (of_nat j).
Proof.
  intros H Hj. destruct (of_nat_spec i) as [_ Ei]; [lia|]. destruct (of_nat_spec j Hj) as [_ Ej].
  rewrite Ei, Ej. apply rnd_le, IZR_le. lia.
Qed.

Lemma of_nat_pos i : (1 <= i)%nat -> (Z.of_nat i < 2 ^ 62)%Z -> 1 <= pR (of_nat i).
Proof.
  intros H Hi. destruct (of_nat_spec i Hi) as [_ E]. rewrite E.
  rewrite <- (rnd_id 1) by (change 1 with (bpow radix2 0); apply fmt_bpow; unfold emin, prec, emax; lia).
  apply rnd_le. change 1 with (IZR 1). apply IZR_le. lia.
Qed.

Lemma of_nat_2 : pR (of_nat 2) = 2.
Proof.
  destruct (of_nat_spec 2) as [_ E]; [simpl; lia|]. rewrite E. simpl Z.of_nat.
  apply rnd_id. change (IZR 2) with (bpow radix2 1). apply fmt_bpow. unfold emin, prec, emax. lia.
Qed.

(* ------------------------------------------------------------ the elements of arange *)
Section Arange.
  Variables start step : PrimFloat.float.
  Hypothesis Fstart : pfin start.
  Hypothesis Fstep : pfin step.
  Hypothesis Pstep : 0 <= pR step.

  Let S := pR start.
  Let W := pR step.
  Definition delta := ((start + step) - start)%float.
  Definition elt (i : nat) : PrimFloat.float :=
    match i with O => start | 1%nat => (start + step)%float | _ => (start + of_nat i * delta)%float end.

  Let v1 := clamp (rnd (S + W)).
  Let vd := vminus v1 S.

  Lemma VP_s1 : VP (start + step)%float = Some v1.
  Proof. rewrite (VP_add start step (Fin W)); [reflexivity|exact Fstart|apply VP_fin; exact Fstep]. Qed.

  Lemma fmt_S : fmt S.
  Proof. apply fmt_B2R. Qed.
  Lemma abs_S : Rabs S < M.
  Proof. apply abs_B2R_lt. Qed.

  Lemma v1_ge : vle (Fin S) v1.
  Proof.
    unfold v1. rewrite <- (clamp_fin S) by exact abs_S. apply clamp_mono.
    apply Rle_trans with (rnd S); [rewrite rnd_id by exact fmt_S; lra|apply rnd_le; unfold W; lra].
  Qed.

  Lemma VP_delta : VP delta = Some vd.
  Proof. unfold delta. apply VP_sub; [exact Fstart|exact VP_s1]. Qed.

  Lemma vd_ge0 : vle (Fin 0) vd.
  Proof.
    unfold vd. pose proof v1_ge as H. destruct v1 as [r1| |]; cbn [vminus]; [|exact I|exact H].
    simpl in H. rewrite <- (clamp_fin 0) by (rewrite Rabs_R0; apply M_pos). apply clamp_mono.
    rewrite <- rnd_0. apply rnd_le. lra.
  Qed.

  Definition velt (i : nat) : val :=
    match i with O => Fin S | 1%nat => v1 | _ => vplus S (vmult (pR (of_nat i)) vd) end.

  Lemma VP_elt i : (Z.of_nat i < 2 ^ 62)%Z -> VP (elt i) = Some (velt i).
  Proof.
    intros Hi. destruct i as [|[|i]].
    - apply VP_fin. exact Fstart.
    - exact VP_s1.
    - cbn [elt velt]. apply VP_add; [exact Fstart|].
      destruct (of_nat_spec (Datatypes.S (Datatypes.S i)) Hi) as [F _].
      apply VP_mul; [exact F| |exact VP_delta].
      pose proof (of_nat_pos (Datatypes.S (Datatypes.S i)) ltac:(lia) Hi). lra.
  Qed.

  (* the one step that is not plain monotonicity: start+step <= start + 2*((start+step)-start) *)
  Lemma velt_1_2 : vle (velt 1) (velt 2).
  Proof.
    cbn [velt]. rewrite of_nat_2. unfold vd. pose proof v1_ge as Hge. unfold v1 in *.
    set (r1 := rnd (S + W)) in *.
    assert (F1 : fmt r1) by (apply generic_format_round; auto with typeclass_instances).
    pose proof M_pos as HM.
    destruct (clamp_cases r1) as [[H1 E1]|[[H1 E1]|[H1 E1]]]; rewrite E1 in *.
    - simpl in Hge. cbn [vminus].
      assert (Hh : (r1 - S) / 2 <= rnd (r1 - S)) by (apply rnd_diff_ge_half; [exact F1|exact fmt_S|lra]).
      set (d := rnd (r1 - S)) in *.
      assert (Fd : fmt d) by (apply generic_format_round; auto with typeclass_instances).
      assert (Pd : 0 <= d) by (unfold d; rewrite <- rnd_0; apply rnd_le; lra).
      destruct (clamp_cases d) as [[Hd Ed]|[[Hd Ed]|[Hd Ed]]]; rewrite Ed.
      + cbn [vmult]. rewrite (rnd_id (2 * d)) by (rewrite Rmult_comm; apply fmt_double; exact Fd).
        destruct (clamp_cases (2 * d)) as [[H2 E2]|[[H2 E2]|[H2 E2]]]; rewrite E2.
        * cbn [vplus]. rewrite <- (clamp_fin r1) by exact H1. apply clamp_mono.
          apply Rle_trans with (rnd r1); [rewrite rnd_id by exact F1; lra|apply rnd_le; lra].
        * exact I.
        * lra.
      + exact I.
      + lra.
    - exact I.
    - simpl in Hge. contradiction.
  Qed.

  Lemma velt_step i : (Z.of_nat (Datatypes.S i) < 2 ^ 62)%Z -> vle (velt i) (velt (Datatypes.S i)).
  Proof.
    intros Hi. destruct i as [|[|i]].
    - exact v1_ge.
    - exact velt_1_2.
    - cbn [velt]. apply vplus_mono. apply vmult_mono_l; [|exact vd_ge0]. split.
      + pose proof (of_nat_pos (Datatypes.S (Datatypes.S i)) ltac:(lia) ltac:(lia)). lra.
      + apply of_nat_mono; [lia|exact Hi].
  Qed.

  Lemma elt_step i : (Z.of_nat (Datatypes.S i) < 2 ^ 62)%Z -> PrimFloat.leb (elt i) (elt (Datatypes.S i)) = true.
  Proof.
    intros Hi. apply (fleb_VP _ _ (velt i) (velt (Datatypes.S i))); [apply VP_elt; lia|apply VP_elt; exact Hi|apply velt_step; exact Hi].
  Qed.

  (* x + step >= x for every element x (the closing edge last + width) *)
  Lemma elt_plus_step i : (Z.of_nat i < 2 ^ 62)%Z -> PrimFloat.leb (elt i) (elt i + step)%float = true.
  Proof.
    intros Hi. pose proof (VP_elt i Hi) as Hv.
    apply (fleb_VP _ _ (velt i) (vplus W (velt i))); [exact Hv|apply VP_add_l; [exact Fstep|exact Hv]|].
    destruct (velt i) as [r| |] eqn:E; cbn [vplus]; [|exact I|exact I].
    assert (Hr : Rabs r < M /\ fmt r).
    { unfold VP in Hv. destruct (V_Fin_inv _ _ Hv) as [Er _]. rewrite Er. split; [apply abs_B2R_lt|apply fmt_B2R]. }
    destruct Hr as [Hr Fr]. rewrite <- (clamp_fin r) by exact Hr. apply clamp_mono.
    apply Rle_trans with (rnd r); [rewrite rnd_id by exact Fr; lra|apply rnd_le; unfold W; lra].
  Qed.
End Arange.

(* ------------------------------------------------------------ sortedness of the lists *)
Lemma sorted_map_seq (f : nat -> PrimFloat.float) n k :
  (forall i, (k <= i)%nat -> (Datatypes.S i < k + n)%nat -> PrimFloat.leb (f i) (f (Datatypes.S i)) = true) ->
  sorted PrimFloat.float fleb (map f (seq k n)).
Proof.
  revert k. induction n as [|n IH]; intros k H; [exact I|].
  destruct n as [|n]; [exact I|].
  cbn [seq map sorted]. split.
  - apply H; lia.
  - apply (IH (Datatypes.S k)). intros i H1 H2. apply H; lia.
Qed.

Lemma sorted_app_last (l : list PrimFloat.float) x d :
  sorted PrimFloat.float fleb l -> (l <> [] -> fleb (last l d) x = true) -> sorted PrimFloat.float fleb (l ++ [x]).
Proof.
  induction l as [|a l IH]; intros Hs Hl; [exact I|].
  destruct l as [|b l].
  - cbn. split; [apply Hl; discriminate|exact I].
  - cbn [app sorted] in *. destruct Hs as [Hab Hs]. split; [exact Hab|].
    apply IH; [exact Hs|]. intros _. apply Hl. discriminate.
Qed.

Lemma arange_elts start stop step : exists n, (forall len, ceilZ ((stop - start) / step)%float = Some len -> n = Z.to_nat len) /\
  arange start stop step = map (elt start step) (seq 0 n).
Proof.
  unfold arange. destruct (ceilZ _) as [len|].
  - exists (Z.to_nat len). split; [intros l E; now inversion E|].
    apply map_ext. intros [|[|i]]; reflexivity.
  - exists 0%nat. split; [discriminate|reflexivity].
Qed.

Theorem arange_sorted start stop step : pfin start -> pfin step -> 0 <= pR step ->
  (forall len, ceilZ ((stop - start) / step)%float = Some len -> (len < 2 ^ 62)%Z) ->
  sorted PrimFloat.float fleb (arange start stop step).
Proof.
  intros Fs Fw Pw Hlen. destruct (arange_elts start stop step) as [n [Hn E]]. rewrite E.
  assert (Bn : (Z.of_nat n < 2 ^ 62)%Z \/ n = 0%nat).
  { destruct (ceilZ ((stop - start) / step)%float) as [len|] eqn:C.
    - left. rewrite (Hn len eq_refl). specialize (Hlen len eq_refl). lia.
    - unfold arange in E. rewrite C in E. destruct n; [now right|discriminate E]. }
  apply sorted_map_seq. intros i _ Hi. apply elt_step; try assumption. destruct Bn; lia.
Qed.

(* WidthOfIntervalSlicer: the whole edge vector (starts ++ [last start + width]) is non-decreasing for every finite
   data_min, every finite width >= 0 and every data_max, as long as fewer than 2^62 intervals are requested *)
Theorem width_edges_sorted dmin dmax width : pfin dmin -> pfin width -> 0 <= pR width ->
  (forall len, ceilZ (((dmax + width) - dmin) / width)%float = Some len -> (len < 2 ^ 62)%Z) ->
  sorted PrimFloat.float fleb (snd (width_edges dmin dmax width)).
Proof.
  intros Fs Fw Pw Hlen. unfold width_edges. cbn [snd].
  apply (sorted_app_last _ _ nan); [now apply arange_sorted|].
  intros Hne. destruct (arange_elts dmin (dmax + width)%float width) as [n [Hn E]]. rewrite E in *.
  destruct n as [|n]; [now elim Hne|].
  assert (Bn : (Z.of_nat (Datatypes.S n) < 2 ^ 62)%Z).
  { destruct (ceilZ (((dmax + width) - dmin) / width)%float) as [len|] eqn:C.
    - rewrite (Hn len eq_refl). specialize (Hlen len eq_refl). lia.
    - unfold arange in E. rewrite C in E. discriminate E. }
  replace (last (map (elt dmin width) (seq 0 (Datatypes.S n))) nan) with (elt dmin width n).
  - apply elt_plus_step; try assumption. lia.
  - rewrite seq_S, map_app. cbn [map]. now rewrite last_last.
Qed.

(* ------------------------------------------------------------ the same in terms of the primitive predicates *)
Lemma VP_zero : VP 0%float = Some (Fin 0).
Proof. unfold VP. change 0%float with PrimFloat.zero. rewrite zero_equiv, Prim2B_B2Prim. reflexivity. Qed.

Lemma prim_finite x : PrimFloat.is_finite x = true -> pfin x.
Proof. unfold pfin. now rewrite is_finite_equiv. Qed.

Lemma prim_nonneg x : PrimFloat.is_finite x = true -> PrimFloat.leb 0 x = true -> 0 <= pR x.
Proof.
  intros F H. apply (fleb_VP _ _ (Fin 0) (Fin (pR x)) VP_zero (VP_fin _ (prim_finite _ F))) in H. exact H.
Qed.

Theorem width_edges_sorted_prim dmin dmax width :
  PrimFloat.is_finite dmin = true -> PrimFloat.is_finite width = true -> PrimFloat.leb 0 width = true ->
  (forall len, ceilZ (((dmax + width) - dmin) / width)%float = Some len -> (len < 2 ^ 62)%Z) ->
  sorted PrimFloat.float fleb (snd (width_edges dmin dmax width)).
Proof.
  intros Fd Fw Pw Hl. apply width_edges_sorted; auto using prim_finite, prim_nonneg.
Qed.

(* hence: WidthOfIntervalSlicer (right-open) puts every datum of the covered range into exactly one interval,
   for EVERY binary64 configuration (finite lower end, finite non-negative width, any upper end, < 2^62 intervals) *)
Theorem width_partition_every_input dmin dmax width r (data : list PrimFloat.float) a e j d0 :
  PrimFloat.is_finite dmin = true -> PrimFloat.is_finite width = true -> PrimFloat.leb 0 width = true ->
  (forall len, ceilZ (((dmax + width) - dmin) / width)%float = Some len -> (len < 2 ^ 62)%Z) ->
  snd (width_edges dmin dmax width) = a :: e ->
  (j < length data)%nat ->
  fleb a (nth j data d0) = true -> ltb PrimFloat.float fleb (nth j data d0) (last (a :: e) a) = true ->
  rows_true_at PrimFloat.float j
    (rows_of PrimFloat.float fleb RightOpen false (snd (width_edges dmin dmax width))
             (width_refs r (fst (width_edges dmin dmax width)) width) data) = 1%nat.
Proof.
  intros Fd Fw Pw Hl E Hj Ha Hb.
  pose proof (width_edges_sorted_prim dmin dmax width Fd Fw Pw Hl) as Hs.
  rewrite E in *. apply (@partition_right_open PrimFloat.float fleb fleb_trans PrimFloat.float e a _ data j d0); auto.
  (* one reference per interval: |refs| = |starts| = |edges| - 1 *)
  unfold width_edges in E |- *. cbn [fst snd] in *. unfold width_refs.
  assert (L : length (intervals PrimFloat.float (a :: e)) = length (arange dmin (dmax + width)%float width)).
  { rewrite <- E. clear. generalize (arange dmin (dmax + width)%float width) as l, (last (arange dmin (dmax + width)%float width) nan + width)%float as x.
    induction l as [|y l IH]; intros x; [reflexivity|]. destruct l as [|z l]; [reflexivity|]. cbn [app intervals length] in *. now rewrite IH. }
  rewrite L. destruct r; now rewrite ?map_length.
Qed.

(* ------------------------------------------------------------ numpy.linspace(start, stop, num, endpoint=False) *)
Lemma clamp_Fin_inv r r' : clamp r = Fin r' -> r' = r /\ Rabs r < M.
Proof.
  intros H. destruct (clamp_cases r) as [[H1 E]|[[H1 E]|[H1 E]]]; rewrite E in H; try discriminate H.
  inversion H. subst. split; [reflexivity|exact H1].
Qed.

Lemma of_nat_fin i : (Z.of_nat i < 2 ^ 62)%Z -> pfin (of_nat i) /\ 0 <= pR (of_nat i).
Proof.
  intros Hi. destruct (of_nat_spec i Hi) as [F E]. split; [exact F|]. rewrite E, <- rnd_0. apply rnd_le, IZR_le. lia.
Qed.

Section Linspace.
  Variables start stop : PrimFloat.float.
  Variable num : nat.
  Hypothesis Fstart : pfin start.
  Hypothesis Fstop : pfin stop.
  Hypothesis Hle : pR start <= pR stop.
  Hypothesis Hnum : (1 <= num)%nat.
  Hypothesis Hnb : (Z.of_nat num < 2 ^ 62)%Z.
  Hypothesis FD : pfin (stop - start)%float.   (* the width of the value range is representable *)

  Let D := (stop - start)%float.
  Let N := of_nat num.
  Let stepf := (D / N)%float.

  Lemma D_nonneg : 0 <= pR D.
  Proof.
    pose proof (VP_sub stop start (Fin (pR stop)) Fstart (VP_fin _ Fstop)) as H.
    rewrite (VP_fin _ FD) in H. inversion H as [E]. cbn [vminus] in E. symmetry in E.
    destruct (clamp_Fin_inv _ _ E) as [E' _]. fold D in E'. rewrite E'. rewrite <- rnd_0. apply rnd_le. lra.
  Qed.

  Lemma N_facts : pfin N /\ 1 <= pR N.
  Proof. destruct (of_nat_spec num Hnb) as [F _]. split; [exact F|apply of_nat_pos; assumption]. Qed.

  Lemma step_facts : pfin stepf /\ 0 <= pR stepf.
  Proof.
    destruct N_facts as [FN PN]. pose proof D_nonneg as PD.
    pose proof (VP_div_fin D N FD FN ltac:(lra)) as H.
    assert (B : 0 <= rnd (pR D / pR N) <= pR D).
    { split.
      - rewrite <- rnd_0. apply rnd_le. apply Rmult_le_pos; [lra|]. apply Rlt_le, Rinv_0_lt_compat. lra.
      - rewrite <- (rnd_id (pR D)) at 2 by apply fmt_B2R. apply rnd_le.
        apply Rle_trans with (pR D / 1); [|lra]. unfold Rdiv. apply Rmult_le_compat_l; [lra|]. apply Rinv_le_contravar; lra. }
    assert (A : Rabs (rnd (pR D / pR N)) < M).
    { rewrite Rabs_pos_eq by lra. apply Rle_lt_trans with (pR D); [lra|]. pose proof (abs_B2R_lt (Prim2B D)). unfold pR.
      rewrite Rabs_pos_eq in H0; [exact H0|exact PD]. }
    rewrite (clamp_fin _ A) in H. fold stepf in H. destruct (VP_Fin_pfin _ _ H) as [F E]. split; [exact F|rewrite E; lra].
  Qed.

  Definition eltA (i : nat) : PrimFloat.float := (of_nat i * stepf + start)%float.
  Definition eltB (i : nat) : PrimFloat.float := ((of_nat i / N) * D + start)%float.

  Lemma eltA_step i : (Z.of_nat (Datatypes.S i) < 2 ^ 62)%Z -> PrimFloat.leb (eltA i) (eltA (Datatypes.S i)) = true.
  Proof.
    intros Hi. destruct step_facts as [Fs Ps].
    destruct (of_nat_fin i ltac:(lia)) as [Fi Pi]. destruct (of_nat_fin (Datatypes.S i) Hi) as [Fj Pj].
    pose proof (of_nat_mono i (Datatypes.S i) ltac:(lia) Hi) as Hm.
    unfold eltA.
    apply (fleb_VP _ _ (vplus (pR start) (clamp (rnd (pR (of_nat i) * pR stepf))))
                       (vplus (pR start) (clamp (rnd (pR (of_nat (Datatypes.S i)) * pR stepf))))).
    - apply VP_add_l; [exact Fstart|apply VP_mul_fin; assumption].
    - apply VP_add_l; [exact Fstart|apply VP_mul_fin; assumption].
    - apply vplus_mono, clamp_mono, rnd_le. nra.
  Qed.

  Lemma quot_facts i : (Z.of_nat i < 2 ^ 62)%Z ->
    pfin (of_nat i / N)%float /\ pR (of_nat i / N)%float = rnd (pR (of_nat i) / pR N).
  Proof.
    intros Hi. destruct N_facts as [FN PN]. destruct (of_nat_fin i Hi) as [Fi Pi].
    pose proof (VP_div_fin (of_nat i) N Fi FN ltac:(lra)) as H.
    assert (B : 0 <= rnd (pR (of_nat i) / pR N) <= pR (of_nat i)).
    { split.
      - rewrite <- rnd_0. apply rnd_le. apply Rmult_le_pos; [lra|]. apply Rlt_le, Rinv_0_lt_compat. lra.
      - rewrite <- (rnd_id (pR (of_nat i))) at 2 by apply fmt_B2R. apply rnd_le.
        apply Rle_trans with (pR (of_nat i) / 1); [|lra]. unfold Rdiv. apply Rmult_le_compat_l; [lra|]. apply Rinv_le_contravar; lra. }
    assert (A : Rabs (rnd (pR (of_nat i) / pR N)) < M).
    { rewrite Rabs_pos_eq by lra. apply Rle_lt_trans with (pR (of_nat i)); [lra|].
      pose proof (abs_B2R_lt (Prim2B (of_nat i))). unfold pR in *. rewrite Rabs_pos_eq in H0; [exact H0|exact Pi]. }
    rewrite (clamp_fin _ A) in H. apply VP_Fin_pfin in H. exact H.
  Qed.

  Lemma eltB_step i : (Z.of_nat (Datatypes.S i) < 2 ^ 62)%Z -> PrimFloat.leb (eltB i) (eltB (Datatypes.S i)) = true.
  Proof.
    intros Hi. destruct N_facts as [FN PN]. pose proof D_nonneg as PD.
    destruct (quot_facts i ltac:(lia)) as [Fq Eq]. destruct (quot_facts (Datatypes.S i) Hi) as [Fq' Eq'].
    pose proof (of_nat_mono i (Datatypes.S i) ltac:(lia) Hi) as Hm.
    destruct (of_nat_fin i ltac:(lia)) as [_ Pi].
    assert (Q : pR (of_nat i / N)%float <= pR (of_nat (Datatypes.S i) / N)%float).
    { rewrite Eq, Eq'. apply rnd_le. unfold Rdiv. apply Rmult_le_compat_r; [|exact Hm]. apply Rlt_le, Rinv_0_lt_compat. lra. }
    assert (Q0 : 0 <= pR (of_nat i / N)%float).
    { rewrite Eq, <- rnd_0. apply rnd_le. apply Rmult_le_pos; [lra|]. apply Rlt_le, Rinv_0_lt_compat. lra. }
    unfold eltB.
    apply (fleb_VP _ _ (vplus (pR start) (clamp (rnd (pR (of_nat i / N)%float * pR D))))
                       (vplus (pR start) (clamp (rnd (pR (of_nat (Datatypes.S i) / N)%float * pR D))))).
    - apply VP_add_l; [exact Fstart|apply VP_mul_fin; assumption].
    - apply VP_add_l; [exact Fstart|apply VP_mul_fin; assumption].
    - apply vplus_mono, clamp_mono, rnd_le. nra.
  Qed.

  Theorem linspace_open_sorted : sorted PrimFloat.float fleb (fst (linspace_open start stop num)).
  Proof.
    unfold linspace_open. fold D N stepf.
    destruct (PrimFloat.eqb stepf 0); cbn [fst].
    - apply (sorted_map_seq eltB num 0). intros i _ Hi. apply eltB_step. lia.
    - apply (sorted_map_seq eltA num 0). intros i _ Hi. apply eltA_step. lia.
  Qed.
End Linspace.

(* NumberOfIntervalsSlicer: the interval starts are non-decreasing for every finite value range v0 <= v1 whose width is
   representable and every 1 <= n < 2^62; the whole edge vector starts ++ [v1] is non-decreasing as soon as the last start does
   not exceed v1 (that last comparison is still checked per case by the correspondence run) *)
Theorem number_edges_sorted v0 v1 n :
  PrimFloat.is_finite v0 = true -> PrimFloat.is_finite v1 = true -> PrimFloat.leb v0 v1 = true ->
  PrimFloat.is_finite (v1 - v0)%float = true -> (1 <= n)%nat -> (Z.of_nat n < 2 ^ 62)%Z ->
  let '(starts, w, edges) := number_edges v0 v1 n in
  sorted PrimFloat.float fleb starts /\
  (fleb (last starts v0) v1 = true -> sorted PrimFloat.float fleb edges).
Proof.
  intros F0 F1 L FD Hn Hb. unfold number_edges.
  assert (S0 : sorted PrimFloat.float fleb (fst (linspace_open v0 v1 n))).
  { apply linspace_open_sorted; auto using prim_finite.
    apply (fleb_VP _ _ (Fin (pR v0)) (Fin (pR v1)) (VP_fin _ (prim_finite _ F0)) (VP_fin _ (prim_finite _ F1))) in L. exact L. }
  destruct (linspace_open v0 v1 n) as [starts w]. cbn [fst] in S0. split; [exact S0|].
  intros Hl. apply (sorted_app_last _ _ v0); [exact S0|]. intros _. exact Hl.
Qed.
