#!/bin/bash
# lane_seedtest.sh <patch.diff|seeded-id> PROP... -- run seedtest in a throw-away copy of /verif (leaves /verif's evidence alone)
set -u
HERE="$(cd "$(dirname "$0")/.." && pwd)"
d=/tmp/vlane-$$
rm -rf $d; mkdir -p $d
rsync -a --exclude build --exclude replays --exclude .git "$HERE"/ $d/
src="$1"; shift
case "$src" in /*) ;; *) [ -e "$HERE/seeded/$src" ] || src="$(pwd)/$src";; esac
( cd $d && SEEDTEST_NO_RESTORE=1 VERIF_NO_COQCHK=1 python3 tools/seedtest.py "$src" "$@" )
rm -rf $d
