"""C18 -- ill-formed model, fit and contour specifications are rejected, not computed (DESIGN.md section 6, C18).

proof gate:      props/C18.v  (validate = Ok <-> WellFormed for model descriptions, fit input, slicers, evaluation
                 points, HDC grids, dimension / type guards and whole sessions; any length)
correspondence:  model/Validate.v `observe` evaluated by vm_compute vs the REAL constructors and entry points
                 (slicer constructors, GlobalHierarchicalModel, fit, pdf / cdf, contours).  A case is a *session*
                 (spec, JSON-able): slicers -> model -> fit -> evaluation -> contour.  Compared: raised or not, the phase
                 (construction vs later), the exception class, the raising function (innermost virocon frame), which
                 check fired (message) and the dimension it names.
search:          the property oracle: a session into which the harness injected >= 1 malformation must raise, and in
                 the phase in which the malformed input is supplied (for slicer reference keywords / too few intervals /
                 fit methods: the fit call that uses them); a session without injected malformation must not raise.
"""
import itertools
import json
import traceback
import warnings

import numpy as np

import vlib

PHASES = ["PhSlicers", "PhModel", "PhFit", "PhEval", "PhContour"]
FAMILIES = ["Weibull", "LogNormal", "Normal", "LogNormalNormFit", "ExpWeibull", "GenGamma", "VonMises", "ScipyGamma"]
PARAMS = {"Weibull": ["alpha", "beta", "gamma"], "LogNormal": ["mu", "sigma"], "Normal": ["mu", "sigma"],
          "LogNormalNormFit": ["mu_norm", "sigma_norm"], "ExpWeibull": ["alpha", "beta", "delta"],
          "GenGamma": ["m", "c", "lambda_"], "VonMises": ["kappa", "mu"], "ScipyGamma": ["a", "loc", "scale"]}
CLASSNAME = {"Weibull": "WeibullDistribution", "LogNormal": "LogNormalDistribution", "Normal": "NormalDistribution",
             "LogNormalNormFit": "LogNormalNormFitDistribution", "ExpWeibull": "ExponentiatedWeibullDistribution",
             "GenGamma": "GeneralizedGammaDistribution", "VonMises": "VonMisesDistribution", "ScipyGamma": "_GammaSD"}
FIXVAL = {"gamma": 0.1, "loc": 0.05, "mu": 0.3}
N_ROWS = 600
CUR = {"seed": 0}


# ------------------------------------------------------------------ real objects
class _V:
    """lazily imported virocon names (PYTHONPATH decides which tree)"""
    _c = None

    @classmethod
    def get(cls):
        if cls._c is None:
            import virocon
            import virocon.distributions as D
            import virocon.contours as C
            import virocon.jointmodels as J
            import virocon.intervals as I
            import virocon.dependencies as Dep

            class _GammaSD(D.ScipyDistribution):
                scipy_dist_name = "gamma"

            cls._c = {"D": D, "C": C, "J": J, "I": I, "Dep": Dep, "_GammaSD": _GammaSD}
        return cls._c


def _dep(V):
    def lin(x, a=0.5, b=0.1):
        return a + b * x
    return V["Dep"].DependenceFunction(lin, bounds=[(None, None), (None, None)])


def make_dist(V, d, nan_first=False):
    fam = d["family"]
    cls = V["_GammaSD"] if fam == "ScipyGamma" else getattr(V["D"], CLASSNAME[fam])
    kw = {"f_" + p: FIXVAL.get(p, 1.5) for p in d["fixed"]}
    if d.get("fixzero") in d["fixed"]:
        kw["f_" + d["fixzero"]] = 0    # boundary: a parameter legitimately fixed at exactly 0
    if fam == "LogNormalNormFit" and "mu_norm" not in d["fixed"]:
        kw["mu_norm"] = 1.0          # the class default (0) is not a valid parameter value
    if nan_first:
        kw[PARAMS[fam][0]] = float("nan")
    return cls(**kw)


def dec_value(v):
    """spec encoding of a python value: ["int",k] ["none"] ["num",x] ["str",s] ["callable"] ["array"]"""
    k = v[0]
    if k == "int":
        return int(v[1])
    if k == "none":
        return None
    if k == "num":
        return float(v[1])
    if k == "str":
        return str(v[1])
    if k == "callable":
        return np.median
    if k == "array":
        return np.ones(N_ROWS)
    raise ValueError(v)


def make_slicer(V, s, valid_for_count=False):
    I = V["I"]
    kw = dict(s.get("kwargs", {}))
    kw["min_n_points"] = s["min_n_points"]
    kw["min_n_intervals"] = s["min_n_intervals"]
    ref = dec_value(s["ref"])
    if valid_for_count:
        kw = {"min_n_points": s["min_n_points"], "min_n_intervals": 0}
        ref = np.median if s["kind"] == "points" else "center"
    if s["kind"] == "width":
        return I.WidthOfIntervalSlicer(s["param"], reference=ref, **kw)
    if s["kind"] == "number":
        return I.NumberOfIntervalsSlicer(s["param"], reference=ref, **kw)
    return I.PointsPerIntervalSlicer(s["param"], reference=ref, **kw)


_DATA = {}


def data_matrix(seed):
    """fixed data set (N_ROWS x 5), positive, moderately dependent columns"""
    if seed not in _DATA:
        rng = np.random.default_rng([seed, 18, 7])
        base = rng.lognormal(0.0, 0.35, size=(N_ROWS, 5))
        for j in range(1, 5):
            base[:, j] = 0.6 * base[:, j] + 0.4 * base[:, j - 1]
        _DATA[seed] = np.clip(base, 0.25, 3.0)
    return _DATA[seed]


_SURV = {}


def surviving(V, s, col, seed):
    """oracle table: number of intervals the (well-formed variant of the) slicer keeps for data column col"""
    key = (json.dumps(s, sort_keys=True) if s else "default", col, seed, vlib.REPO)
    if key not in _SURV:
        sl = make_slicer(V, s, valid_for_count=True) if s else V["I"].NumberOfIntervalsSlicer(10, min_n_intervals=0)
        try:
            _SURV[key] = len(sl.slice_(data_matrix(seed)[:, col])[0])
        except IndexError:
            _SURV[key] = 0
    return _SURV[key]


def _frames(e):
    out = []
    tb = e.__traceback__
    while tb is not None:
        fr = tb.tb_frame
        fn = fr.f_code.co_filename.replace("\\", "/")
        if "/virocon/" in fn:
            out.append((fn.split("/")[-1], fr.f_code.co_qualname, fr))
        tb = tb.tb_next
    return out


def classify(e, loop_pos=None):
    """real exception -> (class, site qualname, tag, pos)"""
    fr = _frames(e)
    cls = type(e).__name__
    if not fr:
        return cls, "?", "?", 0
    fname, qn, frame = fr[-1]
    msg = str(e)
    tag = "?"
    pos = 0

    def local_i(qualname):
        for _, q, f in reversed(fr):
            if q == qualname and "i" in f.f_locals:
                return int(f.f_locals["i"])
        return 0
    if qn == "GlobalHierarchicalModel._check_dist_descriptions":
        tag = ("MissingDistribution" if msg.startswith("Mandatory key 'distribution'") else
               "MissingParameters" if msg.startswith("For conditional distributions") else
               "UnknownKeys" if msg.startswith("Unknown key(s)") else "BadHierarchy")
        pos = local_i(qn)
    elif qn == "ConditionalDistribution.__init__":
        tag = ("UnknownParams" if msg.startswith("Unknown param(s)") else
               "NotDefined" if "was not defined" in msg else
               "BothGiven" if "both where given" in msg else "?")
        for _, q, f in fr:
            if q == "GlobalHierarchicalModel.__init__":
                pos = len(f.f_locals["self"].distributions)
    elif qn == "GlobalHierarchicalModel.__init__":
        tag = "FirstConditional" if cls == "RuntimeError" else "EmptyModel" if cls == "IndexError" else "?"
    elif qn == "GlobalHierarchicalModel._check_and_fill_fit_desc":
        if msg.startswith("fit_description must have one entry"):
            tag = "FitLength"
        elif msg.startswith("Mandatory key 'method'"):
            tag, pos = "MissingMethod", local_i(qn)
    elif qn == "GlobalHierarchicalModel.fit":
        tag = "DataDimension" if msg.startswith("The dimension of data") else "?"
    elif qn == "Distribution.fit":
        tag = ("UnknownMethod" if msg.startswith("Unknown fit method") else
               "MethodNotString" if cls == "AttributeError" else "?")
        pos = local_i("GlobalHierarchicalModel.fit")
    elif qn.endswith("._fit_lsq"):
        if qn.startswith("ExponentiatedWeibullDistribution"):
            tag = "UnknownWeights" if msg.startswith("Unsupported value for weights") else \
                  "LsqFixedNotImplemented" if cls == "NotImplementedError" else "?"
        else:
            tag = "LsqNotImplemented" if cls == "NotImplementedError" else "?"
        pos = local_i("GlobalHierarchicalModel.fit")
    elif qn == "IntervalSlicer.__init__":
        tag, pos = ("UnknownKwarg" if "unexpected keyword argument" in msg else "?"), loop_pos or 0
    elif qn == "PointsPerIntervalSlicer.__init__":
        tag, pos = ("ReferenceNotCallable" if msg.startswith("Wrong type for reference") else "?"), loop_pos or 0
    elif qn in ("WidthOfIntervalSlicer._slice", "NumberOfIntervalsSlicer._slice"):
        tag = ("UnknownReference" if msg.startswith("Unknown value for 'reference'") else
               "ReferenceType" if msg.startswith("Wrong type for reference") else "?")
        pos = local_i("GlobalHierarchicalModel.fit")
    elif qn == "PointsPerIntervalSlicer._slice":
        tag = "NoIntervals" if cls == "IndexError" else "?"
        pos = local_i("GlobalHierarchicalModel.fit")
    elif qn == "IntervalSlicer.slice_":
        tag = "TooFewIntervals" if msg.startswith("Slicing resulting in too few intervals") else "?"
        pos = local_i("GlobalHierarchicalModel.fit")
    elif qn == "HighestDensityContour._check_grid":
        if msg.startswith("limits has to be of length"):
            tag = "LimitsLength"
        elif msg.startswith("deltas has do be either scalar"):
            tag = "DeltasLength"
        elif cls == "TypeError":
            tag, pos = "LimitSubscript", local_i(qn)
        elif cls == "IndexError":
            tag, pos = "LimitIndex", local_i(qn)
    elif qn == "HighestDensityContour._compute":
        if msg.startswith("tuples in limits have to be of length 2"):
            tag, pos = "LimitTuple", local_i(qn)
        elif msg.startswith("Encountered nan"):
            tag = "PdfNan"
    elif qn == "GlobalHierarchicalModel.pdf":
        tag = "NonFinitePdf" if "infs or NaNs" in msg else "?"
    elif qn == "MultivariateModel.cdf":
        tag = "NonFiniteCdf" if "infs or NaNs" in msg else "?"
    elif qn in ("DirectSamplingContour._compute", "AndContour._compute", "OrContour._compute"):
        k = {"DirectSamplingContour": "CDirectSampling", "AndContour": "CAnd", "OrContour": "COr"}[qn.split(".")[0]]
        tag = ("Not2D", k) if "only" in msg and "two dimensions" in msg else "?"
    elif qn == "IFORMContour.__init__":
        tag = "ModelType" if msg.startswith("Type of model was") else "?"
    return cls, qn, tag, pos


class _ReachedIntegration(BaseException):
    pass


class _NoIntegration:
    """stands in for scipy.integrate inside virocon.jointmodels while a malformed cdf call is made"""
    @staticmethod
    def nquad(*a, **k):
        raise _ReachedIntegration()


def run_real(spec, seed=0):
    """run the session on the real code; returns None (every step returned) or an observation dict"""
    V = _V.get()
    descs = spec["descs"]
    n = len(descs)
    data = data_matrix(seed)
    with warnings.catch_warnings():
        warnings.simplefilter("ignore")
        # distributions (never part of the comparison: well-formed constructor calls)
        nan_at = (spec.get("contour") or {}).get("nan_at")
        dists = [make_dist(V, d, nan_first=(nan_at == i)) if d["has_distribution"] else None for i, d in enumerate(descs)]
        # phase 0: slicers
        slicers = [None] * n
        for i, d in enumerate(descs):
            if d["intervals"] is not None:
                try:
                    slicers[i] = make_slicer(V, d["intervals"])
                except Exception as e:  # noqa
                    return dict(zip(("exc", "site", "tag", "pos"), classify(e, loop_pos=i)), phase="PhSlicers", msg=str(e)[:160])
        # phase 1: model
        dd = []
        for i, d in enumerate(descs):
            x = {}
            if d["has_distribution"]:
                x["distribution"] = dists[i]
            if d["cond"] is not None:
                x["conditional_on"] = dec_value(d["cond"])
            if d["has_parameters"]:
                x["parameters"] = {p: _dep(V) for p in d["dependent"]}
            for k in d["other_keys"]:
                x[k] = 1
            if d["intervals"] is not None:
                x["intervals"] = slicers[i]
            dd.append(x)
        try:
            model = V["J"].GlobalHierarchicalModel(dd)
        except Exception as e:  # noqa
            return dict(zip(("exc", "site", "tag", "pos"), classify(e)), phase="PhModel", msg=str(e)[:160])
        # phase 2: fit
        if spec.get("fit") is not None:
            f = spec["fit"]
            fds = None
            if f["descs"] is not None:
                fds = []
                for fd in f["descs"]:
                    if fd is None:
                        fds.append(None)
                    else:
                        x = {}
                        if "method" in fd:
                            x["method"] = dec_value(fd["method"])
                        if "weights" in fd:
                            x["weights"] = dec_value(fd["weights"])
                        fds.append(x)
            try:
                model.fit(data[:, : f["data_cols"]], fds)
            except Exception as e:  # noqa
                return dict(zip(("exc", "site", "tag", "pos"), classify(e)), phase="PhFit", msg=str(e)[:160])
        # phase 3: evaluation
        if spec.get("points") is not None:
            p = spec["points"]
            pts = np.array(p["pts"], dtype=float)
            # a rejected call must raise before any integration: for non-finite points the integrator that cdf would
            # call is replaced (from outside) by a stub; reaching it means the call went on to compute a result
            stub = p["cdf"] and not np.isfinite(pts).all()
            J = V["J"]
            real_integrate = J.integrate
            if stub:
                J.integrate = _NoIntegration()
            try:
                (model.cdf if p["cdf"] else model.pdf)(pts)
            except _ReachedIntegration:
                pass
            except Exception as e:  # noqa
                return dict(zip(("exc", "site", "tag", "pos"), classify(e)), phase="PhEval", msg=str(e)[:160])
            finally:
                J.integrate = real_integrate
        # phase 4: contour
        if spec.get("contour") is not None:
            c = spec["contour"]
            C = V["C"]
            try:
                if c["kind"] == "hdc":
                    lim = None if c["limits"] is None else [tuple(x) if isinstance(x, list) else x for x in c["limits"]]
                    C.HighestDensityContour(model, 0.3, lim, c["deltas"])
                elif c["kind"] == "iform":
                    mdl = {"ghm": model, "str": "model", "int": 3}[c["model"]]
                    C.IFORMContour(mdl, 0.1, n_points=8)
                else:
                    cls = {"direct": C.DirectSamplingContour, "and": C.AndContour, "or": C.OrContour}[c["kind"]]
                    smp = None
                    if n == 2:
                        smp = model.draw_sample(2000, random_state=seed)
                    elif c.get("sample") == "two_columns":
                        smp = data[:, :2].copy()      # caller-supplied sample with exactly two columns
                    cls(model, 0.1, sample=smp)
            except Exception as e:  # noqa
                return dict(zip(("exc", "site", "tag", "pos"), classify(e)), phase="PhContour", msg=str(e)[:160])
    return None


# ------------------------------------------------------------------ abstraction: spec -> Coq term
def q(s):
    return '"%s"' % s


def slist(xs):
    return "[" + "; ".join(q(x) for x in xs) + "]"


def coq_ref(v):
    if v[0] == "str":
        return {"center": "RCenter", "left": "RLeft", "right": "RRight"}.get(v[1].lower(), "RUnknownStr")
    return "RCallable" if v[0] == "callable" else "ROther"


def coq_slicer(s):
    return "(mkslicer %s %d %s %s %d)" % ({"width": "SWidth", "number": "SNumber", "points": "SPoints"}[s["kind"]],
                                         int(s["param"]) if s["kind"] != "width" else 0,
                                         slist(sorted(s.get("kwargs", {}))), coq_ref(s["ref"]), s["min_n_intervals"])


def coq_cond(c):
    if c is None:
        return "None"
    if c[0] == "int":
        return "(Some (CInt %s%%Z))" % vlib.z(c[1])
    return "(Some CNone)" if c[0] == "none" else "(Some COther)"


def coq_desc(d):
    return "(mkdesc %s %s %s %s %s %s %s %s)" % (
        "true" if d["has_distribution"] else "false", d["family"], slist(d["fixed"]), coq_cond(d["cond"]),
        "true" if d["has_parameters"] else "false", slist(d["dependent"]), slist(d["other_keys"]),
        "None" if d["intervals"] is None else "(Some %s)" % coq_slicer(d["intervals"]))


def coq_method(fd):
    if "method" not in fd:
        return "MMle"
    m = fd["method"]
    if m[0] != "str":
        return "MNotString"
    return {"mle": "MMle", "lsq": "MLsq", "wlsq": "MWlsq"}.get(m[1].lower(), "MUnknown")


def coq_weights(fd):
    if "weights" not in fd:
        return "WNone"
    w = fd["weights"]
    if w[0] == "none":
        return "WNone"
    if w[0] == "str":
        return {"linear": "WLinear", "quadratic": "WQuadratic", "cubic": "WCubic"}.get(w[1].lower(), "WUnknownStr")
    return "WArray" if w[0] == "array" else "WScalar"


def coq_fit(spec, seed):
    f = spec["fit"]
    if f is None:
        return "None"
    V = _V.get()
    if f["descs"] is None:
        ds = "None"
    else:
        ds = "(Some [" + "; ".join("None" if fd is None else "(Some (mkfit %s %s %s))" % (
            "true" if "method" in fd else "false", coq_method(fd), coq_weights(fd)) for fd in f["descs"]) + "])"
    surv = []
    for c, d in enumerate(spec["descs"]):
        surv.append(surviving(V, d["intervals"], c, seed) if c < f["data_cols"] else 0)
    return "(Some (mkfitin %s %d [%s]))" % (ds, f["data_cols"], "; ".join("%d" % k for k in surv))


def coq_lim(e):
    return "LTuple %d" % len(e) if isinstance(e, (list, tuple)) else "LScalar"


def coq_contour(c):
    if c is None:
        return "None"
    if c["kind"] == "hdc":
        lim = "None" if c["limits"] is None else "(Some [" + "; ".join(coq_lim(e) for e in c["limits"]) + "])"
        d = c["deltas"]
        dl = "DNone" if d is None else ("(DList %d)" % len(d) if isinstance(d, (list, tuple)) else "DScalar")
        return "(Some (ReqHDC %s %s %s))" % (lim, dl, "true" if c.get("nan_at") is not None else "false")
    if c["kind"] == "iform":
        return "(Some (ReqIFORM %s))" % ("MKGlobalHierarchical" if c["model"] == "ghm" else "MKOther")
    return "(Some (Req2D %s))" % {"direct": "CDirectSampling", "and": "CAnd", "or": "COr"}[c["kind"]]


def coq_points(p):
    if p is None:
        return "None"
    rows = p["pts"] if (p["pts"] and isinstance(p["pts"][0], (list, tuple))) else [p["pts"]]
    return "(Some (%s, [%s]))" % ("true" if p["cdf"] else "false",
                                  "; ".join("[" + "; ".join("(%s)%%float" % vlib.fl(x) for x in row) + "]" for row in rows))


def coq_scenario(spec, seed):
    return "(mkscenario [%s] %s %s %s)" % ("; ".join(coq_desc(d) for d in spec["descs"]), coq_fit(spec, seed),
                                           coq_points(spec.get("points")), coq_contour(spec.get("contour")))


SITE_QN = {"GHM_check_dist_descriptions": "GlobalHierarchicalModel._check_dist_descriptions",
           "CondDist_init": "ConditionalDistribution.__init__", "GHM_init": "GlobalHierarchicalModel.__init__",
           "GHM_check_and_fill_fit_desc": "GlobalHierarchicalModel._check_and_fill_fit_desc",
           "GHM_fit": "GlobalHierarchicalModel.fit", "Dist_fit": "Distribution.fit",
           "EW_fit_lsq": "ExponentiatedWeibullDistribution._fit_lsq", "Slicer_init": "IntervalSlicer.__init__",
           "PPI_init": "PointsPerIntervalSlicer.__init__", "Slicer_slice_": "IntervalSlicer.slice_",
           "PPI__slice": "PointsPerIntervalSlicer._slice", "HDC_check_grid": "HighestDensityContour._check_grid",
           "HDC_compute": "HighestDensityContour._compute", "IFORM_init": "IFORMContour.__init__",
           "GHM_pdf": "GlobalHierarchicalModel.pdf", "MM_cdf": "MultivariateModel.cdf"}
C2D = {"CDirectSampling": "DirectSamplingContour", "CAnd": "AndContour", "COr": "OrContour"}


def model_obs(term, spec):
    """parsed `observe` result -> observation dict comparable with run_real's"""
    if term is None:
        return None
    ph, exc, site, tag, pos = term[1]
    if isinstance(site, tuple):          # C2D_compute k
        qn = C2D[site[1]] + "._compute"
    elif site == "Dist_fit_lsq":
        qn = CLASSNAME[spec["descs"][pos]["family"]].lstrip("_") + "._fit_lsq"
        if spec["descs"][pos]["family"] == "ScipyGamma":
            qn = "ScipyDistribution._fit_lsq"
    elif site == "Slicer__slice":
        c = spec["descs"][pos]["cond"][1]
        s = spec["descs"][c]["intervals"]
        qn = ("WidthOfIntervalSlicer" if s is not None and s["kind"] == "width" else "NumberOfIntervalsSlicer") + "._slice"
    else:
        qn = SITE_QN[site]
    return {"phase": ph, "exc": exc, "site": qn, "tag": tuple(tag) if isinstance(tag, tuple) else tag, "pos": pos}


def same(a, b):
    if a is None or b is None:
        return a is None and b is None
    ta = tuple(a["tag"]) if isinstance(a["tag"], (tuple, list)) else a["tag"]
    tb = tuple(b["tag"]) if isinstance(b["tag"], (tuple, list)) else b["tag"]
    return (a["phase"], a["exc"], a["site"], ta, a["pos"]) == (b["phase"], b["exc"], b["site"], tb, b["pos"])


# ------------------------------------------------------------------ well-formed base sessions
def structures(n):
    """all hierarchies: cond[0] = None, cond[i] in {None, 0..i-1}"""
    return [(None,) + t for t in itertools.product(*[[None] + list(range(i)) for i in range(1, n)])]


def base_desc(fam, cond, variant=0, fitted=False):
    """a well-formed description; variant picks the fixed / dependent partition"""
    ps = PARAMS[fam]
    fixed = []
    if cond is not None:
        # never all fixed, never fixed for families whose fixed-parameter fit is C11's subject when a fit follows
        if variant % 2 == 1 and not (fitted and fam in ("GenGamma", "VonMises", "ScipyGamma")):
            fixed = [ps[-1]] if fam != "ExpWeibull" else ["delta"]
    elif variant % 3 == 2 and fam == "ExpWeibull":
        fixed = ["delta"]
    return {"family": fam, "has_distribution": True, "fixed": fixed,
            "cond": None if cond is None else ["int", cond], "has_parameters": cond is not None,
            "dependent": [p for p in ps if p not in fixed] if cond is not None else [], "other_keys": [], "intervals": None}


def good_slicer(kind_idx):
    k = kind_idx % 3
    if k == 0:
        return {"kind": "number", "param": 4, "kwargs": {}, "ref": ["str", ["center", "Left", "RIGHT"][(kind_idx // 3) % 3]],
                "min_n_points": 10, "min_n_intervals": 2}
    if k == 1:
        return {"kind": "width", "param": 0.5, "kwargs": {}, "ref": ["callable"] if kind_idx % 2 else ["str", "right"],
                "min_n_points": 20, "min_n_intervals": 2}
    return {"kind": "points", "param": 60, "kwargs": {}, "ref": ["callable"], "min_n_points": 20, "min_n_intervals": 3}


def base_spec(n, struct, fams, variant=0, with_fit=False):
    descs = [base_desc(fams[i], struct[i], variant + i, fitted=with_fit) for i in range(n)]
    conditioning = sorted({c for c in struct if c is not None})
    for c in conditioning:
        # the model's default slicer (no 'intervals' key) where it keeps enough intervals for this data
        if not ((variant + c) % 4 == 1 and surviving(_V.get(), None, c, CUR["seed"]) >= 3):
            descs[c]["intervals"] = good_slicer(variant + c)
    spec = {"descs": descs, "fit": None, "points": None, "contour": None, "mal": []}
    if with_fit:
        fds = []
        for i in range(n):
            r = (variant + i) % 4
            if descs[i]["family"] == "ExpWeibull" and r == 1 and struct[i] is None:
                fds.append({"method": ["str", "wlsq"], "weights": ["array"]})
            elif descs[i]["family"] == "ExpWeibull" and r != 3:
                fds.append({"method": ["str", ["wlsq", "LSQ", "Wlsq"][r]], "weights": [["str", "quadratic"], ["none"], ["str", "Linear"]][r]})
            elif r == 0:
                fds.append(None)
            elif r == 1:
                fds.append({"method": ["str", "mle"]})
            else:
                fds.append({"method": ["str", "MLE"], "weights": ["str", "ignored for mle"] if r == 2 else ["none"]})
        spec["fit"] = {"descs": fds if variant % 5 else ([None] * n if variant % 2 else None), "data_cols": n}
    return spec


def good_points(n, rows=2):
    return [[0.7 + 0.3 * ((r + c) % 3) for c in range(n)] for r in range(rows)]


def good_hdc(n, deltas_kind=0):
    d = 0.6 if n <= 2 else 1.0
    # deltas = None means 401 cells per dimension: only requested for 1 dimension (or when the grid is rejected anyway)
    return {"kind": "hdc", "limits": [[0.3, 3.3] for _ in range(n)],
            "deltas": [d, [d] * n, None if n == 1 else d][deltas_kind % 3], "nan_at": None}


# ------------------------------------------------------------------ malformation injectors
# each: f(spec, pos, variant) -> label dict or None (not applicable); modifies spec in place
def _make_conditional(spec, i, c):
    d = spec["descs"][i]
    if d["cond"] is None:
        d["has_parameters"] = True
        d["dependent"] = [p for p in PARAMS[d["family"]] if p not in d["fixed"]]
        if not d["dependent"]:
            d["fixed"] = []
            d["dependent"] = list(PARAMS[d["family"]])
    d["cond"] = c


def m_missing_distribution(spec, i, v):
    spec["descs"][i]["has_distribution"] = False
    return {"cls": "missing_distribution", "pos": i, "phase": "PhModel"}


def m_cond_without_parameters(spec, i, v):
    d = spec["descs"][i]
    if d["cond"] is None:
        d["cond"] = ["int", 0]
    d["has_parameters"] = False
    d["dependent"] = []
    return {"cls": "conditional_without_parameters", "pos": i, "phase": "PhModel"}


def m_unknown_key(spec, i, v):
    spec["descs"][i]["other_keys"] = [["foo"], ["interval", "Distribution"], ["condition_on"]][v % 3]
    return {"cls": "unknown_key", "pos": i, "phase": "PhModel"}


def m_unknown_param(spec, i, v):
    d = spec["descs"][i]
    if d["cond"] is None:
        if i == 0:
            return None
        _make_conditional(spec, i, ["int", 0])
    foreign = [p for f in FAMILIES for p in PARAMS[f] if p not in PARAMS[d["family"]]]
    d["dependent"] = d["dependent"] + [["foo", foreign[(v + i) % len(foreign)], "f_" + PARAMS[d["family"]][0]][v % 3]]
    return {"cls": "unknown_parameter_name", "pos": i, "phase": "PhModel"}


def m_not_defined(spec, i, v):
    d = spec["descs"][i]
    if d["cond"] is None:
        if i == 0:
            return None
        _make_conditional(spec, i, ["int", 0])
    cand = [p for p in d["dependent"] if p in PARAMS[d["family"]] and p not in d["fixed"]]
    if not cand:
        return None
    drop = cand[v % len(cand)]
    d["dependent"] = [p for p in d["dependent"] if p != drop]
    return {"cls": "parameter_neither_fixed_nor_dependent", "pos": i, "phase": "PhModel"}


def m_both_given(spec, i, v):
    d = spec["descs"][i]
    if d["cond"] is None:
        if i == 0:
            return None
        _make_conditional(spec, i, ["int", 0])
    if not d["dependent"]:
        return None
    p = d["dependent"][v % len(d["dependent"])]
    if p not in PARAMS[d["family"]] or p in d["fixed"]:
        return None
    d["fixed"] = [x for x in PARAMS[d["family"]] if x in d["fixed"] or x == p]
    if p in FIXVAL and v % 2 == 0:
        d["fixzero"] = p
    return {"cls": "parameter_fixed_and_dependent", "pos": i, "phase": "PhModel"}


def m_first_conditional(spec, i, v):
    if i != 0:
        return None
    _make_conditional(spec, 0, [["int", 0], ["none"], ["int", 1]][v % 3])
    return {"cls": "first_variable_conditional", "pos": 0, "phase": "PhModel", "value": spec["descs"][0]["cond"]}


def m_cond_self(spec, i, v):
    if i == 0:
        return None
    _make_conditional(spec, i, ["int", i])
    return {"cls": "conditional_on_itself", "pos": i, "phase": "PhModel"}


def m_cond_later(spec, i, v):
    n = len(spec["descs"])
    if i == 0 or i >= n - 1:
        return None
    _make_conditional(spec, i, ["int", i + 1 + v % (n - 1 - i)])
    return {"cls": "conditional_on_later", "pos": i, "phase": "PhModel"}


def m_cond_nonexistent(spec, i, v):
    n = len(spec["descs"])
    if i == 0:
        return None
    _make_conditional(spec, i, ["int", [n, n + 3, 5][v % 3] if [n, n + 3, 5][v % 3] >= n else n])
    return {"cls": "conditional_on_nonexistent", "pos": i, "phase": "PhModel"}


def m_cond_negative(spec, i, v):
    if i == 0:
        return None
    _make_conditional(spec, i, ["int", [-1, -2, -len(spec["descs"])][v % 3]])
    return {"cls": "conditional_on_negative", "pos": i, "phase": "PhModel"}


def m_cond_nonint(spec, i, v):
    if i == 0:
        return None
    _make_conditional(spec, i, [["none"], ["num", 0.0], ["str", "0"]][v % 3])
    return {"cls": "conditional_on_not_an_index", "pos": i, "phase": "PhModel"}


def _need_fit(spec):
    return spec["fit"] is not None


def _fit_entries(spec):
    f = spec["fit"]
    n = len(spec["descs"])
    if f["descs"] is None:
        f["descs"] = [None] * n
    return f["descs"]


def m_fit_length(spec, i, v):
    if not _need_fit(spec) or i != 0:
        return None
    e = _fit_entries(spec)
    spec["fit"]["descs"] = e[:-1] if v % 2 == 0 else e + [None]
    return {"cls": "fit_descriptions_wrong_length", "pos": 0, "phase": "PhFit"}


def m_missing_method(spec, i, v):
    if not _need_fit(spec):
        return None
    e = _fit_entries(spec)
    if i >= len(e):
        return None
    e[i] = [{"weights": ["none"]}, {}, {"weights": ["str", "linear"]}][v % 3]
    return {"cls": "fit_description_without_method", "pos": i, "phase": "PhFit"}


def m_data_dim(spec, i, v):
    if not _need_fit(spec) or i != 0:
        return None
    n = len(spec["descs"])
    spec["fit"]["data_cols"] = n + 1 if (v % 2 == 0 or n == 1) else n - 1
    return {"cls": "data_wrong_dimension", "pos": 0, "phase": "PhFit"}


def _set_fit(spec, i, method=None, weights=None):
    e = _fit_entries(spec)
    if i >= len(e):
        return False
    fd = dict(e[i] or {"method": ["str", "mle"]})
    if method is not None:
        fd["method"] = method
    if weights is not None:
        fd["weights"] = weights
    e[i] = fd
    return True


def m_unknown_method(spec, i, v):
    if not _need_fit(spec) or not _set_fit(spec, i, method=["str", ["foo", "ml", "least squares"][v % 3]]):
        return None
    return {"cls": "unknown_fit_method", "pos": i, "phase": "PhFit"}


def m_method_not_string(spec, i, v):
    if not _need_fit(spec) or not _set_fit(spec, i, method=[["num", 3], ["none"]][v % 2]):
        return None
    return {"cls": "fit_method_not_a_string", "pos": i, "phase": "PhFit"}


def m_lsq_unsupported(spec, i, v):
    if not _need_fit(spec):
        return None
    d = spec["descs"][i]
    if d["family"] == "ExpWeibull":
        if d["cond"] is not None:
            return None      # would have to change which parameters are dependent
        newfix = ["alpha", "beta"][v % 2]
        d["fixed"] = [x for x in PARAMS["ExpWeibull"] if x in d["fixed"] or x == newfix]
    if not _set_fit(spec, i, method=["str", ["lsq", "WLSQ"][v % 2]], weights=["none"]):
        return None
    return {"cls": "fit_method_not_supported_by_family", "pos": i, "phase": "PhFit"}


def m_unknown_weights(spec, i, v):
    if not _need_fit(spec):
        return None
    if not _set_fit(spec, i, method=["str", ["wlsq", "lsq"][v % 2]], weights=[["str", "foo"], ["str", "quartic"], ["num", 3]][v % 3]):
        return None
    if spec["descs"][i]["family"] == "ExpWeibull" and any(p in spec["descs"][i]["fixed"] for p in ("alpha", "beta")):
        pass
    return {"cls": "unknown_weights_keyword", "pos": i, "phase": "PhFit"}


def _conditioning(spec, c):
    return any(d["cond"] == ["int", c] for d in spec["descs"])


def _ensure_slicer(spec, c, v):
    if spec["descs"][c]["intervals"] is None:
        spec["descs"][c]["intervals"] = good_slicer(v)
    return spec["descs"][c]["intervals"]


def m_slicer_unknown_kwarg(spec, c, v):
    s = _ensure_slicer(spec, c, v)
    s["kwargs"] = [{"min_points": 5}, {"foo": 1}, {"n_min_intervals": 2, "center": True}][v % 3]
    return {"cls": "unknown_slicer_option", "pos": c, "phase": "PhSlicers"}


def m_ppi_ref_not_callable(spec, c, v):
    s = _ensure_slicer(spec, c, v)
    s.update({"kind": "points", "param": 60, "ref": [["str", "center"], ["none"], ["str", "median"]][v % 3]})
    return {"cls": "points_per_interval_reference_not_callable", "pos": c, "phase": "PhSlicers"}


def m_unknown_reference(spec, c, v):
    if not _need_fit(spec) or not _conditioning(spec, c):
        return None      # a slicer nobody slices with is never asked for its reference
    s = _ensure_slicer(spec, c, v)
    if s["kind"] == "points":
        return None      # PointsPerIntervalSlicer has no reference keywords (its class is m_ppi_ref_not_callable)
    s["ref"] = [["str", "middle"], ["str", "centre"], ["str", ""]][v % 3]
    return {"cls": "unknown_reference_keyword", "pos": c, "phase": "PhFit"}


def m_reference_type(spec, c, v):
    if not _need_fit(spec) or not _conditioning(spec, c):
        return None
    s = _ensure_slicer(spec, c, v)
    if s["kind"] == "points":
        return None
    s["ref"] = [["none"], ["num", 0.5]][v % 2]
    return {"cls": "reference_wrong_type", "pos": c, "phase": "PhFit"}


def m_too_few_intervals(spec, c, v):
    seed = CUR["seed"]
    if not _need_fit(spec) or not _conditioning(spec, c) or spec["fit"]["data_cols"] <= c:
        return None
    s = _ensure_slicer(spec, c, v)
    k = surviving(_V.get(), dict(s, kwargs={}, ref=["callable"] if s["kind"] == "points" else ["str", "center"]), c, seed)
    if s["kind"] == "number" and k >= s["param"]:
        s["min_n_points"] = 80                      # drop some intervals so that min_n_intervals can bite
        k = surviving(_V.get(), dict(s, kwargs={}, ref=["str", "center"]), c, seed)
        if k >= s["param"]:
            return None
    s["min_n_intervals"] = k + 1 + (v % 2)
    if s["kind"] == "number" and s["min_n_intervals"] > s["param"]:
        s["min_n_intervals"] = k + 1
    return {"cls": "too_few_intervals", "pos": c, "phase": "PhFit"}


def m_nonfinite_point(spec, i, v):
    """nan / +inf / -inf at coordinate i, for pdf and for cdf, as one row of a 2-D array and as a single 1-D point"""
    n = len(spec["descs"])
    kind = v % 3
    cdf = (v // 3) % 2 == 1
    single = (v // 6) % 2 == 1
    val = [float("nan"), float("inf"), float("-inf")][kind]
    if single:
        pts = good_points(n, 1)[0]
        pts[i] = val
    else:
        rows = 2 + (v + i) % 2
        pts = good_points(n, rows)
        pts[(v + i) % rows][i] = val
    spec["points"] = {"cdf": cdf, "pts": pts}
    return {"cls": "non_finite_evaluation_point", "pos": i, "phase": "PhEval",
            "detail": "%s(%s), %s at coordinate %d" % ("cdf" if cdf else "pdf", "single point" if single else "one row of %d" % len(pts),
                                                        ["nan", "+inf", "-inf"][kind], i)}


def _hdc(spec, v):
    if spec["contour"] is None or spec["contour"]["kind"] != "hdc":
        spec["mal"] = [m for m in spec["mal"] if m["phase"] != "PhContour"]
        spec["contour"] = good_hdc(len(spec["descs"]), v)
    return spec["contour"]


def m_hdc_limits_length(spec, i, v):
    if i != 0:
        return None
    c = _hdc(spec, v)
    c["limits"] = c["limits"][:-1] if v % 2 == 0 else c["limits"] + [[0.3, 3.3]]
    return {"cls": "hdc_limits_wrong_length", "pos": 0, "phase": "PhContour"}


def m_hdc_deltas_length(spec, i, v):
    if i != 0:
        return None
    c = _hdc(spec, v)
    n = len(spec["descs"])
    c["deltas"] = [[0.6] * (n + 1), [0.6] * (n - 1), []][v % 3]
    return {"cls": "hdc_deltas_wrong_length", "pos": 0, "phase": "PhContour"}


def m_hdc_limit_tuple(spec, i, v):
    c = _hdc(spec, v // 3)
    if i >= len(c["limits"]):
        return None
    c["limits"][i] = [[0.3, 1.0, 3.3], [3.3], []][v % 3]
    return {"cls": "hdc_limit_not_a_pair", "pos": i, "phase": "PhContour"}


def m_hdc_limit_scalar(spec, i, v):
    c = _hdc(spec, v)
    if i >= len(c["limits"]):
        return None
    c["limits"][i] = 3.3
    return {"cls": "hdc_limit_not_a_tuple", "pos": i, "phase": "PhContour"}


def m_hdc_nan(spec, i, v):
    d = spec["descs"][i]
    if d["cond"] is not None or d["family"] == "ExpWeibull" or not d["has_distribution"] or spec["fit"] is not None:
        return None       # ExponentiatedWeibull.pdf maps nan to 0; a fit would overwrite the parameter
    if PARAMS[d["family"]][0] in d["fixed"]:
        return None
    c = _hdc(spec, v)
    c["nan_at"] = i
    return {"cls": "hdc_nan_density", "pos": i, "phase": "PhContour"}


def m_not_2d(spec, i, v):
    """a 2-D-only contour on a 1-, 3- or 4-dimensional model, without a sample and with a caller-supplied sample of
    exactly two columns (which the 2-D algorithm could digest)"""
    if i != 0 or len(spec["descs"]) == 2:
        return None
    with_sample = (v // 3) % 2 == 1
    spec["mal"] = [m for m in spec["mal"] if m["phase"] != "PhContour"]     # the contour request is replaced
    spec["contour"] = {"kind": ["direct", "and", "or"][v % 3], "sample": "two_columns" if with_sample else None}
    return {"cls": "two_dimensional_contour_on_other_dimension", "pos": 0, "phase": "PhContour",
            "detail": "%s contour on a %d-dimensional model, %s" % (spec["contour"]["kind"], len(spec["descs"]),
                                                                     "sample with two columns supplied" if with_sample else "no sample supplied")}


def m_iform_model_type(spec, i, v):
    if i != 0:
        return None
    spec["mal"] = [m for m in spec["mal"] if m["phase"] != "PhContour"]     # the contour request is replaced
    spec["contour"] = {"kind": "iform", "model": ["str", "int"][v % 2]}
    return {"cls": "iform_model_wrong_type", "pos": 0, "phase": "PhContour"}


MODEL_INJ = [m_missing_distribution, m_cond_without_parameters, m_unknown_key, m_unknown_param, m_not_defined, m_both_given,
             m_first_conditional, m_cond_self, m_cond_later, m_cond_nonexistent, m_cond_negative, m_cond_nonint]
FIT_INJ = [m_fit_length, m_missing_method, m_data_dim, m_unknown_method, m_method_not_string, m_lsq_unsupported, m_unknown_weights]
SLICER_INJ = [m_slicer_unknown_kwarg, m_ppi_ref_not_callable, m_unknown_reference, m_reference_type, m_too_few_intervals]
LATE_INJ = [m_nonfinite_point, m_hdc_limits_length, m_hdc_deltas_length, m_hdc_limit_tuple, m_hdc_limit_scalar, m_hdc_nan,
            m_not_2d, m_iform_model_type]
ALL_INJ = MODEL_INJ + FIT_INJ + SLICER_INJ + LATE_INJ
INJ_BY_NAME = {f.__name__: f for f in ALL_INJ}
NEEDS_FIT = set(f.__name__ for f in FIT_INJ) | {"m_unknown_reference", "m_reference_type", "m_too_few_intervals"}
# number of variants of the injected value (default 3)
NVARIANTS = {"m_nonfinite_point": 12, "m_not_2d": 6}


GROUP = {"m_first_conditional": "hierarchy", "m_cond_self": "hierarchy", "m_cond_later": "hierarchy",
         "m_cond_nonexistent": "hierarchy", "m_cond_negative": "hierarchy", "m_cond_nonint": "hierarchy",
         "m_ppi_ref_not_callable": "points-per-interval-reference"}


def fams_for(n, carrier, pos, rot):
    """carrier family at pos, fast families elsewhere"""
    fast = ["LogNormal", "Weibull", "Normal", "LogNormalNormFit"]
    return [carrier if i == pos else fast[(rot + i) % 4] for i in range(n)]


def build_case(n, struct, pos_fams, injections, variant):
    """injections: list of (injector name, pos).  Returns spec or None when an injector does not apply."""
    with_fit = any(nm in NEEDS_FIT for nm, _ in injections) or (variant % 4 == 3 and not any(nm == "m_hdc_nan" for nm, _ in injections))
    spec = base_spec(n, struct, pos_fams, variant, with_fit=with_fit)
    for k, (nm, pos) in enumerate(injections):
        lab = INJ_BY_NAME[nm](spec, pos, variant + k)
        if lab is None:
            return None
        lab["inj"] = nm
        lab["group"] = GROUP.get(nm, "other")
        spec["mal"].append(lab)
    # keep the later phases cheap and deterministic: an HDC / IFORM run on a *fitted* model is never requested
    spec["gen"] = {"n": n, "struct": list(struct), "fams": list(pos_fams), "inj": [list(x) for x in injections], "variant": variant}
    return spec


def expected_phase(spec):
    if not spec["mal"]:
        return None
    return min((m["phase"] for m in spec["mal"]), key=PHASES.index)


# ------------------------------------------------------------------ property oracle
def oracle(spec, real):
    """None if the property holds for this session, else (signature, message)"""
    exp = expected_phase(spec)
    if real is not None and real["tag"] == "?" and real["site"].endswith("._fit_mle"):
        return "unjudgeable"      # the fitting engine failed: says nothing about validation
    if exp is None:
        if real is not None:
            return ({"clause": "well-formed-rejected", "site": real["site"]},
                    "a well-formed session raises %s in %s: %s" % (real["exc"], real["site"], real.get("msg", "")))
        return None
    first = [m for m in spec["mal"] if m["phase"] == exp]
    sig_cls = sorted({m["cls"] for m in first})[0]
    grp = [m["group"] for m in first if m["cls"] == sig_cls][0]
    if real is None:
        return ({"clause": "accepted", "group": grp, "malformation": sig_cls, "supplied_in": exp},
                "ill-formed session (%s) is accepted: every step returned a result" % ", ".join(
                    "%s at dimension %d%s" % (m["cls"], m["pos"], " [%s]" % m["detail"] if m.get("detail") else "") for m in spec["mal"]))
    if PHASES.index(real["phase"]) > PHASES.index(exp):
        return ({"clause": "rejected-late", "group": grp, "malformation": sig_cls, "supplied_in": exp, "raised_in": real["phase"]},
                "ill-formed input (%s at dimension %d) supplied in %s is only rejected in %s (%s in %s)" % (
                    first[0]["cls"], first[0]["pos"], exp, real["phase"], real["exc"], real["site"]))
    if PHASES.index(real["phase"]) < PHASES.index(exp):
        return ({"clause": "well-formed-rejected", "site": real["site"]},
                "%s raised in %s before the malformed input is supplied (%s)" % (real["exc"], real["site"], exp))
    return None


def shrink(spec, sig, seed):
    """smallest session (fewest dimensions, one malformation) of the same class that still fails the same way"""
    inj = [m["inj"] for m in spec["mal"] if m["cls"] == sig.get("malformation")]
    if not inj:
        return spec
    for n in range(1, 5):
        for struct in structures(n):
            for pos in range(n):
                for v in range(NVARIANTS.get(inj[0], 3)):
                    cand = build_case(n, struct, fams_for(n, "LogNormal", pos, 0), [(inj[0], pos)], v)
                    if cand is None:
                        continue
                    try:
                        o = oracle(cand, run_real(cand, seed))
                    except Exception:  # noqa
                        continue
                    if o not in (None, "unjudgeable") and o[0].get("malformation") == sig.get("malformation"):
                        return cand
    return spec


def replay(ctx, spec):
    CUR["seed"] = spec.get("seed", 0)
    real = run_real(spec, spec.get("seed", 0))
    o = oracle(spec, real)
    if o not in (None, "unjudgeable"):
        print("  ", o[1])
        return True
    print("   real:", real)
    return False


# ------------------------------------------------------------------ enumeration
def singles(ns, full):
    """every injector x every position x every structure x every family as carrier"""
    for n in ns:
        for si, struct in enumerate(structures(n)):
            for pos in range(n):
                for f in ALL_INJ:
                    nm = f.__name__
                    fam_list = FAMILIES if (full or f in MODEL_INJ or f in FIT_INJ) else [FAMILIES[(n + pos) % 8]]
                    for fi, fam in enumerate(fam_list):
                        nv = NVARIANTS.get(nm, 3)
                        for v in (range(nv) if full else [(n + pos + fi + si) % nv]):
                            yield (n, struct, fams_for(n, fam, pos, fi + v), [(nm, pos)], v)


def pairs(ns, all_structs_upto=0):
    """every pair of injectors x every pair of positions; hierarchies: all of them for n <= all_structs_upto, else
    chain / star / mixed; the carrier family at the first malformed position rotates through all families"""
    k = 0
    for n in ns:
        structs = [tuple([None] + list(range(n - 1))), tuple([None] + [0] * (n - 1)),
                   tuple([None] + [None if i % 2 else i - 1 for i in range(1, n)])]
        if n <= all_structs_upto:
            structs = structures(n)
        for struct in dict.fromkeys(structs):
            for p in range(n):
                for r in range(n):
                    for a in ALL_INJ:
                        for b in ALL_INJ:
                            if a is b and p == r:
                                continue
                            k += 1
                            yield (n, struct, fams_for(n, FAMILIES[k % 8], p, k // 8), [(a.__name__, p), (b.__name__, r)], k % 3)


def valid_cases(ns, per_struct):
    k = 0
    for n in ns:
        for struct in structures(n):
            for j in range(per_struct):
                k += 1
                fams = [FAMILIES[(k + 3 * i + j) % 8] for i in range(n)]
                yield (n, struct, fams, [], k)


def decorate_valid(spec, k, n):
    """a well-formed session also evaluates and draws a contour"""
    if k % 2 == 0:
        spec["points"] = {"cdf": (n == 1 and k % 4 == 0), "pts": good_points(n, 1 + k % 3)}
    if spec["fit"] is None:
        r = k % 5
        if r in (0, 1):
            fams_ok = all(d["family"] != "VonMises" for d in spec["descs"])
            spec["contour"] = good_hdc(n, k) if (fams_ok or good_hdc(n, k)["deltas"] is not None) else good_hdc(n, 0)
        elif r == 2:
            spec["contour"] = {"kind": "iform", "model": "ghm"}
        elif r == 3 and n == 2:
            spec["contour"] = {"kind": ["direct", "and", "or"][k % 3]}
    return spec


def run(ctx):
    V = _V.get()
    ctx.proof_gate()
    rng = ctx.rng
    seed = ctx.seed
    CUR["seed"] = seed
    quick = ctx.quick()

    # ---- case list: leads first, then the core (all singles on every hierarchy, rotating variants), then a
    # random sample of singles with all variants and of pairs; thorough: everything.
    gens = []
    lead = [(3, (None, 0, 1), ["Weibull", "LogNormal", "Weibull"], [("m_cond_self", 1)], 0),
            (3, (None, 0, 1), ["Weibull", "LogNormal", "Weibull"], [("m_cond_later", 1)], 0),
            (2, (None, 0), ["Weibull", "LogNormal"], [("m_cond_nonexistent", 1)], 2),
            (2, (None, 0), ["Weibull", "LogNormal"], [("m_cond_negative", 1)], 0),
            (2, (None, 0), ["Weibull", "LogNormal"], [("m_cond_nonint", 1)], 0),
            (2, (None, 0), ["Weibull", "LogNormal"], [("m_ppi_ref_not_callable", 0)], 0),
            (1, (None,), ["LogNormal"], [("m_first_conditional", 0)], 1)]
    gens += lead
    for n in (1, 2, 3, 4):
        chain = tuple([None] + list(range(n - 1)))
        for nm in sorted(NVARIANTS):
            for pos in range(n):
                for v in range(NVARIANTS[nm]):
                    gens.append((n, chain, fams_for(n, FAMILIES[(n + pos + v) % 8], pos, v), [(nm, pos)], v))
    if quick:
        by_inj = {}
        for g in singles([1, 2, 3, 4], full=False):
            by_inj.setdefault(g[3][0][0], []).append(g)
        for nm in sorted(by_inj):
            rng.shuffle(by_inj[nm])
            # applicable ones only, so that every class is present
            take = 0
            for g in by_inj[nm]:
                if take >= (60 if nm in NEEDS_FIT else 90):
                    break
                if build_case(*g) is not None:
                    gens.append(g)
                    take += 1
        allp = list(pairs([2, 3]))
        rng.shuffle(allp)
        gens += allp[:2500]
        gens += list(valid_cases([1, 2, 3, 4], 2))
    else:
        # exhaustive: every class x every position x every hierarchy x every family x 3 variants of the injected
        # value; every ordered pair of classes x every pair of positions (all hierarchies of 2 and 3 dimensions,
        # chain / star / mixed for 4)
        gens += list(singles([1, 2, 3, 4], full=True))
        gens += list(pairs([2, 3, 4], all_structs_upto=3))
        gens += list(valid_cases([1, 2, 3, 4], 12))
    cases = []
    n_inapplicable = 0
    seen = set()
    for (n, struct, fams, inj, v) in gens:
        spec = build_case(n, struct, fams, inj, v)
        if spec is None:
            n_inapplicable += 1
            continue
        if not inj:
            decorate_valid(spec, v, n)
        spec["seed"] = seed
        key = json.dumps({k: spec[k] for k in ("descs", "fit", "points", "contour")}, sort_keys=True)
        if key in seen:
            continue
        seen.add(key)
        cases.append(spec)
    ctx.notes["generated"] = {"requested": len(gens), "inapplicable_combinations": n_inapplicable, "distinct_sessions": len(cases)}

    # ---- real runs
    import time
    t_real = time.time()
    reals = []
    for spec in cases:
        try:
            reals.append(run_real(spec, seed))
        except Exception as e:  # noqa  (harness problem, not a finding)
            reals.append({"phase": "?", "exc": "HARNESS:" + type(e).__name__, "site": "?", "tag": "?", "pos": 0,
                          "msg": traceback.format_exc()[-400:]})
    t_real = time.time() - t_real
    dist = {}
    per_class = {}
    for spec in cases:
        for m in spec["mal"]:
            per_class[m["cls"]] = per_class.get(m["cls"], 0) + 1
    ctx.notes["sessions_per_malformation_class"] = per_class
    for spec, r in zip(cases, reals):
        k = "%d-dim/%s/%s" % (len(spec["descs"]), "+".join(sorted(m["cls"] for m in spec["mal"])) if len(spec["mal"]) < 2 else "pair",
                              "ok" if r is None else r["exc"] + "@" + r["phase"])
        dist[k] = dist.get(k, 0) + 1
        ctx.count(json.dumps({k2: spec[k2] for k2 in ("descs", "fit", "points", "contour")}, sort_keys=True), bool(spec["mal"]))
    ctx.notes["input_distribution"] = {"by_dimension": {str(n): sum(1 for s in cases if len(s["descs"]) == n) for n in (1, 2, 3, 4)},
                                       "single": sum(1 for s in cases if len(s["mal"]) == 1),
                                       "pairs": sum(1 for s in cases if len(s["mal"]) == 2),
                                       "well_formed": sum(1 for s in cases if not s["mal"]),
                                       "real_outcomes": _top(dist, 60)}
    for spec, r in list(zip(cases, reals))[:3]:
        ctx.sample({"session": {k: spec[k] for k in ("descs", "fit", "points", "contour", "mal")}, "implementation": r})

    # ---- correspondence
    shard = 300
    items = []
    for s in range(0, len(cases), shard):
        body = ("From V.model Require Import Validate.\nLocal Open Scope string_scope.\nLocal Open Scope nat_scope.\n"
                "Definition cases : list scenario := [\n" + ";\n".join(coq_scenario(c, seed) for c in cases[s:s + shard]) +
                "].\nEval vm_compute in map observe cases.\n")
        items.append(("cases_%d" % (s // shard), body))
    t_coq = time.time()
    outs = ctx.coq_eval_many(items, jobs=12)
    ctx.notes["timing_s"] = {"real_runs": round(t_real, 1), "coq_vm_compute": round(time.time() - t_coq, 1)}
    models = [None] * len(cases)
    have = [False] * len(cases)
    for k, o in enumerate(outs):
        if o is None:
            continue
        terms = vlib.parse_term(o[0])
        for i, t in enumerate(terms):
            idx = k * shard + i
            models[idx] = model_obs(t, cases[idx])
            have[idx] = True
    ncmp = nmis = 0
    suspects = []
    unjudgeable = 0
    for idx, (spec, r) in enumerate(zip(cases, reals)):
        if not have[idx]:
            continue
        if r is not None and r["tag"] == "?" and (r["site"].endswith("._fit_mle") or r["exc"].startswith("HARNESS")):
            unjudgeable += 1
            if r["exc"].startswith("HARNESS"):
                ctx.broken.append(("harness-crash", "run_real", r["msg"]))
            continue
        ncmp += 1
        if not same(models[idx], r):
            nmis += 1
            ctx.mismatch("session %d" % idx, "model %r / implementation %r / session %s" % (
                models[idx], r, json.dumps({k2: spec[k2] for k2 in ("descs", "fit", "points", "contour")})[:900]))
            suspects.append(idx)
    ctx.cov["programs"] = 1
    ctx.notes["correspondence"] = {"sessions_compared": ncmp, "mismatches": nmis, "unjudgeable_engine_errors": unjudgeable,
                                   "compared": "raised or not, phase, exception class, raising function, check, dimension"}

    # ---- search: property oracle, disagreeing sessions first
    found = {}
    order = suspects + [i for i in range(len(cases)) if i not in set(suspects)]
    nunj = 0
    for idx in order:
        o = oracle(cases[idx], reals[idx])
        if o is None:
            continue
        if o == "unjudgeable":
            nunj += 1
            continue
        sig, msg = o
        key = json.dumps(sig, sort_keys=True)
        if key in found:
            found[key][2] += 1
            continue
        found[key] = [sig, msg, 1, idx]
    for key, (sig, msg, cnt, idx) in found.items():
        small = shrink(cases[idx], sig, seed)
        small["seed"] = seed
        o2 = oracle(small, run_real(small, seed))
        if o2 in (None, "unjudgeable"):
            small, o2 = cases[idx], (sig, msg)
        ctx.violation(o2[0], "%s  [%d sessions of this kind]" % (o2[1], cnt),
                      {k: small[k] for k in ("descs", "fit", "points", "contour", "mal", "seed")})
    ctx.notes["oracle"] = {"sessions_judged": len(cases) - nunj, "unjudgeable": nunj, "violation_kinds": len(found)}
    ctx.cov["rule"] = ("sessions = well-formed 1-4 dimensional descriptions (every hierarchy cond[i] in {None, 0..i-1}) with 0, 1 or 2 injected "
                       "malformations (%d classes: model description, fit, slicer, evaluation point, HDC grid, 2-D / IFORM guards) at every "
                       "position, every distribution family as carrier at the malformed position; non-trivial = at least one malformation; "
                       "distinct = hash of the session" % len(ALL_INJ))
    ctx.cov["trusted_base"] = ["Coq 8.16.1 kernel + vm_compute", "harness tools/harness/c18.py: generators, the abstraction spec -> Coq record "
                               "(coq_desc / coq_fit / coq_contour), classification of real exceptions by innermost virocon frame and message",
                               "number of surviving intervals per slicer and data column taken from the real slicer (oracle table)"]
    ctx.assumptions += ["the fitting engines (scipy fit, curve_fit) succeed on the well-formed sessions' data (engine errors are counted as unjudgeable)",
                        "dictionaries are abstracted to key presence / value kind; values outside the listed kinds (e.g. bool as conditional_on) are not modelled"]


def _top(d, k):
    return dict(sorted(d.items(), key=lambda kv: -kv[1])[:k])
