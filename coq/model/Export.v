(* Executable model of the export / plot / load layer (C20):
     virocon/contours.py  save_contour_coordinates   (path rule, header, one line per point)
     virocon/plotting.py  plot_2D_contour            (closed polyline, swap_axis, scatter data, design_conditions dispatch)
                          the other plot functions   (curves (x, f x) and scatter pairs handed to matplotlib)
     virocon/utils.py     read_ec_benchmark_dataset  (split on ';', skipinitialspace, first column -> index)
   Text is a list of bytes (Coq `ascii`; the files are UTF-8).  The engines (numpy.savetxt's printf
   formatting, matplotlib, pandas' number / time-stamp parsing) are NOT modelled: formatted fields and
   parsed leaves are parameters, the list structure (counting, ordering, joining, splitting, closing,
   axis exchange) is what this file defines.  NO proofs in this file.

   plot_2D_contour is modelled AS REPAIRED (fixes/C20-*.patch): an array passed as design_conditions is
   scattered as supplied (the source evaluates the truth value of the array and raises ValueError). *)
From Coq Require Import List Bool Ascii String Arith.
Import ListNotations.

Notation text := (list ascii).

Definition semi : ascii := ";"%char.
Definition space : ascii := " "%char.
Definition dot : ascii := "."%char.
Definition slash : ascii := "/"%char.
Definition newline : ascii := "010"%char.
Definition T (s : string) : text := list_ascii_of_string s.

(* ---------------------------------------------------------------- text plumbing *)
Fixpoint join (sep : text) (l : list text) : text :=
  match l with
  | [] => []
  | [a] => a
  | a :: tl => a ++ sep ++ join sep tl
  end.

(* split on one delimiter byte (str.split / the csv tokenizer without quoting) *)
Fixpoint split_acc (d : ascii) (cur : text) (s : text) : list text :=
  match s with
  | [] => [rev cur]
  | c :: s' => if Ascii.eqb c d then rev cur :: split_acc d [] s' else split_acc d (c :: cur) s'
  end.
Definition split (d : ascii) (s : text) : list text := split_acc d [] s.

Fixpoint lstrip (s : text) : text :=
  match s with c :: s' => if Ascii.eqb c space then lstrip s' else s | [] => [] end.

(* ---------------------------------------------------------------- save_contour_coordinates *)
(* os.path.splitext(file_path)[1] is non-empty: the last path component has a dot that is preceded,
   within that component, by at least one character other than a dot *)
Fixpoint last_component_acc (cur : text) (p : text) : text :=
  match p with
  | [] => rev cur
  | c :: p' => if Ascii.eqb c slash then last_component_acc [] p' else last_component_acc (c :: cur) p'
  end.
Definition last_component (p : text) : text := last_component_acc [] p.

(* r is the reversed file name: drop up to and including its first dot = the last dot of the name *)
Fixpoint stem_rev (r : text) : option text :=
  match r with
  | [] => None
  | c :: r' => if Ascii.eqb c dot then Some r' else stem_rev r'
  end.

Definition has_ext (p : text) : bool :=
  match stem_rev (rev (last_component p)) with
  | None => false
  | Some st => existsb (fun c => negb (Ascii.eqb c dot)) st
  end.

Definition out_path (p : text) : text := if has_ext p then p else p ++ T ".txt".

Definition label (name unit_ : text) : text := name ++ T " (" ++ unit_ ++ T ")".

(* header = ";".join(f"{names[d]} ({units[d]})" for d in range(n_dim)) *)
Definition header (names units : list text) (n_dim : nat) : text :=
  join [semi] (map (fun d => label (nth d names []) (nth d units [])) (seq 0 n_dim)).

Section Save.
  Variable V : Type.
  Variable fmt : V -> text.           (* "%1.6f" % v : the printf engine *)

  Definition row_line (row : list V) : text := join [semi] (map fmt row).

  (* np.savetxt(path, coords, fmt, delimiter=";", header=header, comments=""): the lines of the file *)
  Definition file_lines (names units : list text) (n_dim : nat) (coords : list (list V)) : list text :=
    header names units n_dim :: map row_line coords.

  Definition file_text (lines : list text) : text := List.concat (map (fun l => l ++ [newline]) lines).
End Save.

(* ---------------------------------------------------------------- plot_2D_contour *)
Section Plot.
  Variable V : Type.
  Notation pt := (V * V)%type.

  Definition pproj (swap : bool) (p : pt) : pt := if swap then (snd p, fst p) else p.

  (* x = coords[:, x_idx].tolist(); x.append(x[0]); same for y; ax.plot(x, y) *)
  Definition polyline (swap : bool) (coords : list pt) : list pt :=
    match coords with
    | [] => []
    | p0 :: _ => map (pproj swap) coords ++ [pproj swap p0]
    end.

  (* ax.scatter(sample[:, x_idx], sample[:, y_idx]) *)
  Definition sample_scatter (swap : bool) (sample : list pt) : list pt := map (pproj swap) sample.

  Inductive dc_arg := DcNone | DcTrue | DcArray (a : list pt).

  (* the design conditions drawn: none / the computed ones (calculate_design_conditions(contour,
     swap_axis=swap_axis), an oracle here: property C17) / the supplied array, columns 0 and 1 as they are *)
  Definition dc_scatter (computed : list pt) (a : dc_arg) : option (list pt) :=
    match a with DcNone => None | DcTrue => Some computed | DcArray l => Some l end.

  (* the PathCollections of the axes in drawing order: design conditions first, then the sample *)
  Definition collections (swap : bool) (computed : list pt) (a : dc_arg) (sample : option (list pt)) : list (list pt) :=
    (match dc_scatter computed a with Some d => [d] | None => [] end) ++
    (match sample with Some s => [sample_scatter swap s] | None => [] end).

  (* the other plot functions: a curve is the list of (x, f x), a scatter the list of pairs *)
  Definition curve (f : V -> V) (xs : list V) : list pt := map (fun x => (x, f x)) xs.
  Definition scatter_pairs (xs ys : list V) : list pt := combine xs ys.
End Plot.

Arguments DcNone {V}. Arguments DcTrue {V}. Arguments DcArray {V}.

(* ---------------------------------------------------------------- read_ec_benchmark_dataset *)
(* one line of the file -> its fields (sep=";", skipinitialspace=True) *)
Definition fields (line : text) : list text := map lstrip (split semi line).

(* rendering in the benchmark format: fields joined by "; " *)
Definition render_line (fs : list text) : text := join (semi :: [space]) fs.

Section Reader.
  Variables TS N : Type.
  Variable read_ts : text -> TS.      (* pd.to_datetime(., format="%Y-%m-%d-%H") : engine *)
  Variable read_num : text -> N.      (* pandas' number parser : engine *)

  (* data = read_csv(...); data.index = to_datetime(data.pop(data.columns[0])):
     (names of the remaining columns, [(time stamp, values)] in file order) *)
  Definition read_dataset (lines : list text) : list text * list (TS * list N) :=
    match lines with
    | [] => ([], [])
    | h :: rows =>
        (tl (fields h),
         map (fun l => let fs := fields l in (read_ts (hd [] fs), map read_num (tl fs))) rows)
    end.
End Reader.
