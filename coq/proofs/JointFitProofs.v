(* Lemmas for C09: what the joint fit hands to the template / dependence fits, invariance under row
   permutations, locality of the fit options, re-fit.  The interval model and its lemmas are imported from
   model/Intervals.v and proofs/IntervalsProofs.v. *)
From Coq Require Import List Bool Arith Lia Permutation.
From V.model Require Import Intervals JointFit.
From V.proofs Require Import IntervalsProofs.
Import ListNotations.

(* ------------------------------------------------------------------ lists *)
Section Lists.
  Lemma selm_map {A B} (f : A -> bool) (g : A -> B) (l : list A) :
    selm (map f l) (map g l) = map g (filter f l).
  Proof. unfold selm. induction l as [|a l IH]; [reflexivity|]. cbn [map combine filter fst].
    destruct (f a); cbn [map snd]; rewrite IH; reflexivity. Qed.

  Lemma perm_filter {A} (f : A -> bool) (l l' : list A) :
    Permutation l l' -> Permutation (filter f l) (filter f l').
  Proof. induction 1 as [|x l l' _ IH|x y l|l l' l'' _ IH1 _ IH2]; cbn [filter].
    - constructor.
    - destruct (f x); [constructor|]; exact IH.
    - destruct (f x), (f y); try apply Permutation_refl. apply perm_swap.
    - exact (perm_trans IH1 IH2). Qed.

  Lemma perm_forallb {A} (f : A -> bool) (l l' : list A) : Permutation l l' -> forallb f l = forallb f l'.
  Proof. induction 1 as [|x l l' _ IH|x y l|l l' l'' _ IH1 _ IH2]; cbn [forallb]; try congruence.
    destruct (f x), (f y); reflexivity. Qed.

  Lemma count_true_map {A} (f : A -> bool) (l : list A) : count_true (map f l) = length (filter f l).
  Proof. unfold count_true. induction l as [|a l IH]; [reflexivity|]. cbn [map filter].
    destruct (f a); cbn [length]; rewrite IH; reflexivity. Qed.

  Lemma filter_map_comm {A B} (p : B -> bool) (f : A -> B) (l : list A) :
    filter p (map f l) = map f (filter (fun a => p (f a)) l).
  Proof. induction l as [|a l IH]; [reflexivity|]. cbn [map filter]. destruct (p (f a)); cbn [map]; rewrite IH; reflexivity. Qed.

  Lemma Forall2_refl_perm {A} (l : list (list A)) : Forall2 (@Permutation A) l l.
  Proof. induction l; constructor; auto. Qed.

  Lemma Forall2_map_same {A B} (P : B -> B -> Prop) (f g : A -> B) (l : list A) :
    (forall a, In a l -> P (f a) (g a)) -> Forall2 P (map f l) (map g l).
  Proof. induction l as [|a l IH]; intros H; cbn [map]; constructor.
    - apply H. left. reflexivity.
    - apply IH. intros b Hb. apply H. right. exact Hb. Qed.

  Lemma map_perm_inv {A B} (f : list A -> B) (l l' : list (list A)) :
    (forall x x', Permutation x x' -> f x = f x') -> Forall2 (@Permutation A) l l' -> map f l = map f l'.
  Proof. intros Hf. induction 1 as [|x x' l l' Hx _ IH]; [reflexivity|]. cbn [map]. rewrite (Hf _ _ Hx), IH. reflexivity. Qed.
End Lists.

(* ------------------------------------------------------------------ edge slicers (Width / Number) *)
Section Edge.
  Variables T R : Type.
  Variable leb : T -> T -> bool.
  Variable d0 : T.
  Notation col := (col T d0).
  Notation inb := (inb T leb).

  (* the observations of column i whose conditioning value (column c) lies in the interval, in row order *)
  Definition members (k : kind) (iv : T * T) (c i : nat) (rows : list (list T)) : list T :=
    map (fun r => nth i r d0) (filter (fun r => inb k iv (nth c r d0)) rows).

  Lemma mask_col k iv c rows : mask T leb k iv (col c rows) = map (fun r => inb k iv (nth c r d0)) rows.
  Proof. unfold mask, JointFit.col. apply map_map. Qed.

  Lemma sel_mask_members k iv c i rows : selm (mask T leb k iv (col c rows)) (col i rows) = members k iv c i rows.
  Proof. rewrite mask_col. unfold JointFit.col. apply selm_map. Qed.

  Lemma members_perm k iv c i rows rows' : Permutation rows rows' ->
    Permutation (members k iv c i rows) (members k iv c i rows').
  Proof. intros H. unfold members. apply Permutation_map. apply perm_filter. exact H. Qed.

  Lemma col_perm c rows rows' : Permutation rows rows' -> Permutation (col c rows) (col c rows').
  Proof. apply Permutation_map. Qed.

  (* the intervals of a plan as (kind, (lower, upper), reference) *)
  Definition arows (pl : plan T R) : list (kind * (T * T) * R) :=
    combine (combine (kinds (pl_kind pl) (pl_close pl) (length (intervals T (pl_edges pl)))) (intervals T (pl_edges pl)))
            (pl_refs pl).
  (* those with at least min_n_points members *)
  Definition kept (pl : plan T R) (x : list T) : list (kind * (T * T) * R) :=
    filter (fun a => pl_mnp pl <=? length (filter (inb (fst (fst a)) (snd (fst a))) x)) (arows pl).
  Definition mkr (x : list T) (a : kind * (T * T) * R) : row T R :=
    mkrow (mask T leb (fst (fst a)) (snd (fst a)) x) (snd a) (snd (fst a)).

  Lemma drop_rows_of pl x :
    drop T (pl_mnp pl) (rows_of T leb (pl_kind pl) (pl_close pl) (pl_edges pl) (pl_refs pl) x) = map (mkr x) (kept pl x).
  Proof. unfold drop, rows_of, kept, arows. rewrite filter_map_comm. f_equal. apply filter_ext.
    intros a. cbn [r_mask]. unfold mask. rewrite count_true_map. reflexivity. Qed.

  Lemma plan_slice_spec pl x :
    plan_slice T R leb pl x = if length (kept pl x) <? pl_mni pl then None else Some (map (mkr x) (kept pl x)).
  Proof. unfold plan_slice. rewrite drop_rows_of. unfold finish. rewrite map_length. reflexivity. Qed.

  Lemma kept_perm pl x x' : Permutation x x' -> kept pl x = kept pl x'.
  Proof. intros H. unfold kept. apply filter_ext. intros a.
    rewrite (Permutation_length (perm_filter (inb (fst (fst a)) (snd (fst a))) x x' H)). reflexivity. Qed.

  Definition ref_of (rf : option (list T -> R)) (c : nat) (rows : list (list T)) (a : kind * (T * T) * R) : R :=
    match rf with None => snd a | Some f => f (members (fst (fst a)) (snd (fst a)) c c rows) end.

  (* (c) what _split_in_intervals returns for a Width/Number slicer: for every surviving interval exactly the
     observations {y_r | x_r in interval}, in row order; RuntimeError iff too few intervals survive *)
  Theorem split_edge_spec slicers mk rf rows i c :
    nth_error slicers c = Some (edge_slicer T R leb mk rf) ->
    split_in_intervals T R d0 slicers rows i c =
    let pl := mk (col c rows) in
    let ks := kept pl (col c rows) in
    if length ks <? pl_mni pl then None
    else Some (map (fun a => members (fst (fst a)) (snd (fst a)) c i rows) ks,
               map (ref_of rf c rows) ks,
               map (fun a => snd (fst a)) ks).
  Proof.
    intros Hs. unfold split_in_intervals. rewrite Hs. unfold edge_slicer. rewrite plan_slice_spec. cbv zeta.
    destruct (length (kept (mk (col c rows)) (col c rows)) <? pl_mni (mk (col c rows))); [reflexivity|].
    cbn [option_map]. f_equal. f_equal; [f_equal|].
    - destruct rf; unfold reref; rewrite ?map_map; apply map_ext; intros a; cbn [r_mask mkr]; apply sel_mask_members.
    - destruct rf; unfold reref, ref_of; rewrite ?map_map; apply map_ext; intros a; cbn [r_ref r_mask mkr]; [|reflexivity].
      f_equal. apply sel_mask_members.
    - destruct rf; unfold reref; rewrite ?map_map; apply map_ext; intros a; reflexivity.
  Qed.

  Definition split_equiv (a b : option (list (list T) * list R * list (T * T))) : Prop :=
    match a, b with
    | None, None => True
    | Some (ivs, refs, bs), Some (ivs', refs', bs') => Forall2 (@Permutation T) ivs ivs' /\ refs = refs' /\ bs = bs'
    | _, _ => False
    end.

  Definition plan_inv (mk : list T -> plan T R) : Prop := forall x x', Permutation x x' -> mk x = mk x'.
  Definition rf_inv (rf : option (list T -> R)) : Prop :=
    match rf with None => True | Some f => forall x x', Permutation x x' -> f x = f x' end.

  (* (a) interval k of the permuted matrix is a permutation of interval k of the original; references,
     boundaries and the RuntimeError condition are identical.  The plan (value range -> edges, references)
     only has to agree on the two orders of the conditioning column. *)
  Theorem split_edge_perm_on slicers mk rf rows rows' i c :
    nth_error slicers c = Some (edge_slicer T R leb mk rf) -> mk (col c rows) = mk (col c rows') -> rf_inv rf ->
    Permutation rows rows' ->
    split_equiv (split_in_intervals T R d0 slicers rows i c) (split_in_intervals T R d0 slicers rows' i c).
  Proof.
    intros Hs Hmk Hrf HP. rewrite !(split_edge_spec slicers mk rf _ i c Hs). cbv zeta.
    rewrite <- Hmk.
    rewrite <- (kept_perm (mk (col c rows)) _ _ (col_perm c rows rows' HP)).
    destruct (length (kept (mk (col c rows)) (col c rows)) <? pl_mni (mk (col c rows))); cbn; [exact I|].
    split; [|split; [|reflexivity]].
    - apply Forall2_map_same. intros a _. apply members_perm. exact HP.
    - apply map_ext. intros a. unfold ref_of. destruct rf as [f|]; [|reflexivity].
      apply Hrf. apply members_perm. exact HP.
  Qed.

  Theorem split_edge_perm slicers mk rf rows rows' i c :
    nth_error slicers c = Some (edge_slicer T R leb mk rf) -> plan_inv mk -> rf_inv rf ->
    Permutation rows rows' ->
    split_equiv (split_in_intervals T R d0 slicers rows i c) (split_in_intervals T R d0 slicers rows' i c).
  Proof. intros Hs Hmk Hrf HP. apply (split_edge_perm_on slicers mk rf); auto. apply Hmk. apply col_perm. exact HP. Qed.
End Edge.

(* ------------------------------------------------------------------ the whole fit *)
Section Fit.
  Variables T R : Type.
  Variable d0 : T.
  Variables M W : Type.
  Variable mle : M.
  Variable wnone : W.
  Variables Tm P : Type.
  Variable tfit : Tm -> option P -> M -> W -> list T -> P.
  Variables Dep DP Y : Type.
  Variable proj : Dep -> P -> Y.
  Variable dfit : Dep -> option DP -> list R -> list Y -> DP.
  Notation fitted := (fitted T R P DP).
  Notation fit_dim := (fit_dim T R d0 M W Tm P tfit Dep DP Y proj dfit).
  Notation fit_dims := (fit_dims T R d0 M W Tm P tfit Dep DP Y proj dfit).
  Notation fit := (fit T R d0 M W mle wnone Tm P tfit Dep DP Y proj dfit).
  Notation cond_fit := (cond_fit T R M W Tm P tfit Dep DP Y proj dfit).
  Notation split := (split_in_intervals T R d0).
  Notation col := (col T d0).

  Definition oeq {A} (r : A -> A -> Prop) (a b : option A) : Prop :=
    match a, b with None, None => True | Some x, Some y => r x y | _, _ => False end.

  (* two fitted dimensions are the same model: everything equal, the stored interval data equal as multisets *)
  Definition feq (a b : fitted) : Prop :=
    match a, b with
    | FI p, FI q => p = q
    | FC ivs refs bs pars dps, FC ivs' refs' bs' pars' dps' =>
        Forall2 (@Permutation T) ivs ivs' /\ refs = refs' /\ bs = bs' /\ pars = pars' /\ dps = dps'
    | _, _ => False
    end.

  (* oracle contract: the template fit does not depend on the order of the observations *)
  Definition tfit_inv : Prop := forall tm p m w x x', Permutation x x' -> tfit tm p m w x = tfit tm p m w x'.

  Lemma cond_fit_perm tm deps prev m w ivs ivs' refs bs :
    tfit_inv -> Forall2 (@Permutation T) ivs ivs' ->
    feq (cond_fit tm deps prev m w ivs refs bs) (cond_fit tm deps prev m w ivs' refs bs).
  Proof. intros Ht Hiv. unfold JointFit.cond_fit. cbn [feq].
    rewrite (map_perm_inv (tfit tm None m w) ivs ivs' (Ht tm None m w) Hiv). repeat split; auto. Qed.

  Lemma fit_dim_perm slicers rows rows' i d mw prev :
    tfit_inv -> Permutation rows rows' ->
    (forall c, split_equiv T R (split slicers rows i c) (split slicers rows' i c)) ->
    oeq feq (fit_dim slicers rows i d mw prev) (fit_dim slicers rows' i d mw prev).
  Proof.
    intros Ht HP Hsp. destruct d as [tm|tm c deps]; cbn [JointFit.fit_dim oeq feq].
    - apply Ht. apply Permutation_map. exact HP.
    - specialize (Hsp c). destruct (split slicers rows i c) as [[[ivs refs] bs]|], (split slicers rows' i c) as [[[ivs' refs'] bs']|];
        cbn [split_equiv] in Hsp; try contradiction; cbn [oeq]; [|exact I].
      destruct Hsp as [H1 [H2 H3]]. subst refs' bs'. apply cond_fit_perm; assumption.
  Qed.

  Lemma fit_dims_perm slicers rows rows' :
    tfit_inv -> Permutation rows rows' ->
    (forall i c, split_equiv T R (split slicers rows i c) (split slicers rows' i c)) ->
    forall ds i mws st, oeq (Forall2 (oeq feq)) (fit_dims slicers rows i ds mws st) (fit_dims slicers rows' i ds mws st).
  Proof.
    intros Ht HP Hsp. induction ds as [|d ds IH]; intros i mws st; cbn [JointFit.fit_dims].
    - cbn. constructor.
    - destruct mws as [|mw mws]; [exact I|].
      pose proof (fit_dim_perm slicers rows rows' i d mw (hd None st) Ht HP (Hsp i)) as Hd.
      destruct (fit_dim slicers rows i d mw (hd None st)) as [f|], (fit_dim slicers rows' i d mw (hd None st)) as [f'|];
        cbn [oeq] in Hd; try contradiction; [|exact I].
      specialize (IH (S i) mws (tl st)).
      destruct (fit_dims slicers rows (S i) ds mws (tl st)) as [r|], (fit_dims slicers rows' (S i) ds mws (tl st)) as [r'|];
        cbn [oeq option_map] in *; try contradiction; [|exact I].
      constructor; [exact Hd|exact IH].
  Qed.

  (* order invariance of the fitted model, for any slicers that split equivalently *)
  Theorem fit_perm slicers ds st rows rows' fds :
    tfit_inv -> Permutation rows rows' ->
    (forall i c, split_equiv T R (split slicers rows i c) (split slicers rows' i c)) ->
    oeq (Forall2 (oeq feq)) (fit slicers ds st rows fds) (fit slicers ds st rows' fds).
  Proof.
    intros Ht HP Hsp. unfold JointFit.fit. destruct (fill M W mle wnone (length ds) fds) as [mws|]; [|exact I].
    rewrite <- (perm_forallb _ rows rows' HP). destruct (forallb _ rows); [|exact I].
    apply fit_dims_perm; assumption.
  Qed.

  (* all slicers of the model are Width/Number slicers with a permutation-invariant value range *)
  Definition edge_slicers (leb : T -> T -> bool) (slicers : list (slicer T R)) : Prop :=
    Forall (fun sl => exists mk rf, sl = edge_slicer T R leb mk rf /\ plan_inv T R mk /\ rf_inv T R rf) slicers.

  Lemma edge_slicers_split leb slicers rows rows' : edge_slicers leb slicers -> Permutation rows rows' ->
    forall i c, split_equiv T R (split slicers rows i c) (split slicers rows' i c).
  Proof.
    intros Hall HP i c. destruct (nth_error slicers c) as [sl|] eqn:E.
    - pose proof (proj1 (Forall_forall _ _) Hall sl (nth_error_In _ _ E)) as [mk [rf [-> [Hmk Hrf]]]].
      exact (split_edge_perm T R leb d0 slicers mk rf rows rows' i c E Hmk Hrf HP).
    - unfold split_in_intervals. rewrite E. exact I.
  Qed.

  Theorem fit_perm_edge leb slicers ds st rows rows' fds :
    tfit_inv -> edge_slicers leb slicers -> Permutation rows rows' ->
    oeq (Forall2 (oeq feq)) (fit slicers ds st rows fds) (fit slicers ds st rows' fds).
  Proof. intros Ht Hall HP. apply fit_perm; auto. apply (edge_slicers_split leb); assumption. Qed.

  (* ---- (d) fit options: dimension j is fitted with the filled description j and nothing else *)
  Lemma all_some_nth {A} (l : list (option A)) r j : all_some l = Some r -> nth_error l j = option_map Some (nth_error r j).
  Proof. revert r j. induction l as [|o l IH]; intros r j H.
    - cbn in H. inversion H. destruct j; reflexivity.
    - cbn [all_some] in H. destruct o as [a|]; [|discriminate]. destruct (all_some l) as [r'|]; [|discriminate].
      cbn in H. inversion H; subst. destruct j; [reflexivity|]. cbn [nth_error]. apply IH. reflexivity. Qed.

  Lemma all_some_length {A} (l : list (option A)) r : all_some l = Some r -> length r = length l.
  Proof. revert r. induction l as [|o l IH]; intros r H; cbn [all_some] in H.
    - inversion H. reflexivity.
    - destruct o; [|discriminate]. destruct (all_some l) as [r'|]; [|discriminate]. cbn in H. inversion H. cbn. rewrite (IH r'); reflexivity. Qed.

  Definition desc_of (fds : option (list (option (fdesc M W)))) (j : nat) : option (fdesc M W) :=
    match fds with None => None | Some l => nth j l None end.

  Lemma fill_nth n fds mws j : fill M W mle wnone n fds = Some mws -> j < n ->
    length mws = n /\ exists mw, nth_error mws j = Some mw /\ fill1 M W mle wnone (desc_of fds j) = Some mw.
  Proof.
    intros H Hj. destruct fds as [l|]; cbn [fill desc_of] in *.
    - destruct (Nat.eqb_spec (length l) n) as [E|]; [|discriminate]. subst n.
      pose proof (all_some_length _ _ H) as HL. rewrite map_length in HL. split; [exact HL|].
      pose proof (all_some_nth _ _ j H) as HN.
      destruct (nth_error mws j) as [mw|] eqn:Emw.
      + exists mw. split; [reflexivity|]. cbn in HN. rewrite nth_error_map in HN.
        destruct (nth_error l j) as [o|] eqn:El; [|discriminate]. cbn in HN. inversion HN.
        rewrite (nth_error_nth _ _ None El). congruence.
      + apply nth_error_None in Emw. lia.
    - inversion H; subst. rewrite repeat_length. split; [reflexivity|]. exists (mle, wnone). split; [|reflexivity].
      rewrite (nth_error_nth' _ (mle, wnone)) by (rewrite repeat_length; exact Hj). f_equal. apply nth_repeat. Qed.

  Lemma fit_dims_nth slicers rows : forall ds i mws st res j d mw,
    fit_dims slicers rows i ds mws st = Some res -> nth_error ds j = Some d -> nth_error mws j = Some mw ->
    exists f, fit_dim slicers rows (i + j) d mw (nth j st None) = Some f /\ nth_error res j = Some (Some f).
  Proof.
    induction ds as [|d0' ds IH]; intros i mws st res j d mw H Hd Hmw; [destruct j; discriminate|].
    destruct mws as [|mw0 mws]; [destruct j; discriminate|]. cbn [JointFit.fit_dims] in H.
    destruct (fit_dim slicers rows i d0' mw0 (hd None st)) as [f0|] eqn:E0; [|discriminate].
    destruct (fit_dims slicers rows (S i) ds mws (tl st)) as [r|] eqn:E1; [|discriminate].
    cbn in H. inversion H; subst res. destruct j as [|j].
    - cbn in Hd, Hmw. inversion Hd; inversion Hmw; subst. exists f0. rewrite Nat.add_0_r. split; [|reflexivity].
      destruct st; exact E0.
    - cbn [nth_error] in *. destruct (IH (S i) mws (tl st) r j d mw E1 Hd Hmw) as [f [Hf Hr]]. exists f.
      replace (i + S j) with (S i + j) by lia. split; [|exact Hr]. destruct st; [destruct j|]; exact Hf. Qed.

  (* component j of a successful fit is fit_dim with dimension j's own filled description (defaults mle / None) *)
  Theorem fit_component slicers ds st rows fds res j d :
    fit slicers ds st rows fds = Some res -> nth_error ds j = Some d ->
    exists mw f, fill1 M W mle wnone (desc_of fds j) = Some mw /\
                 fit_dim slicers rows j d mw (nth j st None) = Some f /\ nth_error res j = Some (Some f).
  Proof.
    intros H Hd. unfold JointFit.fit in H. destruct (fill M W mle wnone (length ds) fds) as [mws|] eqn:EF; [|discriminate].
    destruct (forallb _ rows); [|discriminate].
    assert (Hj : j < length ds) by (apply nth_error_Some; congruence).
    destruct (fill_nth _ _ _ j EF Hj) as [_ [mw [Hmw H1]]].
    destruct (fit_dims_nth slicers rows ds 0 mws st res j d mw H Hd Hmw) as [f [Hf Hr]].
    exists mw, f. auto. Qed.

  Lemma fill1_default : fill1 M W mle wnone None = Some (mle, wnone).
  Proof. reflexivity. Qed.
  Lemma fill1_no_weights m : fill1 M W mle wnone (Some (mkfd (Some m) None)) = Some (m, wnone).
  Proof. reflexivity. Qed.
  Lemma fill1_given m w : fill1 M W mle wnone (Some (mkfd (Some m) (Some w))) = Some (m, w).
  Proof. reflexivity. Qed.

  (* the options of the other dimensions do not reach dimension j *)
  Theorem options_local slicers ds st rows fds fds' res res' j :
    fit slicers ds st rows fds = Some res -> fit slicers ds st rows fds' = Some res' ->
    fill1 M W mle wnone (desc_of fds j) = fill1 M W mle wnone (desc_of fds' j) ->
    nth_error res j = nth_error res' j.
  Proof.
    intros H H' E. destruct (nth_error ds j) as [d|] eqn:Ed.
    - destruct (fit_component _ _ _ _ _ _ j d H Ed) as [mw [f [A [B C]]]].
      destruct (fit_component _ _ _ _ _ _ j d H' Ed) as [mw' [f' [A' [B' C']]]].
      rewrite C, C'. rewrite E in A. rewrite A in A'. inversion A'; subst mw'. rewrite B in B'. inversion B'. reflexivity.
    - (* j outside the model: both results have length (length ds) *)
      assert (L : forall fds0 res0, fit slicers ds st rows fds0 = Some res0 -> length res0 = length ds).
      { clear. intros fds0 res0 H. unfold JointFit.fit in H. destruct (fill M W mle wnone (length ds) fds0) as [mws|]; [|discriminate].
        destruct (forallb _ rows); [|discriminate]. revert H. generalize 0 as i. revert mws st res0.
        induction ds as [|d ds IH]; intros mws st res0 i H; cbn [JointFit.fit_dims] in H.
        - inversion H. reflexivity.
        - destruct mws as [|mw mws]; [discriminate|]. destruct (fit_dim slicers rows i d mw (hd None st)); [|discriminate].
          destruct (fit_dims slicers rows (S i) ds mws (tl st)) as [r|] eqn:E1; [|discriminate]. cbn in H. inversion H.
          cbn. f_equal. exact (IH _ _ _ _ E1). }
      apply nth_error_None in Ed.
      rewrite (proj2 (nth_error_None res j)) by (rewrite (L _ _ H); exact Ed).
      rewrite (proj2 (nth_error_None res' j)) by (rewrite (L _ _ H'); exact Ed). reflexivity.
  Qed.

  (* ---- (e) re-fit: the lists of a conditional dimension are built afresh *)
  Definition lists_of (o : option fitted) : option (list (list T) * list R * list (T * T) * list P) :=
    match o with Some (FC ivs refs bs pars _) => Some (ivs, refs, bs, pars) | _ => None end.
  Definition lists_view (r : option (list (option fitted))) := option_map (map lists_of) r.

  Lemma fit_dim_lists slicers rows i d mw prev :
    option_map (fun f => lists_of (Some f)) (fit_dim slicers rows i d mw prev) =
    option_map (fun f => lists_of (Some f)) (fit_dim slicers rows i d mw None).
  Proof. destruct d as [tm|tm c deps]; cbn [JointFit.fit_dim]; [reflexivity|].
    destruct (split slicers rows i c) as [[[ivs refs] bs]|]; reflexivity. Qed.

  Lemma fit_dims_lists slicers rows : forall ds i mws st,
    lists_view (fit_dims slicers rows i ds mws st) = lists_view (fit_dims slicers rows i ds mws []).
  Proof.
    induction ds as [|d ds IH]; intros i mws st; [reflexivity|]. destruct mws as [|mw mws]; [reflexivity|].
    cbn [JointFit.fit_dims hd tl]. pose proof (fit_dim_lists slicers rows i d mw (hd None st)) as Hd.
    specialize (IH (S i) mws (tl st)).
    destruct (fit_dim slicers rows i d mw (hd None st)) as [f|], (fit_dim slicers rows i d mw None) as [f'|];
      cbn [option_map] in Hd; try discriminate; [|reflexivity].
    unfold lists_view in *.
    destruct (fit_dims slicers rows (S i) ds mws (tl st)) as [r|], (fit_dims slicers rows (S i) ds mws []) as [r'|];
      cbn [option_map map] in *; try discriminate; [|reflexivity].
    inversion Hd. inversion IH. congruence.
  Qed.

  (* fitting an already fitted model: same exceptions and the same data_intervals, conditioning_values,
     boundaries and parameters_per_interval as fitting a fresh model (no hypothesis on the engines) *)
  Theorem refit_lists slicers ds st rows fds :
    lists_view (fit slicers ds st rows fds) = lists_view (fit slicers ds [] rows fds).
  Proof. unfold JointFit.fit. destruct (fill M W mle wnone (length ds) fds); [|reflexivity].
    destruct (forallb _ rows); [|reflexivity]. apply fit_dims_lists. Qed.

  (* oracle contracts: the engines do not depend on their start values *)
  Definition tfit_start_free : Prop := forall tm p m w x, tfit tm p m w x = tfit tm None m w x.
  Definition dfit_start_free : Prop := forall dep p x y, dfit dep p x y = dfit dep None x y.

  Lemma fit_dim_start_free slicers rows i d mw prev : tfit_start_free -> dfit_start_free ->
    fit_dim slicers rows i d mw prev = fit_dim slicers rows i d mw None.
  Proof. intros Ht Hd. destruct d as [tm|tm c deps]; cbn [JointFit.fit_dim].
    - rewrite Ht. reflexivity.
    - destruct (split slicers rows i c) as [[[ivs refs] bs]|]; [|reflexivity]. f_equal. unfold JointFit.cond_fit. f_equal.
      apply map_ext. intros [j dep]. rewrite Hd. symmetry. rewrite Hd. reflexivity. Qed.

  Theorem refit_same slicers ds st rows fds : tfit_start_free -> dfit_start_free ->
    fit slicers ds st rows fds = fit slicers ds [] rows fds.
  Proof. intros Ht Hd. unfold JointFit.fit. destruct (fill M W mle wnone (length ds) fds) as [mws|]; [|reflexivity].
    destruct (forallb _ rows); [|reflexivity]. generalize 0 as i. revert mws st.
    induction ds as [|d ds IH]; intros mws st i; [reflexivity|]. destruct mws as [|mw mws]; [reflexivity|].
    cbn [JointFit.fit_dims hd tl]. rewrite (fit_dim_start_free slicers rows i d mw (hd None st) Ht Hd).
    rewrite (IH mws (tl st) (S i)). destruct ds; reflexivity. Qed.
  (* ---- alignment of the lists of a conditional dimension; unconditional dimensions; rejected input *)
  Lemma nth_error_combine_seq {A} (l : list A) : forall s j,
    nth_error (combine (seq s (length l)) l) j = option_map (fun d => (s + j, d)) (nth_error l j).
  Proof. induction l as [|a l IH]; intros s j; [destruct j; reflexivity|]. cbn [length seq combine]. destruct j as [|j].
    - cbn. rewrite Nat.add_0_r. reflexivity.
    - cbn [nth_error]. rewrite IH. destruct (nth_error l j); cbn; [|reflexivity]. f_equal. f_equal. lia. Qed.

  (* one reference, one pair of boundaries and one estimate per stored interval, in the same order; estimate k
     is the fit of a fresh template copy to interval k; dependence function j is fitted to
     (all references, parameter j's estimates), one result per conditional parameter *)
  Theorem cond_lists_aligned slicers rows i tm c deps mw prev ivs refs bs pars dps :
    fit_dim slicers rows i (DC tm c deps) mw prev = Some (FC ivs refs bs pars dps) ->
    length refs = length ivs /\ length bs = length ivs /\ length pars = length ivs /\ length dps = length deps /\
    (forall k iv, nth_error ivs k = Some iv -> nth_error pars k = Some (tfit tm None (fst mw) (snd mw) iv)) /\
    (forall j dep, nth_error deps j = Some dep ->
                   nth_error dps j = Some (dfit dep (prevD T R P DP prev j) refs (map (proj dep) pars))).
  Proof.
    cbn [JointFit.fit_dim]. unfold split_in_intervals. destruct (nth_error slicers c) as [sl|]; [|discriminate].
    destruct (sl (col c rows)) as [rs|]; [|discriminate]. unfold JointFit.cond_fit. intros H. inversion H; subst. clear H.
    rewrite !map_length, combine_length, seq_length, Nat.min_id. repeat split; try reflexivity.
    - intros k iv Hk. rewrite nth_error_map, Hk. reflexivity.
    - intros j dep Hj. rewrite nth_error_map, nth_error_combine_seq, Hj. reflexivity.
  Qed.

  Lemma uncond_fit slicers rows i tm mw prev :
    fit_dim slicers rows i (DI tm) mw prev = Some (FI (tfit tm (prevP T R P DP prev) (fst mw) (snd mw) (col i rows))).
  Proof. reflexivity. Qed.

  Lemma all_some_none {A} (l : list (option A)) : In None l -> all_some l = None.
  Proof. induction l as [|o l IH]; intros H; [destruct H|]. cbn [all_some]. destruct o as [a|]; [|reflexivity].
    destruct H as [H|H]; [discriminate|]. rewrite (IH H). reflexivity. Qed.

  (* ValueError: a row of the wrong length, a fit-description list of the wrong length, a description without "method" *)
  Theorem fit_rejects slicers ds st rows fds :
    (exists r, In r rows /\ length r <> length ds) \/
    (exists l, fds = Some l /\ (length l <> length ds \/ exists w, In (Some (mkfd None w)) l)) ->
    fit slicers ds st rows fds = None.
  Proof.
    intros [[r [Hr Hl]]|[l [-> [Hl|[w Hw]]]]]; unfold JointFit.fit.
    - destruct (fill M W mle wnone (length ds) fds); [|reflexivity].
      destruct (forallb (fun r0 => length r0 =? length ds) rows) eqn:E; [|reflexivity].
      rewrite forallb_forall in E. specialize (E r Hr). apply Nat.eqb_eq in E. contradiction.
    - cbn [fill]. destruct (Nat.eqb_spec (length l) (length ds)); [contradiction|reflexivity].
    - cbn [fill]. destruct (length l =? length ds); [|reflexivity].
      rewrite all_some_none; [reflexivity|]. apply in_map_iff. exists (Some (mkfd None w)). split; [reflexivity|exact Hw].
  Qed.
End Fit.

(* ------------------------------------------------------------------ value range: max / min by a fold *)
Section Range.
  Variable T : Type.
  Variable lt : T -> T -> bool.
  (* the fold of FloatBits.fmax_from / fmin_from, over any strict comparison *)
  Fixpoint gmax_from (l : list T) (acc : T) : T :=
    match l with [] => acc | x :: l' => gmax_from l' (if lt acc x then x else acc) end.
  Definition gmax (d : T) (l : list T) : T := match l with [] => d | x :: l' => gmax_from l' x end.

  Variable D : T -> Prop.   (* the values that occur *)
  Hypothesis lt_irrefl : forall a, D a -> lt a a = false.
  Hypothesis lt_trans : forall a b c, D a -> D b -> D c -> lt a b = true -> lt b c = true -> lt a c = true.
  Hypothesis lt_tri : forall a b, D a -> D b -> lt a b = false -> lt b a = false -> a = b.

  Lemma gmax_from_spec : forall l acc, D acc -> (forall x, In x l -> D x) ->
    In (gmax_from l acc) (acc :: l) /\ forall x, In x (acc :: l) -> lt (gmax_from l acc) x = false.
  Proof.
    induction l as [|x l IH]; intros acc Da Dl; cbn [gmax_from].
    - split; [left; reflexivity|]. intros x [<-|[]]. apply lt_irrefl. exact Da.
    - assert (Dx : D x) by (apply Dl; left; reflexivity).
      assert (Dl' : forall y, In y l -> D y) by (intros y Hy; apply Dl; right; exact Hy).
      set (acc' := if lt acc x then x else acc).
      assert (Da' : D acc') by (unfold acc'; destruct (lt acc x); assumption).
      destruct (IH acc' Da' Dl') as [Hin Hmax]. set (r := gmax_from l acc') in *.
      assert (Dr : D r). { destruct Hin as [<-|Hin]; [exact Da'|apply Dl'; exact Hin]. }
      split.
      + destruct Hin as [E|Hin]; [|right; right; exact Hin]. unfold acc' in E. destruct (lt acc x); [right; left|left]; exact E.
      + assert (Ha' : lt r acc' = false) by (apply Hmax; left; reflexivity).
        intros y [<-|[<-|Hy]]; [| |apply Hmax; right; exact Hy].
        * (* lt r acc = false *)
          unfold acc' in Ha'. destruct (lt acc x) eqn:E; [|exact Ha'].
          destruct (lt r acc) eqn:E2; [|reflexivity]. rewrite (lt_trans r acc x Dr Da Dx E2 E) in Ha'. discriminate.
        * (* lt r x = false *)
          unfold acc' in Ha'. destruct (lt acc x) eqn:E; [exact Ha'|].
          destruct (lt r x) eqn:E2; [|reflexivity]. exfalso.
          destruct (lt acc r) eqn:E3.
          -- rewrite (lt_trans acc r x Da Dr Dx E3 E2) in E. discriminate.
          -- rewrite (lt_tri r acc Dr Da Ha' E3) in E2. congruence.
  Qed.

  (* the maximum (minimum with the flipped comparison) does not depend on the order of the data *)
  Theorem gmax_perm d l l' : (forall x, In x l -> D x) -> Permutation l l' -> gmax d l = gmax d l'.
  Proof.
    intros Dl HP. assert (Dl' : forall x, In x l' -> D x) by (intros x Hx; apply Dl; apply (Permutation_in _ (Permutation_sym HP)); exact Hx).
    destruct l as [|a l]; [apply Permutation_nil in HP; subst; reflexivity|].
    destruct l' as [|a' l']; [apply Permutation_sym, Permutation_nil in HP; discriminate|]. cbn [gmax].
    destruct (gmax_from_spec l a) as [Hi Hm]; [apply Dl; left; reflexivity|intros; apply Dl; right; assumption|].
    destruct (gmax_from_spec l' a') as [Hi' Hm']; [apply Dl'; left; reflexivity|intros; apply Dl'; right; assumption|].
    apply lt_tri.
    - apply Dl. exact Hi.
    - apply Dl'. exact Hi'.
    - apply Hm. apply (Permutation_in _ (Permutation_sym HP)). exact Hi'.
    - apply Hm'. apply (Permutation_in _ HP). exact Hi.
  Qed.
End Range.

(* ------------------------------------------------------------------ PointsPerIntervalSlicer *)
Section PPIPerm.
  Variable T : Type.
  Variable leb : T -> T -> bool.
  Hypothesis leb_trans : forall a b c, leb a b = true -> leb b c = true -> leb a c = true.
  Hypothesis leb_total : forall a b, leb a b = false -> leb b a = true.
  Notation ltb := (Intervals.ltb T leb).

  Lemma leb_refl a : leb a a = true.
  Proof. destruct (leb a a) eqn:E; [reflexivity|]. rewrite (leb_total a a E) in E. discriminate. Qed.

  Section Keyed.
    Variable A : Type.
    Variable key : A -> T.

    (* strongly sorted by key *)
    Fixpoint ssorted (l : list A) : Prop :=
      match l with [] => True | a :: l' => (forall b, In b l' -> leb (key a) (key b) = true) /\ ssorted l' end.

    Lemma sorted_ssorted l : sorted T leb (map key l) -> ssorted l.
    Proof. induction l as [|a l IH]; intros H; [exact I|]. destruct l as [|b l]; [split; [intros ? []|exact I]|].
      cbn [map] in H. destruct H as [Hab Hs]. specialize (IH Hs). split; [|exact IH].
      intros x [<-|Hx]; [exact Hab|]. destruct IH as [Hb _]. exact (leb_trans _ _ _ Hab (Hb x Hx)). Qed.

    Lemma ssorted_app_r l1 l2 : ssorted (l1 ++ l2) -> ssorted l2.
    Proof. induction l1 as [|a l1 IH]; [auto|]. cbn. intros [_ H]. auto. Qed.
    Lemma ssorted_app_l l1 l2 : ssorted (l1 ++ l2) -> ssorted l1.
    Proof. induction l1 as [|a l1 IH]; [cbn; auto|]. cbn. intros [H1 H2]. split; [|auto]. intros b Hb. apply H1. apply in_or_app. left. exact Hb. Qed.

    (* in a sorted list the elements with key <= t are a prefix *)
    Lemma filter_prefix t l : ssorted l ->
      filter (fun r => leb (key r) t) l = firstn (length (filter (fun r => leb (key r) t) l)) l.
    Proof.
      induction l as [|a l IH]; intros Hs; [reflexivity|]. destruct Hs as [Ha Hs]. cbn [filter].
      destruct (leb (key a) t) eqn:E.
      - cbn [length firstn]. f_equal. exact (IH Hs).
      - assert (Z : filter (fun r => leb (key r) t) l = []).
        { clear IH. induction l as [|b l IHl]; [reflexivity|]. cbn [filter].
          destruct (leb (key b) t) eqn:Eb.
          - rewrite (leb_trans _ _ _ (Ha b (or_introl eq_refl)) Eb) in E. discriminate.
          - apply IHl; [intros x Hx; apply Ha; right; exact Hx|destruct Hs; assumption]. }
        rewrite Z. reflexivity.
    Qed.

    Lemma ssorted_le_last l d : ssorted l -> forall a, In a l -> leb (key a) (key (last l d)) = true.
    Proof.
      induction l as [|x l IH]; intros Hs a Ha; [contradiction|]. destruct Hs as [Hx Hs].
      destruct l as [|y l]; [destruct Ha as [<-|[]]; apply leb_refl|].
      change (last (x :: y :: l) d) with (last (y :: l) d).
      destruct Ha as [<-|Ha]; [|exact (IH Hs a Ha)].
      apply Hx. clear. generalize y. induction l as [|z l IHl]; intros y0; [left; reflexivity|].
      change (last (y0 :: z :: l) d) with (last (z :: l) d). right. apply IHl. Qed.

    (* chunks are separated: no tie straddles a chunk boundary *)
    Fixpoint separated (cs : list (list A)) : Prop :=
      match cs with
      | [] => True
      | c0 :: rest => (forall a b, In a c0 -> In b (concat rest) -> ltb (key a) (key b) = true) /\ separated rest
      end.

    Lemma filter_all (p : A -> bool) l : (forall a, In a l -> p a = true) -> filter p l = l.
    Proof. induction l as [|a l IH]; intros H; [reflexivity|]. cbn [filter]. rewrite (H a (or_introl eq_refl)). f_equal.
      apply IH. intros b Hb. apply H. right. exact Hb. Qed.
    Lemma filter_none (p : A -> bool) l : (forall a, In a l -> p a = false) -> filter p l = [].
    Proof. induction l as [|a l IH]; intros H; [reflexivity|]. cbn [filter]. rewrite (H a (or_introl eq_refl)).
      apply IH. intros b Hb. apply H. right. exact Hb. Qed.

    (* two sorted arrangements of the same rows, cut at the same positions: chunk k holds the same rows *)
    Lemma chunks_perm : forall cs cs',
      map (@length A) cs = map (@length A) cs' ->
      Permutation (concat cs) (concat cs') -> ssorted (concat cs) -> ssorted (concat cs') -> separated cs ->
      Forall2 (@Permutation A) cs cs'.
    Proof.
      induction cs as [|c0 rest IH]; intros cs' HL HP Hs Hs' Hsep.
      - destruct cs'; [constructor|discriminate].
      - destruct cs' as [|c0' rest']; [discriminate|]. cbn [map] in HL. inversion HL as [[HL0 HLr]]. clear HL.
        cbn [concat] in *. destruct Hsep as [Hsep0 Hsep].
        assert (P0 : Permutation c0 c0').
        { destruct c0 as [|a0 c0].
          - destruct c0'; [constructor|discriminate].
          - set (c := a0 :: c0) in *. set (t := key (last c a0)).
            set (p := fun r => leb (key r) t).
            assert (F : filter p (c ++ concat rest) = c).
            { rewrite filter_app. rewrite (filter_all p c), (filter_none p (concat rest)); [apply app_nil_r| |].
              - intros b Hb. unfold p, t. pose proof (Hsep0 (last c a0) b) as H. unfold Intervals.ltb in H.
                apply negb_true_iff. apply H; [|exact Hb]. unfold c. clear. generalize a0 at 1 3. induction c0 as [|z l IHl]; intros y0; [left; reflexivity|].
                change (last (y0 :: z :: l) a0) with (last (z :: l) a0). right. apply IHl.
              - intros a Ha. unfold p, t. apply ssorted_le_last; [exact (ssorted_app_l _ _ Hs)|exact Ha]. }
            pose proof (perm_filter p _ _ HP) as HPf. rewrite F in HPf.
            pose proof (Permutation_length HPf) as Hlen. rewrite HL0 in Hlen.
            unfold p in HPf, Hlen. rewrite (filter_prefix t _ Hs') in HPf. rewrite <- Hlen in HPf.
            rewrite firstn_app, Nat.sub_diag, firstn_all, firstn_O, app_nil_r in HPf. exact HPf. }
        constructor; [exact P0|]. apply IH; auto.
        + apply (Permutation_app_inv_l c0). apply (perm_trans HP). apply Permutation_app_tail. apply Permutation_sym. exact P0.
        + exact (ssorted_app_r _ _ Hs).
        + exact (ssorted_app_r _ _ Hs').
    Qed.
  End Keyed.
End PPIPerm.

Section PPIMasks.
  Variable T : Type.
  Variable leb : T -> T -> bool.
  Hypothesis leb_trans : forall a b c, leb a b = true -> leb b c = true -> leb a c = true.
  Hypothesis leb_total : forall a b, leb a b = false -> leb b a = true.
  Variable d0 : T.
  Notation col := (col T d0).
  Definition rowat (rows : list (list T)) (j : nat) : list T := nth j rows [].
  Definition keyc (c : nat) (r : list T) : T := nth c r d0.

  Lemma list_as_map_seq {A} (l : list A) d : map (fun j => nth j l d) (seq 0 (length l)) = l.
  Proof. induction l as [|a l IH]; [reflexivity|]. cbn [length seq map nth]. f_equal.
    rewrite <- seq_shift, map_map. exact IH. Qed.

  Lemma sel_idc {A} (l : list A) d idc : NoDup idc -> (forall j, In j idc -> j < length l) ->
    Permutation (selm (mask_of_idc (length l) idc) l) (map (fun j => nth j l d) idc).
  Proof.
    intros ND Hr. unfold mask_of_idc. rewrite <- (list_as_map_seq l d) at 2. rewrite selm_map.
    apply Permutation_map. apply NoDup_Permutation; [apply NoDup_filter, seq_NoDup|exact ND|].
    intros j. rewrite filter_In, in_seq, mem_spec. split; [tauto|]. intros H. split; [|exact H]. specialize (Hr j H). lia. Qed.

  (* Intervals.chunks / ppi_chunks cut a list of positions; the same cuts on a list of anything *)
  Fixpoint gchunks {A} (n : nat) (fuel : nat) (l : list A) : list (list A) :=
    match fuel with
    | O => []
    | S f => match l with [] => [] | _ => firstn n l :: gchunks n f (skipn n l) end
    end.
  Definition gppi_chunks {A} (n_points : nat) (last_full : bool) (l : list A) : list (list A) :=
    let len := length l in
    let rem := len mod n_points in
    if rem =? 0 then gchunks n_points len l
    else if last_full then firstn rem l :: gchunks n_points len (skipn rem l)
    else gchunks n_points len (firstn (len - rem) l) ++ [skipn (len - rem) l].
  Lemma gchunks_nat n : forall fuel l, chunks n fuel l = gchunks n fuel l.
  Proof. induction fuel as [|fu IH]; intros l; [reflexivity|]. destruct l; [reflexivity|]. cbn [chunks gchunks]. rewrite IH. reflexivity. Qed.
  Lemma gppi_chunks_nat n lf l : ppi_chunks n lf l = gppi_chunks n lf l.
  Proof. unfold ppi_chunks, gppi_chunks. rewrite !gchunks_nat. reflexivity. Qed.
  Lemma gchunks_concat {A} n : 0 < n -> forall fuel (l : list A), length l <= fuel -> concat (gchunks n fuel l) = l.
  Proof. intros Hn. induction fuel as [|f IH]; intros l Hl.
    - destruct l; [reflexivity|simpl in Hl; lia].
    - destruct l as [|x l]; [reflexivity|]. cbn [gchunks concat]. rewrite IH; [apply firstn_skipn|].
      rewrite skipn_length. cbn [length] in *. lia. Qed.
  Lemma gppi_chunks_concat {A} n lf (l : list A) : 0 < n -> concat (gppi_chunks n lf l) = l.
  Proof. intros Hn. unfold gppi_chunks. destruct (length l mod n =? 0); [apply gchunks_concat; auto|]. destruct lf.
    - cbn [concat]. rewrite gchunks_concat; auto; [apply firstn_skipn|]. rewrite skipn_length. lia.
    - rewrite concat_app. cbn [concat]. rewrite app_nil_r, gchunks_concat; auto; [apply firstn_skipn|]. rewrite firstn_length. lia. Qed.

  Lemma chunks_map {A B} (f : A -> B) n : forall fuel l, gchunks n fuel (map f l) = map (map f) (gchunks n fuel l).
  Proof. induction fuel as [|fu IH]; intros l; [reflexivity|]. destruct l as [|a l]; [reflexivity|].
    cbn [gchunks map]. change (f a :: map f l) with (map f (a :: l)). rewrite firstn_map, skipn_map, IH. reflexivity. Qed.

  Lemma gppi_chunks_map {A B} (f : A -> B) n lf l : gppi_chunks n lf (map f l) = map (map f) (gppi_chunks n lf l).
  Proof. unfold gppi_chunks. rewrite map_length. destruct (length l mod n =? 0); [apply chunks_map|].
    destruct lf.
    - cbn [map]. rewrite firstn_map, skipn_map, chunks_map. reflexivity.
    - rewrite map_app. cbn [map]. rewrite firstn_map, skipn_map, chunks_map. reflexivity. Qed.

  Lemma chunks_lengths {A B} n : forall fuel (l : list A) (l' : list B), length l = length l' ->
    map (@length A) (gchunks n fuel l) = map (@length B) (gchunks n fuel l').
  Proof. induction fuel as [|fu IH]; intros l l' H; [reflexivity|].
    destruct l as [|a l], l' as [|a' l']; try discriminate; [reflexivity|]. cbn [gchunks map]. f_equal.
    - rewrite !firstn_length. rewrite H. reflexivity.
    - apply IH. rewrite !skipn_length. rewrite H. reflexivity. Qed.

  Lemma gppi_chunks_lengths {A B} n lf (l : list A) (l' : list B) : length l = length l' ->
    map (@length A) (gppi_chunks n lf l) = map (@length B) (gppi_chunks n lf l').
  Proof. intros H. unfold gppi_chunks. rewrite <- H. destruct (length l mod n =? 0); [apply chunks_lengths; exact H|].
    destruct lf.
    - cbn [map]. f_equal; [rewrite !firstn_length, H; reflexivity|]. apply chunks_lengths. rewrite !skipn_length, H. reflexivity.
    - rewrite !map_app. cbn [map]. f_equal; [apply chunks_lengths; rewrite !firstn_length, H; reflexivity|].
      rewrite !skipn_length, H. reflexivity. Qed.

  Lemma NoDup_app_l {A} (a b : list A) : NoDup (a ++ b) -> NoDup a.
  Proof. induction a as [|x a IH]; [constructor|]. cbn. intros H. inversion H as [|? ? Hx Hn]; subst. constructor; [|auto].
    intro Hc. apply Hx. apply in_or_app. left. exact Hc. Qed.
  Lemma NoDup_concat_in {A} (cs : list (list A)) c : NoDup (concat cs) -> In c cs -> NoDup c.
  Proof. induction cs as [|c0 cs IH]; intros ND Hc; [destruct Hc|]. cbn [concat] in ND. destruct Hc as [<-|Hc].
    - exact (NoDup_app_l _ _ ND).
    - apply IH; [exact (NoDup_app_r _ _ ND)|exact Hc]. Qed.

  Lemma Forall2_map_transfer {A A' B B' C C'} (P : B -> B' -> Prop) (Q : C -> C' -> Prop)
        (g : A -> B) (g' : A' -> B') (f : A -> C) (f' : A' -> C') :
    forall l l', Forall2 P (map g l) (map g' l') ->
    (forall a b, In a l -> In b l' -> P (g a) (g' b) -> Q (f a) (f' b)) -> Forall2 Q (map f l) (map f' l').
  Proof. induction l as [|a l IH]; intros l' H Himp; destruct l' as [|b l']; cbn [map] in *; inversion H; subst; constructor.
    - apply Himp; [left; reflexivity|left; reflexivity|assumption].
    - apply IH; [assumption|]. intros a' b' Ha Hb. apply Himp; right; assumption. Qed.

  Lemma nth_col i rows j : nth j (col i rows) d0 = nth i (rowat rows j) d0.
  Proof. unfold JointFit.col, rowat. rewrite <- (map_nth (fun r => nth i r d0) rows [] j). destruct i; reflexivity. Qed.

  Lemma sorted_rows_perm rows perm : Permutation perm (seq 0 (length rows)) -> Permutation (map (rowat rows) perm) rows.
  Proof. intros H. rewrite <- (list_as_map_seq rows []) at 2. apply Permutation_map. exact H. Qed.

  (* the observations of interval k (every column) are the same multiset whatever the row order, for any two
     results of the argsort oracle, when no two observations in different chunks have tied conditioning values *)
  Theorem ppi_intervals_perm rows rows' c n lf perm perm' :
    0 < n -> Permutation rows rows' ->
    Permutation perm (seq 0 (length rows)) -> sorted T leb (map (fun j => nth j (col c rows) d0) perm) ->
    Permutation perm' (seq 0 (length rows')) -> sorted T leb (map (fun j => nth j (col c rows') d0) perm') ->
    separated T leb (list T) (keyc c) (gppi_chunks n lf (map (rowat rows) perm)) ->
    forall i, Forall2 (fun m m' => Permutation (selm m (col i rows)) (selm m' (col i rows')))
                      (ppi_masks n lf perm) (ppi_masks n lf perm').
  Proof.
    intros Hn HP Hp Hs Hp' Hs' Hsep i.
    assert (Lp : length perm = length rows) by (rewrite (Permutation_length Hp); apply seq_length).
    assert (Lp' : length perm' = length rows') by (rewrite (Permutation_length Hp'); apply seq_length).
    assert (Lr : length rows = length rows') by (apply Permutation_length; exact HP).
    assert (SS : forall rws pm, sorted T leb (map (fun j => nth j (col c rws) d0) pm) ->
                 ssorted T leb (list T) (keyc c) (map (rowat rws) pm)).
    { intros rws pm H. apply (sorted_ssorted T leb leb_trans). rewrite map_map.
      rewrite (map_ext _ (fun j => nth j (col c rws) d0)); [exact H|]. intros j. unfold keyc. symmetry. apply nth_col. }
    pose proof (chunks_perm T leb leb_trans leb_total (list T) (keyc c)
                  (gppi_chunks n lf (map (rowat rows) perm)) (gppi_chunks n lf (map (rowat rows') perm'))) as CP.
    rewrite !gppi_chunks_concat in CP by exact Hn.
    assert (LS : length (map (rowat rows) perm) = length (map (rowat rows') perm')) by (rewrite !map_length; congruence).
    specialize (CP (gppi_chunks_lengths n lf _ _ LS)).
    specialize (CP (perm_trans (sorted_rows_perm rows perm Hp) (perm_trans HP (Permutation_sym (sorted_rows_perm rows' perm' Hp'))))).
    specialize (CP (SS _ _ Hs) (SS _ _ Hs') Hsep).
    rewrite !gppi_chunks_map in CP. rewrite <- !gppi_chunks_nat in CP. unfold ppi_masks.
    apply (Forall2_map_transfer _ _ _ _ _ _ _ _ CP). intros a b Ha Hb Pab.
    assert (CH : forall rws pm ch, Permutation pm (seq 0 (length rws)) -> In ch (ppi_chunks n lf pm) ->
                 Permutation (selm (mask_of_idc (length pm) ch) (col i rws)) (map (fun r => nth i r d0) (map (rowat rws) ch))).
    { intros rws pm ch Hpm Hch.
      assert (L : length pm = length (col i rws)) by (unfold JointFit.col; rewrite map_length, (Permutation_length Hpm); apply seq_length).
      rewrite L. apply (perm_trans (sel_idc (col i rws) d0 ch
                 (NoDup_concat_in _ ch ltac:(rewrite ppi_chunks_concat by exact Hn; exact (Permutation_NoDup (Permutation_sym Hpm) (seq_NoDup _ _))) Hch)
                 ltac:(intros j Hj; rewrite <- L;
                       assert (Hin : In j pm) by (rewrite <- (ppi_chunks_concat n lf pm Hn); apply in_concat; exists ch; auto);
                       apply (Permutation_in _ Hpm), in_seq in Hin; rewrite (Permutation_length Hpm), seq_length; lia))).
      rewrite map_map. rewrite (map_ext _ _ (fun j => nth_col i rws j)). apply Permutation_refl. }
    apply (perm_trans (CH rows perm a Hp Ha)). apply (perm_trans (Permutation_map _ Pab)).
    apply Permutation_sym. exact (CH rows' perm' b Hp' Hb).
  Qed.

  (* ---- lifted to what _split_in_intervals returns for a PointsPerIntervalSlicer *)
  Variable R : Type.
  Definition argsort_contract (p : list nat) (x : list T) : Prop :=
    Permutation p (seq 0 (length x)) /\ sorted T leb (map (fun j => nth j x d0) p).

  Lemma count_true_selm {A} : forall (m : list bool) (l : list A), length m = length l -> count_true m = length (selm m l).
  Proof. unfold count_true, selm. induction m as [|b m IH]; intros l H; destruct l as [|a l]; try discriminate; [reflexivity|].
    cbn [filter combine fst]. destruct b; cbn [length map]; rewrite <- (IH l) by (cbn in H; lia); reflexivity. Qed.

  Lemma Forall2_forall {A B I} (i0 : I) (P : I -> A -> B -> Prop) : forall l l',
    (forall i, Forall2 (P i) l l') -> Forall2 (fun a b => forall i, P i a b) l l'.
  Proof. induction l as [|a l IH]; intros l' H; destruct l' as [|b l']; try (specialize (H i0); inversion H; fail); constructor.
    - intros i. specialize (H i). inversion H; assumption.
    - apply IH. intros i. specialize (H i). inversion H; assumption. Qed.

  Lemma Forall2_filter {A B} (Q : A -> B -> Prop) (f : A -> bool) (g : B -> bool) : forall l l',
    Forall2 Q l l' -> (forall a b, Q a b -> f a = g b) -> Forall2 Q (filter f l) (filter g l').
  Proof. induction 1 as [|a b l l' Hab _ IH]; intros Hfg; [constructor|]. cbn [filter]. rewrite (Hfg a b Hab).
    destruct (g b); [constructor; auto|auto]. Qed.

  Lemma Forall2_combine_same {A B C} (Q : A -> B -> Prop) (bs : list C) : forall l l',
    Forall2 Q l l' -> Forall2 (fun x y => Q (fst x) (fst y) /\ snd x = snd y) (combine l bs) (combine l' bs).
  Proof. intros l l' H. revert bs. induction H as [|a b l l' Hab _ IH]; intros bs; [constructor|].
    destruct bs as [|c0 bs]; [constructor|]. cbn [combine]. constructor; [split; [exact Hab|reflexivity]|apply IH]. Qed.

  Lemma Forall2_map2 {A B C D} (Q : C -> D -> Prop) (f : A -> C) (g : B -> D) : forall l l',
    Forall2 (fun a b => Q (f a) (g b)) l l' -> Forall2 Q (map f l) (map g l').
  Proof. induction 1; cbn [map]; constructor; auto. Qed.

  Lemma Forall2_eq_map {A B C} (f : A -> C) (g : B -> C) : forall l l',
    Forall2 (fun a b => f a = g b) l l' -> map f l = map g l'.
  Proof. induction 1 as [|a b l l' H _ IH]; [reflexivity|]. cbn [map]. rewrite H, IH. reflexivity. Qed.

  Lemma Forall2_len {A B} (Q : A -> B -> Prop) l l' : Forall2 Q l l' -> length l = length l'.
  Proof. induction 1; cbn; congruence. Qed.

  Lemma Forall2_impl2 {A B} (P Q : A -> B -> Prop) l l' : (forall a b, P a b -> Q a b) -> Forall2 P l l' -> Forall2 Q l l'.
  Proof. intros H. induction 1; constructor; auto. Qed.

  Theorem split_ppi_perm slicers argsort n lf mnp mni bnds (rf : list T -> R) rows rows' i c :
    nth_error slicers c = Some (ppi_slicer T R argsort n lf mnp mni bnds rf) ->
    0 < n -> Permutation rows rows' ->
    argsort_contract (argsort (col c rows)) (col c rows) -> argsort_contract (argsort (col c rows')) (col c rows') ->
    (forall L L', Forall2 (@Permutation T) L L' -> bnds L = bnds L') ->
    (forall x x', Permutation x x' -> rf x = rf x') ->
    separated T leb (list T) (keyc c) (gppi_chunks n lf (map (rowat rows) (argsort (col c rows)))) ->
    split_equiv T R (split_in_intervals T R d0 slicers rows i c) (split_in_intervals T R d0 slicers rows' i c).
  Proof.
    intros Hs Hn HP [Hp Hso] [Hp' Hso'] Hb Hrf Hsep. unfold split_in_intervals. rewrite Hs. unfold ppi_slicer.
    set (perm := argsort (col c rows)) in *. set (perm' := argsort (col c rows')) in *.
    assert (Lc : forall k rws, length (col k rws) = length rws) by (intros; unfold JointFit.col; apply map_length).
    rewrite Lc in Hp, Hp'.
    assert (Lp : length perm = length rows) by (rewrite (Permutation_length Hp); apply seq_length).
    assert (Lp' : length perm' = length rows') by (rewrite (Permutation_length Hp'); apply seq_length).
    assert (Lr : length rows = length rows') by (apply Permutation_length; exact HP).
    rewrite Lp, Lp', <- Lr. destruct (length rows <? n); [exact I|].
    pose proof (Forall2_forall 0 _ _ _ (ppi_intervals_perm rows rows' c n lf perm perm' Hn HP Hp Hso Hp' Hso' Hsep)) as F.
    cbv beta in F.
    (* add the member counts to the relation *)
    assert (F2 : Forall2 (fun m m' => count_true m = count_true m' /\
                                      forall k, Permutation (selm m (col k rows)) (selm m' (col k rows')))
                         (ppi_masks n lf perm) (ppi_masks n lf perm')).
    { assert (ML : forall pm m, In m (ppi_masks n lf pm) -> length m = length pm).
      { intros pm m Hm. unfold ppi_masks in Hm. apply in_map_iff in Hm. destruct Hm as [ch [<- _]].
        unfold mask_of_idc. rewrite map_length, seq_length. reflexivity. }
      revert F. generalize (ML perm) (ML perm'). generalize (ppi_masks n lf perm) (ppi_masks n lf perm').
      intros l l' Hl Hl' F. induction F as [|m m' l l' Hm _ IH]; constructor.
      - split; [|exact Hm].
        rewrite (count_true_selm m (col 0 rows)) by (rewrite Lc, <- Lp; apply Hl; left; reflexivity).
        rewrite (count_true_selm m' (col 0 rows')) by (rewrite Lc, <- Lp'; apply Hl'; left; reflexivity).
        apply Permutation_length. apply Hm.
      - apply IH; intros x Hx; [apply Hl|apply Hl']; right; exact Hx. }
    clear F.
    assert (F3 : Forall2 (fun m m' => count_true m = count_true m' /\
                                      forall k, Permutation (selm m (col k rows)) (selm m' (col k rows')))
                         (filter (fun m => Nat.min n mnp <=? count_true m) (ppi_masks n lf perm))
                         (filter (fun m => Nat.min n mnp <=? count_true m) (ppi_masks n lf perm'))).
    { apply Forall2_filter; [exact F2|]. intros a b [E _]. rewrite E. reflexivity. }
    set (ms := filter _ (ppi_masks n lf perm)) in *. set (ms' := filter _ (ppi_masks n lf perm')) in *.
    assert (LL : length ms = length ms') by (exact (Forall2_len _ _ _ F3)).
    assert (EB : bnds (map (fun m => selm m (col c rows)) ms) = bnds (map (fun m => selm m (col c rows')) ms')).
    { apply Hb. apply Forall2_map2. refine (Forall2_impl2 _ _ _ _ _ F3). intros a b [_ H]. exact (H c). }
    destruct ms as [|m0 ms1] eqn:Ems, ms' as [|m0' ms1'] eqn:Ems'; try discriminate; [exact I|].
    rewrite <- Ems, <- Ems' in *. rewrite <- LL. destruct (length ms <? mni); [exact I|]. cbn [split_equiv].
    rewrite !map_map. cbn [r_mask r_ref r_bounds]. rewrite <- EB.
    pose proof (Forall2_combine_same _ (bnds (map (fun m => selm m (col c rows)) ms)) _ _ F3) as F4.
    split; [|split].
    - apply Forall2_map2. refine (Forall2_impl2 _ _ _ _ _ F4). intros a b [[_ H] _]. exact (H i).
    - apply Forall2_eq_map. refine (Forall2_impl2 _ _ _ _ _ F4). intros a b [[_ H] _]. exact (Hrf _ _ (H c)).
    - apply Forall2_eq_map. refine (Forall2_impl2 _ _ _ _ _ F4). intros a b [_ H]. exact H.
  Qed.
End PPIMasks.

(* ------------------------------------------------------------------ any mixture of the three slicers *)
Section Main.
  Variables T R : Type.
  Variable leb : T -> T -> bool.
  Hypothesis leb_trans : forall a b c, leb a b = true -> leb b c = true -> leb a c = true.
  Hypothesis leb_total : forall a b, leb a b = false -> leb b a = true.
  Variable d0 : T.
  Variables M W : Type.
  Variable mle : M.
  Variable wnone : W.
  Variables Tm P : Type.
  Variable tfit : Tm -> option P -> M -> W -> list T -> P.
  Variables Dep DP Y : Type.
  Variable proj : Dep -> P -> Y.
  Variable dfit : Dep -> option DP -> list R -> list Y -> DP.
  Notation col := (col T d0).

  (* the slicer of dimension c, for the two row orders at hand: a Width/Number slicer whose value range (hence
     plan) is the same for both orders, or a PointsPerIntervalSlicer whose argsort oracle keeps its contract
     and no two observations in different chunks are tied *)
  Definition slicer_good (rows rows' : list (list T)) (c : nat) (sl : slicer T R) : Prop :=
    (exists mk rf, sl = edge_slicer T R leb mk rf /\ mk (col c rows) = mk (col c rows') /\ rf_inv T R rf) \/
    (exists argsort n lf mnp mni bnds rf,
        sl = ppi_slicer T R argsort n lf mnp mni bnds rf /\ 0 < n /\
        argsort_contract T leb d0 (argsort (col c rows)) (col c rows) /\
        argsort_contract T leb d0 (argsort (col c rows')) (col c rows') /\
        (forall L L', Forall2 (@Permutation T) L L' -> bnds L = bnds L') /\
        (forall x x', Permutation x x' -> rf x = rf x') /\
        separated T leb (list T) (keyc T d0 c) (gppi_chunks n lf (map (rowat T rows) (argsort (col c rows))))).

  Theorem fit_perm_slicers slicers ds st rows rows' fds :
    tfit_inv T M W Tm P tfit -> Permutation rows rows' ->
    (forall c sl, nth_error slicers c = Some sl -> slicer_good rows rows' c sl) ->
    oeq (Forall2 (oeq (feq T R P DP)))
        (fit T R d0 M W mle wnone Tm P tfit Dep DP Y proj dfit slicers ds st rows fds)
        (fit T R d0 M W mle wnone Tm P tfit Dep DP Y proj dfit slicers ds st rows' fds).
  Proof.
    intros Ht HP Hall. apply fit_perm; auto. intros i c. destruct (nth_error slicers c) as [sl|] eqn:E.
    - destruct (Hall c sl E) as [[mk [rf [-> [Hmk Hrf]]]]|[argsort [n [lf [mnp [mni [bnds [rf [-> [Hn [Hc [Hc' [Hb [Hrf Hsep]]]]]]]]]]]]]].
      + exact (split_edge_perm_on T R leb d0 slicers mk rf rows rows' i c E Hmk Hrf HP).
      + exact (split_ppi_perm T leb leb_trans leb_total d0 R slicers argsort n lf mnp mni bnds rf rows rows' i c E Hn HP Hc Hc' Hb Hrf Hsep).
    - unfold split_in_intervals. rewrite E. exact I.
  Qed.
End Main.

(* ------------------------------------------------------------------ the binary64 slicers are these slicers *)
Section FloatSlicers.
  Import PrimFloat.
  Lemma width_slice_plan width r ro vmin vmax mnp mni data :
    width_slice width r ro vmin vmax mnp mni data
    = plan_slice float float fleb (width_plan width r ro vmin vmax mnp mni data) data.
  Proof. reflexivity. Qed.

  Lemma number_slice_plan n r im vr mnp mni data :
    number_slice n r im vr mnp mni data
    = plan_slice float float fleb (number_plan n r im vr mnp mni data) data.
  Proof. unfold number_slice, number_plan, plan_slice.
    destruct (match vr with Some p => p | None => (FloatBits.fmin data, FloatBits.fmax data) end) as [v0 v1]. cbn [fst snd].
    destruct (number_edges v0 v1 n) as [[s w] e]. reflexivity. Qed.

  (* the plans read the data only through its maximum / minimum (value_range = None) *)
  Lemma width_plan_range width r ro vmin vmax mnp mni x x' : FloatBits.fmax x = FloatBits.fmax x' ->
    width_plan width r ro vmin vmax mnp mni x = width_plan width r ro vmin vmax mnp mni x'.
  Proof. intros H. unfold width_plan. rewrite H. reflexivity. Qed.
  Lemma number_plan_range n r im vr mnp mni x x' : FloatBits.fmin x = FloatBits.fmin x' -> FloatBits.fmax x = FloatBits.fmax x' ->
    number_plan n r im vr mnp mni x = number_plan n r im vr mnp mni x'.
  Proof. intros H1 H2. unfold number_plan. rewrite H1, H2. reflexivity. Qed.
  Lemma number_plan_explicit n r im v mnp mni x x' :
    number_plan n r im (Some v) mnp mni x = number_plan n r im (Some v) mnp mni x'.
  Proof. reflexivity. Qed.
  Lemma width_plan_explicit width r ro vmin v mnp mni x x' :
    width_plan width r ro vmin (Some v) mnp mni x = width_plan width r ro vmin (Some v) mnp mni x'.
  Proof. reflexivity. Qed.

  Lemma fmax_gmax l : FloatBits.fmax l = gmax float PrimFloat.ltb nan l.
  Proof. destruct l as [|a l]; [reflexivity|]. cbn [FloatBits.fmax gmax]. revert a.
    induction l as [|x l IH]; intros a; [reflexivity|]. cbn [FloatBits.fmax_from gmax_from]. apply IH. Qed.
  Lemma fmin_gmax l : FloatBits.fmin l = gmax float (fun a b => PrimFloat.ltb b a) nan l.
  Proof. destruct l as [|a l]; [reflexivity|]. cbn [FloatBits.fmin gmax]. revert a.
    induction l as [|x l IH]; intros a; [reflexivity|]. cbn [FloatBits.fmin_from gmax_from]. apply IH. Qed.

  (* np.max / np.min of the column do not depend on the row order, as long as < on the values that occur is a
     strict total order (no NaN, not both signed zeros) *)
  Definition strict_total_on (D : float -> Prop) : Prop :=
    (forall a, D a -> PrimFloat.ltb a a = false) /\
    (forall a b c, D a -> D b -> D c -> PrimFloat.ltb a b = true -> PrimFloat.ltb b c = true -> PrimFloat.ltb a c = true) /\
    (forall a b, D a -> D b -> PrimFloat.ltb a b = false -> PrimFloat.ltb b a = false -> a = b).

  Lemma fmax_perm x x' : strict_total_on (fun a => In a x) -> Permutation x x' -> FloatBits.fmax x = FloatBits.fmax x'.
  Proof. intros [H1 [H2 H3]] HP. rewrite !fmax_gmax. apply (gmax_perm float PrimFloat.ltb (fun a => In a x)); auto. Qed.
  Lemma fmin_perm x x' : strict_total_on (fun a => In a x) -> Permutation x x' -> FloatBits.fmin x = FloatBits.fmin x'.
  Proof. intros [H1 [H2 H3]] HP. rewrite !fmin_gmax. exact (gmax_perm float (fun a b => PrimFloat.ltb b a) (fun a => In a x) H1
             (fun a b c Da Db Dc Hab Hbc => H2 c b a Dc Db Da Hbc Hab)
             (fun a b Da Db Hab Hba => H3 a b Da Db Hba Hab) nan x x' (fun _ h => h) HP). Qed.

  Theorem width_plan_perm width r ro vmin vmax mnp mni x x' :
    strict_total_on (fun a => In a x) -> Permutation x x' ->
    width_plan width r ro vmin vmax mnp mni x = width_plan width r ro vmin vmax mnp mni x'.
  Proof. intros H HP. apply width_plan_range. apply fmax_perm; assumption. Qed.
  Theorem number_plan_perm n r im vr mnp mni x x' :
    strict_total_on (fun a => In a x) -> Permutation x x' ->
    number_plan n r im vr mnp mni x = number_plan n r im vr mnp mni x'.
  Proof. intros H HP. apply number_plan_range; [apply fmin_perm|apply fmax_perm]; assumption. Qed.
  (* the PointsPerInterval instance is model/Intervals.v's ppi_slice (C10) with the callable reference added *)
  Lemma ppi_slicer_ppi_slice argsort n lf mnp mni rf x :
    ppi_slicer float float argsort n lf mnp mni ppi_bnds rf x =
    match ppi_slice n lf mnp mni (argsort x) x with
    | None => None
    | Some (ms, bs) => Some (map (fun mb => mkrow (fst mb) (rf (selm (fst mb) x)) (snd mb)) (combine ms bs))
    end.
  Proof. unfold ppi_slicer, ppi_slice. destruct (length (argsort x) <? n)%nat; [reflexivity|].
    destruct (filter _ (ppi_masks n lf (argsort x))) as [|m ms]; [reflexivity|].
    cbn [map]. destruct (length (m :: ms) <? mni)%nat; reflexivity. Qed.
End FloatSlicers.

(* ------------------------------------------------------------------ ties across a chunk boundary: order matters *)
Section Witness.
  (* two rows with the same conditioning value 1 and dependent values 10 / 20, one point per interval:
     the (stable) argsort leaves tied rows in input order, so interval 0 holds [10] for one order and [20] for the other *)
  Definition w_rows : list (list nat) := [[1; 10]; [1; 20]].
  Definition w_rows' : list (list nat) := [[1; 20]; [1; 10]].
  Definition w_argsort (x : list nat) : list nat := seq 0 (length x).
  Definition w_slicers : list (slicer nat nat) :=
    [ppi_slicer nat nat w_argsort 1 true 0 0 (fun L => map (fun _ => (0, 0)) L) (fun _ => 0)].

  Lemma ppi_ties_witness :
    Permutation w_rows w_rows' /\
    argsort_contract nat Nat.leb 0 (w_argsort (col nat 0 0 w_rows)) (col nat 0 0 w_rows) /\
    argsort_contract nat Nat.leb 0 (w_argsort (col nat 0 0 w_rows')) (col nat 0 0 w_rows') /\
    ~ split_equiv nat nat (split_in_intervals nat nat 0 w_slicers w_rows 1 0)
                          (split_in_intervals nat nat 0 w_slicers w_rows' 1 0).
  Proof.
    split; [apply perm_swap|]. split; [split; [apply Permutation_refl|cbn; auto]|]. split; [split; [apply Permutation_refl|cbn; auto]|].
    cbn. intros [H _]. inversion H as [|? ? ? ? H1 _]; subst. apply Permutation_length_1 in H1. discriminate.
  Qed.
End Witness.
