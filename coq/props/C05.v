(* C05 -- every distribution's cdf/icdf/pdf follow the documented formula and each other (property theorems only) *)
From Coq Require Import Reals List String Bool.
From V.base Require Import Num.
From V.gen Require Import Distributions.
From V.model Require Import DistHand Conditional ScipyDist.
From V.proofs Require Import DistProofs DistDocProofs DistConsistency CondProofs ScipyDistProofs.
Import ListNotations.
Local Open Scope R_scope.
Local Open Scope string_scope.
Local Open Scope list_scope.

(* Weibull: passing parameter values explicitly == an instance constructed with them (every subset, every method); the definitions are GENERATED from distributions.py *)
Theorem C05_W_override :
  forall (s : WeibullDistribution) (a b g : option R),
       WeibullDistribution_cdf s a b g = WeibullDistribution_cdf (W_with s a b g) None None None /\
       WeibullDistribution_icdf s a b g = WeibullDistribution_icdf (W_with s a b g) None None None /\
       WeibullDistribution_pdf s a b g = WeibullDistribution_pdf (W_with s a b g) None None None /\
       WeibullDistribution_draw_sample s a b g =
       WeibullDistribution_draw_sample (W_with s a b g) None None None.
Proof. exact (@W_override). Qed.

(* Weibull: cdf, icdf, pdf and sampling call the same scipy family with one and the same parameter list (hence mutual consistency reduces to scipy's own cdf/ppf/pdf contract) *)
Theorem C05_W_one_map :
  forall (s : WeibullDistribution) (a b g : option R),
       c_params (WeibullDistribution_cdf s a b g) =
       [ov b (WeibullDistribution_beta s); ov g (WeibullDistribution_gamma s);
        ov a (WeibullDistribution_alpha s)] /\
       c_params (WeibullDistribution_icdf s a b g) = c_params (WeibullDistribution_cdf s a b g) /\
       c_params (WeibullDistribution_pdf s a b g) = c_params (WeibullDistribution_cdf s a b g) /\
       c_params (WeibullDistribution_draw_sample s a b g) = c_params (WeibullDistribution_cdf s a b g) /\
       c_family (WeibullDistribution_cdf s a b g) = "weibull_min" /\
       c_family (WeibullDistribution_icdf s a b g) = "weibull_min" /\
       c_family (WeibullDistribution_pdf s a b g) = "weibull_min" /\
       c_family (WeibullDistribution_draw_sample s a b g) = "weibull_min" /\
       c_method (WeibullDistribution_cdf s a b g) = "cdf" /\
       c_method (WeibullDistribution_icdf s a b g) = "ppf" /\
       c_method (WeibullDistribution_pdf s a b g) = "pdf" /\
       c_method (WeibullDistribution_draw_sample s a b g) = "rvs".
Proof. exact (@W_same_map). Qed.

(* LogNormal: passing parameter values explicitly == an instance constructed with them (every subset, every method); the definitions are GENERATED from distributions.py *)
Theorem C05_LN_override :
  forall (s : LogNormalDistribution) (m sg : option R),
       LogNormalDistribution_cdf RN s m sg = LogNormalDistribution_cdf RN (LN_with s m sg) None None /\
       LogNormalDistribution_icdf RN s m sg = LogNormalDistribution_icdf RN (LN_with s m sg) None None /\
       LogNormalDistribution_pdf RN s m sg = LogNormalDistribution_pdf RN (LN_with s m sg) None None /\
       LogNormalDistribution_draw_sample RN s m sg =
       LogNormalDistribution_draw_sample RN (LN_with s m sg) None None.
Proof. exact (@LN_override). Qed.

(* LogNormal: cdf, icdf, pdf and sampling call the same scipy family with one and the same parameter list (hence mutual consistency reduces to scipy's own cdf/ppf/pdf contract) *)
Theorem C05_LN_one_map :
  forall (s : LogNormalDistribution) (m sg : option R),
       c_params (LogNormalDistribution_cdf RN s m sg) =
       [ov sg (LogNormalDistribution_sigma s); 0; exp (ov m (LogNormalDistribution_mu s))] /\
       c_params (LogNormalDistribution_icdf RN s m sg) = c_params (LogNormalDistribution_cdf RN s m sg) /\
       c_params (LogNormalDistribution_pdf RN s m sg) = c_params (LogNormalDistribution_cdf RN s m sg) /\
       c_params (LogNormalDistribution_draw_sample RN s m sg) =
       c_params (LogNormalDistribution_cdf RN s m sg) /\
       c_family (LogNormalDistribution_cdf RN s m sg) = "lognorm" /\
       c_family (LogNormalDistribution_icdf RN s m sg) = "lognorm" /\
       c_family (LogNormalDistribution_pdf RN s m sg) = "lognorm" /\
       c_family (LogNormalDistribution_draw_sample RN s m sg) = "lognorm" /\
       c_method (LogNormalDistribution_cdf RN s m sg) = "cdf" /\
       c_method (LogNormalDistribution_icdf RN s m sg) = "ppf" /\
       c_method (LogNormalDistribution_pdf RN s m sg) = "pdf" /\
       c_method (LogNormalDistribution_draw_sample RN s m sg) = "rvs".
Proof. exact (@LN_same_map). Qed.

(* Normal: passing parameter values explicitly == an instance constructed with them (every subset, every method); the definitions are GENERATED from distributions.py *)
Theorem C05_N_override :
  forall (s : NormalDistribution) (m sg : option R),
       NormalDistribution_cdf s m sg = NormalDistribution_cdf (N_with s m sg) None None /\
       NormalDistribution_icdf s m sg = NormalDistribution_icdf (N_with s m sg) None None /\
       NormalDistribution_pdf s m sg = NormalDistribution_pdf (N_with s m sg) None None /\
       NormalDistribution_draw_sample s m sg = NormalDistribution_draw_sample (N_with s m sg) None None.
Proof. exact (@N_override). Qed.

(* Normal: cdf, icdf, pdf and sampling call the same scipy family with one and the same parameter list (hence mutual consistency reduces to scipy's own cdf/ppf/pdf contract) *)
Theorem C05_N_one_map :
  forall (s : NormalDistribution) (m sg : option R),
       c_params (NormalDistribution_cdf s m sg) =
       [ov m (NormalDistribution_mu s); ov sg (NormalDistribution_sigma s)] /\
       c_params (NormalDistribution_icdf s m sg) = c_params (NormalDistribution_cdf s m sg) /\
       c_params (NormalDistribution_pdf s m sg) = c_params (NormalDistribution_cdf s m sg) /\
       c_params (NormalDistribution_draw_sample s m sg) = c_params (NormalDistribution_cdf s m sg) /\
       c_family (NormalDistribution_cdf s m sg) = "norm" /\
       c_family (NormalDistribution_icdf s m sg) = "norm" /\
       c_family (NormalDistribution_pdf s m sg) = "norm" /\
       c_family (NormalDistribution_draw_sample s m sg) = "norm" /\
       c_method (NormalDistribution_cdf s m sg) = "cdf" /\
       c_method (NormalDistribution_icdf s m sg) = "ppf" /\
       c_method (NormalDistribution_pdf s m sg) = "pdf" /\
       c_method (NormalDistribution_draw_sample s m sg) = "rvs".
Proof. exact (@N_same_map). Qed.

(* ExponentiatedWeibull: passing parameter values explicitly == an instance constructed with them (every subset, every method); the definitions are GENERATED from distributions.py *)
Theorem C05_EW_override :
  forall (s : ExponentiatedWeibullDistribution) (a b d : option R),
       ExponentiatedWeibullDistribution_cdf RN s a b d =
       ExponentiatedWeibullDistribution_cdf RN (EW_with s a b d) None None None /\
       ExponentiatedWeibullDistribution_icdf RN s a b d =
       ExponentiatedWeibullDistribution_icdf RN (EW_with s a b d) None None None /\
       ExponentiatedWeibullDistribution_draw_sample RN s a b d =
       ExponentiatedWeibullDistribution_draw_sample RN (EW_with s a b d) None None None /\
       ExponentiatedWeibullDistribution__get_scipy_parameters RN s a b d =
       ExponentiatedWeibullDistribution__get_scipy_parameters RN (EW_with s a b d) None None None.
Proof. exact (@EW_override). Qed.

(* ExponentiatedWeibull: cdf, icdf, pdf and sampling call the same scipy family with one and the same parameter list (hence mutual consistency reduces to scipy's own cdf/ppf/pdf contract) *)
Theorem C05_EW_one_map :
  forall (s : ExponentiatedWeibullDistribution) (a b d : option R),
       c_params (ExponentiatedWeibullDistribution_cdf RN s a b d) =
       [ov d (ExponentiatedWeibullDistribution_delta s); ov b (ExponentiatedWeibullDistribution_beta s); 0;
        ov a (ExponentiatedWeibullDistribution_alpha s)] /\
       c_params (ExponentiatedWeibullDistribution_icdf RN s a b d) =
       c_params (ExponentiatedWeibullDistribution_cdf RN s a b d) /\
       c_params (ExponentiatedWeibullDistribution_draw_sample RN s a b d) =
       c_params (ExponentiatedWeibullDistribution_cdf RN s a b d) /\
       (let
        '(p1, p2, p3, p4) := ExponentiatedWeibullDistribution__get_scipy_parameters RN s a b d in
         [p1; p2; p3; p4]) = c_params (ExponentiatedWeibullDistribution_cdf RN s a b d) /\
       c_family (ExponentiatedWeibullDistribution_cdf RN s a b d) = "exponweib" /\
       c_family (ExponentiatedWeibullDistribution_icdf RN s a b d) = "exponweib" /\
       c_family (ExponentiatedWeibullDistribution_draw_sample RN s a b d) = "exponweib" /\
       c_method (ExponentiatedWeibullDistribution_cdf RN s a b d) = "cdf" /\
       c_method (ExponentiatedWeibullDistribution_icdf RN s a b d) = "ppf" /\
       c_method (ExponentiatedWeibullDistribution_draw_sample RN s a b d) = "rvs".
Proof. exact (@EW_same_map). Qed.

(* GeneralizedGamma: passing parameter values explicitly == an instance constructed with them (every subset, every method); the definitions are GENERATED from distributions.py *)
Theorem C05_GG_override :
  forall (s : GeneralizedGammaDistribution) (m c l : option R),
       GeneralizedGammaDistribution_cdf RN s m c l =
       GeneralizedGammaDistribution_cdf RN (GG_with s m c l) None None None /\
       GeneralizedGammaDistribution_icdf RN s m c l =
       GeneralizedGammaDistribution_icdf RN (GG_with s m c l) None None None /\
       GeneralizedGammaDistribution_pdf RN s m c l =
       GeneralizedGammaDistribution_pdf RN (GG_with s m c l) None None None /\
       GeneralizedGammaDistribution_draw_sample RN s m c l =
       GeneralizedGammaDistribution_draw_sample RN (GG_with s m c l) None None None.
Proof. exact (@GG_override). Qed.

(* GeneralizedGamma: cdf, icdf, pdf and sampling call the same scipy family with one and the same parameter list (hence mutual consistency reduces to scipy's own cdf/ppf/pdf contract) *)
Theorem C05_GG_one_map :
  forall (s : GeneralizedGammaDistribution) (m c l : option R),
       c_params (GeneralizedGammaDistribution_cdf RN s m c l) =
       [ov m (GeneralizedGammaDistribution_m s); ov c (GeneralizedGammaDistribution_c s); 0;
        1 / ov l (GeneralizedGammaDistribution_lambda_ s)] /\
       c_params (GeneralizedGammaDistribution_icdf RN s m c l) =
       c_params (GeneralizedGammaDistribution_cdf RN s m c l) /\
       c_params (GeneralizedGammaDistribution_pdf RN s m c l) =
       c_params (GeneralizedGammaDistribution_cdf RN s m c l) /\
       c_params (GeneralizedGammaDistribution_draw_sample RN s m c l) =
       c_params (GeneralizedGammaDistribution_cdf RN s m c l) /\
       c_family (GeneralizedGammaDistribution_cdf RN s m c l) = "gengamma" /\
       c_family (GeneralizedGammaDistribution_icdf RN s m c l) = "gengamma" /\
       c_family (GeneralizedGammaDistribution_pdf RN s m c l) = "gengamma" /\
       c_family (GeneralizedGammaDistribution_draw_sample RN s m c l) = "gengamma" /\
       c_method (GeneralizedGammaDistribution_cdf RN s m c l) = "cdf" /\
       c_method (GeneralizedGammaDistribution_icdf RN s m c l) = "ppf" /\
       c_method (GeneralizedGammaDistribution_pdf RN s m c l) = "pdf" /\
       c_method (GeneralizedGammaDistribution_draw_sample RN s m c l) = "rvs".
Proof. exact (@GG_same_map). Qed.

(* VonMises: passing parameter values explicitly == an instance constructed with them (every subset, every method); the definitions are GENERATED from distributions.py *)
Theorem C05_VM_override :
  forall (s : VonMisesDistribution) (k m : option R),
       VonMisesDistribution_cdf s k m = VonMisesDistribution_cdf (VM_with s k m) None None /\
       VonMisesDistribution_icdf s k m = VonMisesDistribution_icdf (VM_with s k m) None None /\
       VonMisesDistribution_pdf s k m = VonMisesDistribution_pdf (VM_with s k m) None None /\
       VonMisesDistribution_draw_sample s k m = VonMisesDistribution_draw_sample (VM_with s k m) None None.
Proof. exact (@VM_override). Qed.

(* VonMises: cdf, icdf, pdf and sampling call the same scipy family with one and the same parameter list (hence mutual consistency reduces to scipy's own cdf/ppf/pdf contract) *)
Theorem C05_VM_one_map :
  forall (s : VonMisesDistribution) (k m : option R),
       c_params (VonMisesDistribution_cdf s k m) =
       [ov k (VonMisesDistribution_kappa s); ov m (VonMisesDistribution_mu s)] /\
       c_params (VonMisesDistribution_icdf s k m) = c_params (VonMisesDistribution_cdf s k m) /\
       c_params (VonMisesDistribution_pdf s k m) = c_params (VonMisesDistribution_cdf s k m) /\
       c_params (VonMisesDistribution_draw_sample s k m) = c_params (VonMisesDistribution_cdf s k m) /\
       c_family (VonMisesDistribution_cdf s k m) = "vonmises" /\
       c_family (VonMisesDistribution_icdf s k m) = "vonmises" /\
       c_family (VonMisesDistribution_pdf s k m) = "vonmises" /\
       c_family (VonMisesDistribution_draw_sample s k m) = "vonmises" /\
       c_method (VonMisesDistribution_cdf s k m) = "cdf" /\
       c_method (VonMisesDistribution_icdf s k m) = "ppf" /\
       c_method (VonMisesDistribution_pdf s k m) = "pdf" /\
       c_method (VonMisesDistribution_draw_sample s k m) = "rvs".
Proof. exact (@VM_same_map). Qed.

(* norm-fit log-normal: both parameters explicit == instance constructed with them *)
Theorem C05_NF_override :
  forall (s : LogNormalNormFitDistribution) (m sg : R),
       LogNormalNormFitDistribution_cdf RN s (Some m) (Some sg) =
       LogNormalNormFitDistribution_cdf RN (NF_with s m sg) None None /\
       LogNormalNormFitDistribution_icdf RN s (Some m) (Some sg) =
       LogNormalNormFitDistribution_icdf RN (NF_with s m sg) None None /\
       LogNormalNormFitDistribution_pdf RN s (Some m) (Some sg) =
       LogNormalNormFitDistribution_pdf RN (NF_with s m sg) None None /\
       LogNormalNormFitDistribution_draw_sample RN s (Some m) (Some sg) =
       LogNormalNormFitDistribution_draw_sample RN (NF_with s m sg) None None.
Proof. exact (@NF_override). Qed.

(* norm-fit: passing only one of the two raises *)
Theorem C05_NF_one_of_two_raises :
  forall (s : LogNormalNormFitDistribution) (m : R),
       LogNormalNormFitDistribution_cdf RN s (Some m) None = Err "RuntimeError" /\
       LogNormalNormFitDistribution_cdf RN s None (Some m) = Err "RuntimeError".
Proof. exact (@NF_one_of_two_raises). Qed.

(* norm-fit: one map for all four methods *)
Theorem C05_NF_one_map :
  forall s : LogNormalNormFitDistribution,
       LogNormalNormFitDistribution_cdf RN s None None =
       Ok
         {|
           c_family := "lognorm";
           c_method := "cdf";
           c_params :=
             [LogNormalNormFitDistribution_calculate_sigma RN (LogNormalNormFitDistribution_mu_norm s)
                (LogNormalNormFitDistribution_sigma_norm s); 0;
              exp
                (LogNormalNormFitDistribution_calculate_mu RN (LogNormalNormFitDistribution_mu_norm s)
                   (LogNormalNormFitDistribution_sigma_norm s))]
         |} /\
       LogNormalNormFitDistribution_icdf RN s None None =
       Ok
         {|
           c_family := "lognorm";
           c_method := "ppf";
           c_params :=
             [LogNormalNormFitDistribution_calculate_sigma RN (LogNormalNormFitDistribution_mu_norm s)
                (LogNormalNormFitDistribution_sigma_norm s); 0;
              exp
                (LogNormalNormFitDistribution_calculate_mu RN (LogNormalNormFitDistribution_mu_norm s)
                   (LogNormalNormFitDistribution_sigma_norm s))]
         |} /\
       LogNormalNormFitDistribution_pdf RN s None None =
       Ok
         {|
           c_family := "lognorm";
           c_method := "pdf";
           c_params :=
             [LogNormalNormFitDistribution_calculate_sigma RN (LogNormalNormFitDistribution_mu_norm s)
                (LogNormalNormFitDistribution_sigma_norm s); 0;
              exp
                (LogNormalNormFitDistribution_calculate_mu RN (LogNormalNormFitDistribution_mu_norm s)
                   (LogNormalNormFitDistribution_sigma_norm s))]
         |} /\
       LogNormalNormFitDistribution_draw_sample RN s None None =
       Ok
         {|
           c_family := "lognorm";
           c_method := "rvs";
           c_params :=
             [LogNormalNormFitDistribution_calculate_sigma RN (LogNormalNormFitDistribution_mu_norm s)
                (LogNormalNormFitDistribution_sigma_norm s); 0;
              exp
                (LogNormalNormFitDistribution_calculate_mu RN (LogNormalNormFitDistribution_mu_norm s)
                   (LogNormalNormFitDistribution_sigma_norm s))]
         |}.
Proof. exact (@NF_same_map). Qed.

(* norm-fit documented parameterisation: the mean of the log-normal is mu_norm *)
Theorem C05_NF_mean :
  forall mn sn : R,
       0 < mn ->
       0 < sn ->
       exp
         (LogNormalNormFitDistribution_calculate_mu RN mn sn +
          LogNormalNormFitDistribution_calculate_sigma RN mn sn ^ 2 / 2) = mn.
Proof. exact (@NF_mean). Qed.

(* norm-fit: the variance of the log-normal is sigma_norm^2 *)
Theorem C05_NF_variance :
  forall mn sn : R,
       0 < mn ->
       0 < sn ->
       let mu := LogNormalNormFitDistribution_calculate_mu RN mn sn in
       let s2 := LogNormalNormFitDistribution_calculate_sigma RN mn sn ^ 2 in
       (exp s2 - 1) * exp (2 * mu + s2) = sn ^ 2.
Proof. exact (@NF_variance). Qed.

(* documented formula F(x) = 1 - exp(-((x-gamma)/alpha)^beta), from the generated map and scipy's documented weibull_min cdf (hypothesis) *)
Theorem C05_weibull_documented :
  forall sts : call R -> R -> R,
       (forall x c loc scale : R,
        loc < x ->
        sts {| c_family := "weibull_min"; c_method := "cdf"; c_params := [c; loc; scale] |} x =
        1 - exp (- Rpower ((x - loc) / scale) c)) ->
       forall (s : WeibullDistribution) (x : R),
       WeibullDistribution_gamma s < x ->
       eval sts (WeibullDistribution_cdf s None None None) x =
       1 -
       exp
         (-
          Rpower ((x - WeibullDistribution_gamma s) / WeibullDistribution_alpha s)
            (WeibullDistribution_beta s)).
Proof. exact (@weibull_documented). Qed.

(* F(x) = [1 - exp(-(x/alpha)^beta)]^delta *)
Theorem C05_exponweib_documented :
  forall sts : call R -> R -> R,
       (forall x a c loc scale : R,
        loc < x ->
        sts {| c_family := "exponweib"; c_method := "cdf"; c_params := [a; c; loc; scale] |} x =
        Rpower (1 - exp (- Rpower ((x - loc) / scale) c)) a) ->
       forall (s : ExponentiatedWeibullDistribution) (x : R),
       0 < x ->
       eval sts (ExponentiatedWeibullDistribution_cdf RN s None None None) x =
       Rpower
         (1 -
          exp
            (-
             Rpower (x / ExponentiatedWeibullDistribution_alpha s)
               (ExponentiatedWeibullDistribution_beta s))) (ExponentiatedWeibullDistribution_delta s).
Proof. exact (@exponweib_documented). Qed.

(* F(x) = Phi((ln x - mu)/sigma) *)
Theorem C05_lognormal_documented :
  forall (sts : call R -> R -> R) (Phi : R -> R),
       (forall x s loc scale : R,
        loc < x ->
        sts {| c_family := "lognorm"; c_method := "cdf"; c_params := [s; loc; scale] |} x =
        Phi (ln ((x - loc) / scale) / s)) ->
       forall (s : LogNormalDistribution) (x : R),
       0 < x ->
       eval sts (LogNormalDistribution_cdf RN s None None) x =
       Phi ((ln x - LogNormalDistribution_mu s) / LogNormalDistribution_sigma s).
Proof. exact (@lognormal_documented). Qed.

(* F(x) = Phi((x - mu)/sigma) *)
Theorem C05_normal_documented :
  forall (sts : call R -> R -> R) (Phi : R -> R),
       (forall x loc scale : R,
        sts {| c_family := "norm"; c_method := "cdf"; c_params := [loc; scale] |} x =
        Phi ((x - loc) / scale)) ->
       forall (s : NormalDistribution) (x : R),
       eval sts (NormalDistribution_cdf s None None) x =
       Phi ((x - NormalDistribution_mu s) / NormalDistribution_sigma s).
Proof. exact (@normal_documented). Qed.

(* F(x) = F0(lambda x; m, c) (Ochi) *)
Theorem C05_gengamma_documented :
  forall (sts : call R -> R -> R) (F0_gg : R -> R -> R -> R),
       (forall x a c loc scale : R,
        sts {| c_family := "gengamma"; c_method := "cdf"; c_params := [a; c; loc; scale] |} x =
        F0_gg ((x - loc) / scale) a c) ->
       forall (s : GeneralizedGammaDistribution) (x : R),
       GeneralizedGammaDistribution_lambda_ s <> 0 ->
       eval sts (GeneralizedGammaDistribution_cdf RN s None None None) x =
       F0_gg (GeneralizedGammaDistribution_lambda_ s * x) (GeneralizedGammaDistribution_m s)
         (GeneralizedGammaDistribution_c s).
Proof. exact (@gengamma_documented). Qed.

(* F(x) = F0(x - mu; kappa) *)
Theorem C05_vonmises_documented :
  forall (sts : call R -> R -> R) (F0_vm : R -> R -> R),
       (forall x kappa loc : R,
        sts {| c_family := "vonmises"; c_method := "cdf"; c_params := [kappa; loc] |} x =
        F0_vm (x - loc) kappa) ->
       forall (s : VonMisesDistribution) (x : R),
       eval sts (VonMisesDistribution_cdf s None None) x =
       F0_vm (x - VonMisesDistribution_mu s) (VonMisesDistribution_kappa s).
Proof. exact (@vonmises_documented). Qed.

(* exponentiated Weibull pdf is zero outside the support (hand model of the guard, tied by correspondence) *)
Theorem C05_EW_pdf_zero_outside :
  forall (sts : call R -> R -> R) (s : ExponentiatedWeibullDistribution) (x : R) (a b d : option R),
       x <= 0 -> EW_pdf RN sts s x a b d = 0.
Proof. exact (@EW_pdf_zero_outside). Qed.

(* ... and inside the support uses the same parameter list as cdf *)
Theorem C05_EW_pdf_inside :
  forall (sts : call R -> R -> R) (s : ExponentiatedWeibullDistribution) (x : R) (a b d : option R),
       0 < x ->
       EW_pdf RN sts s x a b d =
       sts
         {|
           c_family := "exponweib";
           c_method := "pdf";
           c_params := c_params (ExponentiatedWeibullDistribution_cdf RN s a b d)
         |} x.
Proof. exact (@EW_pdf_inside). Qed.

(* Weibull, any subset of explicit parameters, admissible (alpha, beta > 0): icdf(cdf(x)) = x on the support -- from the GENERATED parameter map and scipy's documented weibull_min cdf/ppf formulas (hypotheses), the inverse relation itself is PROVED (exact reals) *)
Theorem C05_W_icdf_cdf :
  forall sts : call R -> R -> R,
       (forall x c loc scale : R,
        loc < x ->
        sts {| c_family := "weibull_min"; c_method := "cdf"; c_params := [c; loc; scale] |} x =
        Wcdf c loc scale x) ->
       (forall p c loc scale : R,
        0 < p < 1 ->
        sts {| c_family := "weibull_min"; c_method := "ppf"; c_params := [c; loc; scale] |} p =
        Wppf c loc scale p) ->
       forall (s : WeibullDistribution) (a b g : option R),
       0 < ov a (WeibullDistribution_alpha s) ->
       0 < ov b (WeibullDistribution_beta s) ->
       forall x : R,
       ov g (WeibullDistribution_gamma s) < x ->
       eval sts (WeibullDistribution_icdf s a b g) (eval sts (WeibullDistribution_cdf s a b g) x) = x.
Proof. exact (@W_virocon_icdf_cdf). Qed.

(* ... icdf(p) lies in the support and cdf(icdf(p)) = p for 0 < p < 1 (hence the cdf takes every value of (0, 1): it runs from 0 to 1) *)
Theorem C05_W_cdf_icdf :
  forall sts : call R -> R -> R,
       (forall x c loc scale : R,
        loc < x ->
        sts {| c_family := "weibull_min"; c_method := "cdf"; c_params := [c; loc; scale] |} x =
        Wcdf c loc scale x) ->
       (forall p c loc scale : R,
        0 < p < 1 ->
        sts {| c_family := "weibull_min"; c_method := "ppf"; c_params := [c; loc; scale] |} p =
        Wppf c loc scale p) ->
       forall (s : WeibullDistribution) (a b g : option R),
       0 < ov a (WeibullDistribution_alpha s) ->
       0 < ov b (WeibullDistribution_beta s) ->
       forall p : R,
       0 < p < 1 ->
       ov g (WeibullDistribution_gamma s) < eval sts (WeibullDistribution_icdf s a b g) p /\
       eval sts (WeibullDistribution_cdf s a b g) (eval sts (WeibullDistribution_icdf s a b g) p) = p.
Proof. exact (@W_virocon_cdf_icdf). Qed.

(* ... 0 < cdf(x) < 1 on the support *)
Theorem C05_W_cdf_range :
  forall sts : call R -> R -> R,
       (forall x c loc scale : R,
        loc < x ->
        sts {| c_family := "weibull_min"; c_method := "cdf"; c_params := [c; loc; scale] |} x =
        Wcdf c loc scale x) ->
       forall (s : WeibullDistribution) (a b g : option R),
       0 < ov a (WeibullDistribution_alpha s) ->
       0 < ov b (WeibullDistribution_beta s) ->
       forall x : R,
       ov g (WeibullDistribution_gamma s) < x -> 0 < eval sts (WeibullDistribution_cdf s a b g) x < 1.
Proof. exact (@W_virocon_cdf_range). Qed.

(* ... the cdf is strictly increasing on the support *)
Theorem C05_W_cdf_increasing :
  forall sts : call R -> R -> R,
       (forall x c loc scale : R,
        loc < x ->
        sts {| c_family := "weibull_min"; c_method := "cdf"; c_params := [c; loc; scale] |} x =
        Wcdf c loc scale x) ->
       forall (s : WeibullDistribution) (a b g : option R),
       0 < ov a (WeibullDistribution_alpha s) ->
       0 < ov b (WeibullDistribution_beta s) ->
       forall x y : R,
       ov g (WeibullDistribution_gamma s) < x ->
       x < y -> eval sts (WeibullDistribution_cdf s a b g) x < eval sts (WeibullDistribution_cdf s a b g) y.
Proof. exact (@W_virocon_cdf_increasing). Qed.

(* ... the pdf is positive on the support *)
Theorem C05_W_pdf_positive :
  forall sts : call R -> R -> R,
       (forall x c loc scale : R,
        loc < x ->
        sts {| c_family := "weibull_min"; c_method := "pdf"; c_params := [c; loc; scale] |} x =
        Wpdf c loc scale x) ->
       forall (s : WeibullDistribution) (a b g : option R),
       0 < ov a (WeibullDistribution_alpha s) ->
       0 < ov b (WeibullDistribution_beta s) ->
       forall x : R,
       ov g (WeibullDistribution_gamma s) < x -> 0 < eval sts (WeibullDistribution_pdf s a b g) x.
Proof. exact (@W_virocon_pdf_positive). Qed.

(* ... and the pdf is the derivative of the cdf (stdlib derivable_pt_lim; proved with Coquelicot's auto_derive) *)
Theorem C05_W_pdf_is_derivative_of_cdf :
  forall sts : call R -> R -> R,
       (forall x c loc scale : R,
        loc < x ->
        sts {| c_family := "weibull_min"; c_method := "cdf"; c_params := [c; loc; scale] |} x =
        Wcdf c loc scale x) ->
       (forall x c loc scale : R,
        loc < x ->
        sts {| c_family := "weibull_min"; c_method := "pdf"; c_params := [c; loc; scale] |} x =
        Wpdf c loc scale x) ->
       forall (s : WeibullDistribution) (a b g : option R),
       0 < ov a (WeibullDistribution_alpha s) ->
       0 < ov b (WeibullDistribution_beta s) ->
       forall x : R,
       ov g (WeibullDistribution_gamma s) < x ->
       derivable_pt_lim (eval sts (WeibullDistribution_cdf s a b g)) x
         (eval sts (WeibullDistribution_pdf s a b g) x).
Proof. exact (@W_virocon_pdf_derivative). Qed.

(* exponentiated Weibull (alpha, beta, delta > 0), any subset of explicit parameters: icdf(cdf(x)) = x for x > 0 *)
Theorem C05_EW_icdf_cdf :
  forall sts : call R -> R -> R,
       (forall x a c loc scale : R,
        loc < x ->
        sts {| c_family := "exponweib"; c_method := "cdf"; c_params := [a; c; loc; scale] |} x =
        EWcdf a c loc scale x) ->
       (forall p a c loc scale : R,
        0 < p < 1 ->
        sts {| c_family := "exponweib"; c_method := "ppf"; c_params := [a; c; loc; scale] |} p =
        EWppf a c loc scale p) ->
       forall (s : ExponentiatedWeibullDistribution) (a b d : option R),
       0 < ov a (ExponentiatedWeibullDistribution_alpha s) ->
       0 < ov b (ExponentiatedWeibullDistribution_beta s) ->
       0 < ov d (ExponentiatedWeibullDistribution_delta s) ->
       forall x : R,
       0 < x ->
       eval sts (ExponentiatedWeibullDistribution_icdf RN s a b d)
         (eval sts (ExponentiatedWeibullDistribution_cdf RN s a b d) x) = x.
Proof. exact (@EW_virocon_icdf_cdf). Qed.

(* ... 0 < icdf(p) and cdf(icdf(p)) = p for 0 < p < 1 *)
Theorem C05_EW_cdf_icdf :
  forall sts : call R -> R -> R,
       (forall x a c loc scale : R,
        loc < x ->
        sts {| c_family := "exponweib"; c_method := "cdf"; c_params := [a; c; loc; scale] |} x =
        EWcdf a c loc scale x) ->
       (forall p a c loc scale : R,
        0 < p < 1 ->
        sts {| c_family := "exponweib"; c_method := "ppf"; c_params := [a; c; loc; scale] |} p =
        EWppf a c loc scale p) ->
       forall (s : ExponentiatedWeibullDistribution) (a b d : option R),
       0 < ov a (ExponentiatedWeibullDistribution_alpha s) ->
       0 < ov b (ExponentiatedWeibullDistribution_beta s) ->
       0 < ov d (ExponentiatedWeibullDistribution_delta s) ->
       forall p : R,
       0 < p < 1 ->
       0 < eval sts (ExponentiatedWeibullDistribution_icdf RN s a b d) p /\
       eval sts (ExponentiatedWeibullDistribution_cdf RN s a b d)
         (eval sts (ExponentiatedWeibullDistribution_icdf RN s a b d) p) = p.
Proof. exact (@EW_virocon_cdf_icdf). Qed.

(* ... 0 < cdf(x) < 1 for x > 0 *)
Theorem C05_EW_cdf_range :
  forall sts : call R -> R -> R,
       (forall x a c loc scale : R,
        loc < x ->
        sts {| c_family := "exponweib"; c_method := "cdf"; c_params := [a; c; loc; scale] |} x =
        EWcdf a c loc scale x) ->
       forall (s : ExponentiatedWeibullDistribution) (a b d : option R),
       0 < ov a (ExponentiatedWeibullDistribution_alpha s) ->
       0 < ov b (ExponentiatedWeibullDistribution_beta s) ->
       0 < ov d (ExponentiatedWeibullDistribution_delta s) ->
       forall x : R, 0 < x -> 0 < eval sts (ExponentiatedWeibullDistribution_cdf RN s a b d) x < 1.
Proof. exact (@EW_virocon_cdf_range). Qed.

(* ... strictly increasing for x > 0 *)
Theorem C05_EW_cdf_increasing :
  forall sts : call R -> R -> R,
       (forall x a c loc scale : R,
        loc < x ->
        sts {| c_family := "exponweib"; c_method := "cdf"; c_params := [a; c; loc; scale] |} x =
        EWcdf a c loc scale x) ->
       forall (s : ExponentiatedWeibullDistribution) (a b d : option R),
       0 < ov a (ExponentiatedWeibullDistribution_alpha s) ->
       0 < ov b (ExponentiatedWeibullDistribution_beta s) ->
       0 < ov d (ExponentiatedWeibullDistribution_delta s) ->
       forall x y : R,
       0 < x ->
       x < y ->
       eval sts (ExponentiatedWeibullDistribution_cdf RN s a b d) x <
       eval sts (ExponentiatedWeibullDistribution_cdf RN s a b d) y.
Proof. exact (@EW_virocon_cdf_increasing). Qed.

(* ... the pdf (with virocon's own guard for x <= 0) is non-negative everywhere *)
Theorem C05_EW_pdf_nonnegative :
  forall sts : call R -> R -> R,
       (forall x a c loc scale : R,
        loc < x ->
        sts {| c_family := "exponweib"; c_method := "pdf"; c_params := [a; c; loc; scale] |} x =
        EWpdf a c loc scale x) ->
       forall (s : ExponentiatedWeibullDistribution) (a b d : option R),
       0 < ov a (ExponentiatedWeibullDistribution_alpha s) ->
       0 < ov b (ExponentiatedWeibullDistribution_beta s) ->
       0 < ov d (ExponentiatedWeibullDistribution_delta s) -> forall x : R, 0 <= EW_pdf RN sts s x a b d.
Proof. exact (@EW_virocon_pdf_nonneg). Qed.

(* ... and is the derivative of the cdf for x > 0 *)
Theorem C05_EW_pdf_is_derivative_of_cdf :
  forall sts : call R -> R -> R,
       (forall x a c loc scale : R,
        loc < x ->
        sts {| c_family := "exponweib"; c_method := "cdf"; c_params := [a; c; loc; scale] |} x =
        EWcdf a c loc scale x) ->
       (forall x a c loc scale : R,
        loc < x ->
        sts {| c_family := "exponweib"; c_method := "pdf"; c_params := [a; c; loc; scale] |} x =
        EWpdf a c loc scale x) ->
       forall (s : ExponentiatedWeibullDistribution) (a b d : option R),
       0 < ov a (ExponentiatedWeibullDistribution_alpha s) ->
       0 < ov b (ExponentiatedWeibullDistribution_beta s) ->
       0 < ov d (ExponentiatedWeibullDistribution_delta s) ->
       forall x : R,
       0 < x ->
       derivable_pt_lim (eval sts (ExponentiatedWeibullDistribution_cdf RN s a b d)) x
         (EW_pdf RN sts s x a b d).
Proof. exact (@EW_virocon_pdf_derivative). Qed.

(* Normal (sigma > 0), any subset of explicit parameters: icdf(cdf(x)) = x, given that scipy's norm is the loc-scale family of a standard cdf Phi with inverse PhiInv *)
Theorem C05_N_icdf_cdf :
  forall (sts : call R -> R -> R) (Phi PhiInv : R -> R),
       (forall x loc scale : R,
        sts {| c_family := "norm"; c_method := "cdf"; c_params := [loc; scale] |} x = LScdf Phi loc scale x) ->
       (forall p loc scale : R,
        0 < p < 1 ->
        sts {| c_family := "norm"; c_method := "ppf"; c_params := [loc; scale] |} p =
        LSppf PhiInv loc scale p) ->
       (forall z : R, PhiInv (Phi z) = z) ->
       (forall z : R, 0 < Phi z < 1) ->
       forall (s : NormalDistribution) (m sg : option R),
       0 < ov sg (NormalDistribution_sigma s) ->
       forall x : R,
       eval sts (NormalDistribution_icdf s m sg) (eval sts (NormalDistribution_cdf s m sg) x) = x.
Proof. exact (@N_virocon_icdf_cdf). Qed.

(* ... cdf(icdf(p)) = p for 0 < p < 1 *)
Theorem C05_N_cdf_icdf :
  forall (sts : call R -> R -> R) (Phi PhiInv : R -> R),
       (forall x loc scale : R,
        sts {| c_family := "norm"; c_method := "cdf"; c_params := [loc; scale] |} x = LScdf Phi loc scale x) ->
       (forall p loc scale : R,
        0 < p < 1 ->
        sts {| c_family := "norm"; c_method := "ppf"; c_params := [loc; scale] |} p =
        LSppf PhiInv loc scale p) ->
       (forall p : R, 0 < p < 1 -> Phi (PhiInv p) = p) ->
       forall (s : NormalDistribution) (m sg : option R),
       0 < ov sg (NormalDistribution_sigma s) ->
       forall p : R,
       0 < p < 1 ->
       eval sts (NormalDistribution_cdf s m sg) (eval sts (NormalDistribution_icdf s m sg) p) = p.
Proof. exact (@N_virocon_cdf_icdf). Qed.

(* ... the cdf is non-decreasing *)
Theorem C05_N_cdf_monotone :
  forall (sts : call R -> R -> R) (Phi : R -> R),
       (forall x loc scale : R,
        sts {| c_family := "norm"; c_method := "cdf"; c_params := [loc; scale] |} x = LScdf Phi loc scale x) ->
       (forall z1 z2 : R, z1 < z2 -> Phi z1 <= Phi z2) ->
       forall (s : NormalDistribution) (m sg : option R),
       0 < ov sg (NormalDistribution_sigma s) ->
       forall x y : R,
       x < y -> eval sts (NormalDistribution_cdf s m sg) x <= eval sts (NormalDistribution_cdf s m sg) y.
Proof. exact (@N_virocon_cdf_monotone). Qed.

(* log-normal (sigma > 0), any subset of explicit parameters: icdf(cdf(x)) = x for x > 0, from the GENERATED map (s = sigma, loc = 0, scale = exp(mu)) and scipy's documented lognorm cdf / ppf in terms of the standard normal Phi / PhiInv (hypotheses); the logarithm/exponential algebra is proved *)
Theorem C05_LN_icdf_cdf :
  forall (sts : call R -> R -> R) (Phi PhiInv : R -> R),
       (forall x s loc scale : R,
        loc < x ->
        sts {| c_family := "lognorm"; c_method := "cdf"; c_params := [s; loc; scale] |} x =
        Phi (ln ((x - loc) / scale) / s)) ->
       (forall p s loc scale : R,
        0 < p < 1 ->
        sts {| c_family := "lognorm"; c_method := "ppf"; c_params := [s; loc; scale] |} p =
        loc + scale * exp (s * PhiInv p)) ->
       (forall z : R, PhiInv (Phi z) = z) ->
       (forall z : R, 0 < Phi z < 1) ->
       forall (s : LogNormalDistribution) (m sg : option R),
       0 < ov sg (LogNormalDistribution_sigma s) ->
       forall x : R,
       0 < x ->
       eval sts (LogNormalDistribution_icdf RN s m sg) (eval sts (LogNormalDistribution_cdf RN s m sg) x) =
       x.
Proof. exact (@LN_virocon_icdf_cdf). Qed.

(* ... 0 < icdf(p) and cdf(icdf(p)) = p for 0 < p < 1 *)
Theorem C05_LN_cdf_icdf :
  forall (sts : call R -> R -> R) (Phi PhiInv : R -> R),
       (forall x s loc scale : R,
        loc < x ->
        sts {| c_family := "lognorm"; c_method := "cdf"; c_params := [s; loc; scale] |} x =
        Phi (ln ((x - loc) / scale) / s)) ->
       (forall p s loc scale : R,
        0 < p < 1 ->
        sts {| c_family := "lognorm"; c_method := "ppf"; c_params := [s; loc; scale] |} p =
        loc + scale * exp (s * PhiInv p)) ->
       (forall p : R, 0 < p < 1 -> Phi (PhiInv p) = p) ->
       forall (s : LogNormalDistribution) (m sg : option R),
       0 < ov sg (LogNormalDistribution_sigma s) ->
       forall p : R,
       0 < p < 1 ->
       0 < eval sts (LogNormalDistribution_icdf RN s m sg) p /\
       eval sts (LogNormalDistribution_cdf RN s m sg) (eval sts (LogNormalDistribution_icdf RN s m sg) p) =
       p.
Proof. exact (@LN_virocon_cdf_icdf). Qed.

(* generalized gamma (lambda > 0), any subset of explicit parameters: icdf(cdf(x)) = x for x > 0 (scale = 1/lambda, loc = 0 of the standard family F0(.; m, c)) *)
Theorem C05_GG_icdf_cdf :
  forall (sts : call R -> R -> R) (F0gg Q0gg : R -> R -> R -> R),
       (forall x a c loc scale : R,
        sts {| c_family := "gengamma"; c_method := "cdf"; c_params := [a; c; loc; scale] |} x =
        LScdf (F0gg a c) loc scale x) ->
       (forall p a c loc scale : R,
        0 < p < 1 ->
        sts {| c_family := "gengamma"; c_method := "ppf"; c_params := [a; c; loc; scale] |} p =
        LSppf (Q0gg a c) loc scale p) ->
       (forall a c z : R, 0 < z -> Q0gg a c (F0gg a c z) = z) ->
       (forall a c z : R, 0 < z -> 0 < F0gg a c z < 1) ->
       forall (s : GeneralizedGammaDistribution) (om oc ol : option R),
       0 < ov ol (GeneralizedGammaDistribution_lambda_ s) ->
       forall x : R,
       0 < x ->
       eval sts (GeneralizedGammaDistribution_icdf RN s om oc ol)
         (eval sts (GeneralizedGammaDistribution_cdf RN s om oc ol) x) = x.
Proof. exact (@GG_virocon_icdf_cdf). Qed.

(* ... 0 < icdf(p) and cdf(icdf(p)) = p *)
Theorem C05_GG_cdf_icdf :
  forall (sts : call R -> R -> R) (F0gg Q0gg : R -> R -> R -> R),
       (forall x a c loc scale : R,
        sts {| c_family := "gengamma"; c_method := "cdf"; c_params := [a; c; loc; scale] |} x =
        LScdf (F0gg a c) loc scale x) ->
       (forall p a c loc scale : R,
        0 < p < 1 ->
        sts {| c_family := "gengamma"; c_method := "ppf"; c_params := [a; c; loc; scale] |} p =
        LSppf (Q0gg a c) loc scale p) ->
       (forall a c p : R, 0 < p < 1 -> 0 < Q0gg a c p /\ F0gg a c (Q0gg a c p) = p) ->
       forall (s : GeneralizedGammaDistribution) (om oc ol : option R),
       0 < ov ol (GeneralizedGammaDistribution_lambda_ s) ->
       forall p : R,
       0 < p < 1 ->
       0 < eval sts (GeneralizedGammaDistribution_icdf RN s om oc ol) p /\
       eval sts (GeneralizedGammaDistribution_cdf RN s om oc ol)
         (eval sts (GeneralizedGammaDistribution_icdf RN s om oc ol) p) = p.
Proof. exact (@GG_virocon_cdf_icdf). Qed.

(* von Mises, any subset of explicit parameters: icdf(cdf(x)) = x within half a period of mu (also for mu outside [-pi, pi]) *)
Theorem C05_VM_icdf_cdf :
  forall (sts : call R -> R -> R) (Fvm Qvm : R -> R -> R),
       (forall x kappa loc : R,
        sts {| c_family := "vonmises"; c_method := "cdf"; c_params := [kappa; loc] |} x =
        Fvm kappa (x - loc)) ->
       (forall p kappa loc : R,
        0 < p < 1 ->
        sts {| c_family := "vonmises"; c_method := "ppf"; c_params := [kappa; loc] |} p = loc + Qvm kappa p) ->
       (forall k z : R, - PI < z < PI -> Qvm k (Fvm k z) = z) ->
       (forall k z : R, - PI < z < PI -> 0 < Fvm k z < 1) ->
       forall (s : VonMisesDistribution) (ok om : option R) (x : R),
       ov om (VonMisesDistribution_mu s) - PI < x < ov om (VonMisesDistribution_mu s) + PI ->
       eval sts (VonMisesDistribution_icdf s ok om) (eval sts (VonMisesDistribution_cdf s ok om) x) = x.
Proof. exact (@VM_virocon_icdf_cdf). Qed.

(* ... icdf(p) lies within half a period of mu and cdf(icdf(p)) = p *)
Theorem C05_VM_cdf_icdf :
  forall (sts : call R -> R -> R) (Fvm Qvm : R -> R -> R),
       (forall x kappa loc : R,
        sts {| c_family := "vonmises"; c_method := "cdf"; c_params := [kappa; loc] |} x =
        Fvm kappa (x - loc)) ->
       (forall p kappa loc : R,
        0 < p < 1 ->
        sts {| c_family := "vonmises"; c_method := "ppf"; c_params := [kappa; loc] |} p = loc + Qvm kappa p) ->
       (forall k p : R, 0 < p < 1 -> - PI < Qvm k p < PI /\ Fvm k (Qvm k p) = p) ->
       forall (s : VonMisesDistribution) (ok om : option R) (p : R),
       0 < p < 1 ->
       ov om (VonMisesDistribution_mu s) - PI < eval sts (VonMisesDistribution_icdf s ok om) p <
       ov om (VonMisesDistribution_mu s) + PI /\
       eval sts (VonMisesDistribution_cdf s ok om) (eval sts (VonMisesDistribution_icdf s ok om) p) = p.
Proof. exact (@VM_virocon_cdf_icdf). Qed.

(* any loc-scale family F0((x-loc)/scale) with quantile function loc + scale*Q0(p), scale > 0: ppf(cdf(x)) = x *)
Theorem C05_locscale_ppf_cdf :
  forall F0 Q0 : R -> R,
       (forall z : R, Q0 (F0 z) = z) ->
       forall loc scale : R, 0 < scale -> forall x : R, LSppf Q0 loc scale (LScdf F0 loc scale x) = x.
Proof. exact (@LS_ppf_cdf). Qed.

(* ... cdf(ppf(p)) = p *)
Theorem C05_locscale_cdf_ppf :
  forall F0 Q0 : R -> R,
       (forall p : R, 0 < p < 1 -> F0 (Q0 p) = p) ->
       forall loc scale : R,
       0 < scale -> forall p : R, 0 < p < 1 -> LScdf F0 loc scale (LSppf Q0 loc scale p) = p.
Proof. exact (@LS_cdf_ppf). Qed.

(* ScipyDistribution subclasses (hand model, tied by correspondence): positional explicit parameters == instance storing the merged values *)
Theorem C05_SD_override_positional :
  forall (T : Type) (names : list string) (stored : list T) (args : list (option T)),
       sd_params names stored args [] = sd_params names (merge_pos stored args) [] [].
Proof. exact (@sd_override_positional). Qed.

(* ... an explicit positional value (0 included) is used at its position *)
Theorem C05_SD_positional_value :
  forall (T : Type) (stored : list T) (args : list (option T)) (i : nat) (v d : T),
       nth_error args i = Some (Some v) ->
       (i < Datatypes.length stored)%nat -> nth i (merge_pos stored args) d = v.
Proof. exact (@sd_positional_value). Qed.

(* ... a positional None keeps the stored value *)
Theorem C05_SD_positional_none_keeps :
  forall (T : Type) (stored : list T) (args : list (option T)) (i : nat) (d : T),
       nth_error args i = Some None ->
       (i < Datatypes.length stored)%nat -> nth i (merge_pos stored args) d = nth i stored d.
Proof. exact (@sd_positional_none_keeps). Qed.

(* ... a keyword sets exactly the named parameter *)
Theorem C05_SD_keyword_single :
  forall (T : Type) (names : list string) (stored : list T) (k : string) (v : T) (i : nat) (d : T),
       index_of k names = Some i ->
       (i < Datatypes.length stored)%nat ->
       exists r : list T,
         sd_params names stored [] [(k, v)] = Ok r /\
         nth i r d = v /\ (forall j : nat, j <> i -> nth j r d = nth j stored d).
Proof. exact (@sd_keyword_single). Qed.

(* ... an unknown parameter name raises ValueError *)
Theorem C05_SD_keyword_unknown :
  forall (T : Type) (names : list string) (stored : list T) (k : string) (v : T),
       index_of k names = None -> sd_params names stored [] [(k, v)] = Err "ValueError".
Proof. exact (@sd_keyword_unknown). Qed.

(* non-vacuity: a concrete instance and override *)
Example C05_nonvacuous :
  c_params (NormalDistribution_cdf (NormalDistribution_init 0 1 None None) (Some 3) (Some 2)) = [3; 2] /\
  c_params (GeneralizedGammaDistribution_cdf RN (GeneralizedGammaDistribution_init 1 1 4 None None None) None (Some 2) None) = [1; 2; 0; 1 / 4].
Proof. split; reflexivity. Qed.

(* non-vacuity of the consistency theorems: the documented weibull_min formulas themselves are a scipy oracle meeting the
   hypotheses, Weibull(alpha=2, beta=3, gamma=1) is admissible and 4 lies in its support *)
Example C05_consistency_nonvacuous :
  let s := WeibullDistribution_init 2 3 1 None None None in
  eval sts_doc (WeibullDistribution_icdf s None None None) (eval sts_doc (WeibullDistribution_cdf s None None None) 4) = 4.
Proof. exact W_consistency_nonvacuous. Qed.

Print Assumptions C05_W_override.
Print Assumptions C05_W_one_map.
Print Assumptions C05_LN_override.
Print Assumptions C05_LN_one_map.
Print Assumptions C05_N_override.
Print Assumptions C05_N_one_map.
Print Assumptions C05_EW_override.
Print Assumptions C05_EW_one_map.
Print Assumptions C05_GG_override.
Print Assumptions C05_GG_one_map.
Print Assumptions C05_VM_override.
Print Assumptions C05_VM_one_map.
Print Assumptions C05_NF_override.
Print Assumptions C05_NF_one_of_two_raises.
Print Assumptions C05_NF_one_map.
Print Assumptions C05_NF_mean.
Print Assumptions C05_NF_variance.
Print Assumptions C05_weibull_documented.
Print Assumptions C05_exponweib_documented.
Print Assumptions C05_lognormal_documented.
Print Assumptions C05_normal_documented.
Print Assumptions C05_gengamma_documented.
Print Assumptions C05_vonmises_documented.
Print Assumptions C05_EW_pdf_zero_outside.
Print Assumptions C05_EW_pdf_inside.
Print Assumptions C05_W_icdf_cdf.
Print Assumptions C05_W_cdf_icdf.
Print Assumptions C05_W_cdf_range.
Print Assumptions C05_W_cdf_increasing.
Print Assumptions C05_W_pdf_positive.
Print Assumptions C05_W_pdf_is_derivative_of_cdf.
Print Assumptions C05_EW_icdf_cdf.
Print Assumptions C05_EW_cdf_icdf.
Print Assumptions C05_EW_cdf_range.
Print Assumptions C05_EW_cdf_increasing.
Print Assumptions C05_EW_pdf_nonnegative.
Print Assumptions C05_EW_pdf_is_derivative_of_cdf.
Print Assumptions C05_N_icdf_cdf.
Print Assumptions C05_N_cdf_icdf.
Print Assumptions C05_N_cdf_monotone.
Print Assumptions C05_LN_icdf_cdf.
Print Assumptions C05_LN_cdf_icdf.
Print Assumptions C05_GG_icdf_cdf.
Print Assumptions C05_GG_cdf_icdf.
Print Assumptions C05_VM_icdf_cdf.
Print Assumptions C05_VM_cdf_icdf.
Print Assumptions C05_locscale_ppf_cdf.
Print Assumptions C05_locscale_cdf_ppf.
Print Assumptions C05_SD_override_positional.
Print Assumptions C05_SD_positional_value.
Print Assumptions C05_SD_positional_none_keeps.
Print Assumptions C05_SD_keyword_single.
Print Assumptions C05_SD_keyword_unknown.
