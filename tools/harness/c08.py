"""C08 -- a conditional distribution is its template evaluated at the dependence values."""
import itertools
import math

import numpy as np

import vlib
from vlib import fl
from harness import _dist as D

PRELUDE = """From V.base Require Import FloatBits Num.
From V.model Require Import Conditional.
Local Open Scope float_scope.
(* dependence functions are table rows: app f g = the recorded value of the f-th function at the g-th conditioning value *)
Definition app (tab : list (list float)) (f g : nat) : float := nth g (nth f tab []) nan.
Definition show (r : res (list (string * pspec float nat))) (tab : list (list float)) (g : nat) : list (string * float) :=
  match r with Ok spec => get_param_values (app tab) spec g | Err e => [(e, nan)] end.
"""


ZERO_OK = {("WeibullDistribution", "gamma"), ("NormalDistribution", "mu"), ("LogNormalDistribution", "mu"), ("VonMisesDistribution", "mu")}


def dep_shapes(rng, base):
    k = rng.randrange(4)
    a, b, c = base, rng.uniform(0.02, 0.3), rng.uniform(0.5, 1.5)
    if k == 0:
        return (lambda x, a=a, b=b: a + b * np.tanh(x)), "tanh"
    if k == 1:
        return (lambda x, a=a, b=b, c=c: a * (1 + b * np.exp(-c * x))), "exp"
    if k == 2:
        return (lambda x, a=a, b=b: a * (1 + b / (1 + x * x))), "rational"
    return (lambda x, a=a: a + 0 * x), "const"


class RecTemplate:
    """wraps the template instance; records the keyword arguments every forwarded call receives"""

    def __init__(self, inner, log):
        self.__dict__["_i"], self.__dict__["_log"] = inner, log

    def __getattr__(self, n):
        v = getattr(self._i, n)
        if n in ("pdf", "cdf", "icdf", "draw_sample"):
            def w(*a, **k):
                self._log.append((n, a, dict(k)))
                return v(*a, **k)
            return w
        return v

    @property
    def __class__(self):
        return self._i.__class__


def build_case(rng):
    cname = rng.choice([c for c in D.FAMS if c != "LogNormalNormFitDistribution"])
    ps = D.FAMS[cname]["params"]
    th = D.rand_params(rng, cname)
    nfix = rng.randrange(0, len(ps))
    fixed = {p: th[p] for p in rng.sample(ps, nfix)}
    for p in fixed:   # boundary: a parameter fixed at exactly 0 where that is admissible
        if (cname, p) in ZERO_OK and rng.random() < 0.5:
            fixed[p] = rng.choice([0, 0.0])
    for p in fixed:   # whole-number values written as Python ints (f_lambda_=2, f_beta=3): the same values as 2.0, 3.0
        if fixed[p] != 0 and rng.random() < 0.3 and not (cname == "VonMisesDistribution" and p == "mu"):
            fixed[p] = rng.choice([1, 2, 3])
            th[p] = fixed[p]
    malform = rng.choice([None, None, None, None, "unknown", "both", "neither"])
    return {"cls": cname, "theta": th, "fixed": fixed, "malform": malform, "seed": rng.randrange(10 ** 6),
            "gs": [rng.uniform(0.1, 6) for _ in range(rng.randrange(1, 5))]}


def instantiate(case):
    import random
    rng = random.Random(case["seed"])
    dm = D.dist_module()
    cname, th, fixed = case["cls"], case["theta"], dict(case["fixed"])
    ps = D.FAMS[cname]["params"]
    deps = {}
    for p in ps:
        if p not in fixed:
            deps[p] = dep_shapes(rng, th[p])[0]
    if case["malform"] == "unknown":
        deps["no_such_parameter"] = lambda x: 1.0
    elif case["malform"] == "both" and fixed:
        p = sorted(fixed)[0]
        deps[p] = lambda x: 1.0
    elif case["malform"] == "neither" and deps:
        del deps[sorted(deps)[0]]
    tmpl = D.get_class(cname)(**{"f_" + p: v for p, v in fixed.items()})
    return dm, tmpl, deps, fixed, ps


def run_case(case):
    dm, tmpl, deps, fixed, ps = instantiate(case)
    template_desc = [(p, fixed.get(p)) for p in ps]
    try:
        cd = dm.ConditionalDistribution(tmpl, deps)
    except ValueError as e:
        return {"err": "ValueError", "template": template_desc, "deps": list(deps), "table": [[float("nan")] * len(case["gs"]) for _ in deps]}
    log = []
    cd.distribution = RecTemplate(cd.distribution, log)
    out = []
    for g in case["gs"]:
        cd.cdf(1.0, g)
        out.append(log[-1][2])
    table = [[float(deps[p](g)) for g in case["gs"]] for p in deps]
    return {"kwargs": out, "template": template_desc, "deps": list(deps), "table": table}


def coq_case(case, r):
    tmpl = "[" + "; ".join('("%s"%%string, %s)' % (p, "None" if v is None else "Some %s" % fl(v)) for p, v in r["template"]) + "]"
    deps = "[" + "; ".join('("%s"%%string, %d%%nat)' % (p, i) for i, p in enumerate(r["deps"])) + "]"
    tab = "[" + "; ".join(vlib.fl_list(row) for row in r["table"]) + "]"
    return "map (show (cond_init %s %s) %s) (seq 0 %d)" % (tmpl, deps, tab, len(case["gs"]))


def oracle(case):
    """cond.m(x, g) == family instance constructed with theta(g); vectorised == pointwise; chained dependence functions"""
    dm, tmpl, deps, fixed, ps = instantiate(dict(case, malform=None))
    cname = case["cls"]
    Cls = D.get_class(cname)
    cd = dm.ConditionalDistribution(tmpl, deps)
    gs = np.array(case["gs"], dtype=float)
    sig = {"cls": cname}
    xs = []
    for g in gs:
        th_g = dict(fixed, **{p: float(f(g)) for p, f in deps.items()})
        inst = Cls(**th_g)
        x = float(inst.icdf(0.6))
        xs.append(x)
        for m in ("cdf", "pdf", "icdf"):
            arg = x if m != "icdf" else 0.6
            a, b = float(getattr(cd, m)(arg, g)), float(getattr(inst, m)(arg))
            if not (a == b or (math.isnan(a) and math.isnan(b))):
                bad = [p for p in deps if float(getattr(cd, m)(arg, g)) != float(getattr(Cls(**dict(th_g)), m)(arg))]
                return (dict(sig, clause="template-at-theta", method=m), "%s conditional %s(%r, given=%r) = %r but the template with theta(g)=%r gives %r" % (cname, m, arg, float(g), a, th_g, b))
        sa = np.asarray(cd.draw_sample(4, g, random_state=11)).ravel()
        sb = np.asarray(inst.draw_sample(4, random_state=11)).ravel()
        if sa.shape != sb.shape or not np.array_equal(sa, sb):
            return (dict(sig, clause="template-at-theta", method="draw_sample"), "conditional draw_sample differs from the template with theta(g)")
    # integer-typed conditioning values (bin indices, whole-number wind speeds) behave like the same floats
    gi = np.array([1, 2, 5, 3], dtype=int)
    for m in ("cdf", "pdf", "icdf"):
        arg = np.array([0.3, 0.5, 0.6, 0.8]) if m == "icdf" else np.asarray(cd.icdf(np.array([0.3, 0.5, 0.6, 0.8]), gi.astype(float)), dtype=float)
        vi = np.asarray(getattr(cd, m)(arg, gi), dtype=float)
        vf = np.asarray(getattr(cd, m)(arg, gi.astype(float)), dtype=float)
        vs = np.array([float(getattr(cd, m)(a, int(g))) for a, g in zip(arg, gi)])
        if vi.shape != vf.shape or not np.allclose(vi, vf, rtol=1e-14, atol=0, equal_nan=True) or not np.allclose(vi, vs, rtol=1e-14, atol=0, equal_nan=True):
            return (dict(sig, clause="integer-given", method=m), "%s with an integer-typed given vector %r differs from the same values as floats / one at a time: %r vs %r" % (m, gi.tolist(), vi.tolist(), vf.tolist()))
    di = np.asarray(cd.draw_sample(1, gi, random_state=3), dtype=float)
    df = np.asarray(cd.draw_sample(1, gi.astype(float), random_state=3), dtype=float)
    if di.shape != df.shape or not np.array_equal(di, df):
        return (dict(sig, clause="integer-given", method="draw_sample"), "draw_sample with an integer-typed given vector differs from the same values as floats")
    # history: another conditional distribution of the same family that fixes the same parameter names at OTHER values is
    # created and evaluated; this one still evaluates with its own fixed values
    if fixed:
        before = [float(cd.cdf(x, g)) for x, g in zip(xs, gs)]
        fixed2 = {p: (v * 1.6 + 0.25) for p, v in fixed.items()}
        cd2 = dm.ConditionalDistribution(Cls(**{"f_" + p: v for p, v in fixed2.items()}), dict(deps))
        cd2.cdf(xs[0], gs[0])
        after = [float(cd.cdf(x, g)) for x, g in zip(xs, gs)]
        if not np.array_equal(np.array(before), np.array(after), equal_nan=True):
            return (dict(sig, clause="history-other-instance"),
                    "%s conditional with fixed %r: cdf changes from %r to %r after another ConditionalDistribution with fixed %r was created" % (cname, fixed, before, after, fixed2))
    # history: the caller goes on using the dict of dependence functions it handed in (replaces an entry to set up another model):
    # the conditional distribution already constructed keeps the functions it was constructed with
    if deps:
        before = [float(cd.cdf(x, g)) for x, g in zip(xs, gs)]
        saved = dict(deps)
        k0 = sorted(deps)[0]
        deps[k0] = (lambda x, f=saved[k0]: 1.37 * f(x) + 0.21)
        after = [float(cd.cdf(x, g)) for x, g in zip(xs, gs)]
        deps.clear(); deps.update(saved)
        if not np.array_equal(np.array(before), np.array(after), equal_nan=True):
            return (dict(sig, clause="history-caller-dict"),
                    "%s conditional: cdf changes from %r to %r after the caller replaced the entry %r of the parameters dict it had passed to the constructor" % (cname, before, after, k0))
    # history: evaluating, changing the caller's array in place, evaluating again uses the NEW values
    buf = np.array(case["gs"], dtype=float)
    first = np.asarray(cd.cdf(np.full(len(buf), xs[0]), buf), dtype=float)
    buf *= 1.5
    second = np.asarray(cd.cdf(np.full(len(buf), xs[0]), buf), dtype=float)
    fresh = np.array([float(cd.cdf(xs[0], float(g))) for g in buf])
    if not np.allclose(second, fresh, rtol=1e-14, atol=0, equal_nan=True):
        return (dict(sig, clause="history-inplace"), "after changing the given array in place the conditional cdf still uses the old conditioning values")
    # scalar x broadcast against a vector of conditioning values == one value per conditioning value
    for m in ("cdf", "pdf", "icdf"):
        arg = float(xs[0]) if m != "icdf" else 0.6
        vec = np.asarray(getattr(cd, m)(arg, gs), dtype=float)
        pt = np.array([float(getattr(cd, m)(arg, float(g))) for g in gs])
        if len(gs) > 1 and (vec.shape != pt.shape or not np.allclose(vec, pt, rtol=1e-14, atol=0, equal_nan=True)):
            return (dict(sig, clause="vectorised", method=m, form="scalar-x"), "%s(scalar x, given=vector) differs from pointwise evaluation: %r vs %r" % (m, np.atleast_1d(vec).tolist(), pt.tolist()))
    # vectorised == pointwise
    xs = np.array(xs)
    for m in ("cdf", "pdf", "icdf"):
        arg = xs if m != "icdf" else np.full(len(gs), 0.6)
        vec = np.asarray(getattr(cd, m)(arg, gs), dtype=float)
        pt = np.array([float(getattr(cd, m)(a, g)) for a, g in zip(arg, gs)])
        if vec.shape != pt.shape or not np.allclose(vec, pt, rtol=1e-14, atol=0, equal_nan=True):
            return (dict(sig, clause="vectorised", method=m), "vectorised %s differs from pointwise evaluation: %r vs %r" % (m, vec.tolist(), pt.tolist()))
    return None


def chained_oracle(rng):
    """a dependence function that takes another dependence function as parameter evaluates it at the same g"""
    from virocon import DependenceFunction
    a0, b0 = rng.uniform(0.5, 2), rng.uniform(0.1, 1)

    def inner(x, a=a0, b=b0):
        return a + b * x

    def outer(x, d=0.5, c=None):   # bound dependence functions come last in the signature (as in virocon.predefined)
        return c(x) * d + x
    f_in = DependenceFunction(inner)
    f_out = DependenceFunction(outer, c=f_in)
    for g in (0.3, 2.0, np.array([1.0, 4.0])):
        want = (a0 + b0 * g) * 0.5 + g
        got = f_out(g)
        if not np.allclose(got, want, rtol=1e-15):
            return ({"cls": "DependenceFunction", "clause": "chained"}, "chained dependence function at %r gives %r, expected %r" % (g, got, want))
    # chained on SEVERAL different inner dependence functions: each keyword is bound to its own function
    a1_, b1_, c1_ = rng.uniform(0.5, 2), rng.uniform(0.1, 1), rng.uniform(0.3, 0.9)

    def inner2(x, a=a1_, b=b1_, c=c1_):
        return a + b * x ** c

    def inner3(x, a=0.7):
        return a * np.exp(-0.1 * x)

    def outer2(x, d=0.5, first=None, second=None):
        return first(x) * d + 3.0 * second(x)

    def outer3(x, first=None, second=None, third=None):
        return first(x) + 10.0 * second(x) + 100.0 * third(x)
    f_in2, f_in3 = DependenceFunction(inner2), DependenceFunction(inner3)
    f_o2 = DependenceFunction(outer2, first=f_in, second=f_in2)
    f_o2r = DependenceFunction(outer2, second=f_in, first=f_in2)
    f_o3 = DependenceFunction(outer3, third=f_in3, first=f_in, second=f_in2)
    for g in (0.3, 2.5, np.array([1.0, 4.0, 9.0])):
        v1, v2, v3 = a0 + b0 * g, a1_ + b1_ * g ** c1_, 0.7 * np.exp(-0.1 * g)
        for name, got, want in (("outer(first=lin, second=pow)", f_o2(g), v1 * 0.5 + 3.0 * v2), ("outer(first=pow, second=lin)", f_o2r(g), v2 * 0.5 + 3.0 * v1),
                                ("outer(first, second, third)", f_o3(g), v1 + 10.0 * v2 + 100.0 * v3)):
            if not np.allclose(got, want, rtol=1e-14):
                return ({"cls": "DependenceFunction", "clause": "chained-several"}, "%s at %r gives %r, expected %r (each inner function evaluated at the same g)" % (name, g, got, want))
    if list(f_out.parameters) != ["d"] or f_out.parameters["d"] != 0.5:
        return ({"cls": "DependenceFunction", "clause": "signature"}, "parameters after binding: %r" % (f_out.parameters,))
    if not np.allclose(f_in(2.0), a0 + 2 * b0) or not np.allclose(f_in(2.0, 1.0, 3.0), 7.0):
        return ({"cls": "DependenceFunction", "clause": "call"}, "no-argument / explicit call of a dependence function wrong")
    try:
        f_in(2.0, 1.0)
        return ({"cls": "DependenceFunction", "clause": "arity"}, "wrong number of explicit parameters accepted")
    except ValueError:
        pass
    # declared defaults belong to the trailing parameters; parameters without a default start at 1
    def part(x, a, b=0.5, c=2.0):
        return a + b * x + c * x * x
    f_part = DependenceFunction(part)
    if dict(f_part.parameters) != {"a": 1, "b": 0.5, "c": 2.0} or list(f_part.parameters) != ["a", "b", "c"]:
        return ({"cls": "DependenceFunction", "clause": "defaults"}, "def f(x, a, b=0.5, c=2.0) gives parameters %r, expected a=1 (no default), b=0.5, c=2.0" % (dict(f_part.parameters),))
    if not np.allclose(f_part(np.array([0.0, 1.0, 2.0])), part(np.array([0.0, 1.0, 2.0]), 1), rtol=1e-15):
        return ({"cls": "DependenceFunction", "clause": "defaults"}, "the no-argument call does not use the declared defaults")
    # declared defaults of exactly 0 (int, float, negative zero) are values like any other, also inside a conditional distribution
    z0 = rng.choice([0, 0.0, -0.0])

    def zdef(x, a=z0, b=1.5, c=0.0):
        return a + b * x + c * x * x

    def sdef(x, a=0.0, b=0.2):
        return 0.3 + a + b * x
    f_z, f_s = DependenceFunction(zdef), DependenceFunction(sdef)
    if dict(f_z.parameters) != {"a": 0, "b": 1.5, "c": 0.0} or dict(f_s.parameters) != {"a": 0.0, "b": 0.2}:
        return ({"cls": "DependenceFunction", "clause": "defaults-zero"}, "def f(x, a=%r, b=1.5, c=0.0) / def s(x, a=0.0, b=0.2) give parameters %r / %r" % (
            z0, dict(f_z.parameters), dict(f_s.parameters)))
    import virocon as _v
    cz = _v.distributions.ConditionalDistribution(_v.LogNormalDistribution(), {"mu": f_z, "sigma": f_s})
    xs = np.array([0.5, 2.0, 6.0])
    for g in (1.0, 2.5):
        ref = _v.LogNormalDistribution(mu=1.5 * g, sigma=0.3 + 0.2 * g)
        for meth, arg in (("cdf", xs), ("pdf", xs), ("icdf", np.array([0.1, 0.5, 0.9]))):
            got, want = getattr(cz, meth)(arg, given=g), getattr(ref, meth)(arg)
            if not np.allclose(got, want, rtol=1e-12):
                return ({"cls": "ConditionalDistribution", "clause": "defaults-zero", "method": meth},
                        "LogNormal with mu(x) = a + 1.5 x + c x^2 (defaults a=%r, c=0.0) and sigma(x) = 0.3 + a + 0.2 x (default a=0.0), never fitted: "
                        "%s(%r, given=%r) = %r, the template at mu=%r, sigma=%r gives %r" % (z0, meth, arg.tolist(), g, np.asarray(got).tolist(), 1.5 * g, 0.3 + 0.2 * g, np.asarray(want).tolist()))
    # history: re-fitting the inner function changes what the outer one returns at the same g
    g = np.array([1.0, 4.0])
    before = np.asarray(f_out(g), dtype=float)
    xfit = np.array([0.0, 1.0, 2.0, 3.0])
    f_in.fit(xfit, 3.0 + 2.0 * xfit)
    a1, b1 = f_in.parameters["a"], f_in.parameters["b"]
    after = np.asarray(f_out(g), dtype=float)
    want = (a1 + b1 * g) * f_out.parameters["d"] + g
    if not np.allclose(after, want, rtol=1e-12):
        return ({"cls": "DependenceFunction", "clause": "chained-refit"}, "after re-fitting the inner dependence function the outer one returns %r at %r, expected %r" % (after.tolist(), g.tolist(), want.tolist()))
    return None


def scipy_template_oracle(rng):
    """a ScipyDistribution subclass as template: pdf, cdf, icdf AND sampling of the conditional are those of the template with the
    dependence values (the forwarders pass every parameter by keyword)"""
    import scipy.stats as sts
    dm = D.dist_module()
    for name, shapes in (("gengamma", ["a", "c"]), ("gamma", ["a"]), ("weibull_min", ["c"])):
        Sub = type("T_" + name, (dm.ScipyDistribution,), {"scipy_dist_name": name})
        base = {q: rng.uniform(1.2, 3.0) for q in shapes}
        base["scale"] = rng.uniform(0.5, 2.0)
        deps = {q: (lambda x, a=v: a * (1 + 0.15 * np.tanh(x))) for q, v in base.items()}
        cd = dm.ConditionalDistribution(Sub(f_loc=0.0), deps)
        sd = getattr(sts, name)
        gs = np.array([0.4, 1.7, 3.1, 5.0])
        sig = {"cls": "ScipyDistribution", "family": name}
        for g in list(gs) + [gs]:
            th = {q: f(g) for q, f in deps.items()}
            args = [th[q] for q in shapes]
            x = sd.ppf(0.6, *args, loc=0.0, scale=th["scale"])
            for m, ref in (("cdf", sd.cdf), ("pdf", sd.pdf)):
                got, want = np.asarray(getattr(cd, m)(x, g), dtype=float), np.asarray(ref(x, *args, loc=0.0, scale=th["scale"]), dtype=float)
                if got.shape != want.shape or not np.allclose(got, want, rtol=1e-12, atol=0):
                    return (dict(sig, clause="template-at-theta", method=m), "conditional %s with a ScipyDistribution(%s) template: %s(%r, given=%r) = %r, scipy with the dependence values gives %r" % (m, name, m, np.asarray(x).tolist(), np.asarray(g).tolist(), got.tolist(), want.tolist()))
            got = np.asarray(cd.icdf(0.6 if np.ndim(g) == 0 else np.full(len(gs), 0.6), g), dtype=float)
            if not np.allclose(got, np.asarray(x, dtype=float), rtol=1e-10):
                return (dict(sig, clause="template-at-theta", method="icdf"), "conditional icdf with a ScipyDistribution(%s) template differs from scipy's ppf at the dependence values" % name)
            n = 7
            smp = np.asarray(cd.draw_sample(n, g, random_state=21), dtype=float)
            size = n if np.ndim(g) == 0 else (n, len(gs))
            want = np.asarray(sd.rvs(*args, loc=0.0, scale=th["scale"], size=size, random_state=21), dtype=float)
            if smp.shape != want.shape or not np.array_equal(smp, want):
                return (dict(sig, clause="template-at-theta", method="draw_sample"),
                        "conditional draw_sample(%d, given=%r) with a ScipyDistribution(%s) template: shape %r, first values %r; scipy.rvs with the dependence values: shape %r, %r"
                        % (n, np.asarray(g).tolist(), name, smp.shape, smp.ravel()[:3].tolist(), want.shape, want.ravel()[:3].tolist()))
    return None


def bind_correspondence(ctx, rng, n):
    """DependenceFunction.__init__ binding (model/Conditional.v dep_bind / free_params) against the real constructor: which inner
    dependence function each keyword is bound to (functools.partial keywords, by identity) and which parameters remain"""
    from virocon import DependenceFunction
    pool = ["a", "b", "c", "d", "e", "f"]
    cases, lines = [], []
    inners = [DependenceFunction(eval("lambda x, p=%d.0: p + 0 * x" % i)) for i in range(6)]
    for _ in range(n):
        sig = rng.sample(pool, rng.randrange(1, 6))
        ns = {}
        exec("def user(x, %s):\n    return x" % ", ".join("%s=%d.5" % (nm, j) for j, nm in enumerate(sig)), ns)
        keys = rng.sample(sig, rng.randrange(0, len(sig) + 1))      # (a keyword that is no parameter of the function would raise in Python: not generated)
        rng.shuffle(keys)
        kwargs = [(k, rng.randrange(6)) for k in keys]
        df = DependenceFunction(ns["user"], **{k: inners[i] for k, i in kwargs})
        bound = getattr(df.func, "keywords", {}) or {}
        got_bound = [(k, next((i for i, f in enumerate(inners) if f is v), -1)) for k, v in bound.items()]
        got_free = [(k, float(v)) for k, v in df.parameters.items()]
        cases.append({"sig": sig, "kwargs": kwargs, "bound": got_bound, "free": got_free})
        lines.append("(dep_bind [%s] [%s] [], map fst (free_params [%s] [%s]))" % (
            "; ".join('"%s"%%string' % q for q in sig), "; ".join('("%s"%%string, %d%%nat)' % kv for kv in kwargs),
            "; ".join('("%s"%%string, %d%%nat)' % (q, j) for j, q in enumerate(sig)), "; ".join('"%s"%%string' % k for k, _ in kwargs)))
    outs = ctx.coq_eval_many([("bind_0", PRELUDE + "Eval vm_compute in [\n" + ";\n".join(lines) + "].\n")])
    bad = 0
    if outs and outs[0] is not None:
        for c, v in zip(cases, vlib.parse_term(outs[0][0])):
            mb, mf = v[0], v[1]
            want_b = [(str(k).strip('"'), int(i)) for k, i in mb]
            want_f = [str(k).strip('"') for k in mf]
            ctx.count(("bind", tuple(c["sig"]), tuple(c["kwargs"])), bool(c["kwargs"]))
            if want_b != c["bound"] or want_f != [k for k, _ in c["free"]]:
                bad += 1
                if bad <= 3:
                    ctx.mismatch("DependenceFunction.__init__ binding", "signature %r, keyword arguments %r: bound %r / free %r, model: bound %r / free %r"
                                 % (c["sig"], c["kwargs"], c["bound"], [k for k, _ in c["free"]], want_b, want_f))
    else:
        ctx.mismatch("DependenceFunction.__init__ binding", "the model could not be evaluated")
    ctx.notes["bind_correspondence"] = {"cases": len(cases), "mismatches": bad}


def replay(ctx, case):
    o = oracle(case)
    if o:
        print("  ", o[1])
    return o is not None


def run(ctx):
    ctx.proof_gate()
    rng = ctx.rng
    cases = [build_case(rng) for _ in range(ctx.n(300, 4000))]
    results = [run_case(c) for c in cases]
    dist = {}
    lines = []
    for c, r in zip(cases, results):
        k = c["cls"] + "/" + str(c["malform"]) + ("/err" if "err" in r else "")
        dist[k] = dist.get(k, 0) + 1
        ctx.count((c["cls"], tuple(sorted(c["fixed"])), c["malform"], c["seed"]), bool(r["deps"]))
        lines.append(coq_case(c, r))
    ctx.notes["input_distribution"] = dist
    items = []
    shard = 300
    for s in range(0, len(lines), shard):
        items.append(("cases_%d" % (s // shard), PRELUDE + "Eval vm_compute in [\n" + ";\n".join(lines[s:s + shard]) + "].\n"))
    outs = ctx.coq_eval_many(items)
    idx = 0
    suspects = []
    nexact = 0
    for o in outs:
        if o is None:
            idx += shard
            continue
        for v in vlib.parse_term(o[0]):
            c, r = cases[idx], results[idx]
            idx += 1
            if "err" in r:
                if not (v and all(len(kv) == 1 and str(kv[0][0]).strip('"').startswith("ValueError") for kv in v)):
                    ctx.mismatch("ConditionalDistribution.__init__ %s" % c["cls"], "real constructor raised ValueError, model: %r (case %r)" % (v, c))
                    suspects.append(c)
                continue
            ok = len(v) == len(r["kwargs"])
            for kv, kw in zip(v, r["kwargs"]):
                names = [str(n).strip('"') for n, _ in kv]
                if names != list(kw) or any(vlib.ulp_diff(float(val), float(kw[n])) != 0 for (n2, val), n in zip(kv, kw)):
                    ok = False
            if not ok:
                ctx.mismatch("ConditionalDistribution forwarders %s" % c["cls"], "template received %r, model says %r" % (r["kwargs"], v))
                suspects.append(c)
            else:
                nexact += 1
    ctx.cov["programs"] = 3
    ctx.notes["correspondence"] = {"cases": len(cases), "bit_exact": nexact}
    found = 0
    for c in suspects + cases[: ctx.n(150, 1500)]:
        if c["malform"] is not None and c not in suspects:
            continue
        try:
            o = oracle(c)
        except Exception as e:  # noqa
            o = ({"cls": c["cls"], "clause": "exception", "exc": type(e).__name__}, "%s: %s" % (type(e).__name__, e))
        if o is not None and ctx.violation(o[0], o[1], c):
            found += 1
            if found >= 6:
                break
    o = chained_oracle(rng)
    if o is not None:
        ctx.violation(o[0], o[1], {"chained": True})
    bind_correspondence(ctx, rng, ctx.n(60, 600))
    for _ in range(ctx.n(2, 10)):
        try:
            o = scipy_template_oracle(rng)
        except Exception as e:  # noqa
            o = ({"cls": "ScipyDistribution", "clause": "exception", "exc": type(e).__name__}, "conditional with a ScipyDistribution template raised %s: %s" % (type(e).__name__, e))
        ctx.count(("scipy-template", _), True)
        if o is not None:
            ctx.violation(o[0], o[1], {"scipy_template": True})
            break
    for c, r in list(zip(cases, results))[:2]:
        ctx.sample({"case": c, "recorded": {k: v for k, v in r.items() if k != "table"}})
    ctx.cov["rule"] = ("random template family x partition of its parameters into fixed/dependent x dependence shapes x 1-4 conditioning values, plus malformed constructor "
                       "arguments (unknown / both / neither); non-trivial = at least one dependent parameter; distinct = (class, fixed set, malformation, seed)")
    ctx.cov["trusted_base"] = ["Coq kernel + vm_compute", "hand model model/Conditional.v tied by this correspondence (kwargs recorded at the template)",
                               "generated override law (C05) composes the result with the family formula"]
    ctx.assumptions += ["dependence callables act elementwise on arrays (numpy broadcasting)"]
