(* More lemmas for C03 (audit round):
   - steps that do not divide 360 degrees: N = round(360/deg_step) directions, the closing gap differs from the step;
     every edge still lies on the quantile tangent line of its direction;
   - soundness over the reals of the executable np.quantile contract check [quantile_okb] that the correspondence
     run evaluates on every case: whatever passes it meets [is_quantile], the hypothesis of the C03 theorems;
   - vertex i is built from directions i and i+1 (mod N), for every number type. *)
From Coq Require Import Reals Lra Psatz List ZArith Lia Permutation Sorted Bool.
From V.model Require Import DirectSampling.
From V.proofs Require Import DirectSamplingProofs.
Import ListNotations.
Local Open Scope R_scope.

(* ------------------------------------------------------------------ any angular step *)
Section AnyStep.
  Variable C : R -> R.
  Variable N : nat.
  Variable s : R.                       (* the step in radians *)
  Hypothesis HN : (2 <= N)%nat.
  Hypothesis Hs : 0 < s < PI.
  (* the gap between the last direction and the first one, closing the turn *)
  Let gap := 2 * PI - INR (N - 1) * s.
  Hypothesis Hgap : 0 < gap < PI.
  Notation ang := (angle R Rops s).
  Let P := polygon_of R Rops (lines R Rops C N s).

  Lemma any_angle_succ i : ang (S i) = ang i - s.
  Proof. unfold angle. cbn [add sub mul half pi ofn Rops]. rewrite S_INR. ring. Qed.
  Lemma any_angle_wrap : ang 0%nat = ang (N - 1)%nat - gap + 2 * PI.
  Proof. unfold angle, gap. cbn [add sub mul half pi ofn Rops]. simpl INR. ring. Qed.

  Lemma any_den_cyclic i : (i < N)%nat -> den R Rops (ang i) (ang (S i mod N)) <> 0.
  Proof.
    intros Hi. destruct (Nat.eq_dec (S i) N) as [E|E].
    - rewrite E, Nat.mod_same by lia. replace i with (N - 1)%nat by lia.
      rewrite den_is_sin, any_angle_wrap. replace (ang (N - 1)%nat - gap + 2 * PI - ang (N - 1)%nat) with (2 * PI - gap) by ring.
      rewrite sin_minus, sin_2PI, cos_2PI. pose proof (sin_gt_0 gap (proj1 Hgap) (proj2 Hgap)). lra.
    - rewrite Nat.mod_small by lia. rewrite den_is_sin, any_angle_succ. replace (ang i - s - ang i) with (- s) by ring.
      rewrite sin_neg. pose proof (sin_gt_0 s (proj1 Hs) (proj2 Hs)). lra.
  Qed.

  Lemma any_polygon_length : length P = N.
  Proof. unfold P. rewrite polygon_length. apply lines_length. Qed.

  Lemma any_vertex_on_its_lines i : (i < N)%nat ->
    on_line (nth i P (0, 0)) (ang i) (C (ang i)) /\ on_line (nth i P (0, 0)) (ang (S i mod N)) (C (ang (S i mod N))).
  Proof.
    intros Hi.
    rewrite (nth_indep P (0, 0) (vertex R Rops (0, C 0) (0, C 0))) by (rewrite any_polygon_length; exact Hi).
    unfold P. rewrite polygon_nth by (rewrite lines_length; exact Hi). rewrite lines_length.
    rewrite !lines_nth; [|apply Nat.mod_upper_bound; lia|exact Hi].
    unfold on_line, vertex. cbn [fst snd]. apply vertex_on_both_lines. apply any_den_cyclic. exact Hi.
  Qed.

  Lemma any_pred_mod i : (i < N)%nat -> (S ((i + N - 1) mod N) mod N = i)%nat /\ ((i + N - 1) mod N < N)%nat.
  Proof.
    intros Hi. split; [|apply Nat.mod_upper_bound; lia].
    destruct i as [|i].
    - replace (0 + N - 1)%nat with (N - 1)%nat by lia. rewrite (Nat.mod_small (N - 1)) by lia.
      replace (S (N - 1)) with N by lia. apply Nat.mod_same. lia.
    - replace (S i + N - 1)%nat with (i + 1 * N)%nat by lia. rewrite Nat.mod_add by lia.
      rewrite (Nat.mod_small i) by lia. apply Nat.mod_small. lia.
  Qed.

  Lemma any_edge_on_tangent_line i : (i < N)%nat ->
    on_line (nth ((i + N - 1) mod N) P (0, 0)) (ang i) (C (ang i)) /\ on_line (nth i P (0, 0)) (ang i) (C (ang i)).
  Proof.
    intros Hi. destruct (any_pred_mod i Hi) as [E Hj]. split.
    - destruct (any_vertex_on_its_lines _ Hj) as [_ H2]. rewrite E in H2. exact H2.
    - apply (any_vertex_on_its_lines i Hi).
  Qed.
End AnyStep.

(* the direction count of the code, N = round(360/deg_step), meets the hypotheses above for every step below 120 degrees *)
Lemma rounded_count_ok (N : nat) (deg_step : R) :
  0 < deg_step < 120 -> Rabs (INR N * deg_step - 360) <= deg_step / 2 ->
  let s := rad_step R Rops deg_step in
  (3 <= N)%nat /\ 0 < s < PI /\ 0 < 2 * PI - INR (N - 1) * s < PI /\
  s / 2 <= 2 * PI - INR (N - 1) * s <= 3 * s / 2.
Proof.
  intros Hd Hr s. assert (Es : s = deg_step * PI / 180) by reflexivity.
  pose proof PI_RGT_0 as Hpi.
  assert (Hr2 : - (deg_step / 2) <= INR N * deg_step - 360 <= deg_step / 2) by (unfold Rabs in Hr; destruct (Rcase_abs (INR N * deg_step - 360)); lra).
  clear Hr.
  assert (HN : (3 <= N)%nat).
  { destruct (le_lt_dec 3 N) as [L|L]; [exact L|exfalso].
    assert (INR N <= 2) by (replace 2 with (INR 2) by (simpl; ring); apply le_INR; lia).
    assert (0 <= INR N) by apply pos_INR. nra. }
  assert (EN : INR (N - 1) = INR N - 1) by (rewrite minus_INR by lia; simpl; ring).
  assert (Eg : 2 * PI - INR (N - 1) * s = s + (360 - INR N * deg_step) * PI / 180).
  { rewrite EN, Es. field. }
  split; [exact HN|]. split; [rewrite Es; split; nra|].
  rewrite Eg, Es. split; split; nra.
Qed.

Lemma any_step_edges_on_tangent_lines :
  forall (xs ys : list R) (alpha : R) (C : R -> R) (N : nat) (deg_step : R),
    (forall a, is_quantile (proj R Rops xs ys a) (1 - alpha) (C a)) ->
    0 < deg_step < 120 -> Rabs (INR N * deg_step - 360) <= deg_step / 2 ->        (* N = round(360/deg_step) *)
    let s := rad_step R Rops deg_step in
    let P := ds_polygon R Rops C N deg_step in
    length P = N /\
    (forall i, (i < N)%nat ->
      let a := angle R Rops s i in
      let V := nth ((i + N - 1) mod N) P (0, 0) in
      let W := nth i P (0, 0) in
      is_quantile (proj R Rops xs ys a) (1 - alpha) (fst V * cos a + snd V * sin a) /\
      is_quantile (proj R Rops xs ys a) (1 - alpha) (fst W * cos a + snd W * sin a) /\
      forall t, on_line ((1 - t) * fst V + t * fst W, (1 - t) * snd V + t * snd W) a (C a)) /\
    (forall i, angle R Rops s (S i) = angle R Rops s i - s) /\
    angle R Rops s 0 = angle R Rops s (N - 1) - (2 * PI - INR (N - 1) * s) + 2 * PI /\
    s / 2 <= 2 * PI - INR (N - 1) * s <= 3 * s / 2.
Proof.
  intros xs ys alpha C N deg_step HC Hd Hr s P.
  destruct (rounded_count_ok N deg_step Hd Hr) as [HN [Hs [Hg Hg2]]]. fold s in Hs, Hg, Hg2.
  assert (HN2 : (2 <= N)%nat) by lia.
  split; [apply ds_polygon_length|]. split; [|split; [|split]].
  - intros i Hi a V W. destruct (any_edge_on_tangent_line C N s HN2 Hs Hg i Hi) as [H1 H2].
    change (polygon_of R Rops (lines R Rops C N s)) with P in H1, H2. fold a in H1, H2. fold V in H1. fold W in H2.
    unfold on_line in H1, H2. rewrite H1, H2. repeat split; try apply HC.
    intros t. apply segment_on_line; assumption.
  - apply any_angle_succ.
  - apply any_angle_wrap.
  - exact Hg2.
Qed.

(* ------------------------------------------------------------------ vertex pairing, every number type *)
Lemma vertex_pairing : forall T (O : ops T) (C : T -> T) N deg_step i d, (i < N)%nat ->
  let s := rad_step T O deg_step in
  length (ds_polygon T O C N deg_step) = N /\
  nth i (ds_polygon T O C N deg_step) (vertex T O (d, C d) (d, C d)) =
  vertex T O (angle T O s i, C (angle T O s i)) (angle T O s (S i mod N), C (angle T O s (S i mod N))).
Proof. intros. split; [apply ds_polygon_length|apply ds_polygon_nth; assumption]. Qed.

(* ------------------------------------------------------------------ soundness of the executable quantile contract *)
Section Counting.
  (* order statistics by counting: a is the k-th smallest (0-based) iff fewer than k+1 elements are below a and more than k
     are at most a *)
  Definition cnt_lt (z : list R) (a : R) : nat := length (filter (fun v => Rltb v a) z).
  Definition cnt_le (z : list R) (a : R) : nat := length (filter (fun v => Rleb v a) z).

  Lemma cnt_lt_model z a : count_lt R Rops z a = cnt_lt z a. Proof. reflexivity. Qed.
  Lemma cnt_le_model z a : count_le R Rops z a = cnt_le z a. Proof. reflexivity. Qed.

  Lemma filter_length_mono {A} (f g : A -> bool) l : (forall x, In x l -> f x = true -> g x = true) ->
    (length (filter f l) <= length (filter g l))%nat.
  Proof.
    induction l as [|a l IH]; intros H; [reflexivity|]. cbn.
    assert (IH' : (length (filter f l) <= length (filter g l))%nat) by (apply IH; intros x Hx; apply H; right; exact Hx).
    destruct (f a) eqn:E.
    - rewrite (H a (or_introl eq_refl) E). cbn. lia.
    - destruct (g a); cbn; lia.
  Qed.
  Lemma filter_length_strict {A} (f g : A -> bool) l x : (forall y, In y l -> f y = true -> g y = true) ->
    In x l -> f x = false -> g x = true -> (length (filter f l) < length (filter g l))%nat.
  Proof.
    induction l as [|a l IH]; intros H Hx Hf Hg; [contradiction|]. cbn.
    assert (M : (length (filter f l) <= length (filter g l))%nat) by (apply filter_length_mono; intros y Hy; apply H; right; exact Hy).
    destruct Hx as [->|Hx].
    - rewrite Hf, Hg. cbn. lia.
    - assert (S' : (length (filter f l) < length (filter g l))%nat) by (apply IH; auto; intros y Hy; apply H; right; exact Hy).
      destruct (f a) eqn:E.
      + rewrite (H a (or_introl eq_refl) E). cbn. lia.
      + destruct (g a); cbn; lia.
  Qed.

  (* in a sorted list the element at index i is the i-th order statistic in the counting sense, and the only one *)
  Lemma sorted_counts (s : list R) i : StronglySorted Rle s -> (i < length s)%nat ->
    (cnt_lt s (nth i s 0%R) <= i)%nat /\ (i < cnt_le s (nth i s 0%R))%nat.
  Proof.
    intros HS Hi. unfold cnt_lt, cnt_le. split.
    - rewrite (filter_length_split _ s i).
      rewrite (filter_none _ (skipn i s)).
      + cbn [length]. rewrite Nat.add_0_r. etransitivity; [apply filter_length_le|]. rewrite firstn_length. lia.
      + intros x Hx. destruct (In_skipn_nth _ _ _ Hx) as [j [H1 [H2 <-]]]. apply Rltb_false. apply sorted_nth_le; [exact HS|lia].
    - rewrite (filter_length_split _ s (S i)).
      rewrite (filter_all _ (firstn (S i) s)).
      + rewrite firstn_length. lia.
      + intros x Hx. destruct (In_firstn_nth _ _ _ Hx) as [j [H1 [H2 <-]]]. apply Rleb_true. apply sorted_nth_le; [exact HS|lia].
  Qed.

  Lemma order_statistic_unique (s : list R) i a : StronglySorted Rle s -> (i < length s)%nat ->
    (cnt_lt s a <= i)%nat -> (i < cnt_le s a)%nat -> a = nth i s 0.
  Proof.
    intros HS Hi H1 H2. destruct (Rtotal_order (nth i s 0) a) as [L|[E|G]]; [exfalso| symmetry; exact E |exfalso].
    - (* s_0 .. s_i all below a: at least i+1 elements below a *)
      unfold cnt_lt in H1. rewrite (filter_length_split _ s (S i)) in H1.
      rewrite (filter_all _ (firstn (S i) s)) in H1.
      + rewrite firstn_length in H1. lia.
      + intros x Hx. destruct (In_firstn_nth _ _ _ Hx) as [j [J1 [J2 <-]]]. apply Rltb_true.
        apply (Rle_lt_trans _ (nth i s 0)); [apply sorted_nth_le; [exact HS|lia]|exact L].
    - (* s_i .. all above a: at most i elements at most a *)
      unfold cnt_le in H2. rewrite (filter_length_split _ s i) in H2.
      rewrite (filter_none _ (skipn i s)) in H2.
      + cbn [length] in H2. rewrite Nat.add_0_r in H2.
        pose proof (filter_length_le (fun v => Rleb v a) (firstn i s)) as L. rewrite firstn_length in L. lia.
      + intros x Hx. destruct (In_skipn_nth _ _ _ Hx) as [j [J1 [J2 <-]]]. apply Rleb_false.
        apply (Rlt_le_trans _ (nth i s 0)); [exact G|apply sorted_nth_le; [exact HS|lia]].
  Qed.

  (* the running maximum of the elements below q / minimum of the elements above q *)
  Lemma max_below_spec (z : list R) (q : R) : forall acc,
    let r := max_below R Rops z q acc in
    acc <= r /\ (r = acc \/ (In r z /\ r < q)) /\ (forall v, In v z -> v < q -> v <= r).
  Proof.
    unfold max_below. cbn [ltb Rops]. induction z as [|a z IH]; intros acc; cbn [fold_left].
    - split; [lra|]. split; [left; reflexivity|]. intros v [].
    - set (acc' := if Rltb a q then if Rltb acc a then a else acc else acc).
      destruct (IH acc') as [I1 [I2 I3]]. set (r := fold_left _ z acc') in *.
      assert (A1 : acc <= acc').
      { unfold acc'. destruct (Rltb a q); [|lra]. destruct (Rltb acc a) eqn:E; [apply Rltb_true in E; lra|lra]. }
      assert (A2 : acc' = acc \/ (acc' = a /\ a < q)).
      { unfold acc'. destruct (Rltb a q) eqn:E; [|left; reflexivity]. apply Rltb_true in E.
        destruct (Rltb acc a); [right; split; [reflexivity|exact E]|left; reflexivity]. }
      assert (A3 : a < q -> a <= acc').
      { intros Ha. unfold acc'. apply Rltb_true in Ha. rewrite Ha. destruct (Rltb acc a) eqn:E; [lra|apply Rltb_false in E; exact E]. }
      split; [lra|]. split.
      + destruct I2 as [I2|[I2 I2']].
        * destruct A2 as [A2|[A2 A2']]; [left; congruence|right; split; [left; congruence|rewrite I2, A2; exact A2']].
        * right. split; [right; exact I2|exact I2'].
      + intros v [<-|Hv] Hq; [specialize (A3 Hq); lra|apply I3; assumption].
  Qed.

  Lemma min_above_spec (z : list R) (q : R) : forall acc,
    let r := min_above R Rops z q acc in
    r <= acc /\ (r = acc \/ (In r z /\ q < r)) /\ (forall v, In v z -> q < v -> r <= v).
  Proof.
    unfold min_above. cbn [ltb Rops]. induction z as [|a z IH]; intros acc; cbn [fold_left].
    - split; [lra|]. split; [left; reflexivity|]. intros v [].
    - set (acc' := if Rltb q a then if Rltb a acc then a else acc else acc).
      destruct (IH acc') as [I1 [I2 I3]]. set (r := fold_left _ z acc') in *.
      assert (A1 : acc' <= acc).
      { unfold acc'. destruct (Rltb q a); [|lra]. destruct (Rltb a acc) eqn:E; [apply Rltb_true in E; lra|lra]. }
      assert (A2 : acc' = acc \/ (acc' = a /\ q < a)).
      { unfold acc'. destruct (Rltb q a) eqn:E; [|left; reflexivity]. apply Rltb_true in E.
        destruct (Rltb a acc); [right; split; [reflexivity|exact E]|left; reflexivity]. }
      assert (A3 : q < a -> acc' <= a).
      { intros Ha. unfold acc'. apply Rltb_true in Ha. rewrite Ha. destruct (Rltb a acc) eqn:E; [lra|apply Rltb_false in E; exact E]. }
      split; [lra|]. split.
      + destruct I2 as [I2|[I2 I2']].
        * destruct A2 as [A2|[A2 A2']]; [left; congruence|right; split; [left; congruence|rewrite I2, A2; exact A2']].
        * right. split; [right; exact I2|exact I2'].
      + intros v [<-|Hv] Hq; [specialize (A3 Hq); lra|apply I3; assumption].
  Qed.

  Lemma filter_exists {A} (f : A -> bool) l : (1 <= length (filter f l))%nat -> exists x, In x l /\ f x = true.
  Proof.
    intros H. destruct (filter f l) as [|x r] eqn:E; [cbn in H; lia|].
    assert (Hx : In x (filter f l)) by (rewrite E; left; reflexivity). apply filter_In in Hx. exists x. exact Hx.
  Qed.
End Counting.

Section CheckSound.
  Variables (z : list R) (p q ninf pinf : R).
  Hypothesis Hninf : forall v, In v z -> ninf < v.
  Hypothesis Hpinf : forall v, In v z -> v < pinf.
  Let n := length z.
  Let h := INR (n - 1) * p.
  Hypothesis Hh : 0 <= h.

  (* existence of the ascending arrangement *)
  Fixpoint insert (a : R) (l : list R) : list R :=
    match l with [] => [a] | b :: l' => if Rle_dec a b then a :: l else b :: insert a l' end.
  Fixpoint isort (l : list R) : list R := match l with [] => [] | a :: l' => insert a (isort l') end.
  Lemma insert_perm a l : Permutation (insert a l) (a :: l).
  Proof. induction l as [|b l IH]; cbn; [apply Permutation_refl|]. destruct (Rle_dec a b); [apply Permutation_refl|].
    apply (perm_trans (l' := b :: a :: l)); [apply perm_skip; exact IH|apply perm_swap]. Qed.
  Lemma isort_perm l : Permutation (isort l) l.
  Proof. induction l as [|a l IH]; cbn; [constructor|]. apply (perm_trans (l' := a :: isort l)); [apply insert_perm|apply perm_skip; exact IH]. Qed.
  Lemma insert_sorted a l : StronglySorted Rle l -> StronglySorted Rle (insert a l).
  Proof.
    induction l as [|b l IH]; intros HS; cbn; [repeat constructor|]. inversion HS as [|? ? HS' Hall]; subst.
    destruct (Rle_dec a b) as [L|G].
    - constructor; [exact HS|]. constructor; [exact L|]. rewrite Forall_forall in *. intros x Hx. specialize (Hall x Hx). lra.
    - constructor; [apply IH; exact HS'|]. rewrite Forall_forall in *. intros x Hx.
      apply (Permutation_in _ (insert_perm a l)) in Hx. destruct Hx as [<-|Hx]; [lra|apply Hall; exact Hx].
  Qed.
  Lemma isort_sorted l : StronglySorted Rle (isort l).
  Proof. induction l as [|a l IH]; cbn; [constructor|apply insert_sorted; exact IH]. Qed.

  Lemma cnt_perm s a : Permutation s z -> cnt_lt s a = cnt_lt z a /\ cnt_le s a = cnt_le z a.
  Proof. intros HP. split; apply filter_length_perm; exact HP. Qed.

  (* what passes the check at the virtual index h = (n-1) p is the linear-interpolated order statistic *)
  Theorem quantile_check_sound : quantile_ok_at R Rops z h q ninf pinf = true -> is_quantile z p q.
  Proof.
    unfold quantile_ok_at. cbn [floor_nat ofn sub add mul absf close ltb leb Rops].
    rewrite !cnt_lt_model, !cnt_le_model. fold n.
    set (k := Z.to_nat (Int_part h)). set (c1 := cnt_lt z q). set (c2 := cnt_le z q).
    (* k = floor h *)
    assert (Hk : INR k <= h < INR k + 1).
    { pose proof (base_Int_part h) as [B1 B2]. assert (Z0 : (0 <= Int_part h)%Z).
      { destruct (Z_lt_le_dec (Int_part h) 0) as [L|L]; [|exact L]. exfalso.
        assert (IZR (Int_part h) <= -1) by (apply IZR_le; lia). lra. }
      unfold k. rewrite INR_IZR_INZ, Z2Nat.id by exact Z0. lra. }
    set (s := isort z). assert (HP : Permutation s z) by apply isort_perm. assert (HS : StronglySorted Rle s) by apply isort_sorted.
    assert (Hlen : length s = n) by (apply Permutation_length; exact HP).
    assert (Hc12 : (c1 <= c2)%nat) by (apply filter_length_mono; intros x _ Hx; apply Rltb_true in Hx; apply Rleb_true; lra).
    assert (Hc2n : (c2 <= n)%nat) by apply filter_length_le.
    (* the value the check takes for s_k is s_k *)
    assert (SK : forall a, (if (k <? c1)%nat then if (S k =? c1)%nat then Some (max_below R Rops z q ninf) else None
                            else if (k <? c2)%nat then Some q else None) = Some a ->
                           (k < n)%nat /\ a = nth k s 0 /\ a <= q).
    { intros a Ha. destruct (Nat.ltb_spec k c1) as [L1|L1].
      - destruct (Nat.eqb_spec (S k) c1) as [E|E]; [|discriminate]. inversion Ha; subst a. clear Ha.
        destruct (max_below_spec z q ninf) as [M1 [M2 M3]]. set (m := max_below R Rops z q ninf) in *.
        destruct (filter_exists (fun v => Rltb v q) z ltac:(fold (cnt_lt z q); fold c1; lia)) as [x [Hx Hxq]]. apply Rltb_true in Hxq.
        assert (Hm : In m z /\ m < q).
        { destruct M2 as [M2|M2]; [|exact M2]. exfalso. specialize (M3 x Hx Hxq). specialize (Hninf x Hx). lra. }
        split; [lia|]. split; [|lra].
        destruct (cnt_perm s m HP) as [P1 P2].
        apply order_statistic_unique; [exact HS|lia| |].
        + rewrite P1. (* elements below m are below q, and m itself is not below m *)
          assert ((cnt_lt z m < c1)%nat); [|lia].
          apply (filter_length_strict _ _ z m); [|exact (proj1 Hm)|apply Rltb_false; lra|apply Rltb_true; exact (proj2 Hm)].
          intros y _ Hy. apply Rltb_true in Hy. apply Rltb_true. lra.
        + rewrite P2. assert ((c1 <= cnt_le z m)%nat); [|lia].
          apply filter_length_mono. intros y Hy Hyq. apply Rltb_true in Hyq. apply Rleb_true. apply M3; assumption.
      - destruct (Nat.ltb_spec k c2) as [L2|L2]; [|discriminate]. inversion Ha; subst a. clear Ha.
        split; [lia|]. split; [|lra]. destruct (cnt_perm s q HP) as [P1 P2].
        apply order_statistic_unique; [exact HS|lia|rewrite P1; exact L1|rewrite P2; exact L2]. }
    assert (SK1 : forall b, (if (S k <? c1)%nat then None else if (S k <? c2)%nat then Some q
                             else if (S k =? c2)%nat then (if (S k =? n)%nat then Some q else Some (min_above R Rops z q pinf)) else None) = Some b ->
                            q <= b /\ ((S k < n)%nat -> b = nth (S k) s 0) /\ ((n <= S k)%nat -> b = q)).
    { intros b Hb. destruct (Nat.ltb_spec (S k) c1) as [L1|L1]; [discriminate|].
      destruct (Nat.ltb_spec (S k) c2) as [L2|L2].
      - inversion Hb; subst b. split; [lra|]. split; [|reflexivity]. intros Hn. destruct (cnt_perm s q HP) as [P1 P2].
        apply order_statistic_unique; [exact HS|lia|rewrite P1; exact L1|rewrite P2; exact L2].
      - destruct (Nat.eqb_spec (S k) c2) as [E|E]; [|discriminate].
        destruct (Nat.eqb_spec (S k) n) as [E2|E2]; inversion Hb; subst b; clear Hb.
        + split; [lra|]. split; [lia|reflexivity].
        + destruct (min_above_spec z q pinf) as [M1 [M2 M3]]. set (m := min_above R Rops z q pinf) in *.
          (* some element is above q since c2 < n *)
          assert (Hex : exists x, In x z /\ q < x).
          { destruct (filter_exists (fun v => negb (Rleb v q)) z) as [x [Hx Hxq]].
            - assert (T : (length (filter (fun v => Rleb v q) z) + length (filter (fun v => negb (Rleb v q)) z) = length z)%nat).
              { clear. induction z as [|a l IH]; [reflexivity|]. cbn. destruct (Rleb a q); cbn; lia. }
              fold (cnt_le z q) in T. fold c2 in T. fold n in T. lia.
            - exists x. split; [exact Hx|]. apply negb_true_iff in Hxq. apply Rleb_false in Hxq. exact Hxq. }
          destruct Hex as [x [Hx Hxq]].
          assert (Hm : In m z /\ q < m).
          { destruct M2 as [M2|M2]; [|exact M2]. exfalso. specialize (M3 x Hx Hxq). specialize (Hpinf x Hx). lra. }
          split; [lra|]. split; [|intros; lia]. intros Hn. destruct (cnt_perm s m HP) as [P1 P2].
          apply order_statistic_unique; [exact HS|lia| |].
          * rewrite P1. assert ((cnt_lt z m <= c2)%nat); [|lia].
            apply filter_length_mono. intros y Hy Hym. apply Rltb_true in Hym. apply Rleb_true.
            destruct (Rle_lt_dec y q) as [L|G]; [exact L|]. specialize (M3 y Hy G). lra.
          * rewrite P2. assert ((c2 < cnt_le z m)%nat); [|lia].
            apply (filter_length_strict _ _ z m); [|exact (proj1 Hm)|apply Rleb_false; exact (proj2 Hm)|apply Rleb_true; lra].
            intros y _ Hy. apply Rleb_true in Hy. apply Rleb_true. lra. }
    intros Hchk.
    destruct (if (k <? c1)%nat then if (S k =? c1)%nat then Some (max_below R Rops z q ninf) else None
              else if (k <? c2)%nat then Some q else None) as [a|] eqn:Ea; [|discriminate].
    destruct (if (S k <? c1)%nat then None else if (S k <? c2)%nat then Some q
              else if (S k =? c2)%nat then (if (S k =? n)%nat then Some q else Some (min_above R Rops z q pinf)) else None) as [b|] eqn:Eb; [|discriminate].
    destruct (SK a eq_refl) as [Hkn [Ha Haq]]. destruct (SK1 b eq_refl) as [Hqb [Hb1 Hb2]].
    apply Rleb_true in Hchk. assert (Eq : q = a + (h - INR k) * (b - a)).
    { pose proof (Rabs_pos (q - (a + (h - INR k) * (b - a)))) as Hp. assert (Z : Rabs (q - (a + (h - INR k) * (b - a))) = 0) by lra.
      destruct (Req_dec (q - (a + (h - INR k) * (b - a))) 0) as [E|E]; [lra|]. apply Rabs_no_R0 in E. contradiction. }
    exists s. split; [exact HP|]. split; [exact HS|]. cbv zeta. fold n. fold h. exists k. split; [exact Hk|]. split; [exact Hkn|].
    destruct (Nat.lt_ge_cases (S k) n) as [L|L].
    - rewrite (nth_indep s (nth k s 0) 0) by lia. rewrite <- Ha, <- (Hb1 L). exact Eq.
    - rewrite (nth_overflow s (nth k s 0)) by lia. rewrite <- Ha. specialize (Hb2 L). subst b.
      (* q = a + g (q - a) with g < 1 gives q = a *)
      assert (q = a) by nra. lra.
  Qed.
End CheckSound.

(* the full check tries the virtual index (n-1) p and its two neighbours (n-1) p (1 -+ eps) (numpy computes the index in
   floating point): what passes is the linear-interpolated order statistic at a probability within eps * p of p *)
Lemma quantile_okb_sound (z : list R) (p q eps ninf pinf : R) :
  (forall v, In v z -> ninf < v) -> (forall v, In v z -> v < pinf) -> 0 <= p -> 0 <= eps <= 1 ->
  quantile_okb R Rops z p q eps ninf pinf = true ->
  exists p', Rabs (p' - p) <= eps * p /\ is_quantile z p' q.
Proof.
  intros Hn Hp Hp0 He. unfold quantile_okb. destruct z as [|a z']; [discriminate|]. set (z := a :: z') in *.
  cbn [ofn mul sub add one Rops].
  assert (H0 : 0 <= INR (length z - 1)) by apply pos_INR.
  assert (Hep : 0 <= eps * p) by nra.
  destruct (quantile_ok_at R Rops z (INR (length z - 1) * p) q ninf pinf) eqn:E1.
  - intros _. exists p. split; [replace (p - p) with 0 by ring; rewrite Rabs_R0; lra|].
    apply (quantile_check_sound z p q ninf pinf Hn Hp); [apply Rmult_le_pos; [exact H0|exact Hp0]|exact E1].
  - destruct (quantile_ok_at R Rops z (INR (length z - 1) * p * (1 - eps)) q ninf pinf) eqn:E2.
    + intros _. exists (p * (1 - eps)). split.
      * replace (p * (1 - eps) - p) with (- (eps * p)) by ring. rewrite Rabs_Ropp. rewrite Rabs_right by lra. lra.
      * apply (quantile_check_sound z (p * (1 - eps)) q ninf pinf Hn Hp); [apply Rmult_le_pos; [exact H0|apply Rmult_le_pos; lra]|].
        replace (INR (length z - 1) * (p * (1 - eps))) with (INR (length z - 1) * p * (1 - eps)) by ring. exact E2.
    + intros E3. exists (p * (1 + eps)). split.
      * replace (p * (1 + eps) - p) with (eps * p) by ring. rewrite Rabs_right by lra. lra.
      * apply (quantile_check_sound z (p * (1 + eps)) q ninf pinf Hn Hp); [apply Rmult_le_pos; [exact H0|apply Rmult_le_pos; lra]|].
        replace (INR (length z - 1) * (p * (1 + eps))) with (INR (length z - 1) * p * (1 + eps)) by ring. exact E3.
Qed.

(* a concrete instance of the check (used for non-vacuity): the median of [3; 1; 2] *)
Ltac decide_cmp := repeat match goal with
  | |- context [Rltb ?a ?b] => first [ replace (Rltb a b) with true by (symmetry; apply Rltb_true; lra)
                                    | replace (Rltb a b) with false by (symmetry; apply Rltb_false; lra) ]
  | |- context [Rleb ?a ?b] => first [ replace (Rleb a b) with true by (symmetry; apply Rleb_true; lra)
                                    | replace (Rleb a b) with false by (symmetry; apply Rleb_false; lra) ]
  end.
Lemma nonvacuous_check : quantile_ok_at R Rops [3; 1; 2] (INR 2 * / 2) 2 0 4 = true.
Proof.
  replace (INR 2 * / 2) with (INR 1) by (simpl; lra).
  unfold quantile_ok_at. cbn [floor_nat ofn sub add mul absf close ltb leb Rops].
  rewrite Int_part_INR, Nat2Z.id.
  unfold count_lt, count_le, max_below, min_above. cbn [ltb leb Rops filter fold_left length].
  decide_cmp. cbn [length Nat.ltb Nat.leb Nat.eqb]. decide_cmp.
  replace (INR 1 - INR 1) with 0 by ring. apply Rleb_true.
  replace (2 - (2 + 0 * (3 - 2))) with 0 by ring. rewrite Rabs_R0. lra.
Qed.
