(* C13: the closed-form estimate of _estimate_alpha_beta (weights normalised at the point of use) is THE
   weighted least-squares line for every positive weight vector and invariant under rescaling the weights. *)
From Coq Require Import Reals List Lra Psatz Permutation.
From V.base Require Import Num.
From V.model Require Import EwLsq.
Import ListNotations.
Local Open Scope R_scope.
Notation RN := ROps.

Notation obsR := (@obs R).
Definition sumf (f : obsR -> R) (l : list obsR) : R := fold_right (fun o acc => f o + acc) 0 l.
Lemma sum_map (f : obsR -> R) l : sum RN (map f l) = sumf f l.
Proof. unfold sum, sumf, zero. cbn [n_Z n_add ROps]. induction l as [|o l IH]; cbn [map fold_right]; [reflexivity|]. rewrite IH. reflexivity. Qed.
Lemma sumf_scale (f : obsR -> R) s l : sumf (fun o => f o / s) l = sumf f l / s.
Proof. unfold sumf. induction l as [|o l IH]; cbn [fold_right]; [unfold Rdiv; ring|]. rewrite IH. unfold Rdiv. ring. Qed.
Lemma sumf_ext (f g : obsR -> R) l : (forall o, f o = g o) -> sumf f l = sumf g l.
Proof. intros H. unfold sumf. induction l as [|o l IH]; cbn [fold_right]; [reflexivity|]. rewrite H, IH. reflexivity. Qed.
Lemma sumf_map (f : obsR -> R) (g : obsR -> obsR) l : sumf f (map g l) = sumf (fun o => f (g o)) l.
Proof. unfold sumf. induction l as [|o l IH]; cbn [map fold_right]; [reflexivity|]. rewrite IH. reflexivity. Qed.

Notation Wr := (@W R). Notation Pr := (@P R). Notation Xr := (@X R).
Definition S1 := sumf Wr. Definition Sp := sumf (fun o => Wr o * Pr o). Definition Sx := sumf (fun o => Wr o * Xr o).
Definition Spp := sumf (fun o => Wr o * Pr o * Pr o). Definition Spx := sumf (fun o => Wr o * Pr o * Xr o).
Definition Sxx := sumf (fun o => Wr o * Xr o * Xr o).
(* weighted squared error of the line x* = a + b p*, with the ORIGINAL weights *)
Definition SSE (a b : R) := sumf (fun o => Wr o * (Xr o - a - b * Pr o) * (Xr o - a - b * Pr o)).
Definition Dg l := S1 l * Spp l - Sp l * Sp l.
Definition bhat l := (S1 l * Spx l - Sp l * Sx l) / Dg l.
Definition ahat l := (Sx l - bhat l * Sp l) / S1 l.

Lemma SSE_expand l a b :
  SSE a b l = Sxx l - 2*a*Sx l - 2*b*Spx l + a*a*S1 l + 2*a*b*Sp l + b*b*Spp l.
Proof. unfold SSE, Sxx, Sx, Spx, S1, Sp, Spp, sumf. induction l as [|o l IH]; cbn [fold_right]; [ring|]. rewrite IH. ring. Qed.

Lemma S1_pos l : l <> [] -> Forall (fun o => 0 < Wr o) l -> 0 < S1 l.
Proof. unfold S1, sumf. induction l as [|o l IH]; [congruence|]. intros _ H. inversion H as [|? ? Ho Hl]; subst. cbv beta in Ho. cbn [fold_right].
  destruct l as [|o0 l]. { cbn [fold_right]. lra. }
  assert (0 < fold_right (fun o acc => Wr o + acc) 0 (o0 :: l)) by (apply IH; [congruence|exact Hl]).
  apply Rplus_lt_0_compat; [exact Ho|exact H0]. Qed.

Lemma quad_opt (s1 sp sx spp spx sxx a b : R) :
  0 < s1 -> 0 < s1 * spp - sp * sp ->
  let d := s1 * spp - sp * sp in let bh := (s1 * spx - sp * sx) / d in let ah := (sx - bh * sp) / s1 in
  sxx - 2*ah*sx - 2*bh*spx + ah*ah*s1 + 2*ah*bh*sp + bh*bh*spp <= sxx - 2*a*sx - 2*b*spx + a*a*s1 + 2*a*b*sp + b*b*spp.
Proof.
  intros H1 HD d bh ah.
  assert (N1 : s1 * ah + sp * bh = sx). { unfold ah, bh, d. field. split; lra. }
  assert (N2 : sp * ah + spp * bh = spx). { unfold ah, bh, d. field. split; lra. }
  assert (E : (sxx - 2*a*sx - 2*b*spx + a*a*s1 + 2*a*b*sp + b*b*spp) - (sxx - 2*ah*sx - 2*bh*spx + ah*ah*s1 + 2*ah*bh*sp + bh*bh*spp)
              = s1*(a-ah)*(a-ah) + 2*sp*(a-ah)*(b-bh) + spp*(b-bh)*(b-bh)).
  { rewrite <- N1, <- N2. ring. }
  assert (Q : 0 <= s1 * (s1*(a-ah)*(a-ah) + 2*sp*(a-ah)*(b-bh) + spp*(b-bh)*(b-bh))).
  { replace (s1 * (s1*(a-ah)*(a-ah) + 2*sp*(a-ah)*(b-bh) + spp*(b-bh)*(b-bh)))
      with ((s1*(a-ah) + sp*(b-bh))*(s1*(a-ah) + sp*(b-bh)) + d*(b-bh)*(b-bh)) by (subst d; ring).
    assert (0 <= d*(b-bh)*(b-bh)). { rewrite Rmult_assoc. apply Rmult_le_pos; [unfold d; lra|]. pose proof (Rle_0_sqr (b-bh)) as Hs; unfold Rsqr in Hs; exact Hs. }
    pose proof (Rle_0_sqr (s1*(a-ah) + sp*(b-bh))) as Hs2; unfold Rsqr in Hs2. lra. }
  assert (0 <= s1*(a-ah)*(a-ah) + 2*sp*(a-ah)*(b-bh) + spp*(b-bh)*(b-bh)) by nra.
  lra.
Qed.

Theorem regression_optimal l a b :
  l <> [] -> Forall (fun o => 0 < Wr o) l -> 0 < Dg l -> SSE (ahat l) (bhat l) l <= SSE a b l.
Proof. intros Hne Hw HD. pose proof (S1_pos l Hne Hw) as H1. rewrite !SSE_expand. unfold ahat, bhat, Dg in *. apply quad_opt; assumption. Qed.

(* ---- the model's estimate IS (ahat, bhat) of the original weights, whatever their sum *)
Lemma normalise_sums l : S1 l <> 0 ->
  let n := normalise RN l in
  Sp n = Sp l / S1 l /\ Sx n = Sx l / S1 l /\ Spp n = Spp l / S1 l /\ Spx n = Spx l / S1 l.
Proof.
  intros H n. unfold n, normalise. rewrite sum_map. fold (S1 l). cbn [n_div ROps].
  unfold Sp, Sx, Spp, Spx. rewrite !sumf_map. unfold W, P, X. cbn [fst snd].
  repeat split.
  - rewrite <- sumf_scale. apply sumf_ext. intros [[w p] x]. cbn. field. exact H.
  - rewrite <- sumf_scale. apply sumf_ext. intros [[w p] x]. cbn. field. exact H.
  - rewrite <- sumf_scale. apply sumf_ext. intros [[w p] x]. cbn. field. exact H.
  - rewrite <- sumf_scale. apply sumf_ext. intros [[w p] x]. cbn. field. exact H.
Qed.

Lemma est_code_sums l :
  est_code RN l = (let pbar := Sp l in let xbar := Sx l in let dividend := Spx l - pbar * xbar in
                   let divisor := Spp l - pbar * pbar in
                   (xbar - dividend / divisor * pbar, dividend / divisor, dividend, divisor)).
Proof.
  unfold est_code. rewrite !sum_map. cbn [n_sub n_mul n_div n_powZ ROps Z.to_nat]. change (Pos.to_nat 2) with 2%nat.
  unfold Sp, Sx, Spx, Spp.
  rewrite (sumf_ext (fun o => Wr o * Pr o ^ 2) (fun o => Wr o * Pr o * Pr o)) by (intros o; ring).
  cbn zeta. repeat f_equal; ring.
Qed.

Theorem estimate_is_general l : S1 l <> 0 -> Dg l <> 0 ->
  let '(a_hat, b_hat, dividend, divisor) := estimate RN l in
  a_hat = ahat l /\ b_hat = bhat l /\ divisor / dividend = 1 / b_hat.
Proof.
  intros H1 HD. unfold estimate. rewrite est_code_sums. destruct (normalise_sums l H1) as [E1 [E2 [E3 E4]]]. cbn zeta.
  rewrite E1, E2, E3, E4. unfold ahat, bhat, Dg in *.
  assert (HD2 : Spp l / S1 l - Sp l / S1 l * (Sp l / S1 l) <> 0).
  { replace (Spp l / S1 l - Sp l / S1 l * (Sp l / S1 l)) with ((S1 l * Spp l - Sp l * Sp l) / (S1 l * S1 l)) by (field; exact H1).
    unfold Rdiv. apply Rmult_integral_contrapositive_currified; [exact HD|]. apply Rinv_neq_0_compat. apply Rmult_integral_contrapositive_currified; exact H1. }
  repeat split.
  - field. repeat split; auto.
  - field. repeat split; auto.
  - unfold Rdiv. rewrite Rmult_1_l. rewrite Rinv_mult. rewrite Rinv_inv. ring.
Qed.

(* optimality of what the code returns, for EVERY positive weight vector *)
Theorem estimate_optimal l a b : l <> [] -> Forall (fun o => 0 < Wr o) l -> 0 < Dg l ->
  let '(a_hat, b_hat, _, _) := estimate RN l in SSE a_hat b_hat l <= SSE a b l.
Proof.
  intros Hne Hw HD. pose proof (S1_pos l Hne Hw) as H1.
  pose proof (estimate_is_general l) as G. destruct (estimate RN l) as [[[ah bh] dd] dv].
  destruct G as [A [B _]]; [lra|lra|]. rewrite A, B. apply regression_optimal; assumption.
Qed.

(* ---- the estimate depends on the observations (w_i, p*_i, x*_i) only as a multiset: any reordering of the triples (array weights travel
   with their observation) gives the same (a_hat, b_hat, dividend, divisor); which p* an observation gets is the argsort contract *)
Lemma sumf_perm (f : obsR -> R) l l' : Permutation l l' -> sumf f l = sumf f l'.
Proof.
  intros H. induction H as [|o l l' _ IH|o1 o2 l|l l' l'' _ IH1 _ IH2]; unfold sumf in *; cbn [fold_right].
  - reflexivity.
  - rewrite IH. reflexivity.
  - ring.
  - congruence.
Qed.

Theorem estimate_order_invariant l l' : Permutation l l' -> estimate RN l = estimate RN l'.
Proof.
  intros H. unfold estimate. rewrite !est_code_sums.
  assert (Hn : Permutation (normalise RN l) (normalise RN l')).
  { unfold normalise. rewrite !sum_map. rewrite (sumf_perm _ _ _ H). apply Permutation_map. exact H. }
  unfold Sp, Sx, Spx, Spp. rewrite !(sumf_perm _ _ _ Hn). reflexivity.
Qed.

(* invariance under rescaling the weights *)
Definition scale_w (c : R) (l : list obsR) : list obsR := map (fun o => (c * Wr o, Pr o, Xr o)) l.
Lemma sumf_scale_w f c l : (forall o, f (c * Wr o, Pr o, Xr o) = c * f o) -> sumf f (scale_w c l) = c * sumf f l.
Proof. intros H. unfold scale_w. rewrite sumf_map. unfold sumf. induction l as [|o l IH]; cbn [fold_right]; [ring|]. rewrite H, IH. ring. Qed.
Theorem estimate_scale_invariant c l : c <> 0 -> S1 l <> 0 -> Dg l <> 0 ->
  let '(a1, b1, _, _) := estimate RN (scale_w c l) in let '(a2, b2, _, _) := estimate RN l in a1 = a2 /\ b1 = b2.
Proof.
  intros Hc H1 HD.
  assert (E1 : S1 (scale_w c l) = c * S1 l) by (apply sumf_scale_w; intros [[w p] x]; reflexivity).
  assert (E2 : Sp (scale_w c l) = c * Sp l) by (apply sumf_scale_w; intros [[w p] x]; unfold W, P; cbn; ring).
  assert (E3 : Sx (scale_w c l) = c * Sx l) by (apply sumf_scale_w; intros [[w p] x]; unfold W, X; cbn; ring).
  assert (E4 : Spp (scale_w c l) = c * Spp l) by (apply sumf_scale_w; intros [[w p] x]; unfold W, P; cbn; ring).
  assert (E5 : Spx (scale_w c l) = c * Spx l) by (apply sumf_scale_w; intros [[w p] x]; unfold W, P, X; cbn; ring).
  assert (H1c : S1 (scale_w c l) <> 0) by (rewrite E1; apply Rmult_integral_contrapositive_currified; assumption).
  assert (HDc : Dg (scale_w c l) <> 0).
  { unfold Dg. rewrite E1, E2, E4. replace (c * S1 l * (c * Spp l) - c * Sp l * (c * Sp l)) with (c * c * Dg l) by (unfold Dg; ring).
    repeat apply Rmult_integral_contrapositive_currified; assumption. }
  pose proof (estimate_is_general (scale_w c l) H1c HDc) as G1. pose proof (estimate_is_general l H1 HD) as G2.
  destruct (estimate RN (scale_w c l)) as [[[a1 b1] d1] v1]. destruct (estimate RN l) as [[[a2 b2] d2] v2].
  destruct G1 as [A1 [B1 _]]. destruct G2 as [A2 [B2 _]]. rewrite A1, A2, B1, B2.
  assert (Hb : bhat (scale_w c l) = bhat l).
  { assert (X : c * S1 l * (c * Spp l) - c * Sp l * (c * Sp l) <> 0) by (unfold Dg in HDc; rewrite E1, E2, E4 in HDc; exact HDc).
    unfold bhat, Dg. rewrite E1, E2, E3, E4, E5. unfold Dg in HD. field. repeat split; auto. }
  split; [|exact Hb]. unfold ahat. rewrite Hb, E1, E2, E3. field. repeat split; auto.
Qed.

(* alpha and beta as returned *)
Lemma alpha_beta_spec l : alpha_beta RN l =
  (let '(a_hat, _, dividend, divisor) := estimate RN l in (Rpower 10 a_hat, divisor / dividend)).
Proof. unfold alpha_beta. destruct (estimate RN l) as [[[a b] d] v]. reflexivity. Qed.

(* zero observations are dropped together with their plotting position and weight *)
Lemma keep_nonzero_spec {A} (xs : list R) (l : list A) :
  keep_nonzero RN xs l = map snd (filter (fun p => nonzero RN (fst p)) (combine xs l)).
Proof. reflexivity. Qed.
Lemma nonzero_spec x : nonzero RN x = true <-> x <> 0.
Proof. unfold nonzero, zero. cbn [n_leb n_Z ROps]. destruct (Rle_dec x 0), (Rle_dec 0 x); cbn; split; intros; try lra; try discriminate; auto. Qed.
(* fixed-parameter branches of _fit_lsq *)
Lemma lsq_dispatch_spec fa fb fd :
  lsq_dispatch fa fb fd = FixedDelta <-> (fd = true /\ fa = false /\ fb = false).
Proof. destruct fa, fb, fd; cbn; split; intros; try discriminate; intuition congruence. Qed.
Lemma lsq_dispatch_free fa fb fd : lsq_dispatch fa fb fd = FreeDelta <-> (fa = false /\ fb = false /\ fd = false).
Proof. destruct fa, fb, fd; cbn; split; intros; try discriminate; intuition congruence. Qed.
(* keyword weights sum to one; 'None' = equal weights *)
Lemma kw_none_equal (x arr : list R) : kw_weights RN WNone x arr = map (fun _ => 1) x.
Proof. reflexivity. Qed.
