(* C14 -- parameters held by equal bounds (model/HeldParams.v): held exactly, the free ones are what the
   optimiser returned for the sub-problem (free start values, free bounds, embedding between the held values),
   the result lies inside ALL declared bounds as soon as the optimiser respects the box it was handed. *)
From Coq Require Import List Arith Lia Bool.
From V.model Require Import DepProtocol HeldParams.
From V.proofs Require Import DepProtocolProofs.
Import ListNotations.

Section HeldProofs.
  Variable T : Type.
  Variables neg_inf pos_inf : T.
  Variable eqb leb : T -> T -> bool.
  Notation held := (held T eqb).
  Notation fixed_of := (fixed_of T eqb).
  Notation has_fixed := (has_fixed T eqb).
  Notation select_free := (select_free T).
  Notation scatter := (scatter T).
  Notation fit_function := (fit_function T neg_inf pos_inf eqb).
  Notation convert_bounds := (convert_bounds T neg_inf pos_inf).

  Lemma fixed_of_length bs : length (fixed_of bs) = length bs.
  Proof. apply map_length. Qed.

  Lemma scatter_length : forall fx base fv, length base = length fx -> length (scatter fx base fv) = length fx.
  Proof.
    induction fx as [|o fx IH]; intros base fv L; [destruct base; [reflexivity|discriminate]|].
    destruct base as [|b base]; [discriminate|]. injection L as L.
    destruct o as [v|]; cbn; [now rewrite IH|]. destruct fv as [|a r]; cbn; now rewrite IH.
  Qed.

  (* held positions carry the held value, whatever the optimiser returned *)
  Lemma scatter_held : forall fx base fv i v, length base = length fx ->
    nth_error fx i = Some (Some v) -> nth_error (scatter fx base fv) i = Some v.
  Proof.
    induction fx as [|o fx IH]; intros base fv i v L H; [destruct i; discriminate|].
    destruct base as [|b base]; [discriminate|]. injection L as L.
    destruct i as [|i]; cbn in H.
    - inversion H; subst. reflexivity.
    - destruct o as [w|]; cbn; [now apply IH|]. destruct fv as [|a r]; cbn; now apply IH.
  Qed.

  Lemma select_free_length_le {A} : forall fx (l : list A), length (select_free fx l) <= length l.
  Proof.
    induction fx as [|o fx IH]; intros l; [cbn; lia|]. destruct l as [|a l]; [destruct o; cbn; lia|].
    destruct o; cbn; specialize (IH l); lia.
  Qed.

  Lemma select_free_same_length {A B} : forall fx (l : list A) (l' : list B), length l = length l' ->
    length (select_free fx l) = length (select_free fx l').
  Proof.
    induction fx as [|o fx IH]; intros l l' L; [reflexivity|].
    destruct l as [|a l], l' as [|a' l']; try discriminate; [destruct o; reflexivity|].
    injection L as L. destruct o; cbn; [now apply IH|]. f_equal. now apply IH.
  Qed.

  (* the free positions carry the optimiser's values, in order *)
  Lemma select_scatter : forall fx base fv, length base = length fx ->
    length fv = length (select_free fx base) -> select_free fx (scatter fx base fv) = fv.
  Proof.
    induction fx as [|o fx IH]; intros base fv L Lf.
    - destruct base; [|discriminate]. cbn in *. destruct fv; [reflexivity|discriminate].
    - destruct base as [|b base]; [discriminate|]. injection L as L. destruct o as [v|]; cbn in *.
      + now apply IH.
      + destruct fv as [|a r]; [discriminate|]. injection Lf as Lf. cbn. f_equal. now apply IH.
  Qed.

  Lemma no_fixed_none : forall bs, has_fixed bs = false -> forall i v, nth_error (fixed_of bs) i <> Some (Some v).
  Proof.
    unfold HeldParams.has_fixed. intros bs H i v E.
    assert (In (Some v) (fixed_of bs)) as Hin by (eapply nth_error_In; exact E).
    assert (existsb (@is_some T) (fixed_of bs) = true) as C by (apply existsb_exists; exists (Some v); split; [exact Hin|reflexivity]).
    congruence.
  Qed.

  Section WithOracle.
    Variable curve_fit : oracle T.

    (* 1. every held parameter has exactly its declared value in the result *)
    Theorem held_exactly : forall hw bs p0 i v, length p0 = length bs ->
      nth_error (fixed_of bs) i = Some (Some v) -> nth_error (fit_function curve_fit hw (Some bs) p0) i = Some v.
    Proof.
      intros hw bs p0 i v L H. unfold HeldParams.fit_function.
      destruct (has_fixed bs) eqn:F; [|exfalso; exact (no_fixed_none bs F i v H)].
      assert (Lx : length p0 = length (fixed_of bs)) by (now rewrite fixed_of_length).
      destruct (select_free (fixed_of bs) p0); now apply scatter_held.
    Qed.

    (* 2. the free parameters are what the optimiser returned for the sub-problem: sigma as declared, the box of
          the free parameters' bounds, the free start values, the embedding between the held values *)
    Theorem free_from_subproblem : forall hw bs p0, length p0 = length bs -> has_fixed bs = true ->
      let fx := fixed_of bs in
      let sub := curve_fit hw (Some (convert_bounds (select_free fx bs))) (scatter fx p0) (select_free fx p0) in
      select_free fx p0 <> [] -> length sub = length (select_free fx p0) ->
      select_free fx (fit_function curve_fit hw (Some bs) p0) = sub /\
      length (fit_function curve_fit hw (Some bs) p0) = length bs.
    Proof.
      intros hw bs p0 L F fx sub Hne Ls. unfold HeldParams.fit_function. rewrite F. fold fx.
      assert (Lx : length p0 = length fx) by (unfold fx; now rewrite fixed_of_length).
      destruct (select_free fx p0) as [|a fp] eqn:E; [congruence|]. fold sub. rewrite <- E in *. split.
      - apply select_scatter; [exact Lx|exact Ls].
      - rewrite scatter_length by exact Lx. unfold fx. apply fixed_of_length.
    Qed.

    (* the embedding handed to the optimiser: held values at the held positions, the varied vector at the free ones *)
    Theorem embedding_spec : forall bs p0 fv, length p0 = length bs ->
      let fx := fixed_of bs in
      length fv = length (select_free fx p0) ->
      select_free fx (scatter fx p0 fv) = fv /\
      (forall i v, nth_error fx i = Some (Some v) -> nth_error (scatter fx p0 fv) i = Some v) /\
      length (scatter fx p0 fv) = length bs.
    Proof.
      intros bs p0 fv L fx Lf.
      assert (Lx : length p0 = length fx) by (unfold fx; now rewrite fixed_of_length).
      split; [now apply select_scatter|]. split; [intros i v H; now apply scatter_held|].
      rewrite scatter_length by exact Lx. unfold fx. apply fixed_of_length.
    Qed.

    (* 3. inside ALL declared bounds, provided the order relates equal ends (eqb l u -> l <= l and l <= u) and the
          optimiser stays inside the box it is handed and returns as many values as it was given start values *)
    Hypothesis eqb_leb : forall a b, eqb a b = true -> leb a a = true /\ leb a b = true.

    Lemma scatter_in_declared : forall bs base fv, length base = length bs ->
      length fv = length (select_free (fixed_of bs) base) ->
      in_declared T leb (select_free (fixed_of bs) bs) fv ->
      in_declared T leb bs (scatter (fixed_of bs) base fv).
    Proof.
      unfold in_declared.
      induction bs as [|b bs IH]; intros base fv L Lf H.
      - destruct base; [|discriminate]. constructor.
      - destruct base as [|x base]; [discriminate|]. injection L as L. cbn [HeldParams.fixed_of map] in *.
        destruct (held b) as [v|] eqn:Hb; cbn [HeldParams.select_free HeldParams.scatter] in *.
        + constructor; [|now apply IH].
          unfold HeldParams.held in Hb. destruct b as [[l|] [u|]]; try discriminate.
          destruct (eqb l u) eqn:E; [|discriminate]. inversion Hb; subst v.
          destruct (eqb_leb l u E) as [Hll Hlu]. cbn. split; intros w Hw; inversion Hw; subst; assumption.
        + destruct fv as [|a r]; [discriminate|]. injection Lf as Lf. inversion H; subst.
          constructor; [assumption|]. now apply IH.
    Qed.

    Theorem result_in_declared_bounds : forall hw bs p0, length p0 = length bs ->
      (forall box embed fp0, in_box T leb box (curve_fit hw (Some box) embed fp0) /\
                             length (curve_fit hw (Some box) embed fp0) = length fp0) ->
      in_declared T leb bs (fit_function curve_fit hw (Some bs) p0).
    Proof.
      intros hw bs p0 L Hcf. unfold HeldParams.fit_function. destruct (has_fixed bs) eqn:F.
      - destruct (select_free (fixed_of bs) p0) as [|a fp] eqn:E.
        + apply scatter_in_declared; [exact L|now rewrite E|].
          (* no free parameter: the list of free bounds is empty as well *)
          assert (length (select_free (fixed_of bs) bs) = length (select_free (fixed_of bs) p0)) as Lb
            by (apply select_free_same_length; now rewrite L).
          rewrite E in Lb. destruct (select_free (fixed_of bs) bs); [constructor|discriminate].
        + rewrite <- E.
          destruct (Hcf (convert_bounds (select_free (fixed_of bs) bs)) (scatter (fixed_of bs) p0) (select_free (fixed_of bs) p0)) as [Hb Hl].
          apply scatter_in_declared; [exact L|exact Hl|].
          apply (box_declared T neg_inf pos_inf leb). exact Hb.
      - destruct (Hcf (convert_bounds bs) (fun p => p) p0) as [Hb _].
        apply (box_declared T neg_inf pos_inf leb). exact Hb.
    Qed.

    (* 4. every parameter held: the optimiser is not consulted, the result is the list of held values *)
    Theorem all_held : forall hw bs p0, length p0 = length bs -> bs <> [] ->
      (forall b, In b bs -> held b <> None) ->
      forall i b, nth_error bs i = Some b -> nth_error (fit_function curve_fit hw (Some bs) p0) i = Some (match held b with Some v => v | None => neg_inf end).
    Proof.
      intros hw bs p0 L Hne Hall i b Hi.
      destruct (held b) as [v|] eqn:Hb; [|exfalso; apply (Hall b); [eapply nth_error_In; exact Hi|exact Hb]].
      apply held_exactly; [exact L|]. unfold HeldParams.fixed_of. rewrite nth_error_map, Hi. cbn. now rewrite Hb.
    Qed.

    (* 5. no parameter held: the plain path of the dispatch model (the whole box, the identity embedding) *)
    Theorem none_held : forall hw bs p0, has_fixed bs = false ->
      fit_function curve_fit hw (Some bs) p0 = curve_fit hw (Some (convert_bounds bs)) (fun p => p) p0.
    Proof. intros hw bs p0 F. unfold HeldParams.fit_function. now rewrite F. Qed.
  End WithOracle.
End HeldProofs.

(* binary64: equal ends are ordered (the hypothesis eqb_leb holds for PrimFloat's comparisons) *)
From Coq Require Import PrimFloat FloatOps FloatAxioms SpecFloat ZArith.
Lemma SFcompare_refl_of_eq x y : SFcompare x y = Some Eq -> SFcompare x x = Some Eq.
Proof.
  destruct x as [sx| sx | | sx mx ex], y as [sy| sy | | sy my ey]; cbn; try discriminate; try reflexivity;
    try (destruct sx; discriminate); try (destruct sx, sy; discriminate).
  - destruct sx; reflexivity.
  - intros _. destruct sx; rewrite Z.compare_refl, Pos.compare_refl; reflexivity.
Qed.
Lemma prim_eqb_leb a b : PrimFloat.eqb a b = true -> PrimFloat.leb a a = true /\ PrimFloat.leb a b = true.
Proof.
  rewrite eqb_spec, !leb_spec. unfold SFeqb, SFleb. intros H.
  destruct (SFcompare (Prim2SF a) (Prim2SF b)) as [[| |]|] eqn:E; try discriminate.
  rewrite (SFcompare_refl_of_eq _ _ E). split; reflexivity.
Qed.
