(* C04 -- AND/OR contour points have empirical exceedance alpha within allowed_error.
   Property theorems only; proofs are in proofs/AndOrProofs.v, the model in model/AndOr.v.
   [search_ray] is the while loop of AndContour._compute / OrContour._compute for one angle (100 iterations at most),
   [and_contour] / [or_contour] the whole computation; [Rops] is the real-number instance. *)
From Coq Require Import Reals Lra List ZArith Bool PrimFloat.
From V.model Require Import AndOr.
From V.proofs Require Import AndOrProofs AndOrMore.
Import ListNotations.

(* any number structure (so also for the binary64 run compared with the implementation): the returned vector is the
   point of the ray at one visited rel_dist, and the returned probability of exceedance was counted AT THAT VECTOR
   (not at the point of the next or the previous iteration) *)
Theorem C04_vector_and_pe_of_same_iteration : forall T (K : ops T) m sample alpha allowed xm ym theta v,
  r_vec (search_ray T K m sample alpha allowed xm ym theta) = Some v ->
  exists rd, v = point_at T K (unit_vec T K theta) rd (max_distance T K xm ym) /\
             r_pe (search_ray T K m sample alpha allowed xm ym theta) = pe_of T K (count T K m v sample) (length sample).
Proof. exact ray_same_iteration. Qed.

(* unless the warning is emitted the loop ended because |pe - alpha| / alpha > allowed_error became false;
   never more than 100 iterations *)
Theorem C04_not_warned_means_precise : forall T (K : ops T) m sample alpha allowed xm ym theta,
  r_warned (search_ray T K m sample alpha allowed xm ym theta) = false ->
  not_precise T K alpha allowed (r_pe (search_ray T K m sample alpha allowed xm ym theta)) = false.
Proof. exact ray_not_warned_precise. Qed.
Theorem C04_at_most_100_iterations : forall T (K : ops T) m sample alpha allowed xm ym theta,
  (length (r_trace (search_ray T K m sample alpha allowed xm ym theta)) <= 100)%nat.
Proof. exact ray_iterations. Qed.

Local Open Scope R_scope.

(* over the reals: unless the warning is emitted, the fraction of sample points exceeding the returned point -- in
   both variables (AND) / in at least one variable (OR), strictly -- differs from alpha by at most allowed_error*alpha *)
Theorem C04_exceedance_within_allowed_error : forall m (sample : list (R * R)) alpha allowed xm ym theta v,
  0 < alpha ->
  r_warned (search_ray R Rops m sample alpha allowed xm ym theta) = false ->
  r_vec (search_ray R Rops m sample alpha allowed xm ym theta) = Some v ->
  Rabs (INR (count R Rops m v sample) / INR (length sample) - alpha) <= allowed * alpha.
Proof. exact ray_within_tolerance. Qed.
Theorem C04_exceedance_is_strict : forall v p,
  (exceeds R Rops And v p = true <-> fst v < fst p /\ snd v < snd p) /\
  (exceeds R Rops Or v p = true <-> fst v < fst p \/ snd v < snd p).
Proof. exact (fun v p => conj (exceeds_and_R v p) (exceeds_or_R v p)). Qed.

(* every searched point lies on its ray from the origin at the requested angle, at a distance above
   0.1 * max_distance (rel_dist - rel_step_size >= 0.1 is invariant) *)
Theorem C04_point_on_its_ray : forall m (sample : list (R * R)) alpha allowed xm ym theta v,
  r_vec (search_ray R Rops m sample alpha allowed xm ym theta) = Some v ->
  exists rd, / 10 < rd /\
    v = (cos (theta / 180 * PI) * (rd * max_distance R Rops xm ym), sin (theta / 180 * PI) * (rd * max_distance R Rops xm ym)) /\
    r_pe (search_ray R Rops m sample alpha allowed xm ym theta) = INR (count R Rops m v sample) / INR (length sample).
Proof. exact ray_point_spec. Qed.

(* allowed_error < 1: the loop body runs, every ray has a point; allowed_error >= 1: it never runs and the
   computation fails (the source reads the unbound current_vector) -- an explicit error branch of the model *)
Theorem C04_loop_body_runs : forall m (sample : list (R * R)) alpha allowed xm ym theta,
  0 < alpha ->
  (allowed < 1 -> r_vec (search_ray R Rops m sample alpha allowed xm ym theta) <> None) /\
  (1 <= allowed -> r_vec (search_ray R Rops m sample alpha allowed xm ym theta) = None).
Proof. exact (fun m s a al xm ym th Ha => conj (ray_has_vector m s a al xm ym th Ha) (ray_no_vector m s a al xm ym th Ha)). Qed.

(* AND: the searched points in the order of the angles, then the final point (0, 0); error iff some ray has no point *)
Theorem C04_and_closure : forall T (K : ops T) sample alpha allowed xm ym thetas l,
  fst (and_contour T K sample alpha allowed xm ym thetas) = Some l ->
  exists pts, map Some pts = map r_vec (rays T K And sample alpha allowed xm ym thetas) /\
              l = pts ++ [(zero K, zero K)] /\ length l = S (length thetas).
Proof. exact and_contour_closure. Qed.
Theorem C04_and_error : forall T (K : ops T) sample alpha allowed xm ym thetas,
  fst (and_contour T K sample alpha allowed xm ym thetas) = None <->
  exists theta, In theta thetas /\ r_vec (search_ray T K And sample alpha allowed xm ym theta) = None.
Proof. exact and_contour_error. Qed.

(* OR: exactly the searched points with both coordinates below 1.1 times the sample maximum are kept -- dropped, never
   altered, order kept -- followed by (0, y_last), (0, 0), (x_first, 0) *)
Theorem C04_or_closure : forall T (K : ops T) sample alpha allowed xm ym thetas dflt l,
  fst (or_contour T K sample alpha allowed xm ym thetas dflt) = Some l ->
  let xmax := mul K (c11 K) (maxl T K (map fst sample) dflt) in
  let ymax := mul K (c11 K) (maxl T K (map snd sample) dflt) in
  exists pts kept first,
    map Some pts = map r_vec (rays T K Or sample alpha allowed xm ym thetas) /\
    kept = filter (in_range T K xmax ymax) pts /\ hd_error kept = Some first /\
    (forall p, In p kept <-> In p pts /\ ltb K (fst p) xmax = true /\ ltb K (snd p) ymax = true) /\
    l = kept ++ [(zero K, snd (last kept first)); (zero K, zero K); (fst first, zero K)].
Proof. exact or_contour_closure. Qed.

(* ---- audit round ---- *)
Local Close Scope R_scope.

(* the warning of a ray is emitted exactly when its 100th iteration has run; one exceedance count per iteration *)
Theorem C04_warning_iff_100_iterations : forall T (K : ops T) m sample alpha allowed xm ym theta,
  let r := search_ray T K m sample alpha allowed xm ym theta in
  (r_warned r = true -> length (r_trace r) = 100) /\ (r_warned r = false -> length (r_trace r) < 100).
Proof. exact ray_warned_iff_100. Qed.

(* one ray per angle of the grid, in the order of the grid (whatever lowest_theta, highest_theta, deg_step produce) *)
Theorem C04_rays_follow_thetas : forall T (K : ops T) m sample alpha allowed xm ym thetas,
  length (rays T K m sample alpha allowed xm ym thetas) = length thetas /\
  forall i d, i < length thetas ->
    nth i (rays T K m sample alpha allowed xm ym thetas) (search_ray T K m sample alpha allowed xm ym d) =
    search_ray T K m sample alpha allowed xm ym (nth i thetas d).
Proof. exact rays_follow_thetas. Qed.

(* OrContour fails iff some ray has no vector (allowed_error >= 1) or no searched point is inside 1.1 x the sample
   maximum -- in particular for an empty angle grid (lowest_theta >= highest_theta) *)
Theorem C04_or_error : forall T (K : ops T) sample alpha allowed xm ym thetas dflt,
  let xmax := mul K (c11 K) (maxl T K (map fst sample) dflt) in
  let ymax := mul K (c11 K) (maxl T K (map snd sample) dflt) in
  fst (or_contour T K sample alpha allowed xm ym thetas dflt) = None <->
  (exists theta, In theta thetas /\ r_vec (search_ray T K Or sample alpha allowed xm ym theta) = None) \/
  (exists pts, points T (rays T K Or sample alpha allowed xm ym thetas) = Some pts /\ filter (in_range T K xmax ymax) pts = []).
Proof. exact or_contour_error. Qed.

(* n = int(100/alpha) points are drawn when neither sample nor n is given; a supplied sample is used as it is *)
Theorem C04_sample_size : forall T (K : ops T) S (draw : Z -> S) (smp : S) n n_opt alpha,
  used_sample T K draw None None alpha = draw (trunc K (div K (c100 K) alpha)) /\
  used_sample T K draw None (Some n) alpha = draw n /\
  used_sample T K draw (Some smp) n_opt alpha = smp.
Proof. exact sample_size_clauses. Qed.

Local Open Scope R_scope.
Theorem C04_sample_size_real : forall alpha,
  IZR (sample_size R Rops None alpha) <= 100 / alpha < IZR (sample_size R Rops None alpha) + 1.
Proof. exact sample_size_R. Qed.

(* along a ray of the first quadrant the number of exceeding observations (AND and OR) does not increase with the
   distance: what 'pe > alpha => move outward, else halve the step and move inward' relies on *)
Theorem C04_exceedance_antitone_along_ray : forall m (sample : list (R * R)) (u : R * R) maxd rd1 rd2,
  0 <= fst u -> 0 <= snd u -> 0 <= maxd -> rd1 <= rd2 ->
  (count R Rops m (point_at R Rops u rd2 maxd) sample <= count R Rops m (point_at R Rops u rd1 maxd) sample)%nat.
Proof. exact exceedance_antitone. Qed.
Theorem C04_unit_vector : forall theta rd maxd,
  (let v := point_at R Rops (unit_vec R Rops theta) rd maxd in fst v * fst v + snd v * snd v = (rd * maxd) * (rd * maxd)) /\
  (0 <= theta <= 90 -> 0 <= fst (unit_vec R Rops theta) /\ 0 <= snd (unit_vec R Rops theta)).
Proof. exact (fun theta rd maxd => conj (point_distance theta rd maxd) (unit_vec_first_quadrant theta)). Qed.

(* the executable binary64 entry points run against the implementation ARE the generic model *)
Theorem C04_float_model_is_generic : forall ctab stab sample alpha allowed xm ym lowest highest deg_step,
  and_contour_f ctab stab sample alpha allowed xm ym deg_step =
    and_contour float (fops ctab stab) sample alpha allowed xm ym (FloatBits.arange 0 90 deg_step) /\
  or_contour_f ctab stab sample alpha allowed xm ym lowest highest deg_step =
    or_contour float (fops ctab stab) sample alpha allowed xm ym (FloatBits.arange lowest highest deg_step) nan.
Proof. intros. split; reflexivity. Qed.

(* non-vacuity: a concrete real sample and precision meeting the hypotheses of the tolerance theorem, and the
   closure of a one-point OR contour *)
Example C04_nonvacuous :
  0 < / 2 /\ / 2 < 1 /\
  r_vec (search_ray R Rops And [(1, 1); (3, 3)] (/ 2) (/ 2) 1 1 0) <> None /\
  or_close R Rops [(1, 2); (3, 4)] = Some [(1, 2); (3, 4); (0, 4); (0, 0); (1, 0)].
Proof.
  split; [lra|]. split; [lra|]. split; [apply ray_has_vector; lra|reflexivity].
Qed.

Print Assumptions C04_vector_and_pe_of_same_iteration.
Print Assumptions C04_not_warned_means_precise.
Print Assumptions C04_at_most_100_iterations.
Print Assumptions C04_exceedance_within_allowed_error.
Print Assumptions C04_exceedance_is_strict.
Print Assumptions C04_point_on_its_ray.
Print Assumptions C04_loop_body_runs.
Print Assumptions C04_and_closure.
Print Assumptions C04_and_error.
Print Assumptions C04_or_closure.
Print Assumptions C04_float_model_is_generic.
Print Assumptions C04_warning_iff_100_iterations.
Print Assumptions C04_rays_follow_thetas.
Print Assumptions C04_or_error.
Print Assumptions C04_sample_size.
Print Assumptions C04_sample_size_real.
Print Assumptions C04_exceedance_antitone_along_ray.
Print Assumptions C04_unit_vector.
