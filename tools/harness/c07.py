"""C07 -- samples follow the model they are drawn from and are reproducible by seed (DESIGN.md section 6, C07; PARTIAL).

proof gate: props/C07.v (data flow of draw_sample: row pairing of the conditional draws, generator threading, seed
            determinism, shape, _get_rvs_size).  No probability theory: the distributional clauses are NOT proved.
correspondence: binary64 instance of model/Joint.v draw_full (vm_compute) vs GlobalHierarchicalModel.draw_sample.
            virocon.distributions.sts is rebound to a recording proxy: every scipy rvs call is recorded with its
            parameter arrays, size, and the generator state before / after (states are numbered).  The model
            recomputes, per row, the parameter tuple from the sampled conditioning value (theta table written by the
            harness from its own formulas), looks the call up by (state, parameters) and must reproduce the sample
            bit for bit and the final generator state.  random_state None / int / Generator.
search (always on): shape and size; same int seed / identically seeded Generator reproduce bit for bit, different seeds
            differ, None is not reproducible but follows numpy's global state; an independent re-draw with scipy
            directly; statistical support with distribution-free bands at error probability 1e-12 (DKW for the
            univariate cdf and for each Rosenblatt-transformed column, Hoeffding + union bound for pairwise
            independence on a grid) -- a violation is declared only far outside the band (3x).
"""
import json
import math

import numpy as np
import scipy.stats as sts_real

import vlib
from vlib import fl, fl_list

from harness import _c06_models as M

DELTA = 1e-12
FAR = 3.0
ALLFAMS = ["W", "LN", "NF", "EW", "GG", "N", "VM", "SW"]
SCIPY_NAME = {"W": "weibull_min", "LN": "lognorm", "NF": "lognorm", "EW": "exponweib", "GG": "gengamma", "N": "norm", "VM": "vonmises", "SW": "weibull_min"}


def dkw(n, k=1):
    """half-width of the band: P(sup |F_n - F| > eps) <= DELTA / k ... with k comparisons sharing DELTA"""
    return math.sqrt(math.log(2 * k / DELTA) / (2 * n))


# ----------------------------------------------------------------------------- recording proxy for scipy.stats
def state_key(rs):
    if rs is None:
        st = np.random.get_state(legacy=False)
        s = st["state"]
        return "global:" + json.dumps([s["key"].tolist(), int(s["pos"]), int(st["has_gauss"]), float(st["gauss"])])
    if isinstance(rs, np.random.Generator):
        return "gen:" + json.dumps(rs.bit_generator.state, sort_keys=True, default=lambda o: o.tolist() if hasattr(o, "tolist") else str(o))
    if isinstance(rs, np.random.RandomState):
        st = rs.get_state(legacy=False)
        s = st["state"]
        return "rstate:" + json.dumps([s["key"].tolist(), int(s["pos"]), int(st["has_gauss"]), float(st["gauss"])])
    return "seed-like:%r" % (rs,)      # an int handed to rvs: scipy would re-seed on every call


class DistProxy:
    def __init__(self, inner, name, log):
        self._inner, self._name, self._log = inner, name, log

    def __getattr__(self, a):
        return getattr(self._inner, a)

    def rvs(self, *args, **kw):
        rs = kw.get("random_state")
        before = state_key(rs)
        r = self._inner.rvs(*args, **kw)
        after = state_key(rs)
        self._log.append({"dist": self._name, "args": [np.array(a, dtype=float) for a in args], "size": kw.get("size"),
                          "before": before, "after": after, "result": np.array(r, dtype=float), "kw": sorted(k for k in kw if k not in ("size", "random_state"))})
        return r


class StsProxy:
    def __init__(self, log):
        self._log = log

    def __getattr__(self, a):
        obj = getattr(sts_real, a)
        if isinstance(obj, (sts_real.rv_continuous,)):
            return DistProxy(obj, a, self._log)
        return obj


class Recording:
    def __enter__(self):
        import virocon.distributions as vd
        self.vd, self.saved, self.log = vd, vd.sts, []
        vd.sts = StsProxy(self.log)
        return self.log

    def __exit__(self, *a):
        self.vd.sts = self.saved


# ----------------------------------------------------------------------------- Coq side
PRELUDE = """From V.base Require Import FloatBits.
From V.model Require Import Joint.
Local Open Scope float_scope.
Definition rows_exact (a b : list (list float)) : bool := all2 (all2 fbits_eq) a b.
(* 0 ok (bit-exact sample, same number of calls, same final state); 1 sample differs; 2 final generator state differs; 3 number of calls *)
Definition cmp_draw (r : list (list float) * list (call nat (list float)) * nat) (rows : list (list float)) (ncalls final : nat) : Z :=
  (let '(s, tr, g) := r in
   if negb (Nat.eqb (List.length tr) ncalls) then 3 else if negb (rows_exact s rows) then 1 else if negb (Nat.eqb g final) then 2 else 0)%Z.
"""


def tuple_list(ts):
    return "[" + "; ".join(fl_list(t) for t in ts) + "]"


def scipy_tuple(dimspec, given):
    _, args = M.scipy_args(dimspec["fam"], M.param_values(dimspec, given))
    return [float(np.asarray(a, dtype=float)) for a in args]


def mkseed(seed, seed_type="int"):
    """the object handed in as random_state for an integer seed (a numpy integer is an integer seed as well)"""
    return np.int64(seed) if seed_type == "int64" else int(seed)


def draw_case(ctx, rng, spec, n, rs_kind, name, seed=None, seed_type="int"):
    """Run the real draw_sample with the rvs proxy; returns (coq text, expression, meta)."""
    ids = {}

    def sid(key):
        if key not in ids:
            ids[key] = len(ids) + 1
        return ids[key]

    seed = rng.randrange(2 ** 32) if seed is None else seed
    np.random.seed(rng.randrange(2 ** 32))
    glob = sid(state_key(None))
    if rs_kind == "none":
        rs_arg, rs_term, init = None, "RSNone", glob
    elif rs_kind == "int":
        rs_arg, rs_term = mkseed(seed, seed_type), "(RSInt %d%%Z)" % seed
        init = sid(state_key(np.random.default_rng(seed)))
    else:
        rs_arg = np.random.default_rng(seed)
        init = sid(state_key(rs_arg))
        rs_term = "(RSGen %d%%nat)" % init
    with Recording() as log:
        try:
            model = M.build_model(spec)      # inside: a ScipyDistribution looks its scipy family up when it is created
            sample = model.draw_sample(n, random_state=rs_arg)
            err = None
        except Exception as e:  # noqa
            sample, err = None, type(e).__name__
    meta = {"spec": spec, "n": n, "rs": rs_kind, "seed": seed, "seed_type": seed_type, "err": err, "ncalls": len(log), "notes": []}
    if rs_kind == "int":
        # an integer seed -- ANY integer, 0 included -- makes ONE Generator that every rvs call receives
        for i, c in enumerate(log):
            if not c["before"].startswith("gen:"):
                meta["notes"].append("rvs call %d received %s instead of the one Generator made from the seed" % (i, c["before"][:40]))
    if err is not None:
        return "", "4%Z", meta
    sample = np.asarray(sample, dtype=float)
    meta["shape"] = list(sample.shape)
    nd = len(spec["dims"])
    text = []
    dims = []
    for i, d in enumerate(spec["dims"]):
        ent = []
        if i < len(log):
            c = log[i]
            if c["dist"] != SCIPY_NAME[d["fam"]] or c["kw"]:
                meta["notes"].append("dimension %d drawn with scipy.stats.%s %r, expected %s" % (i, c["dist"], c["kw"], SCIPY_NAME[d["fam"]]))
            size = c["size"]
            res = [float(v) for v in c["result"].ravel()]
            if isinstance(size, tuple) and len(size) == 2 and size[0] == 1:
                L = size[1]
                ps = [[float(np.broadcast_to(a, (L,))[r]) for a in c["args"]] for r in range(L)]
                ent.append((sid(c["before"]), 0, ps, res, sid(c["after"])))
            elif isinstance(size, (int, np.integer)) and all(a.ndim == 0 for a in c["args"]):
                ent.append((sid(c["before"]), int(size), [[float(a) for a in c["args"]]], res, sid(c["after"])))
            else:
                ent.append((sid(c["before"]), 10 ** 6, [[float(v) for v in np.ravel(a)] for a in c["args"]], res, sid(c["after"])))
        rt = "[" + "; ".join("(%d%%nat, %d%%nat, %s, %s, %d%%nat)" % (b, k, tuple_list(ps), fl_list(res), a) for b, k, ps, res, a in ent) + "]"
        text.append("Definition %s_rvs%d : rvstab := %s." % (name, i, rt))
        if d["cond"] is None:
            own, tt = fl_list(scipy_tuple(d, None)), "[]"
            cond = "None"
        else:
            j = d["cond"]
            seen, tent = set(), []
            for g in (sample[:, j] if j < sample.shape[1] else []):
                if fl(g) not in seen:
                    seen.add(fl(g))
                    tent.append("(%s, %s)" % (fl(g), fl_list(scipy_tuple(d, float(g)))))
            own, tt, cond = "[]", "[" + "; ".join(tent) + "]", "(Some %d%%nat)" % j
        text.append("Definition %s_th%d : thetatab := %s." % (name, i, tt))
        dims.append("fsdim %s %s %s_th%d %s_rvs%d" % (cond, own, name, i, name, i))
    text.append("Definition %s_ds : list (sdim float nat (list float)) := [%s]." % (name, "; ".join(dims)))
    final = sid(log[-1]["after"]) if log else init
    seeds = "[(%d%%Z, %d%%nat)]" % (seed, init) if rs_kind == "int" else "[]"
    rows = sample.tolist() if sample.ndim == 2 else []
    expr = "cmp_draw (fdraw_full %s %s_ds %d%%nat %d%%nat %s) %s %d%%nat %d%%nat" % (
        seeds, name, n, glob, rs_term, vlib.fl_mat(rows), nd, final)
    if sample.shape != (n, nd):
        expr = "5%Z"
    return "\n".join(text) + "\n", expr, meta


# ----------------------------------------------------------------------------- property oracle (search)
def make_model(spec):
    return M.build_model(spec)


def _o_shape_seed(spec, n, seed, seed2):
    """shape (n, n_dim); int seed twice / int seed vs identically seeded Generator bit for bit; other seed differs; Generator advances"""
    model = make_model(spec)
    nd = len(spec["dims"])
    a = np.asarray(model.draw_sample(n, random_state=seed))
    if a.shape != (n, nd):
        return ({"clause": "shape"}, "draw_sample(%d) has shape %r, expected %r" % (n, a.shape, (n, nd)))
    if not np.all(np.isfinite(a)):
        return "unjudged"          # overflow of an extreme generated model (numerical saturation), not judged
    b = np.asarray(model.draw_sample(n, random_state=seed))
    if not np.array_equal(a, b):
        return ({"clause": "seed-reproducible", "kind": "int-twice"}, "two draw_sample(%d, random_state=%d) calls differ" % (n, seed))
    # the sample is a function of (model, n, seed) alone: unrelated arrays that are alive while the sample is drawn must not
    # change a bit of it (numpy picks its loop for a strided view by the position of the arrays in memory; the loops differ
    # in the last bits -- what the process did before must not show in a seeded sample)
    for k in HEAP_HISTORY:
        junk = [np.empty(n) for _ in range(k)]
        b2 = np.asarray(model.draw_sample(n, random_state=seed))
        del junk
        if not np.array_equal(a, b2):
            ne = int(np.sum(a != b2))
            with np.errstate(all="ignore"):
                rel = float(np.nanmax(np.abs(a - b2) / np.maximum(np.abs(a), 1e-300)))
            return ({"clause": "seed-reproducible", "kind": "heap-history"},
                    "draw_sample(%d, random_state=%d) differs in %d entries (largest relative difference %.3g) when %d unrelated arrays of "
                    "%d doubles are alive during the second draw" % (n, seed, ne, rel, k, n))
    g = np.random.default_rng(seed)
    c = np.asarray(model.draw_sample(n, random_state=g))
    c2 = np.asarray(model.draw_sample(n, random_state=np.random.default_rng(seed)))
    if not np.array_equal(c, c2):
        return ({"clause": "seed-reproducible", "kind": "generator-twice"},
                "two identically seeded Generators (default_rng(%d)) give different samples (n=%d)" % (seed, n))
    d = np.asarray(model.draw_sample(n, random_state=g))
    if np.array_equal(c, d):
        return ({"clause": "generator-threaded", "kind": "not-advanced"}, "a Generator passed twice yields the same sample twice (n=%d)" % n)
    e = np.asarray(model.draw_sample(n, random_state=seed2))
    if np.array_equal(a, e) or (n * nd >= 4 and np.mean(a == e) > 0.5):
        return ({"clause": "seeds-differ"}, "seeds %d and %d give the same sample (n=%d)" % (seed, seed2, n))
    # every column of a sample of >= 2 rows of a continuous model has distinct entries
    if n >= 2:
        for i in range(nd):
            if len(set(a[:, i].tolist())) == 1:
                cls = "constant-dependence-function" if all(
                    p[0] != "dep" or p[1] == "const" for p in spec["dims"][i]["params"].values()) and spec["dims"][i]["cond"] is not None else "other"
                return ({"clause": "row-independence", "input_class": cls},
                        "draw_sample(%d, random_state=%d): all %d rows of column %d are the same value %r (one draw broadcast to the column)" % (
                            n, seed, n, i, float(a[0, i])))
    return None


def _o_none_state(spec, n, k):
    """random_state=None: follows numpy's global state (reproducible after np.random.seed), successive calls differ"""
    model = make_model(spec)
    np.random.seed(k)
    a = np.asarray(model.draw_sample(n))
    b = np.asarray(model.draw_sample(n))
    np.random.seed(k)
    c = np.asarray(model.draw_sample(n))
    if np.array_equal(a, b):
        return ({"clause": "seeds-differ", "kind": "none-twice"}, "two unseeded draw_sample(%d) calls give the same sample" % n)
    if not np.array_equal(a, c):
        return ({"clause": "seed-reproducible", "kind": "global-state"}, "draw_sample(%d) is not a function of numpy's global state" % n)
    return None


def expected_sample(spec, n, gen):
    """the sample scipy draws when every column is drawn with the parameters of the same row, generator threaded"""
    cols = []
    for d in spec["dims"]:
        if d["cond"] is None:
            dist, args = M.scipy_args(d["fam"], M.param_values(d, None))
            col = dist.rvs(*args, size=n, random_state=gen)
        else:
            g = cols[d["cond"]]
            pv = {k: np.broadcast_to(v, g.shape) for k, v in M.param_values(d, g).items()}
            dist, args = M.scipy_args(d["fam"], pv)
            col = np.asarray(dist.rvs(*args, size=(1, n), random_state=gen))[0]
        cols.append(np.asarray(col, dtype=float))
    return np.column_stack(cols)


def _o_redraw(spec, n, seed):
    """independent re-draw; decisive only for inverse-transform families (a 1-ulp parameter difference cannot change the stream)"""
    model = make_model(spec)
    # a Generator is handed in, so that which generator an int seed makes does not matter here
    a = np.asarray(model.draw_sample(n, random_state=np.random.default_rng(seed)), dtype=float)
    try:
        e = expected_sample(spec, n, np.random.default_rng(seed))
    except Exception:  # noqa
        return "unjudged"
    if a.shape != e.shape:
        return ({"clause": "shape"}, "draw_sample(%d) has shape %r" % (n, a.shape))
    for i, d in enumerate(spec["dims"]):
        bad = ~np.isclose(a[:, i], e[:, i], rtol=1e-9, atol=0)
        if bad.any():
            if d["fam"] in ("GG", "VM"):
                return "unjudged"          # rejection sampler in this column: the stream may legitimately fork on the last bit
                # (all earlier columns agree, so an earlier rejection sampler did not fork)
            r = int(np.argmax(bad))
            cls = "constant-dependence-function" if d["cond"] is not None and all(
                p[0] != "dep" or p[1] == "const" for p in d["params"].values()) else "other"
            return ({"clause": "row-pairing", "input_class": cls},
                    "draw_sample(%d, random_state=default_rng(%d))[%d, %d] = %r, but drawing column %d with the parameters at row %d of column %r "
                    "(generator threaded through the columns) gives %r" % (n, seed, r, i, float(a[r, i]), i, r, d["cond"], float(e[r, i])))
    return None


def input_class(spec, i):
    d = spec["dims"][i]
    if d["cond"] is not None and all(p[0] != "dep" or p[1] == "const" for p in d["params"].values()):
        return "constant-dependence-function"
    return "other"


# 0 is falsy, np.int64(0) too, 2**32-1 is the largest legacy seed; seeds >= 2**32 next to their residues modulo 2**32:
# default_rng takes the whole integer, seeds s and s + k * 2**32 are different seeds
EDGE_SEEDS = [(0, "int"), (0, "int64"), (2 ** 32 - 1, "int"), (1, "int"), (42, "int"),
              (2 ** 32, "int"), (2 ** 32 + 42, "int"), (2 ** 63 - 1, "int"), (2 ** 32 + 1, "int64")]


HEAP_HISTORY = (1, 2, 4, 6)


def chain_specs():
    """4-D and 5-D models in which a late dimension is conditional on a dimension with index >= 2 through a power law
    a + b * x**c (the dependence function of the predefined sea-state models): the conditioning column is then a strided view
    whose extent, as numpy computes it, reaches the next heap block"""
    w = {"alpha": ["val", 2.0], "beta": ["val", 1.7], "gamma": ["val", 0.1]}
    ln1 = {"mu": ["dep", "lin", [0.3, 0.2]], "sigma": ["dep", "lin", [0.3, 0.05]]}
    pw = {"mu": ["dep", "pw", [0.3, 0.4, 0.83]], "sigma": ["dep", "pw", [0.2, 0.1, 0.61]]}
    four = {"dims": [{"fam": "W", "cond": None, "params": dict(w)}, {"fam": "LN", "cond": 0, "params": dict(ln1)},
                     {"fam": "LN", "cond": 0, "params": dict(ln1)}, {"fam": "LN", "cond": 2, "params": dict(pw)}]}
    five = {"dims": four["dims"] + [{"fam": "LN", "cond": 3, "params": dict(pw)}]}
    three = {"dims": [{"fam": "W", "cond": None, "params": dict(w)}, {"fam": "LN", "cond": 0, "params": dict(pw)},
                      {"fam": "LN", "cond": 1, "params": dict(pw)}]}
    # a conditional variable all of whose parameters are fixed values (no dependence function at all): still one draw per row
    allfixed = {"dims": [{"fam": "W", "cond": None, "params": dict(w)},
                         {"fam": "LN", "cond": 0, "params": {"mu": ["fix", 0.3], "sigma": ["fix", 0.2]}},
                         {"fam": "W", "cond": 1, "params": {"alpha": ["fix", 1.5], "beta": ["fix", 2.0], "gamma": ["fix", 0.0]}}]}
    return [four, five, three, allfixed]


def edge_specs():
    """models whose dimensions use the same base sampler with the same parameters: if the dimensions do not share ONE
    threaded generator (e.g. each re-seeds from the same integer) their columns coincide / are dependent"""
    w = {"alpha": ["val", 2.0], "beta": ["val", 1.5], "gamma": ["val", 0.0]}
    ln = {"mu": ["val", 0.5], "sigma": ["val", 0.4]}
    twin_w = {"dims": [{"fam": "W", "cond": None, "params": dict(w)}, {"fam": "W", "cond": None, "params": dict(w)}]}
    twin_ln = {"dims": [{"fam": "LN", "cond": None, "params": dict(ln)}, {"fam": "LN", "cond": None, "params": dict(ln)},
                        {"fam": "LN", "cond": None, "params": dict(ln)}]}
    w_w = {"dims": [{"fam": "W", "cond": None, "params": dict(w)},
                    {"fam": "W", "cond": 0, "params": {"alpha": ["dep", "lin", [1.0, 0.5]], "beta": ["fix", 2.0], "gamma": ["fix", 0.0]}}]}
    ln_ln_ln = {"dims": [{"fam": "LN", "cond": None, "params": dict(ln)},
                         {"fam": "LN", "cond": 0, "params": {"mu": ["dep", "sat", [0.2, 1.0]], "sigma": ["fix", 0.3]}},
                         {"fam": "LN", "cond": 1, "params": {"mu": ["dep", "lnsq", [1.5, 2.0]], "sigma": ["dep", "asym", [0.2, 0.4, 0.5]]}}]}
    return [twin_w, twin_ln, w_w, ln_ln_ln]


def negative_specs(rng):
    """models whose CONDITIONING variables take negative values (normal, von Mises direction, Weibull with a negative
    location) with dependence functions that are defined on the whole real line (a + b x for a location, a + b cos(x - c))"""
    u = rng.uniform
    nrm = {"fam": "N", "cond": None, "params": {"mu": ["val", u(-0.5, 0.5)], "sigma": ["val", u(0.8, 1.5)]}}
    vm = {"fam": "VM", "cond": None, "params": {"kappa": ["val", u(0.5, 2.0)], "mu": ["val", u(-0.5, 0.5)]}}
    wneg = {"fam": "W", "cond": None, "params": {"alpha": ["val", u(1.5, 2.5)], "beta": ["val", u(1.5, 2.5)], "gamma": ["val", -u(1.0, 2.0)]}}
    n_on = lambda c: {"fam": "N", "cond": c, "params": {"mu": ["dep", "lin", [1.0, u(1.5, 2.5)]], "sigma": ["fix", u(0.3, 0.6)]}}
    w_on = lambda c: {"fam": "W", "cond": c, "params": {"alpha": ["dep", "cos", [3.0, u(1.2, 1.8), 1.0]], "beta": ["fix", u(1.5, 3.0)], "gamma": ["fix", 0.0]}}
    ln_on = lambda c: {"fam": "LN", "cond": c, "params": {"mu": ["dep", "lin", [0.5, u(0.4, 0.8)]], "sigma": ["dep", "cos", [0.5, 0.2, u(0, 2.0)]]}}
    ew_on = lambda c: {"fam": "EW", "cond": c, "params": {"alpha": ["dep", "cos", [2.0, 1.0, u(0, 3.0)]], "beta": ["fix", u(1.0, 2.0)], "delta": ["dep", "cos", [2.0, 0.8, 0.5]]}}
    return [{"dims": [dict(nrm), n_on(0)]}, {"dims": [dict(vm), w_on(0)]}, {"dims": [dict(wneg), ln_on(0)]},
            {"dims": [dict(nrm), n_on(0), w_on(1)]}, {"dims": [dict(vm), ew_on(0), ln_on(0)]}, {"dims": [dict(wneg), n_on(0), ew_on(1), ln_on(0)]}]


def _o_twin(spec, n, seed, seed_type="int"):
    """independent identically distributed variables: no two columns of a sample may coincide (probability zero)"""
    model = make_model(spec)
    a = np.asarray(model.draw_sample(n, random_state=mkseed(seed, seed_type)), dtype=float)
    nd = len(spec["dims"])
    if a.shape != (n, nd):
        return ({"clause": "shape"}, "draw_sample(%d) has shape %r" % (n, a.shape))
    for i in range(nd):
        for j in range(i + 1, nd):
            if np.array_equal(a[:, i], a[:, j]):
                return ({"clause": "generator-threaded", "kind": "columns-share-a-stream"},
                        "draw_sample(%d, random_state=%s(%d)): columns %d and %d of independent variables are identical (%r): "
                        "the dimensions do not share one threaded generator" % (n, "np.int64" if seed_type == "int64" else "int", seed, i, j, a[:, i].tolist()[:3]))
    return None


def ks_uniform(u):
    u = np.sort(np.asarray(u, dtype=float))
    n = len(u)
    return float(max(np.max(np.arange(1, n + 1) / n - u), np.max(u - np.arange(0, n) / n)))


def _o_statistics(spec, n, seed, stats):
    """Rosenblatt transform of a sample: every column uniform (DKW), pairs independent on a grid (Hoeffding + union bound)"""
    model = make_model(spec)
    a = np.asarray(model.draw_sample(n, random_state=seed), dtype=float)
    nd = len(spec["dims"])
    if a.shape != (n, nd):
        return ({"clause": "shape"}, "draw_sample(%d) has shape %r" % (n, a.shape))
    if not np.all(np.isfinite(a)):
        return "unjudged"
    u = M.spec_rosenblatt(spec, a)
    if not np.all(np.isfinite(u)):
        return "unjudged"
    eps = dkw(n, nd)
    for i in range(nd):
        d = ks_uniform(u[:, i])
        stats["ks_over_eps_max"] = max(stats.get("ks_over_eps_max", 0.0), d / eps)
        if d > FAR * eps:
            return ({"clause": "distribution", "kind": "conditional" if spec["dims"][i]["cond"] is not None else "marginal",
                     "input_class": input_class(spec, i)},
                    "draw_sample(%d, random_state=%d): column %d given column %r does not follow its (conditional) distribution: "
                    "KS distance %.4f, DKW band %.4f at 1e-12" % (n, seed, i, spec["dims"][i]["cond"], d, eps))
        if d > eps:
            stats["outside_band_unjudged"] = stats.get("outside_band_unjudged", 0) + 1
    # the conditional clause on parts of the sample: rows with a negative / non-negative conditioning value, and the tenths of
    # the rows by row index (u_i is independent of the conditioning value and of the row index)
    for i in range(nd):
        c = spec["dims"][i]["cond"]
        if c is None:
            continue
        parts = [("conditioning value < 0", a[:, c] < 0), ("conditioning value >= 0", a[:, c] >= 0)]
        if n >= 10000:
            idx = np.arange(n)
            parts += [("rows %d..%d" % (k * n // 10, (k + 1) * n // 10 - 1), (idx >= k * n // 10) & (idx < (k + 1) * n // 10)) for k in range(10)]
        for label, mask in parts:
            m = int(mask.sum())
            if m < 1000:
                continue
            d, e = ks_uniform(u[mask, i]), dkw(m, nd * 12)
            stats["ks_over_eps_max_parts"] = max(stats.get("ks_over_eps_max_parts", 0.0), d / e)
            if d > FAR * e:
                return ({"clause": "distribution", "kind": "conditional", "part": label.split(" ")[0], "input_class": input_class(spec, i)},
                        "draw_sample(%d, random_state=%d): on the %d rows with %s, column %d given column %d does not follow its conditional "
                        "distribution: KS distance %.4f, DKW band %.4f at 1e-12" % (n, seed, m, label, i, c, d, e))
    grid = np.linspace(0.15, 0.85, 6)
    pairs = [(i, j) for i in range(nd) for j in range(i + 1, nd)]
    eps2 = math.sqrt(math.log(2 * len(pairs) * len(grid) ** 2 / DELTA) / (2 * n))
    for i, j in pairs:
        for p in grid:
            for q in grid:
                dev = abs(float(np.mean((u[:, i] <= p) & (u[:, j] <= q))) - float(np.mean(u[:, i] <= p)) * float(np.mean(u[:, j] <= q)))
                stats["indep_over_eps_max"] = max(stats.get("indep_over_eps_max", 0.0), dev / (2 * eps2))
                if dev > FAR * 2 * eps2:
                    return ({"clause": "distribution", "kind": "independence"},
                            "draw_sample(%d, random_state=%d): Rosenblatt-transformed columns %d and %d are dependent "
                            "(|P(u<=%.2f, v<=%.2f) - P P| = %.4f, band %.4f)" % (n, seed, i, j, p, q, dev, 2 * eps2))
    return None


PIT_KIND = {"W": "u", "EW": "u", "SW": "u", "LN": "n", "NF": "n", "N": "n"}


def pit_stream_gap(spec, n, seed):
    """Contract pit_engine of C07_rosenblatt_image_is_generator_stream_partial, on the real code: for families that
    scipy samples by inverse transform of uniforms (W, EW, SW) or as a function of standard normals (LN, NF, N) the
    Rosenblatt image of draw_sample(n, seed) -- column i through the cdf with the parameters at THE SAME ROW's value of
    the conditioning column -- is the stream the generator default_rng(seed) hands out, column after column, whatever
    the parameters and dependence functions are.  Returns (gap, column) or None when the case is not judgeable."""
    from scipy.special import ndtr
    model = make_model(spec)
    a = np.asarray(model.draw_sample(n, random_state=seed), dtype=float)
    if a.shape != (n, len(spec["dims"])) or not np.all(np.isfinite(a)):
        return None
    u = M.spec_rosenblatt(spec, a)
    if not np.all(np.isfinite(u)):
        return None
    g = np.random.default_rng(seed)
    worst = (0.0, None)
    for i, d in enumerate(spec["dims"]):
        s = g.uniform(size=n) if PIT_KIND[d["fam"]] == "u" else ndtr(g.standard_normal(n))
        e = float(np.max(np.abs(u[:, i] - s)))
        if e > worst[0]:
            worst = (e, i)
    return worst


def _o_univariate(dimspec, n, seed, stats, given=None):
    """dist.draw_sample(n): size, seeding, cdf (DKW).  von Mises compared modulo 2 pi."""
    import virocon.distributions as vd
    if given is None:
        dist = M.build_dist(dimspec)
        draw = lambda rs: np.asarray(dist.draw_sample(n, random_state=rs), dtype=float)
    else:
        import virocon
        cls = M.fam_class(dimspec["fam"])
        fixed = {"f_" + k: v[1] for k, v in dimspec["params"].items() if v[0] == "fix"}
        deps = {k: virocon.DependenceFunction(M.dep_callable(v[1], v[2])) for k, v in dimspec["params"].items() if v[0] == "dep"}
        cd = vd.ConditionalDistribution(cls(**fixed), deps)
        draw = lambda rs: np.asarray(cd.draw_sample(n, given, random_state=rs), dtype=float)
    a = draw(seed)
    if a.shape != (n,):
        return ({"clause": "shape", "kind": "univariate"}, "%s.draw_sample(%d) has shape %r" % (dimspec["fam"], n, a.shape))
    if not np.array_equal(a, draw(seed)) or not np.array_equal(draw(np.random.default_rng(seed)), draw(np.random.default_rng(seed))):
        return ({"clause": "seed-reproducible", "kind": "univariate"}, "%s.draw_sample(%d, random_state=%d) is not reproducible" % (dimspec["fam"], n, seed))
    if n >= 2 and np.array_equal(a, draw(seed + 1)):
        return ({"clause": "seeds-differ", "kind": "univariate"}, "%s.draw_sample: seeds %d and %d give the same sample" % (dimspec["fam"], seed, seed + 1))
    x = a
    if dimspec["fam"] == "VM":
        mu = float(np.asarray(M.param_values(dimspec, given)["mu"]))
        x = mu + np.mod(a - mu + np.pi, 2 * np.pi) - np.pi
    u = M.dim_method(dimspec, "cdf", x, given)
    d, eps = ks_uniform(u), dkw(n)
    stats["ks_over_eps_max_univariate"] = max(stats.get("ks_over_eps_max_univariate", 0.0), d / eps)
    if d > FAR * eps:
        return ({"clause": "distribution", "kind": "univariate", "family": dimspec["fam"]},
                "%s%r.draw_sample(%d, random_state=%d) does not follow its cdf: KS distance %.4f, DKW band %.4f at 1e-12" % (
                    dimspec["fam"], {k: v[1:] for k, v in dimspec["params"].items()}, n, seed, d, eps))
    if d > eps:
        stats["outside_band_unjudged"] = stats.get("outside_band_unjudged", 0) + 1
    return None


def _o_predefined(name, n, seed, stats):
    """a predefined model fitted to a benchmark data set: shape, seeding, Rosenblatt transform (the model's own per-dimension
    cdfs) uniform and independent; for the models defined in a transformed space the TransformedModel's draw_sample is the
    inverse transform of the inner model's sample drawn with the same random_state, reproducibly"""
    import virocon
    model, trans = M.predefined_parts(name)
    nd = model.n_dim
    a = np.asarray(model.draw_sample(n, random_state=seed), dtype=float)
    if a.shape != (n, nd):
        return ({"clause": "shape", "model": "predefined"}, "get_%s: draw_sample(%d) has shape %r" % (name, n, a.shape))
    if not np.array_equal(a, model.draw_sample(n, random_state=seed)) or not np.array_equal(
            model.draw_sample(n, random_state=np.random.default_rng(seed)), model.draw_sample(n, random_state=np.random.default_rng(seed))):
        return ({"clause": "seed-reproducible", "model": "predefined"}, "get_%s: draw_sample(%d, random_state=%d) is not reproducible" % (name, n, seed))
    if n >= 2 and np.array_equal(a, model.draw_sample(n, random_state=seed + 1)):
        return ({"clause": "seeds-differ", "model": "predefined"}, "get_%s: seeds %d and %d give the same sample" % (name, seed, seed + 1))
    if n >= 1000 and np.all(np.isfinite(a)):
        u = np.empty_like(a)
        for i in range(nd):
            c = model.conditional_on[i]
            u[:, i] = model.distributions[i].cdf(a[:, i]) if c is None else model.distributions[i].cdf(a[:, i], given=a[:, c])
        eps = dkw(n, nd)
        for i in range(nd):
            d = ks_uniform(u[:, i])
            stats["ks_over_eps_max_predefined"] = max(stats.get("ks_over_eps_max_predefined", 0.0), d / eps)
            if d > FAR * eps:
                return ({"clause": "distribution", "kind": "conditional" if model.conditional_on[i] is not None else "marginal", "model": "predefined"},
                        "get_%s: draw_sample(%d, random_state=%d): column %d given column %r does not follow its (conditional) cdf: KS %.4f, band %.4f" % (
                            name, n, seed, i, model.conditional_on[i], d, eps))
        grid = np.linspace(0.15, 0.85, 6)
        eps2 = math.sqrt(math.log(2 * len(grid) ** 2 * nd * nd / DELTA) / (2 * n))
        for i in range(nd):
            for j in range(i + 1, nd):
                for p_ in grid:
                    for q in grid:
                        dev = abs(float(np.mean((u[:, i] <= p_) & (u[:, j] <= q))) - float(np.mean(u[:, i] <= p_)) * float(np.mean(u[:, j] <= q)))
                        if dev > FAR * 2 * eps2:
                            return ({"clause": "distribution", "kind": "independence", "model": "predefined"},
                                    "get_%s: draw_sample(%d, random_state=%d): Rosenblatt-transformed columns %d and %d are dependent (%.4f, band %.4f)" % (
                                        name, n, seed, i, j, dev, 2 * eps2))
    if trans is not None:
        tm = virocon.TransformedModel(model, trans["transform"], trans["inverse"], trans["jacobian"])
        t1 = np.asarray(tm.draw_sample(n, random_state=seed), dtype=float)
        want = np.asarray(trans["inverse"](model.draw_sample(n, random_state=seed)), dtype=float)
        if t1.shape != (n, nd) or not np.array_equal(t1, want, equal_nan=True):
            return ({"clause": "seed-reproducible", "model": "transformed"},
                    "get_%s: TransformedModel.draw_sample(%d, random_state=%d) is not the inverse transform of the inner model's sample for that seed" % (name, n, seed))
        if not np.array_equal(t1, tm.draw_sample(n, random_state=seed), equal_nan=True):
            return ({"clause": "seed-reproducible", "model": "transformed"}, "get_%s: TransformedModel.draw_sample(%d, random_state=%d) is not reproducible" % (name, n, seed))
    return None


def _o_big_n(spec, n, seed, stats):
    """sample sizes beyond a million (not a round number): shape, every row drawn (no all-zero row, last row included),
    every Rosenblatt-transformed column uniform within the DKW band of that n"""
    model = make_model(spec)
    a = np.asarray(model.draw_sample(n, random_state=seed), dtype=float)
    nd = len(spec["dims"])
    if a.shape != (n, nd):
        return ({"clause": "shape", "kind": "large-n"}, "draw_sample(%d) has shape %r" % (n, a.shape))
    zero = np.all(a == 0, axis=1)
    if zero.any():
        return ({"clause": "shape", "kind": "rows-not-drawn"},
                "draw_sample(%d, random_state=%d): %d rows are all zero (never drawn), the first one is row %d" % (n, seed, int(zero.sum()), int(np.argmax(zero))))
    if not np.all(np.isfinite(a)):
        return "unjudged"
    u = M.spec_rosenblatt(spec, a)
    eps = dkw(n, nd)
    for i in range(nd):
        d = ks_uniform(u[:, i])
        stats["ks_over_eps_max_large_n"] = max(stats.get("ks_over_eps_max_large_n", 0.0), d / eps)
        if d > FAR * eps:
            return ({"clause": "distribution", "kind": "large-n"},
                    "draw_sample(%d, random_state=%d): column %d does not follow its (conditional) distribution: KS %.5f, DKW band %.5f" % (n, seed, i, d, eps))
    return None


def _wrap_vm(dimspec_like_fam, x, mu):
    return mu + np.mod(x - mu + np.pi, 2 * np.pi) - np.pi if dimspec_like_fam == "VM" else x


def _o_history_univariate(fam, mode, seed, n, stats):
    """HISTORY of one distribution: draw -> change it (assign other parameters, or fit to data that follow other parameters)
    -> draw again -> change back -> draw: every sample is judged against the distribution's CURRENT cdf (its own cdf method
    and, when the parameters were assigned, the harness' formula) with the DKW band at 1e-12"""
    import random
    r = random.Random(seed)
    da, db = M.rand_dim(r, fam, None), M.rand_dim(r, fam, None)
    scale_like = {"W": "alpha", "LN": "mu", "NF": "mu_norm", "EW": "alpha", "GG": "lambda_", "N": "mu", "VM": "mu", "SW": "scale"}[fam]
    shift = {"LN": 1.5, "N": 6.0, "VM": 2.0}.get(fam)
    db["params"][scale_like] = ["val", da["params"][scale_like][1] + shift] if shift else ["val", da["params"][scale_like][1] * (0.25 if fam == "GG" else 4.0)]
    dist = M.build_dist(da)
    eps = dkw(n)
    steps = [("as constructed", da), ("after the change", db), ("after changing back", da)]
    for k, (label, d) in enumerate(steps):
        if k:
            if mode == "fit":
                g = np.random.default_rng(seed + k)
                try:
                    dist.fit(np.asarray(M.dim_method(d, "ppf", g.uniform(1e-6, 1 - 1e-6, 3000)), dtype=float))
                except Exception:  # noqa
                    return "unjudged"
            else:
                for name, v in d["params"].items():
                    setattr(dist, name, v[1])
        x = np.asarray(dist.draw_sample(n, random_state=seed + 10 * k), dtype=float)
        if x.shape != (n,) or not np.all(np.isfinite(x)):
            return ({"clause": "shape", "kind": "history"}, "%s.draw_sample(%d) %s has shape %r / non-finite values" % (fam, n, label, x.shape))
        pars = dict(dist.parameters)
        xw = _wrap_vm(fam, x, float(pars.get("mu", 0.0)))
        checks = [("its own cdf", np.asarray(dist.cdf(xw), dtype=float))]
        if mode != "fit":
            checks.append(("the documented cdf of the assigned parameters", M.dim_method(d, "cdf", xw)))
        for what, u in checks:
            dks = ks_uniform(u)
            stats["ks_over_eps_max_history"] = max(stats.get("ks_over_eps_max_history", 0.0), dks / eps)
            if dks > FAR * eps:
                return ({"clause": "distribution", "kind": "history", "family": fam, "mode": mode},
                        "history of %s%r: draw_sample(%d, random_state=%d) %s (%s; parameters now %r) does not follow %s: KS distance %.4f, DKW band %.4f at 1e-12" % (
                            fam, {k2: v[1] for k2, v in da["params"].items()}, n, seed + 10 * k, label,
                            "fit to data of %r" % {k2: v[1] for k2, v in d["params"].items()} if mode == "fit" else "parameters assigned",
                            {k2: float(v) for k2, v in pars.items()}, what, dks, eps))
    return None


def history_model_specs(rng, fam):
    """(A, B): 2-D models of one form, family `fam` as the INDEPENDENT variable, a log-normal conditional on it"""
    a0, b0 = M.rand_dim(rng, fam, None), M.rand_dim(rng, fam, None)
    scale_like = {"W": "alpha", "LN": "mu", "NF": "mu_norm", "EW": "alpha", "GG": "lambda_", "SW": "scale"}[fam]
    b0["params"][scale_like] = ["val", a0["params"][scale_like][1] + 1.2] if fam == "LN" else ["val", a0["params"][scale_like][1] * (0.3 if fam == "GG" else 3.0)]
    c = lambda m0, s0: {"fam": "LN", "cond": 0, "params": {"mu": ["dep", "lin", [m0, rng.uniform(0.1, 0.2)]], "sigma": ["fix", s0]}}
    s0 = rng.uniform(0.25, 0.4)
    return {"dims": [a0, c(rng.uniform(0.3, 0.6), s0)]}, {"dims": [b0, c(rng.uniform(1.5, 2.0), s0)]}


def _o_history_model(spec_a, spec_b, mode, seed, n, stats):
    """HISTORY of a joint model: draw -> model.fit to data of another model of the same form (or parameters assigned in
    place) -> draw -> back -> draw: the Rosenblatt transform of every sample, through the model's CURRENT per-dimension
    cdfs, is uniform in every column (DKW band at 1e-12)"""
    from harness import c06
    model = M.build_model(spec_a)
    nd = len(spec_a["dims"])
    eps = dkw(n, nd)
    for k, (label, sp) in enumerate([("as constructed", spec_a), ("after the change", spec_b), ("after changing back", spec_a)]):
        if k:
            if mode == "fit":
                try:
                    model.fit(c06.spec_sample(sp, 4000, seed + k))
                except Exception:  # noqa
                    return "unjudged"
            else:
                c06.apply_spec(model, sp)
        a = np.asarray(model.draw_sample(n, random_state=seed + 10 * k), dtype=float)
        if a.shape != (n, nd) or not np.all(np.isfinite(a)):
            return "unjudged" if a.shape == (n, nd) else ({"clause": "shape", "kind": "history"}, "draw_sample(%d) %s has shape %r" % (n, label, a.shape))
        for i in range(nd):
            cnd = model.conditional_on[i]
            u = model.distributions[i].cdf(a[:, i]) if cnd is None else model.distributions[i].cdf(a[:, i], given=a[:, cnd])
            dks = ks_uniform(np.asarray(u, dtype=float))
            stats["ks_over_eps_max_history"] = max(stats.get("ks_over_eps_max_history", 0.0), dks / eps)
            if dks > FAR * eps:
                return ({"clause": "distribution", "kind": "history", "model": "joint", "mode": mode},
                        "history of a model %r (conditional_on=%r): draw_sample(%d, random_state=%d) %s (%s) -- column %d given column %r does not follow "
                        "the model's current (conditional) cdf: KS distance %.4f, DKW band %.4f at 1e-12" % (
                            [d["fam"] for d in spec_a["dims"]], list(M.structure(spec_a)), n, seed + 10 * k, label,
                            "model.fit to data of the other model" if mode == "fit" else "parameters assigned in place", i, cnd, dks, eps))
    return None


def build_conditional(dimspec):
    import virocon
    import virocon.distributions as vd
    cls = M.fam_class(dimspec["fam"])
    fixed = {"f_" + k: v[1] for k, v in dimspec["params"].items() if v[0] == "fix"}
    deps = {k: virocon.DependenceFunction(M.dep_callable(v[1], v[2])) for k, v in dimspec["params"].items() if v[0] == "dep"}
    return vd.ConditionalDistribution(cls(**fixed), deps)


def _o_conditional_vector(dimspec, n, seed, givens, stats):
    """ConditionalDistribution.draw_sample(n, given) with a VECTOR of conditioning values, integer-typed and float-typed:
    shape (n, len(given)); the same values in either dtype give the same sample for the same seed; column k follows the
    conditional cdf at given[k] (DKW); n = 1 is the call GlobalHierarchicalModel.draw_sample makes"""
    cd = build_conditional(dimspec)
    gi = np.array([int(g) for g in givens])
    gf = np.array([float(int(g)) for g in givens])
    L = len(gi)
    name = "Conditional%s%r" % (dimspec["fam"], {k: v[1:] for k, v in dimspec["params"].items()})
    out = {}
    for label, g in (("float", gf), ("int", gi)):
        a = np.asarray(cd.draw_sample(n, g, random_state=np.random.default_rng(seed)), dtype=float)
        if a.shape != (n, L):
            return ({"clause": "shape", "kind": "conditional-vector"},
                    "%s.draw_sample(%d, np.array(%r)) has shape %r, expected %r" % (name, n, g.tolist(), a.shape, (n, L)))
        out[label] = a
        if n >= 200 and np.all(np.isfinite(a)):
            eps = dkw(n, L)
            for k in range(L):
                x = a[:, k]
                if dimspec["fam"] == "VM":
                    mu = float(np.asarray(M.param_values(dimspec, float(gf[k]))["mu"]))
                    x = mu + np.mod(x - mu + np.pi, 2 * np.pi) - np.pi
                d = ks_uniform(M.dim_method(dimspec, "cdf", x, float(gf[k])))
                stats["ks_over_eps_max_conditional_vector"] = max(stats.get("ks_over_eps_max_conditional_vector", 0.0), d / eps)
                if d > FAR * eps:
                    return ({"clause": "distribution", "kind": "conditional-vector", "given_dtype": label},
                            "%s.draw_sample(%d, np.array(%r) [%s dtype], random_state=default_rng(%d)): column %d does not follow the conditional "
                            "cdf given %r: KS distance %.4f, DKW band %.4f at 1e-12" % (name, n, g.tolist(), label, seed, k, g.tolist()[k], d, eps))
    if not np.array_equal(out["float"], out["int"]) and not np.allclose(out["float"], out["int"], rtol=1e-9, atol=0, equal_nan=True):
        r, k = [int(v) for v in np.argwhere(~np.isclose(out["float"], out["int"], rtol=1e-9, atol=0))[0]]
        return ({"clause": "given-dtype", "kind": "conditional-vector"},
                "%s.draw_sample(%d, given, random_state=default_rng(%d)): given = np.array(%r) (integers) gives %r at [%d, %d] but the same "
                "values as floats give %r" % (name, n, seed, gi.tolist(), float(out["int"][r, k]), r, k, float(out["float"][r, k])))
    return None


def _safe(fn, desc):
    def wrapped(*a, **k):
        try:
            return fn(*a, **k)
        except Exception as e:  # noqa
            return ({"clause": "exception", "call": desc}, "%s raised %s: %s" % (desc, type(e).__name__, str(e)[:200]))
    return wrapped


o_shape_seed = _safe(_o_shape_seed, "model.draw_sample(n, random_state=seed)")
o_none_state = _safe(_o_none_state, "model.draw_sample(n)")
o_redraw = _safe(_o_redraw, "model.draw_sample(n, random_state=Generator)")
o_statistics = _safe(_o_statistics, "model.draw_sample(n, random_state=seed)")
o_univariate = _safe(_o_univariate, "dist.draw_sample(n, random_state=seed)")
o_twin = _safe(_o_twin, "model.draw_sample(n, random_state=seed)")
o_history_univariate = _safe(_o_history_univariate, "history draw / change / draw of a distribution")
o_history_model = _safe(_o_history_model, "history draw / fit / draw of a model")
o_big_n = _safe(_o_big_n, "model.draw_sample(n > 1e6, random_state=seed)")
o_predefined = _safe(_o_predefined, "predefined model draw_sample(n, random_state=seed)")
o_conditional_vector = _safe(_o_conditional_vector, "ConditionalDistribution.draw_sample(n, given_vector, random_state=Generator)")


def replay(ctx, rp):
    kind = rp["oracle"]
    stats = {}
    if kind == "shape_seed":
        o = o_shape_seed(rp["spec"], rp["n"], rp["seed"], rp["seed2"])
    elif kind == "none_state":
        o = o_none_state(rp["spec"], rp["n"], rp["k"])
    elif kind == "redraw":
        o = o_redraw(rp["spec"], rp["n"], rp["seed"])
    elif kind == "statistics":
        o = o_statistics(rp["spec"], rp["n"], mkseed(rp["seed"], rp.get("seed_type", "int")), stats)
    elif kind == "conditional_vector":
        o = o_conditional_vector(rp["dimspec"], rp["n"], rp["seed"], rp["givens"], stats)
    elif kind == "predefined":
        o = o_predefined(rp["name"], rp["n"], rp["seed"], stats)
    elif kind == "big_n":
        o = o_big_n(rp["spec"], rp["n"], rp["seed"], stats)
    elif kind == "history_univariate":
        o = o_history_univariate(rp["fam"], rp["mode"], rp["seed"], rp["n"], stats)
    elif kind == "history_model":
        o = o_history_model(rp["spec"], rp["spec_b"], rp["mode"], rp["seed"], rp["n"], stats)
    elif kind == "twin":
        o = o_twin(rp["spec"], rp["n"], rp["seed"], rp.get("seed_type", "int"))
    elif kind == "univariate":
        o = o_univariate(rp["dimspec"], rp["n"], rp["seed"], stats, rp.get("given"))
    else:
        raise KeyError(kind)
    if o == "unjudged":
        o = None
    if o:
        print("  ", o[1])
    return o is not None


# ----------------------------------------------------------------------------- run
def shrink_n(fn, n):
    """smallest n (from a short ladder) on which the oracle still fails with the same clause"""
    base = fn(n)
    if not base or base == "unjudged":
        return n, base
    for m in (2, 3, 5, 10, 50):
        if m < n:
            o = fn(m)
            if o and o != "unjudged" and o[0].get("clause") == base[0].get("clause"):
                return m, o
    return n, base


def fix_spec(rng, sp):
    """variables that others are conditional on must be non-negative (the dependence functions take roots / powers)"""
    used = {d["cond"] for d in sp["dims"] if d["cond"] is not None}
    for j in used:
        if sp["dims"][j]["fam"] in ("N", "VM"):
            sp["dims"][j] = M.rand_dim(rng, rng.choice(M.NONNEG), sp["dims"][j]["cond"])
    return sp


def run(ctx):
    ctx.proof_gate()
    rng = ctx.rng
    # ---- models: all families, 2-D / 3-D, every admissible structure; a few with constant dependence functions
    nmodels = ctx.n(140, 1400)
    specs = []
    for i in range(nmodels):
        fams = ALLFAMS if i % 3 else M.NONNEG
        sp = M.rand_spec(rng, n_dim=(4 if i % 12 == 7 else None), fams=fams, first=rng.choice(M.NONNEG), allow_const=(i % 9 == 4),
                         force_cond=(i % 12 == 7))
        specs.append(fix_spec(rng, sp))
    for st in [(None, None), (None, 0), (None, None, None), (None, 0, None), (None, None, 0), (None, None, 1), (None, 0, 0), (None, 0, 1)]:
        sp = M.rand_spec(rng, n_dim=len(st), fams=M.NONNEG)
        for d, c in zip(sp["dims"], st):
            if d["cond"] != c:
                d.update(M.rand_dim(rng, d["fam"], c))
        specs.append(sp)
    specs += negative_specs(rng)
    # a model whose conditional variable has ONLY constant dependence functions (a dependence function may ignore x)
    cspec = {"dims": [{"fam": "W", "cond": None, "params": {"alpha": ["val", 1.5], "beta": ["val", 2.0], "gamma": ["val", 0.0]}},
                      {"fam": "LN", "cond": 0, "params": {"mu": ["dep", "const", [1.0]], "sigma": ["dep", "const", [0.5]]}}]}
    specs.append(cspec)
    dist = {}
    for sp in specs:
        k = "%dD %s" % (len(sp["dims"]), list(M.structure(sp)))
        dist[k] = dist.get(k, 0) + 1
    ctx.notes["input_distribution"] = {"models_by_structure": dist, "families": sorted({d["fam"] for sp in specs for d in sp["dims"]}),
                                       "n_coq": "1..200", "n_oracle": "1, 2, 3, 17, 1000, 20000 (thorough: up to 1e6)",
                                       "random_state": ["None", "int", "Generator"],
                                       "edge_seeds_every_run": ["0", "np.int64(0)", "2**32-1", "1"],
                                       "predefined_models_every_run": sorted(M.PREDEFINED), "user_defined_family": "ScipyDistribution subclass (weibull_min)"}

    # ---- correspondence
    per_shard = 14
    items, metas = [], []
    for s in range(0, len(specs), per_shard):
        body, exprs, shard_meta = PRELUDE, [], []
        for j, sp in enumerate(specs[s:s + per_shard]):
            n = rng.choice([1, 1, 2, 3, 5, 8, 13, 40, rng.randrange(1, 200)])
            rs_kind = rng.choice(["none", "int", "int", "gen"])
            text, expr, meta = draw_case(ctx, rng, sp, n, rs_kind, "m%d" % j)
            body += text
            exprs.append(expr)
            shard_meta.append(meta)
        body += "Eval vm_compute in [%s].\n" % ";\n  ".join(exprs)
        items.append(("cases_%d" % (s // per_shard), body))
        metas.append(shard_meta)
    # EVERY run: integer seeds 0, np.int64(0), 2**32-1, 1 on models whose dimensions share a base sampler
    body, exprs, shard_meta = PRELUDE, [], []
    for a, esp in enumerate(edge_specs()):
        for b, (eseed, etype) in enumerate(EDGE_SEEDS):
            text, expr, meta = draw_case(ctx, rng, esp, rng.choice([2, 3, 7]), "int", "e%d_%d" % (a, b), seed=eseed, seed_type=etype)
            body += text
            exprs.append(expr)
            shard_meta.append(meta)
    body += "Eval vm_compute in [%s].\n" % ";\n  ".join(exprs)
    items.append(("cases_edge_seeds", body))
    metas.append(shard_meta)
    # Distribution._get_rvs_size against the model's get_rvs_size: scalars, lists, tuples, arrays in any mix
    import virocon.distributions as vd
    size_cases, size_exprs = [], []
    for _ in range(ctx.n(60, 400)):
        n0 = rng.choice([1, 1, 2, 5, 100])
        L = rng.choice([1, 2, 3, 7])
        pars, terms = [], []
        for _k in range(rng.choice([1, 2, 3, 4])):
            kind = rng.choice(["scalar", "scalar", "npscalar", "list", "tuple", "array"])
            vals = [rng.uniform(0.1, 3) for _v in range(L)]
            if kind == "scalar":
                pars.append(vals[0]); terms.append("PScal %s" % fl(vals[0]))
            elif kind == "npscalar":
                pars.append(np.float64(vals[0])); terms.append("PScal %s" % fl(vals[0]))
            else:
                pars.append({"list": list, "tuple": tuple, "array": np.array}[kind](vals)); terms.append("PVec %s" % fl_list(vals))
        got = vd.Distribution._get_rvs_size(n0, pars)
        size_cases.append((n0, [type(q).__name__ for q in pars], got))
        want = "SizeNL %d%%nat %d%%nat" % (got[0], got[1]) if isinstance(got, tuple) else "SizeN %d%%nat" % got
        size_exprs.append("match get_rvs_size %d%%nat [%s], %s with SizeN a, SizeN b => Nat.eqb a b | SizeNL a b, SizeNL c d => Nat.eqb a c && Nat.eqb b d | _, _ => false end" % (
            n0, "; ".join(terms), want))
    items.append(("cases_rvs_size", PRELUDE + "Eval vm_compute in [%s].\n" % ";\n  ".join(size_exprs)))
    outs = ctx.coq_eval_many(items, jobs=12)
    size_out = outs.pop()
    items.pop()
    nsize_ok = 0
    if size_out is not None:
        for ok, case in zip(vlib.parse_term(size_out[0]), size_cases):
            nsize_ok += bool(ok)
            if not ok:
                ctx.mismatch("_get_rvs_size%r" % (case[:2],), "implementation returned %r, the model something else" % (case[2],))
    names = {1: "sample differs from the model's (row pairing / parameters / values)", 2: "final generator state differs",
             3: "number of rvs calls", 4: "draw_sample raised", 5: "shape"}
    suspects, ncmp, nok = [], 0, 0
    for o, shard_meta in zip(outs, metas):
        if o is None:
            continue
        for code, m in zip(vlib.parse_term(o[0]), shard_meta):
            ncmp += 1
            nok += code == 0
            ctx.count((str(M.structure(m["spec"])), m["n"], m["rs"], m["seed"]), any(d["cond"] is not None for d in m["spec"]["dims"]))
            if code != 0 or m["notes"]:
                m["mismatch"] = ("draw_sample(n=%d, random_state=%s) conditional_on=%r" % (m["n"], m["rs"], list(M.structure(m["spec"]))),
                                 "%s %s %s" % (names.get(code, code), m.get("err") or "", "; ".join(m["notes"])))
                suspects.append(m)
    ctx.cov["programs"] = 3
    ctx.notes["correspondence"] = {"draws_compared": ncmp, "bit_exact_with_same_calls_and_state": nok,
                                   "get_rvs_size_cases": len(size_cases), "get_rvs_size_agree": nsize_ok}
    for m in [mm for sm in metas for mm in sm][:2]:
        ctx.sample({"spec": m["spec"], "n": m["n"], "random_state": m["rs"], "shape": m.get("shape")})

    # ---- search
    found = {}
    stats = {"unjudged": 0}   # unjudged: rejection-sampler forks, numerical saturation

    known, known_keys = [0], set()

    def report(o, rp):
        if o == "unjudged":
            stats["unjudged"] += 1
            return False
        if o is not None:
            key = repr(sorted(o[0].items()))
            if key in known_keys:
                known[0] += 1
            elif found.get(key, 0) < 2:
                if ctx.violation(o[0], o[1], rp):
                    found[key] = found.get(key, 0) + 1
                else:
                    known[0] += 1
                    known_keys.add(key)
            return True
        return False

    nbig = ctx.n(20000, 200000)
    neval = 0
    for m in suspects[:40]:
        # a disagreement that the property oracle turns into a violation matching a KNOWN finding is explained by it;
        # every other disagreement is a broken correspondence
        sp, n = m["spec"], max(m["n"], 2)
        seed, seed2 = m["seed"], m["seed"] + 1
        k0, v0 = known[0], len(ctx.violations)
        st = m.get("seed_type", "int")
        hit = False
        if m["rs"] == "int" and all(d == sp["dims"][0] for d in sp["dims"]):
            hit = report(o_twin(sp, 2, seed, st), {"oracle": "twin", "spec": sp, "n": 2, "seed": seed, "seed_type": st})
        if not hit and m["rs"] == "int":
            hit = report(o_statistics(sp, nbig, mkseed(seed, st), stats),
                         {"oracle": "statistics", "spec": sp, "n": nbig, "seed": seed, "seed_type": st})
        if not hit:
            n1, o = shrink_n(lambda k: o_shape_seed(sp, k, seed, seed2), n)
            hit = report(o, {"oracle": "shape_seed", "spec": sp, "n": n1, "seed": seed, "seed2": seed2})
        if not hit:
            n1, o = shrink_n(lambda k: o_redraw(sp, k, seed), max(n, 50))
            hit = report(o, {"oracle": "redraw", "spec": sp, "n": n1, "seed": seed})
        if not hit:
            hit = report(o_statistics(sp, nbig, seed, stats), {"oracle": "statistics", "spec": sp, "n": nbig, "seed": seed})
        neval += 3
        if not (hit and known[0] > k0 and len(ctx.violations) == v0):
            ctx.mismatch(*m["mismatch"])
    for m in suspects[40:]:
        ctx.mismatch(*m["mismatch"])
    for idx, sp in enumerate(specs):
        seed, seed2 = rng.randrange(2 ** 31), rng.randrange(2 ** 31)
        if idx % 3 == 0:
            seed2 = seed + rng.choice([1, 2, 5]) * 2 ** 32
        for n in (1, 2, 3, 17, 1000):
            neval += 1
            if report(o_shape_seed(sp, n, seed, seed2 if seed2 != seed else seed + 1),
                      {"oracle": "shape_seed", "spec": sp, "n": n, "seed": seed, "seed2": seed2 if seed2 != seed else seed + 1}):
                break
        k = rng.randrange(2 ** 31)
        neval += 2
        report(o_none_state(sp, 5, k), {"oracle": "none_state", "spec": sp, "n": 5, "k": k})
        n1, o = shrink_n(lambda kk: o_redraw(sp, kk, seed), 1000)
        report(o, {"oracle": "redraw", "spec": sp, "n": n1, "seed": seed})
        if idx % ctx.n(2, 1) == 0:
            neval += 1
            report(o_statistics(sp, nbig, seed, stats), {"oracle": "statistics", "spec": sp, "n": nbig, "seed": seed})
    # contract of the Rosenblatt theorem on the real code (deterministic, any n): image of the sample = generator stream
    pit_specs = [sp for sp in specs if all(d["fam"] in PIT_KIND for d in sp["dims"])]
    for t in range(ctx.n(60, 600)):
        sp = fix_spec(rng, M.rand_spec(rng, n_dim=rng.choice([2, 3, 4]), fams=sorted(PIT_KIND), first=rng.choice(M.NONNEG), allow_const=(t % 9 == 4)))
        if all(d["fam"] in PIT_KIND for d in sp["dims"]):
            pit_specs.append(sp)
    pit = {"cases": 0, "unjudged": 0, "max_gap": 0.0, "tolerance": 1e-9, "families": sorted(PIT_KIND),
           "not_covered": "GG, VM (rejection samplers: the stream consumed depends on the parameters)"}
    pit_bad = 0
    for sp in pit_specs:
        n, seed = rng.choice([1, 2, 3, 5, 50, 1000]), rng.randrange(2 ** 31)
        try:
            gap = pit_stream_gap(sp, n, seed)
        except Exception as e:   # a failing draw is judged by the oracles above
            gap = None
        if gap is None:
            pit["unjudged"] += 1
            continue
        pit["cases"] += 1
        pit["max_gap"] = max(pit["max_gap"], gap[0])
        ctx.count(("pit", str(M.structure(sp)), n, seed), True)
        if gap[0] > 1e-9 and pit_bad < 6:
            pit_bad += 1
            neval += 2
            hit = False
            for nb in (nbig, 10 * nbig):
                hit = hit or report(o_statistics(sp, nb, seed, stats), {"oracle": "statistics", "spec": sp, "n": nb, "seed": seed})
            if not hit:
                ctx.mismatch("pit_engine contract (theorem C07_rosenblatt_image_is_generator_stream_partial): draw_sample(n=%d, random_state=%d) "
                             "conditional_on=%r" % (n, seed, list(M.structure(sp))),
                             "column %r of the Rosenblatt image of the sample differs from the generator stream by %.3g" % (gap[1], gap[0]))
    ctx.notes["rosenblatt_stream_contract"] = pit
    # EVERY run: chains with a power-law dependence on a late dimension, at sample sizes over the small-block range of the allocator
    for csp in chain_specs():
        seed = rng.randrange(2 ** 31)
        for n in (117, 135, 142, 205, 254, 331, 1000, rng.randrange(100, 3000)):
            neval += 1
            if report(o_shape_seed(csp, n, seed, seed + 1), {"oracle": "shape_seed", "spec": csp, "n": n, "seed": seed, "seed2": seed + 1}):
                break
    # edge seeds (0 is falsy, np.int64(0) too, 2**32-1 is the largest legacy seed): same obligations as any other int seed
    for esp in edge_specs():
        twin = all(d == esp["dims"][0] for d in esp["dims"])
        for eseed, etype in EDGE_SEEDS:
            neval += 2
            if twin:
                for n in (1, 2, 5):
                    if report(o_twin(esp, n, eseed, etype), {"oracle": "twin", "spec": esp, "n": n, "seed": eseed, "seed_type": etype}):
                        break
            report(o_statistics(esp, nbig, mkseed(eseed, etype), stats),
                   {"oracle": "statistics", "spec": esp, "n": nbig, "seed": eseed, "seed_type": etype})
            # the other seed: the residue modulo 2**32 for a seed >= 2**32, else a neighbour
            other = eseed % 2 ** 32 if eseed >= 2 ** 32 else (eseed + 1 if eseed < 2 ** 32 - 1 else 5)
            for n in (1, 3):
                if report(o_shape_seed(esp, n, eseed, other), {"oracle": "shape_seed", "spec": esp, "n": n, "seed": eseed, "seed2": other}):
                    break
    # univariate: every family, unconditional and as a conditional distribution at a scalar given
    for fam in ALLFAMS:
        for rep in range(ctx.n(2, 12)):
            seed = rng.randrange(2 ** 31)
            d = M.rand_dim(rng, fam, None)
            neval += 1
            report(o_univariate(d, nbig, seed, stats), {"oracle": "univariate", "dimspec": d, "n": nbig, "seed": seed})
            for n in (1, 2, 10):
                report(o_univariate(d, n, seed, stats), {"oracle": "univariate", "dimspec": d, "n": n, "seed": seed})
            dc = M.rand_dim(rng, fam, 0)
            g = rng.uniform(0.3, 4.0)
            neval += 1
            report(o_univariate(dc, nbig, seed, stats, given=g), {"oracle": "univariate", "dimspec": dc, "n": nbig, "seed": seed, "given": g})
    # conditioning variables with negative values: the conditional clause on the rows with a negative conditioning value
    for nsp in negative_specs(rng):
        seed = rng.randrange(2 ** 31)
        neval += 2
        n1, o = shrink_n(lambda kk: o_redraw(nsp, kk, seed), 1000)
        report(o, {"oracle": "redraw", "spec": nsp, "n": n1, "seed": seed})
        report(o_statistics(nsp, nbig, seed, stats), {"oracle": "statistics", "spec": nsp, "n": nbig, "seed": seed})
    # sample sizes that are not a multiple of any plausible block size: row-wise alignment of the conditional draws in
    # every tenth of the rows, and an exact re-draw with the parameters of the same row
    for esp, n in ((edge_specs()[2], 333_333), (edge_specs()[3], 600_000 if ctx.quick() else 777_777)):
        seed = rng.randrange(2 ** 31)
        neval += 2
        report(o_redraw(esp, n, seed), {"oracle": "redraw", "spec": esp, "n": n, "seed": seed})
        report(o_statistics(esp, n, seed, stats), {"oracle": "statistics", "spec": esp, "n": n, "seed": seed})
    # sample sizes beyond a million that are not round numbers (marginal_icdf at tail probabilities asks for such samples)
    for esp, n in ((edge_specs()[2], 1_000_001), (edge_specs()[3], 2_500_000 if ctx.quick() else 3_333_333)):
        seed = rng.randrange(2 ** 31)
        neval += 1
        report(o_big_n(esp, n, seed, stats), {"oracle": "big_n", "spec": esp, "n": n, "seed": seed})
    # histories: draw -> change (assign parameters / fit to data of other parameters) -> draw -> back -> draw, every family
    # alone and as the independent variable of a model
    for fam in ALLFAMS:
        for mode in ("assign", "fit"):
            seed = rng.randrange(2 ** 31)
            neval += 1
            o, n = o_history_univariate(fam, mode, seed, nbig, stats), nbig
            if o and o != "unjudged":
                o2 = o_history_univariate(fam, mode, seed, 2000, stats)          # the smaller sample, if it fails as well
                if o2 and o2 != "unjudged":
                    o, n = o2, 2000
            report(o, {"oracle": "history_univariate", "fam": fam, "mode": mode, "seed": seed, "n": n})
    for fam in M.NONNEG:
        sa, sb = history_model_specs(rng, fam)
        for mode in ("assign", "fit"):
            seed = rng.randrange(2 ** 31)
            neval += 1
            report(o_history_model(sa, sb, mode, seed, nbig, stats), {"oracle": "history_model", "spec": sa, "spec_b": sb, "mode": mode, "seed": seed, "n": nbig})
    # every predefined model (fitted to a benchmark data set); the two defined in a transformed space also as TransformedModel
    for name in M.PREDEFINED:
        seed = rng.randrange(2 ** 31)
        for n in (1, 2, nbig):
            neval += 1
            if report(o_predefined(name, n, seed, stats), {"oracle": "predefined", "name": name, "n": n, "seed": seed}):
                break
    # direct ConditionalDistribution.draw_sample with vectors of conditioning values, integer- and float-typed
    for fam in ALLFAMS:
        for rep in range(ctx.n(2, 10)):
            seed = rng.randrange(2 ** 31)
            dc = M.rand_dim(rng, fam, 0, allow_const=(rep % 2 == 1))
            givens = [rng.randrange(1, 6) for _ in range(rng.choice([1, 2, 4]))]
            if rep == 0:
                givens = [1, 2, 3, 4]
            neval += 3
            hit = False
            for n in (1, 3, 20000):          # smallest failing n first
                if report(o_conditional_vector(dc, n, seed, givens, stats),
                          {"oracle": "conditional_vector", "dimspec": dc, "n": n, "seed": seed, "givens": givens}):
                    hit = True
                    break
            if hit:
                # restate on a single conditioning value if that fails as well
                report(o_conditional_vector(dc, 20000, seed, givens[:1], stats),
                       {"oracle": "conditional_vector", "dimspec": dc, "n": 20000, "seed": seed, "givens": givens[:1]})
    if not ctx.quick():
        for sp in specs[:2]:
            seed = rng.randrange(2 ** 31)
            neval += 2
            report(o_shape_seed(sp, 10 ** 6, seed, seed + 1), {"oracle": "shape_seed", "spec": sp, "n": 10 ** 6, "seed": seed, "seed2": seed + 1})
            report(o_statistics(sp, 10 ** 6, seed, stats), {"oracle": "statistics", "spec": sp, "n": 10 ** 6, "seed": seed})
    ctx.cov["evaluations"] += neval
    ctx.notes["statistical_support"] = dict(stats, error_probability=DELTA, decisive_beyond="%gx the band" % FAR,
                                            band_n=nbig, dkw_band=dkw(nbig))
    ctx.cov["rule"] = ("random 2-D/3-D hierarchical models over all seven families (von Mises compared modulo 2 pi) with every admissible conditional_on "
                       "structure, fixed and dependent parameters, a few constant dependence functions; n 1..200 in the Coq comparison, 1..2e4 (thorough 1e6) in "
                       "the oracles; random_state None / int / Generator; non-trivial = at least one conditional variable; distinct = hash of (structure, n, random_state, seed)")
    ctx.cov["trusted_base"] = ["Coq 8.16.1 kernel + vm_compute (primitive floats)", "harness tools/harness/c07.py + _c06_models.py (proxy, state numbering, theta tables, comparison)",
                               "scipy rvs (distribution of the draws, element r drawn with the r-th parameters, size honoured) and numpy's bit generators are oracles: "
                               "validated statistically (DKW / Hoeffding at 1e-12), never proved",
                               "statistical checks only support; they decide a violation only beyond 3x the band"]
    ctx.assumptions += ["conditional_on[i] < i", "dependence functions are pure functions of the conditioning value",
                        "no probability theory in Coq: C07 is partial (data-flow clauses proved, distribution clauses validated)"]
