"""C11 -- fixed parameters are honoured at construction, in evaluation and through fitting."""
import itertools
import math

import numpy as np
import scipy.stats as sts

import vlib
from harness import _dist as D


ZERO_OK = {("WeibullDistribution", "gamma"), ("NormalDistribution", "mu"), ("LogNormalDistribution", "mu"), ("VonMisesDistribution", "mu")}


def sample_for(cname, th, n, rs):
    d = D.get_class(cname)(**th)
    return np.asarray(d.draw_sample(n, random_state=rs))


def other_data(cname, n, rs):
    rng = np.random.default_rng(rs)
    if cname == "VonMisesDistribution":
        return rng.uniform(-3, 3, n)
    if cname == "NormalDistribution":
        return rng.gamma(2.0, 1.5, n) - 1.0
    return sts.lognorm.rvs(0.5, scale=2.0, size=n, random_state=rng) + 0.05


def oracle(case):
    cname, th, fixed = case["cls"], case["theta"], case["fixed"]
    Cls = D.get_class(cname)
    ps = D.FAMS[cname]["params"]
    sig = {"cls": cname, "fixed": "+".join(sorted(fixed))}
    kw = {"f_" + p: v for p, v in fixed.items()}
    free = {p: v for p, v in th.items() if p not in fixed}
    obj = Cls(**free, **kw)
    # construction
    for p, v in fixed.items():
        if obj.parameters[p] != v:
            return (dict(sig, clause="constructor", param=p), "%s(f_%s=%r).parameters[%r] = %r" % (cname, p, v, p, obj.parameters[p]))
    # evaluation uses the fixed value
    ref = Cls(**dict(free, **fixed))
    x = np.asarray(ref.icdf(np.array([0.2, 0.5, 0.9])))
    if not np.array_equal(np.asarray(obj.cdf(x)), np.asarray(ref.cdf(x))):
        return (dict(sig, clause="evaluation"), "evaluation does not use the fixed value(s) %r" % fixed)
    # ... checked against the documented closed form, independently of virocon's own parameter handling
    def independent(o, when):
        pars = {k: float(v) for k, v in o.parameters.items()}
        positive = {"WeibullDistribution": ["alpha", "beta"], "LogNormalDistribution": ["sigma"], "NormalDistribution": ["sigma"],
                    "ExponentiatedWeibullDistribution": ["alpha", "beta", "delta"], "GeneralizedGammaDistribution": ["m", "c", "lambda_"],
                    "VonMisesDistribution": ["kappa"], "LogNormalNormFitDistribution": ["mu_norm", "sigma_norm"]}[cname]
        if any(not (pars[q] > 0) for q in positive):
            return None     # (an inadmissible estimate, e.g. gengamma c < 0 on foreign data, is C12's subject; the closed form does not apply)
        doc = D.doc_cdf(cname, pars, x)
        if doc is not None and not np.allclose(np.asarray(o.cdf(x), dtype=float), doc, rtol=1e-9, atol=1e-12):
            return (dict(sig, clause="evaluation-documented", when=when), "%s %s: cdf(x) = %r but the documented formula with the reported parameters %r gives %r"
                    % (cname, when, np.asarray(o.cdf(x)).tolist(), pars, np.asarray(doc).tolist()))
        if cname == "VonMisesDistribution":
            mu = pars["mu"]
            c0, q0 = float(o.cdf(mu)), float(o.icdf(0.5))
            if abs(c0 - 0.5) > 1e-12 or abs(q0 - mu) > 1e-9 * max(1.0, abs(mu)):
                return (dict(sig, clause="evaluation-documented", when=when), "von Mises %s with reported mu = %r: cdf(mu) = %r, icdf(0.5) = %r" % (when, mu, c0, q0))
        return None
    iv = independent(obj, "after construction")
    if iv is not None:
        return iv
    if case.get("fit") and len(fixed) < len(ps):
        data = sample_for(cname, th, case["n"], case["seed"]) if case["data"] == "own" else other_data(cname, case["n"], case["seed"])
        method = case.get("method", "mle")
        try:
            obj.fit(data, method=method, weights=case.get("weights"))
        except NotImplementedError:
            if method != "mle":
                return None
            return (dict(sig, clause="fit-exception", exc="NotImplementedError"), "fit(mle) raised NotImplementedError")
        except Exception as e:  # noqa
            return (dict(sig, clause="fit-exception", exc=type(e).__name__), "fit with fixed %r raised %s: %s" % (sorted(fixed), type(e).__name__, str(e)[:120]))
        after = obj.parameters
        for p, v in fixed.items():
            if not math.isclose(float(after[p]), v, rel_tol=1e-12, abs_tol=1e-12):
                return (dict(sig, clause="fit", param=p), "after fit %s = %r, fixed value was %r" % (p, float(after[p]), v))
        for p in ps:
            if not np.isfinite(float(after[p])):
                return (dict(sig, clause="fit-nonfinite", param=p), "after fit %s is not finite" % p)
        iv = independent(obj, "after fit")
        if iv is not None:
            return iv
        # (a fixed Weibull location at or above the smallest observation leaves no admissible parameter vector: likelihood -inf
        #  everywhere, nothing to estimate -- not judged)
        infeasible = cname == "WeibullDistribution" and "gamma" in fixed and float(np.min(data)) <= float(fixed["gamma"])
        if not infeasible and all(float(after[p]) == float(free[p]) for p in free):
            return (dict(sig, clause="fit-not-estimated"), "non-fixed parameters were not estimated (unchanged start values)")
        # history: the object is fitted again (to other data, then to the first data): the fixed values and their declaration survive
        for k_, data2 in enumerate((other_data(cname, case["n"], case["seed"] + 1) if case["data"] == "own" else sample_for(cname, th, case["n"], case["seed"] + 1), data)):
            if cname == "WeibullDistribution" and "gamma" in fixed and float(np.min(data2)) <= float(fixed["gamma"]):
                break
            try:
                obj.fit(data2, method=method, weights=case.get("weights"))
            except Exception as e:  # noqa
                return (dict(sig, clause="refit-exception", exc=type(e).__name__), "fit number %d of the same object (fixed %r) raised %s: %s" % (k_ + 2, sorted(fixed), type(e).__name__, str(e)[:120]))
            for p, v in fixed.items():
                if not math.isclose(float(obj.parameters[p]), v, rel_tol=1e-12, abs_tol=1e-12) or getattr(obj, "f_" + p, v) != v:
                    return (dict(sig, clause="refit", param=p), "after fit number %d of the same object %s = %r and f_%s = %r, the fixed value was %r"
                            % (k_ + 2, p, float(obj.parameters[p]), p, getattr(obj, "f_" + p, None), v))
    return None


def cond_oracle(case):
    cname, th, fixed = case["cls"], case["theta"], case["fixed"]
    dm = D.dist_module()
    Cls = D.get_class(cname)
    ps = D.FAMS[cname]["params"]
    dep = {p: (lambda g, a=th[p]: a * (1 + 0.1 * np.tanh(g))) for p in ps if p not in fixed}
    if not dep:
        return None
    cd = dm.ConditionalDistribution(Cls(**{"f_" + p: v for p, v in fixed.items()}), dep)
    givens = (0.3, 2.0, np.array([0.1, 5.0]), 2, np.array([1, 2, 3]), [1, 2, 3])     # float and integer-typed conditioning values
    vals = [cd._get_param_values(g) for g in givens]
    for p, v in fixed.items():
        for g, pv in zip(givens, vals):
            if np.any(np.asarray(pv[p]) != v):
                return ({"cls": cname, "clause": "conditional", "param": p}, "fixed parameter %s = %r becomes %r for given = %r" % (p, v, pv[p], g))
    # ... whatever other conditional distributions exist in the process: a second one with the same fixed names but other values
    # (created, evaluated) leaves this one's fixed values alone, and has its own
    fixed2 = {p: (v * 1.7 + 0.3) for p, v in fixed.items()}
    cd2 = dm.ConditionalDistribution(Cls(**{"f_" + p: v for p, v in fixed2.items()}), {p: (lambda g, a=th[p]: a * (1 + 0.05 * np.tanh(g))) for p in dep})
    v2 = cd2._get_param_values(0.7)
    v1 = cd._get_param_values(0.7)
    for p, v in fixed.items():
        if np.any(np.asarray(v1[p]) != v) or dict(cd.fixed_parameters).get(p) != v:
            return ({"cls": cname, "clause": "conditional-history", "param": p},
                    "after a second ConditionalDistribution(%s(f_%s=%r), ...) was created, the first one's fixed %s = %r reads %r (fixed_parameters %r)"
                    % (cname, p, fixed2[p], p, v, v1[p], dict(cd.fixed_parameters)))
        if np.any(np.asarray(v2[p]) != fixed2[p]):
            return ({"cls": cname, "clause": "conditional-history", "param": p}, "second conditional distribution: fixed %s = %r reads %r" % (p, fixed2[p], v2[p]))
    # ... and evaluation with an integer-typed given uses the fixed value (same numbers as with the same values as floats)
    gi = np.array([1, 2, 3])
    for m in ("cdf", "pdf"):
        arg = np.asarray(cd.icdf(np.array([0.3, 0.5, 0.7]), gi.astype(float)), dtype=float)
        a = np.asarray(getattr(cd, m)(arg, gi), dtype=float)
        b = np.asarray(getattr(cd, m)(arg, gi.astype(float)), dtype=float)
        if not np.allclose(a, b, rtol=1e-14, atol=0, equal_nan=True):
            return ({"cls": cname, "clause": "conditional", "method": m}, "%s with integer-typed given differs from the same values as floats (fixed %r): %r vs %r" % (m, fixed, a.tolist(), b.tolist()))
    return None


def replay(ctx, case):
    o = (cond_oracle if case.get("cond") else oracle)(case)
    if o:
        print("  ", o[1])
    return o is not None


def run(ctx):
    ctx.proof_gate()
    ncmp, mism, extra = D.translator_validation(ctx, ctx.n(250, 3000))
    ctx.cov["programs"] = 7 * 2
    ctx.notes["translator_validation"] = dict(compared=ncmp, mismatches=len(mism), **extra)
    relevant = [m for m in mism if m.get("case", {}).get("method") == "_fit_mle" or "constructor" in m["what"]]
    for m in relevant[:5]:
        ctx.mismatch("generated %s.%s" % (m["case"]["cls"], m["case"]["method"]), m["what"])
    sd_bad = D.scipydist_correspondence(ctx, ctx.n(120, 1200), parts=("fit",))
    ctx.notes["scipydist_correspondence"] = {"mismatches": len(sd_bad)}
    for b in sd_bad[:5]:
        ctx.mismatch("ScipyDistribution._fit_mle hand model", b["what"])
    rng = ctx.rng
    cases = []
    nrep = ctx.n(1, 6)
    for cname, info in D.FAMS.items():
        ps = info["params"]
        for r in range(1, len(ps) + 1):
            for sub in itertools.combinations(ps, r):
                for rep in range(nrep):
                    th = D.rand_params(rng, cname)
                    if cname == "WeibullDistribution":
                        th["gamma"] = rng.uniform(0, 0.5)
                    fx = D.rand_params(rng, cname)
                    fixed = {p: (th[p] if rng.random() < 0.5 else fx[p]) for p in sub}
                    for p in sub:   # boundary value 0 (as int or float) where it is admissible
                        if (cname, p) in ZERO_OK and (rep == 0 or rng.random() < 0.3):
                            fixed[p] = rng.choice([0, 0.0])
                        elif rng.random() < 0.2:
                            fixed[p] = rng.choice([1, 1.0])   # the neutral value of many parameters (delta = 1: plain Weibull), as int and float
                            th[p] = fixed[p]
                    for data in (("own", "other") if not ctx.quick() or rep == 0 else ("own",)):
                        cases.append({"cls": cname, "theta": th, "fixed": fixed, "fit": len(sub) < len(ps), "data": data,
                                      "n": rng.choice([150, 400]), "seed": rng.randrange(10 ** 6)})
    # von Mises: a fixed mean direction anywhere on the line (directions are also given in [0, 2 pi))
    for mu_fixed in (4.0, -3.5, 6.0, 2.0):
        cases.append({"cls": "VonMisesDistribution", "theta": {"kappa": 2.0, "mu": mu_fixed}, "fixed": {"mu": mu_fixed}, "fit": True, "data": "own",
                      "n": 300, "seed": rng.randrange(10 ** 6)})
    # Weibull with a fixed location ABOVE some of the observations (data of another family): the fixed value is kept all the same
    for fixed in ({"gamma": 1.0}, {"gamma": 1.0, "alpha": 2.0}, {"gamma": 1.0, "beta": 1.5}, {"gamma": 1.5}):
        cases.append({"cls": "WeibullDistribution", "theta": {"alpha": 2.0, "beta": 1.5, "gamma": fixed["gamma"]}, "fixed": dict(fixed), "fit": True,
                      "data": "other", "n": 200, "seed": rng.randrange(10 ** 6)})
    # least squares with delta fixed (the supported lsq subset), other lsq subsets must raise NotImplementedError
    for w in (None, "linear", "quadratic", "cubic"):
        th = D.rand_params(rng, "ExponentiatedWeibullDistribution")
        cases.append({"cls": "ExponentiatedWeibullDistribution", "theta": th, "fixed": {"delta": th["delta"]}, "fit": True, "data": "own",
                      "n": 300, "seed": rng.randrange(10 ** 6), "method": "wlsq" if w else "lsq", "weights": w})
    # ... every other subset: either rejected (NotImplementedError: subset not supported by least squares) or the fixed values are kept
    for sub in (("alpha",), ("beta",), ("alpha", "delta"), ("beta", "delta"), ("alpha", "beta")):
        for w in (None, "quadratic"):
            th = D.rand_params(rng, "ExponentiatedWeibullDistribution")
            fx = D.rand_params(rng, "ExponentiatedWeibullDistribution")
            cases.append({"cls": "ExponentiatedWeibullDistribution", "theta": th, "fixed": {p: fx[p] for p in sub}, "fit": True, "data": "own",
                          "n": 300, "seed": rng.randrange(10 ** 6), "method": "wlsq" if w else "lsq", "weights": w})
    found = 0
    dist = {}
    for c in cases:
        k = "%s/%d fixed/%s" % (c["cls"], len(c["fixed"]), c.get("method", "mle"))
        dist[k] = dist.get(k, 0) + 1
        ctx.count((c["cls"], tuple(sorted(c["fixed"].items())), c["data"], c["seed"]), True)
        try:
            o = oracle(c)
        except Exception as e:  # noqa
            o = ({"cls": c["cls"], "clause": "exception", "exc": type(e).__name__}, "%s: %s" % (type(e).__name__, e))
        if o is None and c["data"] == "own":
            try:
                o = cond_oracle(c)
                if o:
                    c = dict(c, cond=True)
            except Exception as e:  # noqa
                o = ({"cls": c["cls"], "clause": "conditional-exception", "exc": type(e).__name__}, "%s: %s" % (type(e).__name__, e))
                c = dict(c, cond=True)
        if o is not None and ctx.violation(o[0], o[1], c):
            found += 1
            if found >= 10:
                break
    # ScipyDistribution subclasses: every non-empty proper subset of (c, loc, scale) fixed
    try:
        dm = D.dist_module()

        class MyWeibull(dm.ScipyDistribution):
            scipy_dist_name = "weibull_min"
        class MyGenGamma(dm.ScipyDistribution):
            scipy_dist_name = "gengamma"
        for Cls_, data, vals in ((MyWeibull, sts.weibull_min.rvs(1.7, loc=0.2, scale=2.5, size=300, random_state=5), {"c": 2.0, "loc": 0.1, "scale": 3.0}),
                                 (MyGenGamma, sts.gengamma.rvs(2.0, 1.5, scale=2.0, size=300, random_state=6), {"a": 1.7, "c": 2.3, "loc": 0.0, "scale": 2.5})):
            # a parameter declared fixed has that value from construction on, also when a (different) start value for the same
            # parameter is passed as well, in either keyword order (named families and ScipyDistribution subclasses alike)
            for k in vals:
                for order in ("fixed-first", "value-first"):
                    kw2 = {"f_" + k: vals[k], k: vals[k] * 1.5 + 0.25} if order == "fixed-first" else {k: vals[k] * 1.5 + 0.25, "f_" + k: vals[k]}
                    got = Cls_(**kw2).parameters[k]
                    ctx.count(("scipydist-ctor", Cls_.scipy_dist_name, k, order), True)
                    if got != vals[k]:
                        ctx.violation({"cls": "ScipyDistribution", "clause": "constructor", "order": order},
                                      "%s(%s).parameters[%r] = %r, the fixed value is %r" % (Cls_.scipy_dist_name, ", ".join("%s=%r" % kv for kv in kw2.items()), k, got, vals[k]),
                                      {"cls": "ScipyDistribution", "ctor": kw2})
            for r in range(1, len(vals)):
                for sub in itertools.combinations(vals, r):
                    kw = {"f_" + k: vals[k] for k in sub}
                    d = Cls_(**kw)
                    ok = all(d.parameters[k] == vals[k] for k in sub)
                    try:
                        d.fit(data)
                    except Exception as e:  # noqa
                        ctx.violation({"cls": "ScipyDistribution", "clause": "fit-exception", "exc": type(e).__name__, "fixed": "+".join(sub)},
                                      "ScipyDistribution(%s) fit with fixed %r raised %s" % (Cls_.scipy_dist_name, kw, type(e).__name__), {"cls": "ScipyDistribution", "fixed": kw})
                        continue
                    ok = ok and all(math.isclose(float(d.parameters[k]), vals[k], rel_tol=1e-12, abs_tol=1e-12) for k in sub)
                    # history: fitted a second and a third time (other data in between), the declaration f_<name> survives
                    for data2 in (data[::-1][: len(data) // 2] * 1.1 + 0.3, data):
                        try:
                            d.fit(data2)
                        except Exception as e:  # noqa
                            ok = False
                            break
                        ok = ok and all(math.isclose(float(d.parameters[k]), vals[k], rel_tol=1e-12, abs_tol=1e-12) and getattr(d, "f_" + k, None) == vals[k] for k in sub)
                    ctx.count(("scipydist", Cls_.scipy_dist_name, sub), True)
                    if not ok:
                        ctx.violation({"cls": "ScipyDistribution", "clause": "fit", "fixed": "+".join(sub)},
                                      "ScipyDistribution(%s) subclass: fixed %r not honoured after fit / a second and third fit of the same object: parameters %r, declarations %r" % (Cls_.scipy_dist_name, kw, dict(d.parameters), {k: getattr(d, "f_" + k, None) for k in sub}), {"cls": "ScipyDistribution", "fixed": kw})
    except Exception as e:  # noqa
        ctx.violation({"cls": "ScipyDistribution", "clause": "exception", "exc": type(e).__name__}, "ScipyDistribution subclass raised %s: %s" % (type(e).__name__, e), {"cls": "ScipyDistribution"})
    ctx.notes["input_distribution"] = dist
    ctx.sample(cases[0]); ctx.sample(cases[-1])
    ctx.cov["exhaustive"] = True
    ctx.cov["rule"] = ("every family x every non-empty subset of fixed parameters (exhaustive) x random values x data from the family / from another family; "
                       "MLE for all, (w)lsq with delta fixed for the exponentiated Weibull; non-trivial: all; distinct = (class, fixed set and values, data seed)")
    ctx.cov["trusted_base"] = ["Coq kernel + vm_compute", "tools/py2v.py (validated by differential execution)", "fit contract of scipy.stats (Section hypothesis fit_contract): fixed keywords are returned unchanged in their position"]
    ctx.assumptions += ["scipy's fit returns fixed values exactly (observed: vonmises floc differs by 1e-16 relative after wrapping)"]
