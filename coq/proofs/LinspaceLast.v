From Coq Require Import Reals PrimFloat FloatOps ZArith Lia Lra Bool SpecFloat Psatz List Uint63.
From Flocq Require Import Core BinarySingleNaN PrimFloat Mult_error Plus_error Relative.
From V.base Require Import FloatBits.
From V.model Require Import Intervals.
From V.proofs Require Import FloatOrder FloatMono IntervalsProofs ArangeOrder.
Import ListNotations.
Local Open Scope R_scope.
Notation fexp := (SpecFloat.fexp prec emax).
Local Instance Hprec'' : FLX.Prec_gt_0 prec := FloatMono.Hprec.
Local Instance Hfexp'' : Valid_exp fexp := FloatMono.Hfexp.
Notation rnd := (round radix2 fexp (round_mode mode_NE)).
Notation M := (bpow radix2 emax).
Notation fmt := (generic_format radix2 fexp).
Notation emin := (SpecFloat.emin prec emax).
Notation eps := (bpow radix2 (-53)).
Notation tiny := (bpow radix2 (emin + prec - 1)).

(* integers below 2^53 are floats *)
Lemma fmt_IZR z : (Z.abs z < 2 ^ 53)%Z -> fmt (IZR z).
Proof.
  intros H. rewrite fexp_FLT. apply generic_format_FLT.
  apply (FLT_spec radix2 emin prec (IZR z) (Float radix2 z 0)).
  - unfold F2R. simpl. ring.
  - simpl. exact H.
  - simpl. unfold emin, SpecFloat.emin, prec, emax. lia.
Qed.

Lemma of_nat_exact i : (Z.of_nat i < 2 ^ 53)%Z -> (Z.of_nat i < 2 ^ 62)%Z -> pR (of_nat i) = IZR (Z.of_nat i).
Proof.
  intros H H'. destruct (of_nat_spec i H') as [_ E]. rewrite E. apply rnd_id. apply fmt_IZR. lia.
Qed.

(* relative error of rounding to nearest even in the normal range *)
Lemma rnd_rel x : tiny <= x -> rnd x <= x * (1 + eps).
Proof.
  intros H. assert (Hx : tiny <= Rabs x) by (rewrite Rabs_pos_eq; [exact H|pose proof (bpow_gt_0 radix2 (emin + prec - 1)); lra]).
  pose proof (relative_error_N_FLT radix2 emin prec FloatMono.Hprec (fun z => negb (Z.even z)) x Hx) as E.
  change (round radix2 (FLT_exp emin prec) (Znearest (fun z => negb (Z.even z))) x) with (rnd x) in E.
  assert (P : 0 < x) by (pose proof (bpow_gt_0 radix2 (emin + prec - 1)); lra).
  rewrite (Rabs_pos_eq x) in E by lra.
  change (/ 2 * bpow radix2 (- prec + 1)) with (/ 2 * bpow radix2 (-52)) in E.
  assert (E2 : / 2 * bpow radix2 (-52) = eps).
  { change (bpow radix2 (-52)) with (bpow radix2 (1 + -53)). rewrite bpow_plus. simpl (bpow radix2 1). change (IZR (Z.pow_pos 2 1)) with 2. field. }
  rewrite E2 in E. apply Rabs_le_inv in E. lra.
Qed.

Lemma eps_facts : 0 < eps /\ eps * IZR (2 ^ 53) = 1.
Proof.
  split; [apply bpow_gt_0|]. change (IZR (2 ^ 53)) with (bpow radix2 53). rewrite <- bpow_plus. reflexivity.
Qed.

Lemma tiny_fmt : fmt tiny.
Proof. apply fmt_bpow. unfold emin, SpecFloat.emin, prec, emax. lia. Qed.

(* the real-number core: the last start of linspace does not exceed the upper end *)
Lemma last_start_le (a b : R) (n : Z) : fmt a -> fmt b -> a <= b -> (2 <= n <= 2 ^ 51)%Z ->
  tiny <= rnd (b - a) / IZR n ->
  rnd (IZR (n - 1) * rnd (rnd (b - a) / IZR n)) <= b - a.
Proof.
  intros Fa Fb Hab Hn Hs. set (t := b - a) in *. set (Dr := rnd t) in *. set (nr := IZR n) in *.
  destruct eps_facts as [Pe Ee]. pose proof (bpow_gt_0 radix2 (emin + prec - 1)) as Pt.
  assert (N2 : 2 <= nr) by (unfold nr; apply IZR_le; lia).
  assert (N51 : nr <= IZR (2 ^ 51)) by (unfold nr; apply IZR_le; lia).
  assert (Pt0 : 0 <= t) by (unfold t; lra).
  (* 1: Dr <= t (1 + eps) *)
  assert (H1 : Dr <= t * (1 + eps)).
  { destruct (Rle_lt_dec t (bpow radix2 (prec + emin))) as [Hsm|Hl].
    - assert (Ft : fmt t).
      { unfold t. replace (b - a) with (b + - a) by ring. rewrite fexp_FLT.
        apply FLT_format_plus_small; [exact FloatMono.Hprec| | |].
        - rewrite <- fexp_FLT. exact Fb.
        - rewrite <- fexp_FLT. now apply generic_format_opp.
        - replace (b + - a) with t by (unfold t; ring). rewrite Rabs_pos_eq by exact Pt0. exact Hsm. }
      unfold Dr. rewrite rnd_id by exact Ft. nra.
    - apply rnd_rel. apply Rle_trans with (bpow radix2 (prec + emin)); [|lra]. apply bpow_le. lia. }
  assert (PD : 0 < Dr).
  { assert (0 < Dr / nr) by lra. unfold Rdiv in H. assert (0 < / nr) by (apply Rinv_0_lt_compat; lra). nra. }
  (* 2: s <= Dr/n (1+eps) *)
  set (s := rnd (Dr / nr)) in *.
  assert (H2 : s <= Dr / nr * (1 + eps)) by (apply rnd_rel; exact Hs).
  assert (Hs' : tiny <= s).
  { unfold s. rewrite <- (rnd_id tiny) by exact tiny_fmt. apply rnd_le. exact Hs. }
  (* 3: m <= (n-1) s (1+eps) *)
  assert (En : IZR (n - 1) = nr - 1) by (unfold nr; rewrite minus_IZR; reflexivity).
  rewrite En.
  assert (H3 : rnd ((nr - 1) * s) <= (nr - 1) * s * (1 + eps)) by (apply rnd_rel; nra).
  (* 4: arithmetic *)
  assert (Q : Dr / nr = Dr * / nr) by reflexivity.
  assert (Pin : 0 < / nr) by (apply Rinv_0_lt_compat; lra).
  assert (In : nr * / nr = 1) by (apply Rinv_r; lra).
  assert (K : (nr - 1) * (1 + eps) * (1 + eps) * (1 + eps) <= nr).
  { change (IZR (2 ^ 51)) with 2251799813685248 in N51. change (IZR (2 ^ 53)) with 9007199254740992 in Ee.
    assert (B : 4 * eps * (nr - 1) <= 1) by nra.
    assert (C : eps <= / 4) by nra.
    assert (C2 : (1 + eps) * (1 + eps) * (1 + eps) <= 1 + 4 * eps) by nra.
    apply Rle_trans with ((nr - 1) * (1 + 4 * eps)); [|nra].
    rewrite !Rmult_assoc. apply Rmult_le_compat_l; [lra|]. rewrite <- Rmult_assoc. exact C2. }
  apply Rle_trans with (1 := H3).
  apply Rle_trans with ((nr - 1) * (Dr * / nr * (1 + eps)) * (1 + eps)).
  { rewrite Q in H2. apply Rmult_le_compat_r; [lra|]. apply Rmult_le_compat_l; [lra|exact H2]. }
  apply Rle_trans with ((nr - 1) * (t * (1 + eps) * / nr * (1 + eps)) * (1 + eps)).
  { apply Rmult_le_compat_r; [lra|]. apply Rmult_le_compat_l; [lra|]. apply Rmult_le_compat_r; [lra|]. apply Rmult_le_compat_r; [lra|exact H1]. }
  replace ((nr - 1) * (t * (1 + eps) * / nr * (1 + eps)) * (1 + eps)) with (t * / nr * ((nr - 1) * (1 + eps) * (1 + eps) * (1 + eps))) by ring.
  apply Rle_trans with (t * / nr * nr); [|rewrite Rmult_assoc, (Rmult_comm (/ nr)), In; lra].
  apply Rmult_le_compat_l; [|exact K]. apply Rmult_le_pos; lra.
Qed.

(* ------------------------------------------------------------ connection to the binary64 linspace *)
Lemma pR_zero : pR 0%float = 0.
Proof. unfold pR. change 0%float with PrimFloat.zero. rewrite zero_equiv, Prim2B_B2Prim. reflexivity. Qed.
Lemma pfin_zero : pfin 0%float.
Proof. unfold pfin. change 0%float with PrimFloat.zero. rewrite zero_equiv, Prim2B_B2Prim. reflexivity. Qed.

Lemma eqb_zero_pR x : pfin x -> PrimFloat.eqb x 0 = true -> pR x = 0.
Proof.
  intros F E. rewrite eqb_equiv in E. rewrite Beqb_correct in E by (exact F || exact pfin_zero).
  fold (pR x) in E. fold (pR 0%float) in E. rewrite pR_zero in E.
  revert E. case Req_bool_spec; intros; [assumption|discriminate].
Qed.

Lemma last_map_seq (f : nat -> PrimFloat.float) n d : (1 <= n)%nat -> last (map f (seq 0 n)) d = f (n - 1)%nat.
Proof.
  intros H. destruct n as [|k]; [lia|]. rewrite seq_S, map_app. cbn [map]. rewrite last_last. f_equal. lia.
Qed.

Section LinspaceLast.
  Variables start stop : PrimFloat.float.
  Variable num : nat.
  Hypothesis Fstart : pfin start.
  Hypothesis Fstop : pfin stop.
  Hypothesis Hle : pR start <= pR stop.
  Hypothesis Hnum : (1 <= num)%nat.
  Hypothesis Hnb : (Z.of_nat num <= 2 ^ 51)%Z.
  Hypothesis FD : pfin (stop - start)%float.

  Let D := (stop - start)%float.
  Let N := of_nat num.
  Let stepf := (D / N)%float.
  Let t := pR stop - pR start.

  Lemma Hnb62 : (Z.of_nat num < 2 ^ 62)%Z.
  Proof. lia. Qed.

  Lemma pR_D : pR D = rnd t.
  Proof.
    pose proof (VP_sub stop start (Fin (pR stop)) Fstart (VP_fin _ Fstop)) as H.
    rewrite (VP_fin _ FD) in H. inversion H as [E]. cbn [vminus] in E. symmetry in E.
    destruct (clamp_Fin_inv _ _ E) as [E' _]. exact E'.
  Qed.

  Lemma t_lt_M : t < M.
  Proof.
    destruct (Rlt_le_dec t M) as [H|H]; [exact H|exfalso].
    assert (M <= rnd t).
    { rewrite <- (rnd_id M) by (apply fmt_bpow; unfold emin, SpecFloat.emin, prec, emax; lia). now apply rnd_le. }
    pose proof (abs_B2R_lt (Prim2B D)) as A. fold (pR D) in A. rewrite pR_D in A.
    rewrite Rabs_pos_eq in A; [lra|]. pose proof M_pos. lra.
  Qed.

  Lemma pR_N : pR N = IZR (Z.of_nat num).
  Proof. apply of_nat_exact; lia. Qed.

  Lemma pR_step : pfin stepf /\ pR stepf = rnd (pR D / pR N).
  Proof.
    destruct (N_facts num Hnum Hnb62) as [FN PN]. pose proof (D_nonneg start stop Fstart Fstop Hle FD) as PD.
    fold D in PD. fold N in FN, PN.
    pose proof (VP_div_fin D N FD FN ltac:(lra)) as H.
    assert (B : 0 <= rnd (pR D / pR N) <= pR D).
    { split.
      - rewrite <- rnd_0. apply rnd_le. apply Rmult_le_pos; [lra|]. apply Rlt_le, Rinv_0_lt_compat. lra.
      - rewrite <- (rnd_id (pR D)) at 2 by apply fmt_B2R. apply rnd_le.
        apply Rle_trans with (pR D / 1); [|lra]. unfold Rdiv. apply Rmult_le_compat_l; [lra|]. apply Rinv_le_contravar; lra. }
    assert (A : Rabs (rnd (pR D / pR N)) < M).
    { rewrite Rabs_pos_eq by lra. apply Rle_lt_trans with (pR D); [lra|]. pose proof (abs_B2R_lt (Prim2B D)) as A0. fold (pR D) in A0.
      rewrite Rabs_pos_eq in A0; [exact A0|exact PD]. }
    rewrite (clamp_fin _ A) in H. fold stepf in H. apply VP_Fin_pfin in H. exact H.
  Qed.

  (* the value a start has, given the real m it adds to start *)
  Lemma start_plus_le m x : VP x = Some (Fin m) -> 0 <= m <= t ->
    PrimFloat.leb (x + start)%float stop = true.
  Proof.
    intros Hx Hm.
    apply (fleb_VP _ _ (vplus (pR start) (Fin m)) (Fin (pR stop))); [apply VP_add_l; [exact Fstart|exact Hx]|apply VP_fin; exact Fstop|].
    cbn [vplus]. rewrite <- (clamp_fin (pR stop)) by (unfold pR; apply abs_B2R_lt). apply clamp_mono.
    apply Rle_trans with (rnd (pR stop)); [apply rnd_le; unfold t in Hm; lra|]. rewrite rnd_id by apply fmt_B2R. lra.
  Qed.

  Lemma clamp_small r : 0 <= r <= t -> clamp r = Fin r.
  Proof. intros H. apply clamp_fin. rewrite Rabs_pos_eq by lra. pose proof t_lt_M. lra. Qed.

  Hypothesis Hstep : PrimFloat.eqb stepf 0 = true \/ tiny <= pR D / pR N.   (* the step is zero or in the normal range *)

  Theorem linspace_last_le : PrimFloat.leb (last (fst (linspace_open start stop num)) start) stop = true.
  Proof.
    pose proof (D_nonneg start stop Fstart Fstop Hle FD) as PD. fold D in PD.
    destruct (N_facts num Hnum Hnb62) as [FN PN]. fold N in FN, PN.
    destruct pR_step as [Fs Es].
    assert (Pt : 0 <= t) by (unfold t; lra).
    unfold linspace_open. fold D N stepf.
    set (k := (num - 1)%nat).
    assert (Hk : (Z.of_nat k < 2 ^ 53)%Z /\ (Z.of_nat k < 2 ^ 62)%Z) by (unfold k; lia). destruct Hk as [Hk53 Hk62].
    assert (Ekn : Z.of_nat k = (Z.of_nat num - 1)%Z) by (unfold k; lia).
    pose proof (of_nat_exact k Hk53 Hk62) as Ek. destruct (of_nat_fin k Hk62) as [Fk Pk].
    destruct (PrimFloat.eqb stepf 0) eqn:Ez; cbn [fst]; rewrite last_map_seq by exact Hnum; fold k.
    - (* numpy's step == 0 branch: (k / n) * D + start *)
      pose proof (eqb_zero_pR stepf Fs Ez) as Z0. rewrite Es in Z0.
      assert (Dt : pR D = t).
      { rewrite pR_D. destruct (Rle_lt_dec t (bpow radix2 (prec + emin))) as [Hsm|Hl].
        - apply rnd_id. unfold t. replace (pR stop - pR start) with (pR stop + - pR start) by ring. rewrite fexp_FLT.
          apply FLT_format_plus_small; [exact FloatMono.Hprec| | |].
          + rewrite <- fexp_FLT. apply fmt_B2R.
          + rewrite <- fexp_FLT. apply generic_format_opp, fmt_B2R.
          + replace (pR stop + - pR start) with t by (unfold t; ring). rewrite Rabs_pos_eq by exact Pt. exact Hsm.
        - exfalso.
          assert (G : bpow radix2 (prec + emin) <= pR D).
          { rewrite pR_D. rewrite <- (rnd_id (bpow radix2 (prec + emin))) by (apply fmt_bpow; unfold prec; lia). apply rnd_le. lra. }
          assert (Q : bpow radix2 emin <= pR D / pR N).
          { rewrite pR_N. apply Rle_trans with (bpow radix2 (prec + emin) / IZR (2 ^ 51)).
            - change (IZR (2 ^ 51)) with (bpow radix2 51). unfold Rdiv. rewrite <- bpow_opp, <- bpow_plus. apply bpow_le. unfold prec. lia.
            - unfold Rdiv. apply Rmult_le_compat; [apply bpow_ge_0| | exact G |].
              + apply Rlt_le, Rinv_0_lt_compat. change 0 with (IZR 0). apply IZR_lt. lia.
              + apply Rinv_le_contravar; [rewrite <- pR_N; lra|apply IZR_le; lia]. }
          assert (bpow radix2 emin <= rnd (pR D / pR N)).
          { rewrite <- (rnd_id (bpow radix2 emin)) by (apply fmt_bpow; lia). now apply rnd_le. }
          pose proof (bpow_gt_0 radix2 emin). lra. }
      destruct (quot_facts num Hnum Hnb62 k Hk62) as [Fq Eq]. fold N in Fq, Eq.
      assert (Q1 : 0 <= pR (of_nat k / N)%float <= 1).
      { rewrite Eq. split.
        - rewrite <- rnd_0. apply rnd_le. apply Rmult_le_pos; [lra|]. apply Rlt_le, Rinv_0_lt_compat. lra.
        - rewrite <- (rnd_id 1) by (change 1 with (bpow radix2 0); apply fmt_bpow; unfold emin, SpecFloat.emin, prec, emax; lia).
          apply rnd_le. rewrite Ek, pR_N. unfold Rdiv.
          apply Rle_trans with (IZR (Z.of_nat num) * / IZR (Z.of_nat num)).
          + apply Rmult_le_compat_r; [apply Rlt_le, Rinv_0_lt_compat; rewrite <- pR_N; lra|apply IZR_le; lia].
          + rewrite Rinv_r; [lra|]. rewrite <- pR_N. lra. }
      set (m := rnd (pR (of_nat k / N)%float * pR D)).
      assert (Hm : 0 <= m <= t).
      { unfold m. split.
        - rewrite <- rnd_0. apply rnd_le. nra.
        - apply Rle_trans with (rnd (pR D)); [apply rnd_le; nra|]. rewrite rnd_id by apply fmt_B2R. lra. }
      apply (start_plus_le m); [|exact Hm].
      rewrite (VP_mul_fin _ _ Fq (FD : pfin D)). fold m. now rewrite clamp_small.
    - (* ordinary branch: k * step + start *)
      destruct Hstep as [Hz|Hn]; [discriminate Hz|].
      set (m := rnd (pR (of_nat k) * pR stepf)).
      assert (Hm : 0 <= m <= t).
      { unfold m. split.
        - rewrite <- rnd_0. apply rnd_le. rewrite Es. assert (0 <= rnd (pR D / pR N)); [|nra].
          rewrite <- rnd_0. apply rnd_le. apply Rmult_le_pos; [lra|]. apply Rlt_le, Rinv_0_lt_compat. lra.
        - destruct (Nat.eq_dec num 1) as [E1|E1].
          + assert (k = 0%nat) by (unfold k; lia). rewrite Ek, H. change (IZR (Z.of_nat 0)) with 0. rewrite Rmult_0_l, rnd_0. exact Pt.
          + rewrite Ek, Es, pR_D, pR_N, Ekn.
            apply (last_start_le (pR start) (pR stop) (Z.of_nat num)); [apply fmt_B2R|apply fmt_B2R|exact Hle|lia|].
            fold t. rewrite <- pR_D, <- pR_N. exact Hn. }
      apply (start_plus_le m); [|exact Hm].
      rewrite (VP_mul_fin _ _ Fk Fs). fold m. now rewrite clamp_small.
  Qed.
End LinspaceLast.

(* ------------------------------------------------------------ in terms of the primitive predicates *)
Lemma pR_SF x : pR x = SF2R radix2 (Prim2SF x).
Proof. unfold pR. rewrite <- B2SF_Prim2B. symmetry. apply SF2R_B2SF. Qed.

Lemma pR_tiny : pR 0x1p-1022%float = tiny.
Proof.
  rewrite pR_SF. replace (Prim2SF 0x1p-1022%float) with (S754_finite false 4503599627370496 (-1074)) by (vm_compute; reflexivity).
  unfold SF2R, F2R. cbn [cond_Zopp Fnum Fexp]. change (IZR (Z.pos 4503599627370496)) with (bpow radix2 52).
  rewrite <- bpow_plus. reflexivity.
Qed.

Lemma pfin_tiny : pfin 0x1p-1022%float.
Proof. unfold pfin. rewrite <- is_finite_equiv. vm_compute. reflexivity. Qed.

(* a float step above 2^-1022 means that the exact quotient is in the normal range *)
Lemma step_normal D N : pfin D -> pfin N -> pR N <> 0 -> pfin (D / N)%float -> pR (D / N)%float = rnd (pR D / pR N) ->
  PrimFloat.ltb 0x1p-1022 (D / N) = true -> tiny <= pR D / pR N.
Proof.
  intros FD FN NN Fs Es L. rewrite ltb_equiv in L. rewrite Bltb_correct in L by (exact pfin_tiny || exact Fs).
  fold (pR 0x1p-1022%float) in L. fold (pR (D / N)%float) in L. rewrite pR_tiny, Es in L.
  revert L. case Rlt_bool_spec; intros L E; [|discriminate E].
  destruct (Rle_lt_dec tiny (pR D / pR N)) as [H|H]; [exact H|exfalso].
  assert (rnd (pR D / pR N) <= tiny) by (rewrite <- (rnd_id tiny) by exact tiny_fmt; apply rnd_le; lra). lra.
Qed.

(* NumberOfIntervalsSlicer: the WHOLE edge vector starts ++ [v1] is non-decreasing for every finite value range v0 <= v1 with a
   representable width, every 1 <= n <= 2^51, provided the step (v1 - v0)/n is zero or above 2^-1022 (not subnormal) *)
Theorem number_edges_sorted_full v0 v1 n :
  PrimFloat.is_finite v0 = true -> PrimFloat.is_finite v1 = true -> PrimFloat.leb v0 v1 = true ->
  PrimFloat.is_finite (v1 - v0)%float = true -> (1 <= n)%nat -> (Z.of_nat n <= 2 ^ 51)%Z ->
  PrimFloat.eqb ((v1 - v0) / of_nat n) 0 = true \/ PrimFloat.ltb 0x1p-1022 ((v1 - v0) / of_nat n) = true ->
  sorted PrimFloat.float fleb (snd (number_edges v0 v1 n)).
Proof.
  intros F0 F1 L FD Hn Hb Hs.
  assert (L' : pR v0 <= pR v1).
  { apply (fleb_VP _ _ (Fin (pR v0)) (Fin (pR v1)) (VP_fin _ (prim_finite _ F0)) (VP_fin _ (prim_finite _ F1))) in L. exact L. }
  pose proof (number_edges_sorted v0 v1 n F0 F1 L FD Hn ltac:(lia)) as S.
  pose proof (linspace_last_le v0 v1 n (prim_finite _ F0) (prim_finite _ F1) L' Hn Hb (prim_finite _ FD)) as LL.
  unfold number_edges in *. destruct (linspace_open v0 v1 n) as [starts w] eqn:E. cbn [snd fst] in *.
  destruct S as [_ S]. apply S. apply LL.
  destruct Hs as [Hz|Hl]; [left; exact Hz|right].
  destruct (pR_step v0 v1 n (prim_finite _ F0) (prim_finite _ F1) L' Hn Hb (prim_finite _ FD)) as [Fs Es].
  destruct (N_facts n Hn ltac:(lia)) as [FN PN].
  apply step_normal; auto using prim_finite. lra.
Qed.

Theorem number_partition_every_input : forall (v0 v1 : PrimFloat.float) (n : nat) R (refs : list R) data a b e j d0,
  PrimFloat.is_finite v0 = true -> PrimFloat.is_finite v1 = true -> PrimFloat.leb v0 v1 = true ->
  PrimFloat.is_finite (v1 - v0)%float = true -> (1 <= n)%nat -> (Z.of_nat n <= 2 ^ 51)%Z ->
  PrimFloat.eqb ((v1 - v0) / of_nat n) 0 = true \/ PrimFloat.ltb 0x1p-1022 ((v1 - v0) / of_nat n) = true ->
  snd (number_edges v0 v1 n) = a :: b :: e ->
  length refs = length (intervals PrimFloat.float (a :: b :: e)) -> (j < length data)%nat ->
  fleb a (nth j data d0) = true -> fleb (nth j data d0) (last (b :: e) b) = true ->
  rows_true_at PrimFloat.float j (rows_of PrimFloat.float fleb RightOpen true (snd (number_edges v0 v1 n)) refs data) = 1%nat.
Proof.
  intros v0 v1 n R refs data a b e j d0 F0 F1 L FD Hn Hb Hs E Hr Hj Ha Hl.
  pose proof (number_edges_sorted_full v0 v1 n F0 F1 L FD Hn Hb Hs) as S. rewrite E in *.
  exact (@partition_include_max PrimFloat.float fleb fleb_trans R e a b refs data j d0 S Hr Hj Ha Hl).
Qed.
