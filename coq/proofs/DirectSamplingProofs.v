(* Lemmas for C03 over the real-number instance of model/DirectSampling.v:
   tangent-line algebra of the vertex formulas, the angle grid, the polygon structure (vertex i is the
   intersection of lines i and i+1 mod N), consequences of the quantile contract. *)
From Coq Require Import Reals Lra Psatz List ZArith Lia Permutation Sorted Bool.
From V.model Require Import DirectSampling.
Import ListNotations.
Local Open Scope R_scope.

Definition Rleb (a b : R) : bool := if Rle_dec a b then true else false.
Definition Rltb (a b : R) : bool := if Rlt_dec a b then true else false.

(* the real-number instance: cos / sin are the real functions *)
Definition Rops : ops R :=
  mkops R Rplus Rminus Rmult Rdiv Ropp Rabs INR Rleb Rltb PI (/ 2) 1 100 180 cos sin
        (fun x => Z.to_nat (Int_part x)) Int_part (fun _ a b => Rleb (Rabs (a - b)) 0).

Lemma Rleb_true a b : Rleb a b = true <-> a <= b.
Proof. unfold Rleb. destruct (Rle_dec a b); split; intros; auto; try discriminate; contradiction. Qed.
Lemma Rltb_true a b : Rltb a b = true <-> a < b.
Proof. unfold Rltb. destruct (Rlt_dec a b); split; intros; auto; try discriminate; contradiction. Qed.
Lemma Rltb_false a b : Rltb a b = false <-> b <= a.
Proof. unfold Rltb. destruct (Rlt_dec a b); split; intros; auto; try discriminate; lra. Qed.
Lemma Rleb_false a b : Rleb a b = false <-> b < a.
Proof. unfold Rleb. destruct (Rle_dec a b); split; intros; auto; try discriminate; lra. Qed.

(* ------------------------------------------------------------------ vertex algebra *)
Section Vertex.
  Variables a1 a2 r1 r2 : R.
  Lemma den_R : den R Rops a1 a2 = sin a2 * cos a1 - sin a1 * cos a2.
  Proof. reflexivity. Qed.
  Lemma den_is_sin : den R Rops a1 a2 = sin (a2 - a1).
  Proof. rewrite den_R, sin_minus. ring. Qed.
  (* the vertex lies on both tangent lines <V, n_j> = r_j *)
  Lemma vertex_on_both_lines : den R Rops a1 a2 <> 0 ->
    vx R Rops a1 a2 r1 r2 * cos a1 + vy R Rops a1 a2 r1 r2 * sin a1 = r1 /\
    vx R Rops a1 a2 r1 r2 * cos a2 + vy R Rops a1 a2 r1 r2 * sin a2 = r2.
  Proof.
    intros H. unfold vx, vy. rewrite den_R in *. cbn [add sub mul div opp cosf sinf Rops].
    assert (E1 : cos a1 * cos a1 = 1 - sin a1 * sin a1) by (pose proof (sin2_cos2 a1) as E; unfold Rsqr in E; lra).
    assert (E2 : cos a2 * cos a2 = 1 - sin a2 * sin a2) by (pose proof (sin2_cos2 a2) as E; unfold Rsqr in E; lra).
    split.
    - apply (Rmult_eq_reg_r (sin a2 * cos a1 - sin a1 * cos a2)); [|exact H].
      transitivity (((sin a2 * r1 - sin a1 * r2) * cos a1 + (- cos a2 * r1 + cos a1 * r2) * sin a1)); [field; exact H|].
      transitivity (r1 * (sin a2 * cos a1 - sin a1 * cos a2)); [ring|ring].
    - apply (Rmult_eq_reg_r (sin a2 * cos a1 - sin a1 * cos a2)); [|exact H].
      transitivity (((sin a2 * r1 - sin a1 * r2) * cos a2 + (- cos a2 * r1 + cos a1 * r2) * sin a2)); [field; exact H|].
      ring.
  Qed.
End Vertex.

(* ------------------------------------------------------------------ the angle grid *)
Section Grid.
  Variable N : nat.
  Variable deg_step : R.
  Hypothesis HN : (3 <= N)%nat.
  Hypothesis Hdiv : INR N * deg_step = 360.       (* the step divides 360 degrees *)
  Let s := rad_step R Rops deg_step.
  Notation ang := (angle R Rops s).

  Lemma s_eq : s = deg_step * PI / 180.
  Proof. reflexivity. Qed.
  Lemma angle_eq i : ang i = / 2 * PI + s - s * INR i.
  Proof. reflexivity. Qed.
  Lemma INR_N_pos : 0 < INR N.
  Proof. apply lt_0_INR. lia. Qed.
  Lemma full_turn : INR N * s = 2 * PI.
  Proof. rewrite s_eq. replace (INR N * (deg_step * PI / 180)) with ((INR N * deg_step) * PI / 180) by (field). rewrite Hdiv. field. Qed.
  Lemma s_pos : 0 < s.
  Proof. pose proof full_turn. pose proof INR_N_pos. pose proof PI_RGT_0. nra. Qed.
  Lemma s_lt_PI : s < PI.
  Proof.
    pose proof full_turn as E. pose proof PI_RGT_0.
    assert (3 <= INR N) by (replace 3 with (INR 3) by (simpl; ring); apply le_INR; lia). pose proof s_pos. nra.
  Qed.
  Lemma sin_s_pos : 0 < sin s.
  Proof. apply sin_gt_0; [apply s_pos|apply s_lt_PI]. Qed.

  (* successive normals advance by exactly the step (clockwise) ... *)
  Lemma angle_succ i : ang (S i) = ang i - s.
  Proof. rewrite !angle_eq, S_INR. ring. Qed.
  Lemma angle_from_first i : ang i = ang 0%nat - INR i * s.
  Proof. rewrite !angle_eq. simpl INR. ring. Qed.
  (* ... and the step from the last back to the first closes exactly one full turn *)
  Lemma angle_wrap : ang 0%nat = ang (N - 1)%nat - s + 2 * PI.
  Proof. rewrite !angle_eq, minus_INR by lia. simpl INR. pose proof full_turn. lra. Qed.

  Lemma den_interior i : den R Rops (ang i) (ang (S i)) <> 0.
  Proof. rewrite den_is_sin, angle_succ. replace (ang i - s - ang i) with (- s) by ring. rewrite sin_neg. pose proof sin_s_pos. lra. Qed.
  Lemma den_closing : den R Rops (ang (N - 1)%nat) (ang 0%nat) <> 0.
  Proof.
    rewrite den_is_sin, angle_wrap. replace (ang (N - 1)%nat - s + 2 * PI - ang (N - 1)%nat) with (2 * PI - s) by ring.
    rewrite sin_minus, sin_2PI, cos_2PI. pose proof sin_s_pos. lra.
  Qed.
  Lemma den_cyclic i : (i < N)%nat -> den R Rops (ang i) (ang (S i mod N)) <> 0.
  Proof.
    intros Hi. destruct (Nat.eq_dec (S i) N) as [E|E].
    - rewrite E, Nat.mod_same by lia. replace i with (N - 1)%nat by lia. apply den_closing.
    - rewrite Nat.mod_small by lia. apply den_interior.
  Qed.
End Grid.

(* ------------------------------------------------------------------ structure of the polygon *)
Section Polygon.
  Variable T : Type.
  Variable O : ops T.

  Lemma nth_tl {A} (l : list A) i d : nth i (tl l) d = nth (S i) l d.
  Proof. destruct l; [destruct i; reflexivity|reflexivity]. Qed.

  Lemma closing_length {A} (l : list A) : l <> [] -> length (tl l ++ firstn 1 l) = length l.
  Proof. destruct l as [|a l]; [congruence|]. intros _. cbn. rewrite app_length. cbn. lia. Qed.

  Lemma closing_nth {A} (l : list A) i d : (i < length l)%nat ->
    nth i (tl l ++ firstn 1 l) d = nth (S i mod length l) l d.
  Proof.
    intros Hi. destruct l as [|a l]; [cbn in Hi; lia|]. cbn [tl firstn length] in *.
    destruct (Nat.eq_dec i (length l)) as [E|E].
    - subst i. rewrite app_nth2 by lia. rewrite Nat.sub_diag, Nat.mod_same by lia. reflexivity.
    - rewrite app_nth1 by lia. rewrite Nat.mod_small by lia. reflexivity.
  Qed.

  Lemma polygon_length (ar : list (T * T)) : length (polygon_of T O ar) = length ar.
  Proof.
    unfold polygon_of. rewrite map_length, combine_length. destruct ar as [|p ar]; [reflexivity|].
    rewrite closing_length by congruence. apply Nat.min_id.
  Qed.

  Lemma polygon_nth (ar : list (T * T)) i d : (i < length ar)%nat ->
    nth i (polygon_of T O ar) (vertex T O d d) = vertex T O (nth i ar d) (nth (S i mod length ar) ar d).
  Proof.
    intros Hi. unfold polygon_of.
    change (vertex T O d d) with ((fun q : (T * T) * (T * T) => vertex T O (fst q) (snd q)) (d, d)).
    rewrite map_nth. rewrite combine_nth by (symmetry; apply closing_length; destruct ar; [cbn in Hi; lia|congruence]).
    cbn [fst snd]. rewrite closing_nth by exact Hi. reflexivity.
  Qed.

  Lemma lines_length C N s : length (lines T O C N s) = N.
  Proof. unfold lines, angles. rewrite !map_length, seq_length. reflexivity. Qed.

  Lemma lines_nth C N s i d : (i < N)%nat ->
    nth i (lines T O C N s) (d, C d) = (angle T O s i, C (angle T O s i)).
  Proof.
    intros Hi. unfold lines. change (d, C d) with ((fun a => (a, C a)) d). rewrite map_nth. f_equal.
    - unfold angles. rewrite (nth_indep _ d (angle T O s 0)) by (rewrite map_length, seq_length; exact Hi).
      rewrite map_nth, seq_nth by exact Hi. reflexivity.
    - f_equal. unfold angles. rewrite (nth_indep _ d (angle T O s 0)) by (rewrite map_length, seq_length; exact Hi).
      rewrite map_nth, seq_nth by exact Hi. reflexivity.
  Qed.

  (* vertex i of the contour is the intersection of tangent line i with tangent line (i+1) mod N *)
  Lemma ds_polygon_length C N deg_step : length (ds_polygon T O C N deg_step) = N.
  Proof. unfold ds_polygon. rewrite polygon_length. apply lines_length. Qed.

  Lemma ds_polygon_nth C N deg_step i d : (i < N)%nat ->
    let s := rad_step T O deg_step in
    nth i (ds_polygon T O C N deg_step) (vertex T O (d, C d) (d, C d)) =
    vertex T O (angle T O s i, C (angle T O s i)) (angle T O s (S i mod N), C (angle T O s (S i mod N))).
  Proof.
    intros Hi s. unfold ds_polygon. fold s. rewrite polygon_nth by (rewrite lines_length; exact Hi).
    rewrite lines_length. rewrite !lines_nth; auto. apply Nat.mod_upper_bound. lia.
  Qed.
End Polygon.

(* ------------------------------------------------------------------ edges on tangent lines *)
Definition on_line (V : R * R) (a q : R) : Prop := fst V * cos a + snd V * sin a = q.

Section Edges.
  Variable C : R -> R.
  Variable N : nat.
  Variable deg_step : R.
  Hypothesis HN : (3 <= N)%nat.
  Hypothesis Hdiv : INR N * deg_step = 360.
  Let s := rad_step R Rops deg_step.
  Let P := ds_polygon R Rops C N deg_step.

  Lemma nth_default_irrelevant i d1 d2 : (i < N)%nat -> nth i P d1 = nth i P d2.
  Proof. intros Hi. apply nth_indep. unfold P. rewrite ds_polygon_length. exact Hi. Qed.

  (* vertex i is on tangent line i and on tangent line (i+1) mod N *)
  Lemma vertex_on_its_lines i : (i < N)%nat ->
    on_line (nth i P (0, 0)) (angle R Rops s i) (C (angle R Rops s i)) /\
    on_line (nth i P (0, 0)) (angle R Rops s (S i mod N)) (C (angle R Rops s (S i mod N))).
  Proof.
    intros Hi. rewrite (nth_default_irrelevant i (0, 0) (vertex R Rops (0, C 0) (0, C 0)) Hi).
    unfold P. rewrite (ds_polygon_nth R Rops C N deg_step i 0 Hi). fold s. unfold on_line, vertex. cbn [fst snd].
    apply vertex_on_both_lines. apply den_cyclic; assumption.
  Qed.

  (* edge i runs from vertex (i-1) mod N to vertex i; both ends, hence the whole edge, are on tangent line i *)
  Lemma pred_mod i : (i < N)%nat -> (S ((i + N - 1) mod N) mod N = i)%nat /\ ((i + N - 1) mod N < N)%nat.
  Proof.
    intros Hi. split; [|apply Nat.mod_upper_bound; lia].
    destruct i as [|i].
    - replace (0 + N - 1)%nat with (N - 1)%nat by lia. rewrite (Nat.mod_small (N - 1)) by lia.
      replace (S (N - 1)) with N by lia. apply Nat.mod_same. lia.
    - replace (S i + N - 1)%nat with (i + 1 * N)%nat by lia. rewrite Nat.mod_add by lia.
      rewrite (Nat.mod_small i) by lia. apply Nat.mod_small. lia.
  Qed.

  Theorem edge_on_tangent_line i : (i < N)%nat ->
    let a := angle R Rops s i in
    on_line (nth ((i + N - 1) mod N) P (0, 0)) a (C a) /\ on_line (nth i P (0, 0)) a (C a).
  Proof.
    intros Hi a. destruct (pred_mod i Hi) as [E Hj]. split.
    - destruct (vertex_on_its_lines _ Hj) as [_ H2]. rewrite E in H2. exact H2.
    - apply (vertex_on_its_lines i Hi).
  Qed.

  (* every point of the segment between two points of a line is on that line *)
  Lemma segment_on_line V W a q t : on_line V a q -> on_line W a q ->
    on_line ((1 - t) * fst V + t * fst W, (1 - t) * snd V + t * snd W) a q.
  Proof.
    unfold on_line. cbn [fst snd]. intros H1 H2.
    transitivity ((1 - t) * (fst V * cos a + snd V * sin a) + t * (fst W * cos a + snd W * sin a)); [ring|].
    rewrite H1, H2. ring.
  Qed.
End Edges.

(* ------------------------------------------------------------------ the quantile contract and what it gives *)
(* np.quantile(z, p), method 'linear': with s the ascending order statistics, h = (n-1) p, k = floor h,
   the value is s_k + (h-k) (s_{k+1} - s_k) *)
Definition is_quantile (z : list R) (p q : R) : Prop :=
  exists s, Permutation s z /\ StronglySorted Rle s /\
    let h := INR (length z - 1) * p in
    exists k : nat, (INR k <= h < INR k + 1) /\ (k < length z)%nat /\
      q = nth k s 0 + (h - INR k) * (nth (S k) s (nth k s 0) - nth k s 0).

Section Quantile.
  Lemma filter_length_perm {A} (f : A -> bool) l l' : Permutation l l' -> length (filter f l) = length (filter f l').
  Proof.
    induction 1; cbn; auto.
    - destruct (f x); cbn; auto.
    - destruct (f x), (f y); cbn; auto.
    - congruence.
  Qed.

  Lemma sorted_nth_le : forall (s : list R) i j d, StronglySorted Rle s -> (i <= j < length s)%nat -> nth i s d <= nth j s d.
  Proof.
    induction s as [|a s IH]; intros i j d Hs Hij; [cbn in Hij; lia|].
    inversion Hs as [|? ? Hs' Hall]; subst. cbn [length] in Hij. destruct i as [|i], j as [|j]; cbn [nth].
    - lra.
    - rewrite Forall_forall in Hall. apply Hall. apply nth_In. lia.
    - exfalso. lia.
    - apply IH; auto. lia.
  Qed.

  Lemma filter_none {A} (f : A -> bool) l : (forall x, In x l -> f x = false) -> filter f l = [].
  Proof. induction l as [|a l IH]; intros H; [reflexivity|]. cbn. rewrite (H a) by (left; reflexivity). apply IH. intros x Hx. apply H. right. exact Hx. Qed.
  Lemma filter_all {A} (f : A -> bool) l : (forall x, In x l -> f x = true) -> filter f l = l.
  Proof. induction l as [|a l IH]; intros H; [reflexivity|]. cbn. rewrite (H a) by (left; reflexivity). f_equal. apply IH. intros x Hx. apply H. right. exact Hx. Qed.
  Lemma filter_length_le {A} (f : A -> bool) l : (length (filter f l) <= length l)%nat.
  Proof. induction l as [|a l IH]; [reflexivity|]. cbn. destruct (f a); cbn; lia. Qed.

  Lemma filter_length_split {A} (f : A -> bool) (l : list A) m :
    length (filter f l) = (length (filter f (firstn m l)) + length (filter f (skipn m l)))%nat.
  Proof. rewrite <- (firstn_skipn m l) at 1. rewrite filter_app, app_length. reflexivity. Qed.

  Lemma In_firstn_nth (s : list R) m x : In x (firstn m s) -> exists i, (i < m)%nat /\ (i < length s)%nat /\ nth i s 0 = x.
  Proof.
    revert m. induction s as [|a s IH]; intros m H; [rewrite firstn_nil in H; contradiction|].
    destruct m as [|m]; [contradiction|]. cbn in H. destruct H as [->|H].
    - exists 0%nat. cbn. repeat split; lia.
    - destruct (IH m H) as [i [H1 [H2 H3]]]. exists (S i). cbn. repeat split; auto; lia.
  Qed.
  Lemma In_skipn_nth (s : list R) m x : In x (skipn m s) -> exists i, (m <= i)%nat /\ (i < length s)%nat /\ nth i s 0 = x.
  Proof.
    revert m. induction s as [|a s IH]; intros m H; [rewrite skipn_nil in H; contradiction|].
    destruct m as [|m].
    - cbn [skipn] in H. destruct (In_nth _ _ 0 H) as [i [Hi E]]. exists i. repeat split; auto; lia.
    - cbn in H. destruct (IH m H) as [i [H1 [H2 H3]]]. exists (S i). cbn. repeat split; auto; lia.
  Qed.

  Variables (z : list R) (alpha q : R).
  Hypothesis HQ : is_quantile z (1 - alpha) q.

  (* "a fraction alpha of the sample lies beyond it", exact up to one observation:
     fewer than (n-1) alpha + 1 observations are strictly beyond q, at least (n-1) alpha are at or beyond q *)
  Theorem quantile_fraction_beyond :
    INR (count_gt R Rops z q) < INR (length z - 1) * alpha + 1 /\
    INR (length z - 1) * alpha <= INR (count_ge R Rops z q).
  Proof.
    destruct HQ as [s [HP [HS [k [[Hk1 Hk2] [Hkn Hq]]]]]].
    set (n := length z) in *. set (h := INR (n - 1) * (1 - alpha)) in *.
    assert (Hlen : length s = n) by (apply Permutation_length; exact HP).
    assert (Hn1 : INR (n - 1) = INR n - 1) by (rewrite minus_INR by lia; simpl; ring).
    assert (Hn0 : 0 <= INR (n - 1)) by apply pos_INR.
    (* s_k <= q <= s_{k+1} *)
    assert (Hd : nth k s 0 <= nth (S k) s (nth k s 0)).
    { destruct (Nat.lt_ge_cases (S k) (length s)) as [L|L].
      - rewrite (nth_indep s (nth k s 0) 0) by exact L. apply sorted_nth_le; [exact HS|lia].
      - rewrite (nth_overflow s (nth k s 0)) by exact L. lra. }
    assert (Hlo : nth k s 0 <= q) by (rewrite Hq; nra).
    assert (Hhi : q <= nth (S k) s (nth k s 0)) by (rewrite Hq; nra).
    unfold count_gt, count_ge. cbn [ltb leb Rops].
    rewrite <- (filter_length_perm (fun v => Rltb q v) s z HP), <- (filter_length_perm (fun v => Rleb q v) s z HP).
    rewrite (filter_length_split (fun v => Rltb q v) s (S k)), (filter_length_split (fun v => Rleb q v) s (S k)). split.
    - (* nothing among the first k+1 order statistics is beyond q *)
      rewrite (filter_none (fun v => Rltb q v) (firstn (S k) s)).
      + cbn [length plus].
        assert (L : (length (filter (fun v => Rltb q v) (skipn (S k) s)) <= n - S k)%nat).
        { etransitivity; [apply filter_length_le|]. rewrite skipn_length. lia. }
        apply le_INR in L. rewrite minus_INR in L by lia. rewrite S_INR in L. unfold h in Hk2. nra.
      + intros x Hx. destruct (In_firstn_nth _ _ _ Hx) as [i [Hi1 [Hi2 <-]]]. apply Rltb_false.
        apply (Rle_trans _ (nth k s 0)); [|exact Hlo]. apply sorted_nth_le; [exact HS|lia].
    - destruct (Nat.lt_ge_cases (S k) n) as [L|L].
      + (* all order statistics from k+1 on are at or beyond q *)
        rewrite (filter_all (fun v => Rleb q v) (skipn (S k) s)).
        * assert (E2 : INR (n - S k) = INR n - INR k - 1) by (rewrite minus_INR by lia; rewrite S_INR; ring).
          rewrite skipn_length, Hlen, plus_INR, E2.
          pose proof (pos_INR (length (filter (fun v : R => Rleb q v) (firstn (S k) s)))). unfold h in Hk1. nra.
        * intros x Hx. destruct (In_skipn_nth _ _ _ Hx) as [i [Hi1 [Hi2 <-]]]. apply Rleb_true.
          apply (Rle_trans _ (nth (S k) s (nth k s 0))); [exact Hhi|]. rewrite (nth_indep s (nth k s 0) 0) by lia.
          apply sorted_nth_le; [exact HS|lia].
      + (* k = n-1: h = n-1, so (n-1) alpha <= 0 *)
        assert (E : INR k = INR (n - 1)) by (f_equal; lia).
        pose proof (pos_INR (length (filter (fun v : R => Rleb q v) (firstn (S k) s)) + length (filter (fun v : R => Rleb q v) (skipn (S k) s)))).
        unfold h in Hk1. nra.
  Qed.
End Quantile.

(* ------------------------------------------------------------------ sample size *)
Section SampleSize.
  Variable T : Type.
  Variable O : ops T.
  Lemma used_sample_default {S} (draw : Z -> S) alpha :
    used_sample T O draw None None alpha = draw (trunc O (div O (c100 O) alpha)).
  Proof. reflexivity. Qed.
  Lemma used_sample_given_n {S} (draw : Z -> S) n alpha : used_sample T O draw None (Some n) alpha = draw n.
  Proof. reflexivity. Qed.
  Lemma used_sample_supplied {S} (draw : Z -> S) smp n alpha : used_sample T O draw (Some smp) n alpha = smp.
  Proof. reflexivity. Qed.
End SampleSize.

(* over the reals int(100/alpha) is the integer part: n <= 100/alpha < n+1 *)
Lemma sample_size_R alpha : 0 < alpha ->
  IZR (sample_size R Rops None alpha) <= 100 / alpha < IZR (sample_size R Rops None alpha) + 1.
Proof. intros _. cbn. pose proof (base_Int_part (100 / alpha)). lra. Qed.

(* ------------------------------------------------------------------ the unrepaired angle grid (lead L9), for the record:
   np.arange(pi/2 + 2s, -3pi/2 + s, -s) has, in exact arithmetic, N+1 entries b_0 .. b_N with b_N = b_0 - 2 pi, and the
   source pairs b_N with the appended copy of b_0: that denominator is exactly zero (the last vertex is 0/0 in exact
   arithmetic, rounding noise in binary64) and the vertex of lines (b_N, b_1) is never produced *)
Section Unrepaired.
  Variable N : nat.
  Hypothesis HN : (3 <= N)%nat.
  Let s := 2 * PI / INR N.
  Definition legacy_angle (k : nat) := PI / 2 + 2 * s - INR k * s.
  Lemma legacy_arange_quotient : ((- 3 * PI / 2 + s) - (PI / 2 + 2 * s)) / (- s) = INR (N + 1).
  Proof.
    rewrite plus_INR. simpl INR.
    assert (Hs : 0 < s) by (unfold s; apply Rdiv_lt_0_compat; [pose proof PI_RGT_0; lra|apply lt_0_INR; lia]).
    assert (E : 2 * PI = INR N * s). { unfold s. field. apply not_0_INR. lia. }
    apply (Rmult_eq_reg_r (- s)); [|lra]. unfold Rdiv. rewrite Rmult_assoc, Rinv_l by lra. lra.
  Qed.
  Lemma legacy_closing_vertex_degenerate : den R Rops (legacy_angle N) (legacy_angle 0) = 0.
  Proof.
    rewrite den_is_sin. unfold legacy_angle. simpl INR.
    assert (E : 2 * PI = INR N * s) by (unfold s; field; apply not_0_INR; lia).
    replace (PI / 2 + 2 * s - 0 * s - (PI / 2 + 2 * s - INR N * s)) with (2 * PI) by lra. apply sin_2PI.
  Qed.
End Unrepaired.

(* ------------------------------------------------------------------ the property clauses, assembled *)
Lemma edges_on_quantile_tangent_lines :
  forall (xs ys : list R) (alpha : R) (C : R -> R) (N : nat) (deg_step : R),
    (forall a, is_quantile (proj R Rops xs ys a) (1 - alpha) (C a)) ->
    (3 <= N)%nat -> INR N * deg_step = 360 ->
    let s := rad_step R Rops deg_step in
    let P := ds_polygon R Rops C N deg_step in
    length P = N /\
    forall i, (i < N)%nat ->
      let a := angle R Rops s i in
      let V := nth ((i + N - 1) mod N) P (0, 0) in
      let W := nth i P (0, 0) in
      is_quantile (proj R Rops xs ys a) (1 - alpha) (fst V * cos a + snd V * sin a) /\
      is_quantile (proj R Rops xs ys a) (1 - alpha) (fst W * cos a + snd W * sin a) /\
      forall t, on_line ((1 - t) * fst V + t * fst W, (1 - t) * snd V + t * snd W) a (C a).
Proof.
  intros xs ys alpha C N deg_step HC HN Hdiv s P. split; [apply ds_polygon_length|].
  intros i Hi a V W. destruct (edge_on_tangent_line C N deg_step HN Hdiv i Hi) as [H1 H2].
  fold s in H1, H2. fold P in H1, H2. fold a in H1, H2. fold V in H1. fold W in H2.
  unfold on_line in H1, H2. rewrite H1, H2. repeat split; try apply HC.
  intros t. apply segment_on_line; assumption.
Qed.

Lemma normals_cover_circle_once : forall (N : nat) (deg_step : R),
  (3 <= N)%nat -> INR N * deg_step = 360 ->
  let s := rad_step R Rops deg_step in
  s = deg_step * PI / 180 /\ INR N * s = 2 * PI /\
  length (angles R Rops N s) = N /\
  (forall i, angle R Rops s (S i) = angle R Rops s i - s) /\
  (forall i, angle R Rops s i = angle R Rops s 0 - INR i * s) /\
  angle R Rops s 0 = angle R Rops s (N - 1) - s + 2 * PI.
Proof.
  intros N deg_step HN Hdiv s. repeat split.
  - apply (full_turn N deg_step Hdiv).
  - unfold angles. rewrite map_length, seq_length. reflexivity.
  - apply angle_succ.
  - apply angle_from_first.
  - apply (angle_wrap N deg_step HN Hdiv).
Qed.

Lemma sample_size_clauses : forall T (O : ops T) S (draw : Z -> S) (smp : S) n n_opt alpha,
  used_sample T O draw None None alpha = draw (trunc O (div O (c100 O) alpha)) /\
  used_sample T O draw None (Some n) alpha = draw n /\
  used_sample T O draw (Some smp) n_opt alpha = smp.
Proof. intros. repeat split. Qed.

Lemma unrepaired_closing_vertex_degenerate : forall N, (3 <= N)%nat ->
  let s := 2 * PI / INR N in
  ((- 3 * PI / 2 + s) - (PI / 2 + 2 * s)) / (- s) = INR (N + 1) /\
  den R Rops (legacy_angle N N) (legacy_angle N 0) = 0.
Proof. intros N HN s. split; [apply legacy_arange_quotient|apply legacy_closing_vertex_degenerate]; exact HN. Qed.
