"""Development-time helper: write coq/props/CXX.v from a list of (theorem name, lemma, comment).
The full statement of every theorem is printed by Coq itself (`Check lemma`) and pasted, so that it is visible in
the props file and re-checked there (`Proof. exact lemma. Qed.`).  Usage: mk_props.py spec.json"""
import json, os, re, subprocess, sys
COQ = os.path.join(os.path.dirname(os.path.dirname(os.path.abspath(__file__))), "coq")
spec = json.load(open(sys.argv[1]))
hdr = spec["header"]
chk = hdr + "\nSet Printing Width 108.\n" + "\n".join('Check @%s.' % t["lemma"] for t in spec["theorems"]) + "\n"
open("/tmp/_mkprops.v", "w").write(chk)
out = subprocess.run(["coqc", "-q", "-Q", COQ, "V", "/tmp/_mkprops.v"], capture_output=True, text=True)
if out.returncode != 0:
    print(out.stdout, out.stderr); sys.exit(1)
blocks, cur = {}, None
for line in out.stdout.splitlines():
    m = re.match(r"^@?([A-Za-z0-9_'.]+)$", line)
    if m and any(t["lemma"].split(".")[-1] == m.group(1) or t["lemma"] == m.group(1) for t in spec["theorems"]):
        cur = m.group(1); blocks[cur] = []
    elif cur is not None:
        blocks[cur].append(line)
text = ["(* %s *)" % spec["title"], hdr, ""]
for t in spec["theorems"]:
    b = blocks[t["lemma"].split(".")[-1]] if t["lemma"] not in blocks else blocks[t["lemma"]]
    stmt = "\n".join(b)
    stmt = re.sub(r"^\s*:\s", "  ", stmt, count=1)
    text.append("(* %s *)" % t["comment"])
    text.append("Theorem %s :\n%s.\nProof. exact (@%s). Qed.\n" % (t["name"], stmt, t["lemma"]))
text.append(spec.get("extra", ""))
text += ["Print Assumptions %s." % t["name"] for t in spec["theorems"]]
open(os.path.join(COQ, "props", spec["file"]), "w").write("\n".join(text) + "\n")
print("wrote", spec["file"], len(spec["theorems"]), "theorems")
