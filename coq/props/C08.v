(* C08 -- a conditional distribution is its template evaluated at the dependence values (property theorems only) *)
From Coq Require Import Reals List String Bool.
From V.base Require Import Num.
From V.gen Require Import Distributions.
From V.model Require Import DistHand Conditional.
From V.proofs Require Import DistProofs DistDocProofs CondProofs.
Import ListNotations.
Local Open Scope R_scope.
Local Open Scope string_scope.
Local Open Scope list_scope.

(* the keyword arguments handed to the template are the template's parameter names, in order *)
Theorem C08_param_names :
  forall (T G F : Type) (app : F -> G -> T) (spec : list (string * pspec T F)) (g : G),
       map fst (get_param_values app spec g) = map fst spec.
Proof. exact (@gpv_names). Qed.

(* ... each dependent parameter at its dependence function's value at g, each fixed parameter at its fixed value *)
Theorem C08_param_values :
  forall (T G F : Type) (app : F -> G -> T) (spec : list (string * pspec T F)) 
         (g : G) (i : nat) (name : string) (p : pspec T F),
       nth_error spec i = Some (name, p) ->
       nth_error (get_param_values app spec g) i =
       Some (name, match p with
                   | Fixed _ v => v
                   | Dep _ f => app f g
                   end).
Proof. exact (@gpv_value). Qed.

(* pdf/cdf/icdf/draw_sample hand exactly theta(g) to the template method (with C05's override law: exactly an instance constructed with theta(g)) *)
Theorem C08_forwarders :
  forall (T G F : Type) (app : F -> G -> T) (X Y : Type) (m : X -> list (string * T) -> Y)
         (spec : list (string * pspec T F)) (x : X) (g : G),
       forward app m spec x g = m x (get_param_values app spec g).
Proof. exact (@forward_spec). Qed.

(* constructor bookkeeping: every template parameter, in order *)
Theorem C08_init_names :
  forall (T F : Type) (template : list (string * option T)) (parameters : list (string * F))
         (spec : list (string * pspec T F)),
       cond_init template parameters = Ok spec -> map fst spec = map fst template.
Proof. exact (@cond_init_names). Qed.

(* ... is fixed (template's f_ value) xor dependent (the supplied function) *)
Theorem C08_init_entries :
  forall (T F : Type) (template : list (string * option T)) (parameters : list (string * F))
         (spec : list (string * pspec T F)),
       cond_init template parameters = Ok spec ->
       forall (n : string) (p : pspec T F),
       In (n, p) spec ->
       match p with
       | Fixed _ v => In (n, Some v) template /\ lookup n parameters = None
       | Dep _ f => In (n, None) template /\ lookup n parameters = Some f
       end.
Proof. exact (@cond_init_entries). Qed.

(* vectorised = pointwise: element i of the parameter vectors is theta(g_i) (dependence functions act elementwise) *)
Theorem C08_vectorised_pointwise :
  forall (T G F : Type) (app : F -> G -> T) (d : T) (dg : G) (spec : list (string * pspec T F))
         (gs : list G) (i : nat),
       (i < Datatypes.length gs)%nat ->
       map
         (fun nv : string * (T + list T) =>
          (fst nv, match snd nv with
                   | inl v => v
                   | inr vs => nth i vs d
                   end))
         (map
            (fun np : string * pspec T F =>
             (fst np, match snd np with
                      | Fixed _ v => inl v
                      | Dep _ f => inr (app_vec T G F app f gs)
                      end)) spec) = get_param_values app spec (nth i gs dg).
Proof. exact (@vectorised_pointwise). Qed.

(* DependenceFunction(x) uses the current parameters in signature order *)
Theorem C08_depcall_default :
  forall (T X : Type) (func : X -> list T -> T) (params : list (string * T)) (x : X),
       dep_call func params x [] = Ok (func x (map snd params)).
Proof. exact (@dep_call_default). Qed.

(* ... and equals the call with those parameters given explicitly *)
Theorem C08_depcall_default_is_explicit :
  forall (T X : Type) (func : X -> list T -> T) (params : list (string * T)) (x : X),
       params <> [] -> dep_call func params x [] = dep_call func params x (map snd params).
Proof. exact (@dep_call_default_is_explicit). Qed.

(* wrong number of explicit parameters raises *)
Theorem C08_depcall_arity :
  forall (T X : Type) (func : X -> list T -> T) (params : list (string * T)) (x : X) (args : list T),
       args <> [] ->
       Datatypes.length args <> Datatypes.length params -> dep_call func params x args = Err "ValueError".
Proof. exact (@dep_call_arity). Qed.

(* parameters of a function with bound dependence functions: signature order, bound keys removed *)
Theorem C08_free_params :
  forall (T : Type) (sig : list (string * T)) (bound : list string) (kv : string * T),
       In kv (free_params sig bound) <-> In kv sig /\ ~ In (fst kv) bound.
Proof. exact (@free_params_spec). Qed.

(* DependenceFunction.__init__ (one functools.partial per keyword, in keyword order): every keyword that names a parameter of the user function is bound to ITS OWN dependence function, keywords that name no parameter bind nothing, earlier bindings are kept -- so a function chained on several inner functions evaluates each of them (at the same conditioning value, by C08_depcall_default) *)
Theorem C08_chained_binding :
  forall (F : Type) (sig : list string) (kwargs acc : list (string * F)) (k : string),
       NoDup (map fst kwargs) ->
       lookup k (dep_bind sig kwargs acc) =
       match lookup k kwargs with
       | Some d => if existsb (String.eqb k) sig then Some d else lookup k acc
       | None => lookup k acc
       end.
Proof. exact (@dep_bind_spec). Qed.

(* composition with the generated override law, Weibull template (the other families: C05_*_override) *)
Theorem C08_W_template_with_theta :
  forall (s : WeibullDistribution) (a b g : option R),
       WeibullDistribution_cdf s a b g = WeibullDistribution_cdf (W_with s a b g) None None None /\
       WeibullDistribution_icdf s a b g = WeibullDistribution_icdf (W_with s a b g) None None None /\
       WeibullDistribution_pdf s a b g = WeibullDistribution_pdf (W_with s a b g) None None None /\
       WeibullDistribution_draw_sample s a b g =
       WeibullDistribution_draw_sample (W_with s a b g) None None None.
Proof. exact (@W_override). Qed.

Example C08_nonvacuous :
  get_param_values (fun (f : R -> R) g => f g) [("alpha", Dep R (fun g => 2 * g)); ("beta", Fixed (R -> R) 3)] 5 = [("alpha", 2 * 5); ("beta", 3)].
Proof. reflexivity. Qed.

Print Assumptions C08_param_names.
Print Assumptions C08_param_values.
Print Assumptions C08_forwarders.
Print Assumptions C08_init_names.
Print Assumptions C08_init_entries.
Print Assumptions C08_vectorised_pointwise.
Print Assumptions C08_depcall_default.
Print Assumptions C08_depcall_default_is_explicit.
Print Assumptions C08_depcall_arity.
Print Assumptions C08_free_params.
Print Assumptions C08_chained_binding.
Print Assumptions C08_W_template_with_theta.
