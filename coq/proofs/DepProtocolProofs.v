(* Lemmas for C14: the callback protocol of DependenceFunction (history theorem for every dependency
   DAG and every sequence of fit calls), the bounds conversion, the feasible set handed to scipy, and
   uniqueness of linear least squares through the normal equations. *)
From Coq Require Import List Arith Lia Bool.
From V.model Require Import DepProtocol.
Import ListNotations.

Section Protocol.
  Variables P D : Type.
  Variable n : nat.
  Variable conds : nat -> list nat.
  (* conditioners are constructor arguments of their dependents: they exist earlier *)
  Hypothesis conds_lt : forall j i, In i (conds j) -> i < j.
  Variable F : nat -> D -> P -> (nat -> P) -> P.
  (* the optimiser of j reads, besides data and start value, only the parameters of j's conditioners *)
  Hypothesis F_ext : forall j d p e1 e2, (forall i, In i (conds j) -> e1 i = e2 i) -> F j d p e1 = F j d p e2.

  Notation st := (st P D).
  Notation do_fit := (do_fit P D n conds F).
  Notation fit := (fit P D n conds F).
  Notation callback := (callback P D conds).
  Notation fit_body := (fit_body P D).
  Notation dependents := (dependents n conds).
  Notation is_cond := (is_cond conds).
  Notation set_saved := (set_saved P D).
  Notation set_may := (set_may P D).
  Notation add_fitted := (add_fitted P D).
  Notation set_params := (set_params P D).
  Notation run := (run P D n conds F).
  Notation init := (init P D conds).
  Notation last_data := (last_data D).

  Definition fitted (s : st) k := may_fit s k = true /\ saved s k <> None.
  (* j carries the result of an optimiser run on its saved data against the CURRENT parameters of its conditioners *)
  Definition consistent (s : st) k := forall d, saved s k = Some d -> exists p, params s k = F k d p (params s).
  Definition good (s : st) k := fitted s k -> consistent s k.
  Definition fc_ok (s : st) := forall k c, In c (fitted_conds s k) -> In c (conds k).
  Definition notified (s : st) i := forall k, k < n -> In i (conds k) -> may_fit s k = true.
  Definition Q (s : st) i := fitted s i -> notified s i.

  Lemma is_cond_spec i j : is_cond i j = true <-> In i (conds j).
  Proof. unfold DepProtocol.is_cond. rewrite existsb_exists. split.
    - intros [x [Hx E]]. apply Nat.eqb_eq in E. now subst.
    - intros H. exists i. split; auto. apply Nat.eqb_refl. Qed.

  Lemma dependents_spec i k : In k (dependents i) <-> k < n /\ In i (conds k).
  Proof.
    unfold DepProtocol.dependents. rewrite in_flat_map. split.
    - intros [x [Hx Hin]]. apply in_map_iff in Hin. destruct Hin as [c [E Hc]]. subst x.
      apply filter_In in Hc. destruct Hc as [Hc He]. apply Nat.eqb_eq in He. subst c.
      apply in_seq in Hx. split; [lia|exact Hc].
    - intros [Hk Hi]. exists k. split; [apply in_seq; lia|]. apply in_map_iff. exists i. split; auto.
      apply filter_In. split; auto. apply Nat.eqb_refl.
  Qed.

  Lemma upd_same {A} (f : nat -> A) k v : upd f k v k = v.
  Proof. unfold upd. now rewrite Nat.eqb_refl. Qed.
  Lemma upd_other {A} (f : nat -> A) k v x : x <> k -> upd f k v x = f x.
  Proof. intros H. unfold upd. apply Nat.eqb_neq in H. now rewrite H. Qed.

  Lemma In_set_add c j l : In c (set_add j l) -> c = j \/ In c l.
  Proof. unfold set_add. destruct (existsb (Nat.eqb j) l); [auto|]. intros H. apply in_app_or in H.
    destruct H as [H|[H|[]]]; auto. Qed.

  (* the subset test as it is written can never fail: it compares the wrong way round *)
  Lemma subset_test_true (s : st) k j : fc_ok s -> In j (conds k) ->
    subset_as_written conds (fitted_conds (add_fitted s k j) k) k = true.
  Proof.
    intros Hfc Hj. unfold subset_as_written. apply forallb_forall. intros c Hc. apply is_cond_spec.
    cbn in Hc. rewrite upd_same in Hc. apply In_set_add in Hc. destruct Hc as [->|Hc]; auto.
  Qed.

  Lemma fc_ok_add s k j : fc_ok s -> In j (conds k) -> fc_ok (add_fitted s k j).
  Proof.
    intros Hfc Hj k' c Hc. cbn in Hc. destruct (Nat.eq_dec k' k) as [->|Hk].
    - rewrite upd_same in Hc. apply In_set_add in Hc. destruct Hc as [->|Hc]; auto.
    - rewrite upd_other in Hc by exact Hk. auto.
  Qed.

  (* callback, simplified under the invariant *)
  Lemma callback_eq rec k j (s : st) : In j (conds k) -> fc_ok s ->
    callback rec k j s =
    match saved s k with
    | Some d => rec k d (set_saved (set_may (add_fitted s k j) k) k d)
    | None => Ok (set_may (add_fitted s k j) k)
    end.
  Proof.
    intros Hj Hfc. unfold DepProtocol.callback.
    assert (E : is_cond j k = true) by (apply is_cond_spec; exact Hj). rewrite E. cbn [negb].
    rewrite (subset_test_true s k j Hfc Hj).
    change (saved (set_may (add_fitted s k j) k) k) with (saved s k).
    destruct (saved s k) as [d|]; [|reflexivity].
    unfold DepProtocol.fit_body. cbn. rewrite upd_same. reflexivity.
  Qed.

  (* goodness only looks at may_fit, saved data and the parameters *)
  Lemma good_transfer (s s' : st) m :
    (may_fit s' m = true -> may_fit s m = true) -> saved s' m = saved s m -> params s' = params s ->
    good s m -> good s' m.
  Proof.
    intros Hm Hs Hp G [Hf Hsv] d Hd. rewrite Hp. rewrite Hs in Hd, Hsv. apply G; auto. split; auto.
  Qed.

  (* changing params j keeps every node that does not read j good *)
  Lemma good_set_params s j d v m : m <> j -> ~ In j (conds m) -> good s m -> good (set_params s j d v) m.
  Proof.
    intros Hm Hj G [Hf Hs] d' Hd. cbn in *. rewrite upd_other by exact Hm.
    destruct (G (conj Hf Hs) d' Hd) as [p Hp]. exists p. rewrite Hp. apply F_ext.
    intros i Hi. rewrite upd_other; auto. intro; subst; auto.
  Qed.

  Definition loop_body (f j : nat) (acc : res st) (k : nat) : res st := bind acc (callback (do_fit f) k j).

  Lemma do_fit_unfold f j d s : do_fit (S f) j d s =
    fold_left (loop_body f j) (dependents j) (Ok (set_params s j d (F j d (params s j) (params s)))).
  Proof. reflexivity. Qed.

  Lemma fold_fuel f j l : fold_left (loop_body f j) l OutOfFuel = OutOfFuel.
  Proof. induction l; simpl; auto. Qed.
  Lemma fold_assert f j l : fold_left (loop_body f j) l AssertionFailed = AssertionFailed.
  Proof. induction l; simpl; auto. Qed.

  Lemma notified_mono (s s' : st) i : (forall k, may_fit s k = true -> may_fit s' k = true) -> notified s i -> notified s' i.
  Proof. intros M N k Hk Hi. apply M. apply N; auto. Qed.

  (* the state handed to the recursive fit of dependent k inside callback *)
  Definition cb_state (s : st) k j d := set_saved (set_may (add_fitted s k j) k) k d.

  Theorem do_fit_spec : forall fuel j d s s', do_fit fuel j d s = Ok s' -> j < n ->
      saved s j = Some d -> fc_ok s ->
      (forall k, saved s' k = saved s k) /\
      (forall k, may_fit s k = true -> may_fit s' k = true) /\
      good s' j /\
      (forall m, m <> j -> m < n -> good s m -> good s' m) /\
      notified s' j /\
      (forall i, i <> j -> i < n -> Q s i -> Q s' i) /\
      fc_ok s'.
  Proof.
    induction fuel as [|f IH]; intros j d s s' H Hjn Hsj Hfc; [discriminate|].
    rewrite do_fit_unfold in H.
    set (s1 := set_params s j d (F j d (params s j) (params s))) in *.
    assert (L : forall rest acc r, fold_left (loop_body f j) rest (Ok acc) = Ok r ->
              incl rest (dependents j) ->
              (forall k, saved acc k = saved s k) ->
              (forall k, may_fit s k = true -> may_fit acc k = true) ->
              fc_ok acc ->
              good acc j ->
              (forall m, m <> j -> m < n -> ~ In m rest -> (In m (dependents j) \/ good s m) -> good acc m) ->
              (forall k, In k (dependents j) -> ~ In k rest -> may_fit acc k = true) ->
              (forall i, i <> j -> i < n -> Q s i -> Q acc i) ->
              (forall k, saved r k = saved s k) /\
              (forall k, may_fit s k = true -> may_fit r k = true) /\
              good r j /\
              (forall m, m <> j -> m < n -> (In m (dependents j) \/ good s m) -> good r m) /\
              (forall k, In k (dependents j) -> may_fit r k = true) /\
              (forall i, i <> j -> i < n -> Q s i -> Q r i) /\
              fc_ok r).
    { induction rest as [|k rest IHr]; intros acc r Hr Hincl Hsv Hmf Hfa Gj Gm Hnt HQ.
      - simpl in Hr. inversion Hr; subst. repeat split; auto.
      - assert (Hkd : In k (dependents j)) by (apply Hincl; left; reflexivity).
        assert (Hkn : k < n) by (apply dependents_spec in Hkd; tauto).
        assert (Hjk : In j (conds k)) by (apply dependents_spec in Hkd; tauto).
        assert (Hkj : k <> j) by (apply conds_lt in Hjk; lia).
        assert (Hincl' : incl rest (dependents j)) by (intros x Hx; apply Hincl; right; exact Hx).
        cbn [fold_left] in Hr. unfold loop_body at 2 in Hr. cbn [bind] in Hr.
        rewrite (callback_eq _ k j acc Hjk Hfa) in Hr.
        assert (Hfa' : fc_ok (add_fitted acc k j)) by (apply fc_ok_add; auto).
        destruct (saved acc k) as [dk|] eqn:Hk.
        + fold (cb_state acc k j dk) in Hr.
          assert (Hfc3 : fc_ok (cb_state acc k j dk)) by exact Hfa'.
          assert (Hs3 : saved (cb_state acc k j dk) k = Some dk) by (cbn; apply upd_same).
          assert (Hsv3 : forall x, saved (cb_state acc k j dk) x = saved acc x).
          { intros x. cbn. destruct (Nat.eq_dec x k) as [->|Hx]; [rewrite upd_same; auto|rewrite upd_other; auto]. }
          assert (Hmf3 : forall x, may_fit acc x = true -> may_fit (cb_state acc k j dk) x = true).
          { intros x Hx. cbn. unfold upd. destruct (Nat.eqb x k); auto. }
          assert (G3 : forall m, m <> k -> good acc m -> good (cb_state acc k j dk) m).
          { intros m Hm G. apply (good_transfer acc); auto. cbn. rewrite upd_other by exact Hm. auto. }
          destruct (do_fit f k dk (cb_state acc k j dk)) as [a2| |] eqn:Hd;
            [|rewrite fold_fuel in Hr; discriminate|rewrite fold_assert in Hr; discriminate].
          destruct (IH _ _ _ _ Hd Hkn Hs3 Hfc3) as [A1 [A2 [A3 [A4 [A5 [A6 A7]]]]]].
          assert (Mono : forall x, may_fit acc x = true -> may_fit a2 x = true) by (intros x Hx; apply A2; auto).
          apply (IHr a2 r Hr Hincl').
          * intros x. rewrite A1, Hsv3. apply Hsv.
          * intros x Hx. apply Mono. auto.
          * exact A7.
          * apply A4; auto.
          * intros m Hmj Hmn Hnr Hor. destruct (Nat.eq_dec m k) as [->|Hmk]; [exact A3|].
            apply A4; auto. apply G3; auto. apply Gm; auto. simpl. intros [E|E]; [congruence|auto].
          * intros x Hx Hnr. destruct (Nat.eq_dec x k) as [->|Hxk].
            { apply A2. cbn. apply upd_same. }
            apply Mono. apply Hnt; auto. simpl. intros [E|E]; [congruence|auto].
          * intros i Hij Hin Hq. destruct (Nat.eq_dec i k) as [->|Hik].
            { intros _. exact A5. }
            apply A6; auto. intros [F1 F2]. rewrite Hsv3 in F2. cbn in F1. rewrite upd_other in F1 by exact Hik.
            apply (notified_mono acc); [exact Hmf3|]. apply HQ; auto. split; auto.
        + set (s2 := DepProtocol.set_may P D (DepProtocol.add_fitted P D acc k j) k) in *.
          assert (Mono : forall x, may_fit acc x = true -> may_fit s2 x = true).
          { intros x Hx. cbn. unfold upd. destruct (Nat.eqb x k); auto. }
          apply (IHr s2 r Hr Hincl').
          * intros x. cbn. apply Hsv.
          * intros x Hx. apply Mono; auto.
          * exact Hfa'.
          * apply (good_transfer acc); auto. cbn. rewrite upd_other; auto.
          * intros m Hmj Hmn Hnr Hor. destruct (Nat.eq_dec m k) as [->|Hmk].
            { intros [_ Hs]. exfalso. apply Hs. exact Hk. }
            apply (good_transfer acc); auto; [cbn; rewrite upd_other; auto|].
            apply Gm; auto. simpl. intros [E|E]; [congruence|auto].
          * intros x Hx Hnr. destruct (Nat.eq_dec x k) as [->|Hxk].
            { cbn. apply upd_same. }
            apply Mono. apply Hnt; auto. simpl. intros [E|E]; [congruence|auto].
          * intros i Hij Hin Hq. destruct (Nat.eq_dec i k) as [->|Hik].
            { intros [_ Hs]. exfalso. apply Hs. exact Hk. }
            intros [F1 F2]. cbn in F1, F2. rewrite upd_other in F1 by exact Hik.
            apply (notified_mono acc); [exact Mono|]. apply HQ; auto. split; auto. }
    destruct (L (dependents j) s1 s' H) as [B1 [B2 [B3 [B4 [B5 [B6 B7]]]]]].
    - apply incl_refl.
    - intros k. reflexivity.
    - intros k Hk. exact Hk.
    - exact Hfc.
    - intros [Hf Hs] d' Hd'. cbn in *. rewrite Hsj in Hd'. inversion Hd'; subst d'.
      exists (params s j). rewrite upd_same. apply F_ext. intros i Hi. rewrite upd_other; auto.
      apply conds_lt in Hi. lia.
    - intros m Hmj Hmn Hnot [Hin|G]; [contradiction|].
      apply good_set_params; auto. intro Hc. apply Hnot. apply dependents_spec. split; auto.
    - intros k Hk Hnot. contradiction.
    - intros i Hij Hin Hq. exact Hq.
    - repeat split; auto.
      intros k Hk Hi. apply B5. apply dependents_spec. split; auto.
  Qed.

  (* enough fuel: ids strictly increase along callbacks; the assertion in callback never fires *)
  Lemma do_fit_some : forall fuel j d (s : st), n < fuel + j -> j < n -> exists s', do_fit fuel j d s = Ok s'.
  Proof.
    induction fuel as [|f IH]; intros j d s Hf Hj; [lia|].
    rewrite do_fit_unfold.
    set (s1 := set_params s j d (F j d (params s j) (params s))). clearbody s1.
    assert (Hd : forall k, In k (dependents j) -> j < k /\ k < n /\ In j (conds k)).
    { intros k Hk. apply dependents_spec in Hk. destruct Hk as [A B]. pose proof (conds_lt _ _ B). repeat split; auto. }
    revert s1. induction (dependents j) as [|k l IHl]; intros s1; [simpl; eauto|].
    cbn [fold_left]. unfold loop_body at 2. cbn [bind].
    destruct (Hd k (or_introl eq_refl)) as [K1 [K2 K3]].
    assert (IHl' : forall s1, exists s', fold_left (loop_body f j) l (Ok s1) = Ok s').
    { apply IHl. intros x Hx. apply Hd. right. exact Hx. }
    unfold DepProtocol.callback.
    assert (E : is_cond j k = true) by (apply is_cond_spec; exact K3). rewrite E. cbn [negb].
    destruct (subset_as_written conds _ k); [|apply IHl'].
    destruct (saved _ k) as [dk|]; [|apply IHl'].
    unfold DepProtocol.fit_body. destruct (may_fit _ k); [|apply IHl'].
    destruct (IH k dk (DepProtocol.set_saved P D (DepProtocol.set_may P D (DepProtocol.add_fitted P D s1 k j) k) k dk)) as [s2 E2]; [lia|lia|].
    rewrite E2. apply IHl'.
  Qed.

  (* ---------- histories ---------- *)
  Variable p0 : nat -> P.

  Definition Inv (s : st) := (forall k, k < n -> good s k) /\ (forall i, i < n -> Q s i) /\
                      (forall k, conds k = [] -> may_fit s k = true) /\ fc_ok s.

  Lemma Inv_init : Inv (init p0).
  Proof. repeat split.
    - intros k _ [_ Hs]. cbn in Hs. congruence.
    - intros i _ [_ Hs]. cbn in Hs. congruence.
    - intros k Hk. cbn. now rewrite Hk.
    - intros k c Hc. cbn in Hc. contradiction. Qed.

  Lemma fit_Inv j d s : j < n -> Inv s -> exists s', fit j d s = Ok s' /\ Inv s' /\
      saved s' j = Some d /\ (forall k, k <> j -> saved s' k = saved s k).
  Proof.
    intros Hj [I1 [I2 [I3 I4]]]. unfold DepProtocol.fit, DepProtocol.fit_body. set (s0 := set_saved s j d).
    assert (S0 : saved s0 j = Some d) by (cbn; apply upd_same).
    assert (S0' : forall k, k <> j -> saved s0 k = saved s k) by (intros k Hk; cbn; apply upd_other; exact Hk).
    assert (G0 : forall m, m <> j -> m < n -> good s0 m).
    { intros m Hm Hmn. apply (good_transfer s); auto. }
    assert (Q0 : forall i, i <> j -> i < n -> Q s0 i).
    { intros i Hi Hin [Hf Hs]. cbn in Hs. rewrite upd_other in Hs by exact Hi. apply (I2 i Hin (conj Hf Hs)). }
    assert (F0 : fc_ok s0) by exact I4.
    destruct (may_fit s0 j) eqn:Hm.
    - destruct (do_fit_some (S n) j d s0) as [s' E]; [lia|exact Hj|]. exists s'. split; [exact E|].
      destruct (do_fit_spec _ _ _ _ _ E Hj S0 F0) as [A1 [A2 [A3 [A4 [A5 [A6 A7]]]]]].
      split; [|split].
      + repeat split.
        * intros k Hk. destruct (Nat.eq_dec k j) as [->|Hkj]; [exact A3|]. apply A4; auto.
        * intros i Hi. destruct (Nat.eq_dec i j) as [->|Hij].
          { intros _. exact A5. }
          apply A6; auto.
        * intros k Hk. apply A2. cbn. apply I3. exact Hk.
        * exact A7.
      + rewrite A1. exact S0.
      + intros k Hk. rewrite A1. apply S0'. exact Hk.
    - exists s0. split; [reflexivity|]. split; [|split; auto].
      repeat split.
      + intros k Hk. destruct (Nat.eq_dec k j) as [->|Hkj]; [|apply G0; auto]. intros [Hf _]. congruence.
      + intros i Hi. destruct (Nat.eq_dec i j) as [->|Hij]; [|apply Q0; auto]. intros [Hf _]. congruence.
      + intros k Hk. cbn. apply I3. exact Hk.
      + exact F0.
  Qed.

  Lemma run_Inv : forall ops s, (forall j d, In (j, d) ops -> j < n) -> Inv s ->
    exists s', run ops s = Ok s' /\ Inv s' /\ (forall j, saved s' j = last_data ops j (saved s j)).
  Proof.
    induction ops as [|[j d] ops IH]; intros s Hb I.
    - exists s. simpl. auto.
    - destruct (fit_Inv j d s) as [s1 [E [I1 [S1 S2]]]]; [apply (Hb j d); left; reflexivity|exact I|].
      destruct (IH s1) as [s' [R [I' L]]]; [intros; eapply Hb; right; eauto|exact I1|].
      exists s'. simpl. rewrite E. cbn [bind]. split; [exact R|]. split; [exact I'|].
      intros k. rewrite L. f_equal. destruct (Nat.eqb j k) eqn:Ejk.
      + apply Nat.eqb_eq in Ejk. subst. exact S1.
      + apply Nat.eqb_neq in Ejk. apply S2. auto.
  Qed.

  (* no history runs out of fuel or trips the assertion *)
  Theorem run_ok : forall ops, (forall j d, In (j, d) ops -> j < n) -> exists s', run ops (init p0) = Ok s'.
  Proof. intros ops Hb. destruct (run_Inv ops (init p0) Hb Inv_init) as [s' [R _]]. eauto. Qed.

  (* HISTORY THEOREM: whatever the order of fit calls (and re-fits), once every function has been
     given data, each ends with the parameters of an optimiser run on its LAST data against the FINAL
     parameters of its conditioners. *)
  Theorem history : forall ops s', (forall j d, In (j, d) ops -> j < n) ->
    run ops (init p0) = Ok s' ->
    (forall j, j < n -> last_data ops j None <> None) ->
    forall j, j < n -> exists d p, last_data ops j None = Some d /\ params s' j = F j d p (params s').
  Proof.
    intros ops s' Hb R All. destruct (run_Inv ops (init p0) Hb Inv_init) as [s2 [R2 [[I1 [I2 [I3 I4]]] L]]].
    rewrite R in R2. inversion R2; subst s2. clear R2.
    assert (Sv : forall j, saved s' j = last_data ops j None) by (intros j; rewrite L; reflexivity).
    assert (Fit : forall j, j < n -> fitted s' j).
    { intros j. induction j as [j IHj] using lt_wf_ind. intros Hj. split.
      - destruct (conds j) as [|i l] eqn:Ec; [apply I3; exact Ec|].
        assert (Hi : In i (conds j)) by (rewrite Ec; left; reflexivity).
        pose proof (conds_lt _ _ Hi) as Hlt.
        apply (I2 i); [lia|apply IHj; lia|exact Hj|exact Hi].
      - rewrite Sv. apply All. exact Hj. }
    intros j Hj. destruct (last_data ops j None) as [d|] eqn:E; [|exfalso; apply (All j Hj); exact E].
    destruct (I1 j Hj (Fit j Hj) d) as [p Hp]; [rewrite Sv; exact E|].
    exists d, p. split; [reflexivity|exact Hp].
  Qed.

  (* the subset test never blocks in a reachable state *)
  Theorem subset_test_vacuous : forall ops s, (forall j d, In (j, d) ops -> j < n) -> run ops (init p0) = Ok s ->
    forall k c, In c (conds k) -> subset_as_written conds (fitted_conds (add_fitted s k c) k) k = true.
  Proof.
    intros ops s Hb R k c Hc. destruct (run_Inv ops (init p0) Hb Inv_init) as [s2 [R2 [[_ [_ [_ I4]]] _]]].
    rewrite R in R2. inversion R2; subst s2. apply subset_test_true; auto.
  Qed.

  (* a function that is never given data keeps its start parameters, whatever else is fitted around it *)
  Lemma do_fit_leaves_dataless : forall fuel j d (s s' : st), do_fit fuel j d s = Ok s' ->
    (forall x, saved s' x = saved s x) /\ (forall k, k <> j -> saved s k = None -> params s' k = params s k).
  Proof.
    induction fuel as [|f IH]; intros j d s s' H; [discriminate|]. rewrite do_fit_unfold in H.
    set (s1 := set_params s j d (F j d (params s j) (params s))) in *.
    assert (L : forall rest acc r, fold_left (loop_body f j) rest (Ok acc) = Ok r ->
              (forall x, saved r x = saved acc x) /\ (forall k, saved acc k = None -> params r k = params acc k)).
    { induction rest as [|k rest IHr]; intros acc r Hr; [inversion Hr; subst; auto|].
      cbn [fold_left] in Hr. unfold loop_body at 2 in Hr. cbn [bind] in Hr.
      destruct (callback (do_fit f) k j acc) as [a2| |] eqn:Hc;
        [|rewrite fold_fuel in Hr; discriminate|rewrite fold_assert in Hr; discriminate].
      assert (C : (forall x, saved a2 x = saved acc x) /\ (forall k0, saved acc k0 = None -> params a2 k0 = params acc k0)).
      { unfold DepProtocol.callback in Hc. destruct (negb (is_cond j k)); [discriminate|].
        destruct (subset_as_written conds _ k); [|inversion Hc; subst; cbn; auto].
        change (saved (set_may (add_fitted acc k j) k) k) with (saved acc k) in Hc.
        destruct (saved acc k) as [dk|] eqn:Hk; [|inversion Hc; subst; cbn; auto].
        unfold DepProtocol.fit_body in Hc. cbn in Hc. rewrite upd_same in Hc.
        destruct (IH _ _ _ _ Hc) as [A B]. split.
        - intros x. rewrite A. cbn. destruct (Nat.eq_dec x k) as [->|Hx]; [rewrite upd_same; auto|rewrite upd_other; auto].
        - intros k0 Hk0. rewrite B; [reflexivity|congruence|]. cbn. rewrite upd_other; [exact Hk0|congruence]. }
      destruct C as [C1 C2]. destruct (IHr a2 r Hr) as [D1 D2]. split.
      - intros x. rewrite D1. apply C1.
      - intros k0 Hk0. rewrite D2; [apply C2; exact Hk0|]. rewrite C1. exact Hk0. }
    destruct (L _ _ _ H) as [A B]. split; [exact A|].
    intros k Hk Hs. rewrite B; [cbn; apply upd_other; exact Hk|exact Hs].
  Qed.

  Lemma last_data_none : forall ops j acc, last_data ops j acc = None -> acc = None.
  Proof. induction ops as [|[k d] ops IH]; intros j acc H; [exact H|]. cbn in H. apply IH in H.
    destruct (Nat.eqb k j); [discriminate|exact H]. Qed.

  Theorem dataless_keeps_start : forall ops (s s' : st), run ops s = Ok s' ->
    forall j, last_data ops j (saved s j) = None -> params s' j = params s j.
  Proof.
    induction ops as [|[k d] ops IH]; intros s s' R j H; [inversion R; reflexivity|].
    cbn [DepProtocol.run] in R. destruct (fit k d s) as [s1| |] eqn:Ef; try discriminate. cbn [bind] in R.
    cbn [DepProtocol.last_data] in H. destruct (Nat.eqb k j) eqn:Ekj; [apply last_data_none in H; discriminate|].
    apply Nat.eqb_neq in Ekj. pose proof (last_data_none _ _ _ H) as Hs.
    assert (S1 : saved s1 j = saved s j /\ params s1 j = params s j).
    { unfold DepProtocol.fit, DepProtocol.fit_body in Ef. destruct (may_fit (set_saved s k d) k).
      - destruct (do_fit_leaves_dataless _ _ _ _ _ Ef) as [A B]. split.
        + rewrite A. cbn. apply upd_other. auto.
        + rewrite B; [reflexivity|auto|]. cbn. rewrite upd_other; auto.
      - inversion Ef; subst. cbn. split; [apply upd_other; auto|reflexivity]. }
    destruct S1 as [S1 S2]. rewrite <- S2. apply (IH s1 s' R j). rewrite S1. exact H.
  Qed.

  (* ================================================================================================
     TRANSITIVE READING.  The real optimiser of j evaluates j's conditioners, which evaluate THEIR conditioners
     (functools.partial all the way down): it reads the parameters of every ANCESTOR of j, not only of the direct
     conditioners.  The development below assumes only that (F_extT), which is implied by F_ext, and proves the
     history theorem for every function all of whose ancestors were given data. *)
  Inductive anc : nat -> nat -> Prop :=
  | anc_direct i m : In i (conds m) -> anc i m
  | anc_up i c m : In c (conds m) -> anc i c -> anc i m.

  Lemma anc_lt i m : anc i m -> i < m.
  Proof. induction 1 as [i m H|i c m H _ IH]; [apply conds_lt; exact H|]. apply conds_lt in H. lia. Qed.

  Lemma anc_trans i k m : anc i k -> anc k m -> anc i m.
  Proof. intros A B. induction B as [k m H|k c m H _ IH]; [eapply anc_up; eauto|]. eapply anc_up; [exact H|]. apply IH. exact A. Qed.

  Definition dstar (k m : nat) : Prop := m = k \/ anc k m.      (* m is k or a descendant of k *)

  (* a strict descendant of j is a direct dependent of j or a descendant of one *)
  Lemma anc_first j m : anc j m -> m < n -> exists k, In k (dependents j) /\ dstar k m.
  Proof.
    induction 1 as [j m H|j c m H A IH]; intros Hm.
    - exists m. split; [apply dependents_spec; auto|left; reflexivity].
    - pose proof (conds_lt _ _ H) as Hc. destruct IH as [k [Hk Dk]]; [lia|]. exists k. split; [exact Hk|].
      right. destruct Dk as [->|Dk]; [apply anc_direct; exact H|eapply anc_up; eauto].
  Qed.

  Lemma anc_dec i : forall m, anc i m \/ ~ anc i m.
  Proof.
    intros m. induction m as [m IH] using lt_wf_ind.
    assert (L : forall l, (forall c, In c l -> c < m) -> (exists c, In c l /\ (c = i \/ anc i c)) \/ ~ (exists c, In c l /\ (c = i \/ anc i c))).
    { induction l as [|c l IHl]; intros Hl; [right; intros [c [[] _]]|].
      destruct (Nat.eq_dec c i) as [->|Hci]; [left; exists i; split; [left; reflexivity|left; reflexivity]|].
      destruct (IH c (Hl c (or_introl eq_refl))) as [A|A]; [left; exists c; split; [left; reflexivity|right; exact A]|].
      destruct IHl as [[c' [Hc' B]]|B]; [intros x Hx; apply Hl; right; exact Hx|left; exists c'; split; [right; exact Hc'|exact B]|].
      right. intros [c' [Hc' E]]. destruct Hc' as [<-|Hc'].
      - destruct E as [E|E]; [congruence|exact (A E)].
      - apply B. exists c'. split; auto. }
    destruct (L (conds m) (fun c Hc => conds_lt _ _ Hc)) as [[c [Hc [->|A]]]|N].
    - left. apply anc_direct. exact Hc.
    - left. eapply anc_up; eauto.
    - right. intros A. apply N. inversion A as [i' m' H|i' c m' H A']; subst; [exists i; auto|exists c; auto].
  Qed.

  Lemma dstar_dec k m : dstar k m \/ ~ dstar k m.
  Proof. unfold dstar. destruct (Nat.eq_dec m k) as [->|H]; [left; left; reflexivity|]. destruct (anc_dec k m) as [A|A]; [left; right; exact A|right; tauto]. Qed.

  Hypothesis F_extT : forall j d p e1 e2, (forall i, anc i j -> e1 i = e2 i) -> F j d p e1 = F j d p e2.

  (* every function that j's optimiser reads (j's ancestors) and j itself have been handed data *)
  Definition cl (s : st) m := forall a, dstar a m -> saved s a <> None.
  Definition goodT (s : st) m := fitted s m -> cl s m -> consistent s m.

  Lemma goodT_transfer (s s' : st) m :
    (may_fit s' m = true -> may_fit s m = true) -> (forall a, dstar a m -> saved s' a = saved s a) -> params s' = params s ->
    goodT s m -> goodT s' m.
  Proof.
    intros Hm Hs Hp G [Hf Hsv] Hc d Hd. rewrite Hp.
    assert (Em : saved s' m = saved s m) by (apply Hs; left; reflexivity). rewrite Em in Hd, Hsv.
    apply G; auto; [split; auto|]. intros a Ha. rewrite <- (Hs a Ha). apply Hc. exact Ha.
  Qed.

  Lemma goodT_set_params s j d v m : m <> j -> ~ anc j m -> goodT s m -> goodT (set_params s j d v) m.
  Proof.
    intros Hm Hj G Hf Hc d' Hd. cbn in *. rewrite upd_other by exact Hm.
    destruct (G Hf Hc d' Hd) as [p Hp]. exists p. rewrite Hp. apply F_extT.
    intros i Hi. rewrite upd_other; auto. intro; subst; auto.
  Qed.

  Theorem do_fit_specT : forall fuel j d s s', do_fit fuel j d s = Ok s' -> j < n ->
      saved s j = Some d -> fc_ok s ->
      (forall k, saved s' k = saved s k) /\
      (forall k, may_fit s k = true -> may_fit s' k = true) /\
      (forall m, m < n -> (goodT s m \/ dstar j m) -> goodT s' m) /\
      notified s' j /\
      (forall i, i <> j -> i < n -> Q s i -> Q s' i) /\
      fc_ok s'.
  Proof.
    induction fuel as [|f IH]; intros j d s s' H Hjn Hsj Hfc; [discriminate|].
    rewrite do_fit_unfold in H.
    set (s1 := set_params s j d (F j d (params s j) (params s))) in *.
    assert (L : forall rest acc r, fold_left (loop_body f j) rest (Ok acc) = Ok r ->
              incl rest (dependents j) ->
              (forall k, saved acc k = saved s k) ->
              (forall k, may_fit s k = true -> may_fit acc k = true) ->
              fc_ok acc ->
              (forall m, m < n -> (goodT s m \/ dstar j m) -> (forall k, In k rest -> ~ dstar k m) -> goodT acc m) ->
              (forall k, In k (dependents j) -> ~ In k rest -> may_fit acc k = true) ->
              (forall i, i <> j -> i < n -> Q s i -> Q acc i) ->
              (forall k, saved r k = saved s k) /\
              (forall k, may_fit s k = true -> may_fit r k = true) /\
              (forall m, m < n -> (goodT s m \/ dstar j m) -> goodT r m) /\
              (forall k, In k (dependents j) -> may_fit r k = true) /\
              (forall i, i <> j -> i < n -> Q s i -> Q r i) /\
              fc_ok r).
    { induction rest as [|k rest IHr]; intros acc r Hr Hincl Hsv Hmf Hfa Gm Hnt HQ.
      - simpl in Hr. inversion Hr; subst. repeat split; auto.
      - assert (Hkd : In k (dependents j)) by (apply Hincl; left; reflexivity).
        assert (Hkn : k < n) by (apply dependents_spec in Hkd; tauto).
        assert (Hjk : In j (conds k)) by (apply dependents_spec in Hkd; tauto).
        assert (Hkj : k <> j) by (apply conds_lt in Hjk; lia).
        assert (Hincl' : incl rest (dependents j)) by (intros x Hx; apply Hincl; right; exact Hx).
        cbn [fold_left] in Hr. unfold loop_body at 2 in Hr. cbn [bind] in Hr.
        rewrite (callback_eq _ k j acc Hjk Hfa) in Hr.
        assert (Hfa' : fc_ok (add_fitted acc k j)) by (apply fc_ok_add; auto).
        destruct (saved acc k) as [dk|] eqn:Hk.
        + fold (cb_state acc k j dk) in Hr.
          assert (Hfc3 : fc_ok (cb_state acc k j dk)) by exact Hfa'.
          assert (Hs3 : saved (cb_state acc k j dk) k = Some dk) by (cbn; apply upd_same).
          assert (Hsv3 : forall x, saved (cb_state acc k j dk) x = saved acc x).
          { intros x. cbn. destruct (Nat.eq_dec x k) as [->|Hx]; [rewrite upd_same; auto|rewrite upd_other; auto]. }
          assert (Hmf3 : forall x, may_fit acc x = true -> may_fit (cb_state acc k j dk) x = true).
          { intros x Hx. cbn. unfold upd. destruct (Nat.eqb x k); auto. }
          assert (G3 : forall m, m <> k -> goodT acc m -> goodT (cb_state acc k j dk) m).
          { intros m Hm G. apply (goodT_transfer acc); auto. cbn. rewrite upd_other by exact Hm. auto. }
          destruct (do_fit f k dk (cb_state acc k j dk)) as [a2| |] eqn:Hd;
            [|rewrite fold_fuel in Hr; discriminate|rewrite fold_assert in Hr; discriminate].
          destruct (IH _ _ _ _ Hd Hkn Hs3 Hfc3) as [A1 [A2 [A3 [A5 [A6 A7]]]]].
          assert (Mono : forall x, may_fit acc x = true -> may_fit a2 x = true) by (intros x Hx; apply A2; auto).
          apply (IHr a2 r Hr Hincl').
          * intros x. rewrite A1, Hsv3. apply Hsv.
          * intros x Hx. apply Mono. auto.
          * exact A7.
          * intros m Hmn Hor Hnr. apply A3; [exact Hmn|]. destruct (dstar_dec k m) as [Dk|Dk]; [right; exact Dk|left].
            assert (Hmk : m <> k) by (intro; subst; apply Dk; left; reflexivity).
            apply G3; [exact Hmk|]. apply Gm; auto. intros k' [<-|Hk']; [exact Dk|apply Hnr; exact Hk'].
          * intros x Hx Hnr. destruct (Nat.eq_dec x k) as [->|Hxk].
            { apply A2. cbn. apply upd_same. }
            apply Mono. apply Hnt; auto. simpl. intros [E|E]; [congruence|auto].
          * intros i Hij Hin Hq. destruct (Nat.eq_dec i k) as [->|Hik].
            { intros _. exact A5. }
            apply A6; auto. intros [F1 F2]. rewrite Hsv3 in F2. cbn in F1. rewrite upd_other in F1 by exact Hik.
            apply (notified_mono acc); [exact Hmf3|]. apply HQ; auto. split; auto.
        + set (s2 := DepProtocol.set_may P D (DepProtocol.add_fitted P D acc k j) k) in *.
          assert (Mono : forall x, may_fit acc x = true -> may_fit s2 x = true).
          { intros x Hx. cbn. unfold upd. destruct (Nat.eqb x k); auto. }
          apply (IHr s2 r Hr Hincl').
          * intros x. cbn. apply Hsv.
          * intros x Hx. apply Mono; auto.
          * exact Hfa'.
          * intros m Hmn Hor Hnr. destruct (dstar_dec k m) as [Dk|Dk].
            { (* k never received data: nothing below k is closed *)
              intros _ Hc. exfalso. apply (Hc k Dk). cbn. exact Hk. }
            assert (Hmk : m <> k) by (intro; subst; apply Dk; left; reflexivity).
            apply (goodT_transfer acc); auto; [cbn; rewrite upd_other; auto|].
            apply Gm; auto. intros k' [<-|Hk']; [exact Dk|apply Hnr; exact Hk'].
          * intros x Hx Hnr. destruct (Nat.eq_dec x k) as [->|Hxk].
            { cbn. apply upd_same. }
            apply Mono. apply Hnt; auto. simpl. intros [E|E]; [congruence|auto].
          * intros i Hij Hin Hq. destruct (Nat.eq_dec i k) as [->|Hik].
            { intros [_ Hs]. exfalso. apply Hs. exact Hk. }
            intros [F1 F2]. cbn in F1, F2. rewrite upd_other in F1 by exact Hik.
            apply (notified_mono acc); [exact Mono|]. apply HQ; auto. split; auto. }
    destruct (L (dependents j) s1 s' H) as [B1 [B2 [B3 [B5 [B6 B7]]]]].
    - apply incl_refl.
    - intros k. reflexivity.
    - intros k Hk. exact Hk.
    - exact Hfc.
    - intros m Hmn Hor Hnone. destruct (Nat.eq_dec m j) as [->|Hmj].
      + intros [Hf Hs] _ d' Hd'. cbn in *. rewrite Hsj in Hd'. inversion Hd'; subst d'.
        exists (params s j). rewrite upd_same. apply F_extT. intros i Hi. rewrite upd_other; auto.
        apply anc_lt in Hi. lia.
      + assert (Na : ~ anc j m).
        { intros A. destruct (anc_first j m A Hmn) as [k [Hk Dk]]. exact (Hnone k Hk Dk). }
        destruct Hor as [G|[E|A]]; [|congruence|contradiction]. apply goodT_set_params; auto.
    - intros k Hk Hnot. contradiction.
    - intros i Hij Hin Hq. exact Hq.
    - repeat split; auto.
      intros k Hk Hi. apply B5. apply dependents_spec. split; auto.
  Qed.

  Definition InvT (s : st) := (forall k, k < n -> goodT s k) /\ (forall i, i < n -> Q s i) /\
                      (forall k, conds k = [] -> may_fit s k = true) /\ fc_ok s.

  Lemma InvT_init : InvT (init p0).
  Proof. repeat split.
    - intros k _ [_ Hs]. cbn in Hs. congruence.
    - intros i _ [_ Hs]. cbn in Hs. congruence.
    - intros k Hk. cbn. now rewrite Hk.
    - intros k c Hc. cbn in Hc. contradiction. Qed.

  (* with the notification invariant, a function all of whose ancestors have data may be fitted *)
  Lemma cl_may_fit (s : st) : (forall i, i < n -> Q s i) -> (forall k, conds k = [] -> may_fit s k = true) ->
    forall k, k < n -> cl s k -> may_fit s k = true.
  Proof.
    intros I2 I3 k. induction k as [k IHk] using lt_wf_ind. intros Hk Hc.
    destruct (conds k) as [|i l] eqn:Ec; [apply I3; exact Ec|].
    assert (Hi : In i (conds k)) by (rewrite Ec; left; reflexivity).
    pose proof (conds_lt _ _ Hi) as Hlt.
    assert (Ci : cl s i).
    { intros a [->|A]; apply Hc; right; [apply anc_direct; exact Hi|eapply anc_up; eauto]. }
    apply (I2 i); [lia| |exact Hk|exact Hi]. split; [apply IHk; auto; lia|apply Ci; left; reflexivity].
  Qed.

  Lemma fit_InvT j d s : j < n -> InvT s -> exists s', fit j d s = Ok s' /\ InvT s' /\
      saved s' j = Some d /\ (forall k, k <> j -> saved s' k = saved s k).
  Proof.
    intros Hj [I1 [I2 [I3 I4]]]. unfold DepProtocol.fit, DepProtocol.fit_body. set (s0 := set_saved s j d).
    assert (S0 : saved s0 j = Some d) by (cbn; apply upd_same).
    assert (S0' : forall k, k <> j -> saved s0 k = saved s k) by (intros k Hk; cbn; apply upd_other; exact Hk).
    assert (G0 : forall m, m < n -> ~ dstar j m -> goodT s0 m).
    { intros m Hmn Hd. apply (goodT_transfer s); auto. intros a Ha. apply S0'. intro; subst a. exact (Hd Ha). }
    assert (Q0 : forall i, i <> j -> i < n -> Q s0 i).
    { intros i Hi Hin [Hf Hs]. cbn in Hs. rewrite upd_other in Hs by exact Hi. apply (I2 i Hin (conj Hf Hs)). }
    assert (F0 : fc_ok s0) by exact I4.
    destruct (may_fit s0 j) eqn:Hm.
    - destruct (do_fit_some (S n) j d s0) as [s' E]; [lia|exact Hj|]. exists s'. split; [exact E|].
      destruct (do_fit_specT _ _ _ _ _ E Hj S0 F0) as [A1 [A2 [A3 [A5 [A6 A7]]]]].
      split; [|split].
      + repeat split.
        * intros k Hk. apply A3; [exact Hk|]. destruct (dstar_dec j k) as [Dj|Dj]; [right; exact Dj|left; apply G0; auto].
        * intros i Hi. destruct (Nat.eq_dec i j) as [->|Hij].
          { intros _. exact A5. }
          apply A6; auto.
        * intros k Hk. apply A2. cbn. apply I3. exact Hk.
        * exact A7.
      + rewrite A1. exact S0.
      + intros k Hk. rewrite A1. apply S0'. exact Hk.
    - exists s0. split; [reflexivity|]. split; [|split; auto].
      assert (Q0all : forall i, i < n -> Q s0 i).
      { intros i Hi. destruct (Nat.eq_dec i j) as [->|Hij]; [|apply Q0; auto]. intros [Hf _]. congruence. }
      repeat split.
      + intros k Hk. destruct (dstar_dec j k) as [Dj|Dj]; [|apply G0; auto].
        (* j may not be fitted although it has data: then not all of j's ancestors have data, so k is not closed *)
        intros _ Hc. exfalso.
        assert (Cj : cl s0 j).
        { intros a Ha. apply Hc. destruct Dj as [->|A]; [exact Ha|]. destruct Ha as [->|A']; [right; exact A|right; eapply anc_trans; eauto]. }
        pose proof (cl_may_fit s0 Q0all (fun k0 Hk0 => I3 k0 Hk0) j Hj Cj) as M. congruence.
      + exact Q0all.
      + intros k Hk. cbn. apply I3. exact Hk.
      + exact F0.
  Qed.

  Lemma run_InvT : forall ops s, (forall j d, In (j, d) ops -> j < n) -> InvT s ->
    exists s', run ops s = Ok s' /\ InvT s' /\ (forall j, saved s' j = last_data ops j (saved s j)).
  Proof.
    induction ops as [|[j d] ops IH]; intros s Hb I.
    - exists s. simpl. auto.
    - destruct (fit_InvT j d s) as [s1 [E [I1 [S1 S2]]]]; [apply (Hb j d); left; reflexivity|exact I|].
      destruct (IH s1) as [s' [R [I' L]]]; [intros; eapply Hb; right; eauto|exact I1|].
      exists s'. simpl. rewrite E. cbn [bind]. split; [exact R|]. split; [exact I'|].
      intros k. rewrite L. f_equal. destruct (Nat.eqb j k) eqn:Ejk.
      + apply Nat.eqb_eq in Ejk. subst. exact S1.
      + apply Nat.eqb_neq in Ejk. apply S2. auto.
  Qed.

  (* HISTORY THEOREM, partial histories included: whatever the order of fit calls and re-fits, every function that
     was given data and all of whose ancestors were given data ends with the result of an optimiser run on its LAST
     data against the FINAL parameters of everything it reads -- whether or not the other functions ever got data *)
  Theorem history_closed : forall ops s', (forall j d, In (j, d) ops -> j < n) ->
    run ops (init p0) = Ok s' ->
    forall j, j < n -> (forall a, dstar a j -> last_data ops a None <> None) ->
    exists d p, last_data ops j None = Some d /\ params s' j = F j d p (params s').
  Proof.
    intros ops s' Hb R j Hj Hc. destruct (run_InvT ops (init p0) Hb InvT_init) as [s2 [R2 [[I1 [I2 [I3 I4]]] L]]].
    rewrite R in R2. inversion R2; subst s2. clear R2.
    assert (Sv : forall k, saved s' k = last_data ops k None) by (intros k; rewrite L; reflexivity).
    assert (C : cl s' j) by (intros a Ha; rewrite Sv; apply Hc; exact Ha).
    assert (Fj : fitted s' j) by (split; [apply (cl_may_fit s' I2 I3 j Hj C)|apply C; left; reflexivity]).
    destruct (last_data ops j None) as [d|] eqn:E; [|exfalso; apply (Hc j); [left; reflexivity|exact E]].
    destruct (I1 j Hj Fj C d) as [p Hp]; [rewrite Sv; exact E|]. exists d, p. split; [reflexivity|exact Hp].
  Qed.

  Theorem run_okT : forall ops, (forall j d, In (j, d) ops -> j < n) -> exists s', run ops (init p0) = Ok s'.
  Proof. intros ops Hb. destruct (run_InvT ops (init p0) Hb InvT_init) as [s' [R _]]. eauto. Qed.

  Theorem subset_test_vacuousT : forall ops s, (forall j d, In (j, d) ops -> j < n) -> run ops (init p0) = Ok s ->
    forall k c, In c (conds k) -> subset_as_written conds (fitted_conds (add_fitted s k c) k) k = true.
  Proof.
    intros ops s Hb R k c Hc. destruct (run_InvT ops (init p0) Hb InvT_init) as [s2 [R2 [[_ [_ [_ I4]]] _]]].
    rewrite R in R2. inversion R2; subst s2. apply subset_test_true; auto.
  Qed.

  Corollary history_allT : forall ops s', (forall j d, In (j, d) ops -> j < n) ->
    run ops (init p0) = Ok s' -> (forall j, j < n -> last_data ops j None <> None) ->
    forall j, j < n -> exists d p, last_data ops j None = Some d /\ params s' j = F j d p (params s').
  Proof.
    intros ops s' Hb R All j Hj. apply (history_closed ops s' Hb R j Hj).
    intros a [->|A]; apply All; [exact Hj|apply anc_lt in A; lia].
  Qed.

  (* ORDER INDEPENDENCE for an idealised optimiser (result does not depend on the start value):
     two histories that end with the same last data per function end with the same parameters. *)
  Hypothesis F_start : forall j d p p' e, F j d p e = F j d p' e.

  Theorem final_params_unique : forall (e1 e2 : nat -> P) (ds : nat -> option D),
    (forall j, j < n -> exists d p, ds j = Some d /\ e1 j = F j d p e1) ->
    (forall j, j < n -> exists d p, ds j = Some d /\ e2 j = F j d p e2) ->
    forall j, j < n -> e1 j = e2 j.
  Proof.
    intros e1 e2 ds H1 H2 j. induction j as [j IHj] using lt_wf_ind. intros Hj.
    destruct (H1 j Hj) as [d1 [p1 [D1 E1]]]. destruct (H2 j Hj) as [d2 [p2 [D2 E2]]].
    rewrite D1 in D2. inversion D2; subst d2. rewrite E1, E2.
    rewrite (F_start j d1 p1 p2 e1). apply F_ext. intros i Hi. pose proof (conds_lt _ _ Hi). apply IHj; lia.
  Qed.

  Theorem final_params_uniqueT : forall (e1 e2 : nat -> P) (ds : nat -> option D),
    (forall j, j < n -> exists d p, ds j = Some d /\ e1 j = F j d p e1) ->
    (forall j, j < n -> exists d p, ds j = Some d /\ e2 j = F j d p e2) ->
    forall j, j < n -> e1 j = e2 j.
  Proof.
    intros e1 e2 ds H1 H2 j. induction j as [j IHj] using lt_wf_ind. intros Hj.
    destruct (H1 j Hj) as [d1 [p1 [D1 E1]]]. destruct (H2 j Hj) as [d2 [p2 [D2 E2]]].
    rewrite D1 in D2. inversion D2; subst d2. rewrite E1, E2.
    rewrite (F_start j d1 p1 p2 e1). apply F_extT. intros i Hi. pose proof (anc_lt _ _ Hi). apply IHj; lia.
  Qed.

End Protocol.

(* two histories (any declaration-compatible call orders, re-fits, even different start parameters)
   that end with the same last data per function end with the same parameters *)
Section Order.
  Variables P D : Type.
  Variable n : nat.
  Variable conds : nat -> list nat.
  Hypothesis conds_lt : forall j i, In i (conds j) -> i < j.
  Variable F : nat -> D -> P -> (nat -> P) -> P.
  Hypothesis F_ext : forall j d p e1 e2, (forall i, In i (conds j) -> e1 i = e2 i) -> F j d p e1 = F j d p e2.
  Hypothesis F_start : forall j d p p' e, F j d p e = F j d p' e.

  Theorem order_independent : forall p0 p0' ops1 ops2 s1 s2,
    (forall j d, In (j, d) ops1 -> j < n) -> (forall j d, In (j, d) ops2 -> j < n) ->
    run P D n conds F ops1 (init P D conds p0) = Ok s1 -> run P D n conds F ops2 (init P D conds p0') = Ok s2 ->
    (forall j, j < n -> last_data D ops1 j None <> None) ->
    (forall j, j < n -> last_data D ops1 j None = last_data D ops2 j None) ->
    forall j, j < n -> params s1 j = params s2 j.
  Proof.
    intros p0 p0' ops1 ops2 s1 s2 B1 B2 R1 R2 All Same.
    assert (All2 : forall j, j < n -> last_data D ops2 j None <> None) by (intros j Hj; rewrite <- Same; auto).
    apply (final_params_unique P D n conds conds_lt F F_ext F_start (params s1) (params s2) (fun j => last_data D ops1 j None)).
    - intros j Hj. destruct (history P D n conds conds_lt F F_ext p0 ops1 s1 B1 R1 All j Hj) as [d [p [E1 E2]]]. eauto.
    - intros j Hj. rewrite (Same j Hj).
      destruct (history P D n conds conds_lt F F_ext p0' ops2 s2 B2 R2 All2 j Hj) as [d [p [E1 E2]]]. eauto.
  Qed.
End Order.

Section OrderT.
  Variables P D : Type.
  Variable n : nat.
  Variable conds : nat -> list nat.
  Hypothesis conds_lt : forall j i, In i (conds j) -> i < j.
  Variable F : nat -> D -> P -> (nat -> P) -> P.
  Hypothesis F_extT : forall j d p e1 e2, (forall i, anc conds i j -> e1 i = e2 i) -> F j d p e1 = F j d p e2.
  Hypothesis F_start : forall j d p p' e, F j d p e = F j d p' e.

  Theorem order_independentT : forall p0 p0' ops1 ops2 s1 s2,
    (forall j d, In (j, d) ops1 -> j < n) -> (forall j d, In (j, d) ops2 -> j < n) ->
    run P D n conds F ops1 (init P D conds p0) = Ok s1 -> run P D n conds F ops2 (init P D conds p0') = Ok s2 ->
    (forall j, j < n -> last_data D ops1 j None <> None) ->
    (forall j, j < n -> last_data D ops1 j None = last_data D ops2 j None) ->
    forall j, j < n -> params s1 j = params s2 j.
  Proof.
    intros p0 p0' ops1 ops2 s1 s2 B1 B2 R1 R2 All Same.
    assert (All2 : forall j, j < n -> last_data D ops2 j None <> None) by (intros j Hj; rewrite <- Same; auto).
    apply (final_params_uniqueT P D n conds conds_lt F F_extT F_start (params s1) (params s2) (fun j => last_data D ops1 j None)).
    - intros j Hj. destruct (history_allT P D n conds conds_lt F p0 F_extT ops1 s1 B1 R1 All j Hj) as [d [p [E1 E2]]]. eauto.
    - intros j Hj. rewrite (Same j Hj).
      destruct (history_allT P D n conds conds_lt F p0' F_extT ops2 s2 B2 R2 All2 j Hj) as [d [p [E1 E2]]]. eauto.
  Qed.
End OrderT.

(* ------------------------------------------------------------------ bounds, feasible set *)
Section BoundsProofs.
  Variable T : Type.
  Variables neg_inf pos_inf : T.
  Variable leb : T -> T -> bool.
  Variable zero : T.
  Notation convert_bounds := (convert_bounds T neg_inf pos_inf).

  Lemma convert_length bs : length (fst (convert_bounds bs)) = length bs /\ length (snd (convert_bounds bs)) = length bs.
  Proof. unfold DepProtocol.convert_bounds. cbn. now rewrite !map_length. Qed.

  (* position i of the lower (upper) vector is the lower (upper) bound of parameter i; None -> -inf (+inf) *)
  Lemma convert_nth bs i b : nth_error bs i = Some b ->
    nth_error (fst (convert_bounds bs)) i = Some (match fst b with Some l => l | None => neg_inf end) /\
    nth_error (snd (convert_bounds bs)) i = Some (match snd b with Some u => u | None => pos_inf end).
  Proof. intros H. unfold DepProtocol.convert_bounds. cbn [fst snd]. split.
    - exact (map_nth_error (fun b : option T * option T => match fst b with Some l => l | None => neg_inf end) i bs H).
    - exact (map_nth_error (fun b : option T * option T => match snd b with Some u => u | None => pos_inf end) i bs H).
  Qed.

  Lemma box_declared bs p : in_box T leb (convert_bounds bs) p -> in_declared T leb bs p.
  Proof.
    unfold in_box, in_declared, DepProtocol.convert_bounds. cbn [fst snd]. revert p.
    induction bs as [|[lo hi] bs IH]; intros p H; cbn in H; inversion H; subst; constructor.
    - cbn in *. destruct H2 as [A B]. split; intros v E; subst; assumption.
    - apply IH. assumption.
  Qed.

  Lemma declared_box bs p : (forall x, leb neg_inf x = true) -> (forall x, leb x pos_inf = true) ->
    in_declared T leb bs p -> in_box T leb (convert_bounds bs) p.
  Proof.
    intros Hn Hp. unfold in_box, in_declared, DepProtocol.convert_bounds. cbn [fst snd]. revert p.
    induction bs as [|[lo hi] bs IH]; intros p H; inversion H; subst; cbn; constructor.
    - cbn in *. destruct H2 as [A B]. split; [destruct lo; auto|destruct hi; auto].
    - apply IH. assumption.
  Qed.

  (* oracle contract: what scipy returns (curve_fit's popt / a successful minimize result) lies in the
     feasible set of the problem it was handed *)
  Variable engine_result : call T -> list T -> list T.
  Hypothesis engine_feasible : forall c p0, feasible T leb zero c (engine_result c p0).

  Theorem fit_within_declared : forall hw bounds cons c p0,
    dispatch T neg_inf pos_inf hw bounds cons = Call c ->
    (forall bs, bounds = Some bs -> in_declared T leb bs (engine_result c p0)) /\
    (forall cs, cons = Some cs -> satisfies T leb zero cs (engine_result c p0)).
  Proof.
    intros hw bounds cons c p0 H. pose proof (engine_feasible c p0) as Fz. unfold dispatch in H.
    destruct cons as [cs|].
    - destruct hw; [discriminate|]. inversion H; subst c. clear H. unfold feasible in Fz. cbn in Fz.
      destruct Fz as [A B]. split.
      + intros bs E. subst bounds. exact A.
      + intros cs' E. inversion E; subst. exact B.
    - inversion H; subst c. clear H. unfold feasible in Fz. cbn in Fz. split.
      + intros bs E. subst bounds. apply box_declared. exact Fz.
      + intros cs E. discriminate.
  Qed.
  (* which engine is called: curve_fit iff no constraints are declared (with sigma iff a weights callable is given,
     with the converted box iff bounds are declared); SLSQP with the raw bounds and ALL declared constraints otherwise;
     constraints together with weights are refused *)
  Lemma dispatch_paths hw bounds :
    dispatch T neg_inf pos_inf hw bounds None =
      Call (mkcall T CurveFit hw (match bounds with Some bs => Some (DepProtocol.convert_bounds T neg_inf pos_inf bs) | None => None end) None []) /\
    (forall cs, dispatch T neg_inf pos_inf true bounds (Some cs) = NotImplemented) /\
    (forall cs, dispatch T neg_inf pos_inf false bounds (Some cs) = Call (mkcall T MinimizeSLSQP false None bounds cs)).
  Proof. repeat split. Qed.
End BoundsProofs.

(* ------------------------------------------------------------------ linear shapes: normal equations *)
From Coq Require Import Reals Lra.
Section LinearLSQ.
  Local Open Scope R_scope.
  Variable m : nat.                        (* number of parameters; f(x; p) = sum_k p_k * phi_k(x) *)
  Record obs := mkobs { feat : nat -> R; target : R; weight : R }.

  Definition dotl (ks : list nat) (p a : nat -> R) : R := fold_right (fun k acc => p k * a k + acc) 0 ks.
  Definition dot := dotl (seq 0 m).
  Definition resid (p : nat -> R) (o : obs) : R := dot p (feat o) - target o.
  Definition sumo (f : obs -> R) (rows : list obs) : R := fold_right (fun o acc => f o + acc) 0 rows.
  (* (weighted) squared residual *)
  Definition SSR (rows : list obs) (p : nat -> R) : R := sumo (fun o => weight o * (resid p o * resid p o)) rows.
  (* gradient = 0 *)
  Definition normal_eq (rows : list obs) (p : nat -> R) : Prop :=
    forall k, (k < m)%nat -> sumo (fun o => weight o * resid p o * feat o k) rows = 0.
  Definition psub (p q : nat -> R) : nat -> R := fun k => p k - q k.

  Lemma dotl_sub ks p q a : dotl ks (psub p q) a = dotl ks p a - dotl ks q a.
  Proof. unfold dotl. induction ks as [|k ks IH]; cbn [fold_right]; [lra|]. rewrite IH. unfold psub. lra. Qed.

  Lemma sumo_lin c f g rows : sumo (fun o => c * f o + g o) rows = c * sumo f rows + sumo g rows.
  Proof. unfold sumo. induction rows as [|o rows IH]; cbn [fold_right]; [lra|]. rewrite IH. lra. Qed.

  Lemma sumo_ext f g rows : (forall o, f o = g o) -> sumo f rows = sumo g rows.
  Proof. intros E. unfold sumo. induction rows as [|o rows IH]; cbn [fold_right]; [reflexivity|]. rewrite IH, E. reflexivity. Qed.

  Lemma cross_zero rows p q ks : (forall k, In k ks -> sumo (fun o => weight o * resid p o * feat o k) rows = 0) ->
    sumo (fun o => weight o * resid p o * dotl ks q (feat o)) rows = 0.
  Proof.
    induction ks as [|k ks IH]; intros H.
    - clear H. unfold sumo, dotl. cbn [fold_right]. induction rows as [|o rows IHr]; cbn [fold_right]; [reflexivity|]. rewrite IHr. lra.
    - rewrite (sumo_ext _ (fun o => q k * (weight o * resid p o * feat o k) + weight o * resid p o * dotl ks q (feat o))).
      + rewrite sumo_lin. rewrite (H k (or_introl eq_refl)). rewrite IH; [lra|]. intros k' Hk'. apply H. right. exact Hk'.
      + intros o. unfold dotl. cbn [fold_right]. lra.
  Qed.

  Theorem SSR_decomp rows p p' : normal_eq rows p ->
    SSR rows p' = SSR rows p + sumo (fun o => weight o * (dot (psub p' p) (feat o) * dot (psub p' p) (feat o))) rows.
  Proof.
    intros NE.
    assert (C : sumo (fun o => weight o * resid p o * dot (psub p' p) (feat o)) rows = 0).
    { apply cross_zero. intros k Hk. apply NE. apply in_seq in Hk. lia. }
    unfold SSR.
    rewrite (sumo_ext (fun o => weight o * (resid p' o * resid p' o))
                      (fun o => 2 * (weight o * resid p o * dot (psub p' p) (feat o)) +
                                (weight o * (resid p o * resid p o) + weight o * (dot (psub p' p) (feat o) * dot (psub p' p) (feat o))))).
    - rewrite sumo_lin. rewrite C.
      rewrite (sumo_ext (fun o => weight o * (resid p o * resid p o) + weight o * (dot (psub p' p) (feat o) * dot (psub p' p) (feat o)))
                        (fun o => 1 * (weight o * (resid p o * resid p o)) + weight o * (dot (psub p' p) (feat o) * dot (psub p' p) (feat o)))).
      + rewrite sumo_lin. lra.
      + intros o. lra.
    - intros o. unfold resid, dot. rewrite dotl_sub. ring.
  Qed.

  Lemma sumo_nonneg f rows : (forall o, In o rows -> 0 <= f o) -> 0 <= sumo f rows.
  Proof. induction rows as [|o rows IH]; intros H; [unfold sumo; cbn; lra|].
    assert (0 <= f o) by (apply H; left; reflexivity). assert (0 <= sumo f rows) by (apply IH; intros; apply H; right; auto).
    change (sumo f (o :: rows)) with (f o + sumo f rows). lra. Qed.

  Lemma sumo_zero f rows : (forall o, In o rows -> 0 <= f o) -> sumo f rows <= 0 -> forall o, In o rows -> f o = 0.
  Proof. induction rows as [|o rows IH]; intros H Hz o' Ho; [contradiction|]. change (sumo f (o :: rows)) with (f o + sumo f rows) in Hz.
    assert (A : 0 <= f o) by (apply H; left; reflexivity).
    assert (B : 0 <= sumo f rows) by (apply sumo_nonneg; intros; apply H; right; auto).
    destruct Ho as [->|Ho]; [lra|]. apply IH; auto; [intros; apply H; right; auto|lra]. Qed.

  (* a solution of the normal equations has the smallest (weighted) squared residual of all parameter vectors *)
  Theorem normal_eq_optimal rows p : (forall o, In o rows -> 0 <= weight o) -> normal_eq rows p ->
    forall p', SSR rows p <= SSR rows p'.
  Proof.
    intros W NE p'. rewrite (SSR_decomp rows p p' NE).
    assert (0 <= sumo (fun o => weight o * (dot (psub p' p) (feat o) * dot (psub p' p) (feat o))) rows); [|lra].
    apply sumo_nonneg. intros o Ho. apply Rmult_le_pos; [apply W; exact Ho|]. apply Rle_0_sqr.
  Qed.

  (* ... and it is the only one, when the design matrix has independent columns *)
  Theorem normal_eq_unique rows p : (forall o, In o rows -> 0 < weight o) -> normal_eq rows p ->
    (forall q, (forall o, In o rows -> dot q (feat o) = 0) -> forall k, (k < m)%nat -> q k = 0) ->
    forall p', SSR rows p' <= SSR rows p -> forall k, (k < m)%nat -> p' k = p k.
  Proof.
    intros W NE Rank p' Le k Hk. rewrite (SSR_decomp rows p p' NE) in Le.
    assert (Z : forall o, In o rows -> weight o * (dot (psub p' p) (feat o) * dot (psub p' p) (feat o)) = 0).
    { apply sumo_zero; [|lra]. intros o Ho. apply Rmult_le_pos; [apply Rlt_le, W; exact Ho|apply Rle_0_sqr]. }
    assert (E : psub p' p k = 0).
    { apply Rank; [|exact Hk]. intros o Ho. specialize (Z o Ho). pose proof (W o Ho).
      apply Rmult_integral in Z. destruct Z as [Z|Z]; [lra|]. apply Rmult_integral in Z. destruct Z; assumption. }
    unfold psub in E. lra.
  Qed.
End LinearLSQ.

(* ------------------------------------------------------------------ the executable (tagging) instance meets the hypotheses *)
Lemma raw_anc conds : forall fuel j i, In i (raw_ancestors conds fuel j) -> anc conds i j.
Proof.
  induction fuel as [|f IH]; intros j i H; [contradiction|]. cbn in H. apply in_flat_map in H.
  destruct H as [c [Hc [->|H]]]; [apply anc_direct; exact Hc|]. eapply anc_up; [exact Hc|]. apply IH. exact H.
Qed.

Lemma ancestors_anc conds j i : In i (ancestors conds j) -> anc conds i j.
Proof. unfold ancestors. intros H. apply filter_In in H. destruct H as [_ H]. apply existsb_exists in H.
  destruct H as [x [Hx E]]. apply Nat.eqb_eq in E. subst x. eapply raw_anc; eauto. Qed.

(* the tagging optimiser reads exactly the ancestors *)
Lemma Ftag_extT conds : forall j d p e1 e2, (forall i, anc conds i j -> e1 i = e2 i) -> Ftag conds j d p e1 = Ftag conds j d p e2.
Proof. intros j d p e1 e2 H. unfold Ftag. f_equal. apply map_ext_in. intros i Hi. apply H. apply ancestors_anc. exact Hi. Qed.

Definition table_ok (ctbl : list (list nat)) : bool :=
  forallb (fun j => forallb (fun i => i <? j) (lookup ctbl j)) (seq 0 (length ctbl)).

Lemma table_ok_lt ctbl : table_ok ctbl = true -> forall j i, In i (lookup ctbl j) -> i < j.
Proof.
  intros H j i Hi. unfold table_ok in H. rewrite forallb_forall in H.
  destruct (lt_dec j (length ctbl)) as [Hj|Hj].
  - specialize (H j). rewrite forallb_forall in H. apply Nat.ltb_lt. apply H; [apply in_seq; lia|exact Hi].
  - unfold lookup in Hi. rewrite nth_overflow in Hi by lia. contradiction.
Qed.

(* history theorem for the very function the correspondence check evaluates: partial histories included *)
Theorem history_tag : forall n ctbl ops s, table_ok ctbl = true ->
  (forall j d, In (j, d) ops -> j < n) -> run_tag n ctbl ops = Ok s ->
  forall j, j < n -> (forall a, dstar (lookup ctbl) a j -> last_data nat ops a None <> None) ->
  exists d p, last_data nat ops j None = Some d /\
              params s j = Fitted j d p (map (params s) (ancestors (lookup ctbl) j)).
Proof.
  intros n ctbl ops s T B R j Hj C.
  exact (history_closed tag nat n (lookup ctbl) (table_ok_lt ctbl T) (Ftag (lookup ctbl)) Start (Ftag_extT (lookup ctbl)) ops s B R j Hj C).
Qed.
