(* C18: the validators of model/Validate.v accept exactly the well-formed specifications.
   Specifications ([wf_*], [WellFormed*]) are written in Prop with In / <= / = ; every theorem is
   an equivalence (soundness: Ok -> well-formed, i.e. every ill-formed input is rejected at
   every position and in every combination; completeness: well-formed -> Ok), for lists of any
   length. *)
From Coq Require Import List Bool Arith ZArith String Lia PrimFloat.
From V.model Require Import Validate.
Import ListNotations.
Local Open Scope string_scope.
Local Open Scope nat_scope.

(* ------------------------------------------------------------------ generic *)
Lemma and_then_ok a b : and_then a b = Ok <-> a = Ok /\ b = Ok.
Proof. destruct a; simpl; split.
  - intros H; split; [reflexivity|exact H].
  - intros [_ H]; exact H.
  - discriminate.
  - intros [H _]; discriminate.
Qed.

Lemma and_then_err a b t p : and_then a b = Err t p <-> a = Err t p \/ (a = Ok /\ b = Err t p).
Proof. destruct a; simpl; split; intros H; auto.
  - destruct H as [H|[_ H]]; [discriminate|exact H].
  - destruct H as [H|[H _]]; [exact H|discriminate]. Qed.

Lemma first_err_ok {A} (f : nat -> A -> result) l : forall k,
  first_err_from k f l = Ok <-> forall j x, nth_error l j = Some x -> f (k + j) x = Ok.
Proof.
  induction l as [|y l IH]; intros k; simpl.
  - split; auto. intros _ j x H. destruct j; discriminate.
  - rewrite and_then_ok, IH. split.
    + intros [H0 H] j x Hj. destruct j; simpl in Hj.
      * inversion Hj; subst. now rewrite Nat.add_0_r.
      * rewrite <- Nat.add_succ_comm. now apply H.
    + intros H. split.
      * specialize (H 0 y eq_refl). now rewrite Nat.add_0_r in H.
      * intros j x Hj. rewrite Nat.add_succ_comm. now apply (H (S j)).
Qed.

(* an error comes from the first element whose check fails *)
Lemma first_err_err {A} (f : nat -> A -> result) l : forall k t p,
  first_err_from k f l = Err t p ->
  exists j x, nth_error l j = Some x /\ f (k + j) x = Err t p /\
              forall j' x', j' < j -> nth_error l j' = Some x' -> f (k + j') x' = Ok.
Proof.
  induction l as [|y l IH]; intros k t p; simpl; [discriminate|].
  rewrite and_then_err. intros [H|[H0 H]].
  - exists 0, y. rewrite Nat.add_0_r. repeat split; auto. intros j' x' Hlt; lia.
  - destruct (IH _ _ _ H) as [j [x [Hj [Hf Hb]]]]. exists (S j), x. repeat split; auto.
    + now rewrite <- Nat.add_succ_comm.
    + intros j' x' Hlt Hj'. destruct j'; simpl in Hj'.
      * inversion Hj'; subst. now rewrite Nat.add_0_r.
      * rewrite <- Nat.add_succ_comm. apply Hb; [lia|exact Hj'].
Qed.

Lemma mem_In s l : mem s l = true <-> In s l.
Proof. unfold mem. rewrite existsb_exists. split.
  - intros [x [H E]]. apply String.eqb_eq in E. now subst.
  - intros H. exists s. split; auto. apply String.eqb_refl. Qed.

Lemma mem_nIn s l : mem s l = false <-> ~ In s l.
Proof. rewrite <- mem_In. destruct (mem s l); split; intros; try discriminate; auto. now exfalso. Qed.

Lemma is_nil_true {A} (l : list A) : is_nil l = true <-> l = [].
Proof. destruct l; simpl; split; intros; auto; discriminate. Qed.

(* ------------------------------------------------------------------ slicers *)
(* only known keyword arguments; PointsPerIntervalSlicer needs a callable reference *)
Definition wf_slicer_init (s : slicer) : Prop :=
  s_unknown_kwargs s = [] /\ (s_kind s = SPoints -> s_ref s = RCallable).

Lemma validate_slicer_init_iff i s : validate_slicer_init i s = Ok <-> wf_slicer_init s.
Proof.
  unfold validate_slicer_init, wf_slicer_init.
  destruct (s_unknown_kwargs s) as [|u us]; simpl.
  - destruct (s_kind s), (s_ref s); simpl; split; intros H; try discriminate; auto;
      try (split; [reflexivity|intros; try discriminate; reflexivity]);
      try (destruct H as [_ H]; specialize (H eq_refl); discriminate).
  - split; [discriminate|]. intros [H _]. discriminate.
Qed.

(* a known reference keyword or a callable; enough intervals survive *)
Definition wf_slice (s : slicer) (surviving : nat) : Prop :=
  (s_kind s <> SPoints -> s_ref s <> RUnknownStr /\ s_ref s <> ROther) /\
  eff_min_n_intervals s <= surviving /\
  (s_kind s = SPoints -> 1 <= surviving).

Lemma slice_nonppi_iff i s k :
  (match s_ref s with
   | RUnknownStr => Err UnknownReference i
   | ROther => Err ReferenceType i
   | _ => if k <? eff_min_n_intervals s then Err TooFewIntervals i else Ok
   end) = Ok <-> (s_ref s <> RUnknownStr /\ s_ref s <> ROther) /\ eff_min_n_intervals s <= k.
Proof.
  destruct (s_ref s) eqn:R;
  try (split; [discriminate | intros [[A B] _]; congruence]);
  (destruct (k <? eff_min_n_intervals s) eqn:E;
   [apply Nat.ltb_lt in E; split; [discriminate | intros [_ H]; lia]
   |apply Nat.ltb_ge in E; split; [intros _; split; [split; discriminate | exact E] | reflexivity]]).
Qed.

Lemma validate_slice_iff i s k : validate_slice i s k = Ok <-> wf_slice s k.
Proof.
  unfold validate_slice, wf_slice.
  destruct (s_kind s) eqn:K.
  - rewrite slice_nonppi_iff. split.
    + intros [A B]. repeat split; auto; try apply A. discriminate.
    + intros [A [B _]]. split; auto. apply A. discriminate.
  - rewrite slice_nonppi_iff. split.
    + intros [A B]. repeat split; auto; try apply A. discriminate.
    + intros [A [B _]]. split; auto. apply A. discriminate.
  - destruct (k =? 0) eqn:Z; [apply Nat.eqb_eq in Z | apply Nat.eqb_neq in Z].
    + split; [discriminate|]. intros [_ [_ H]]. specialize (H eq_refl). lia.
    + destruct (k <? eff_min_n_intervals s) eqn:E; [apply Nat.ltb_lt in E | apply Nat.ltb_ge in E].
      * split; [discriminate|]. intros [_ [H _]]. lia.
      * split; auto. intros _. repeat split; try lia; exfalso; congruence.
Qed.

(* ------------------------------------------------------------------ model descriptions *)
Definition wf_desc (i : nat) (d : desc) : Prop :=
  d_has_distribution d = true /\
  d_other_keys d = [] /\
  match d_conditional_on d with
  | None => True
  | Some cv =>
      d_has_parameters d = true /\
      (exists c, cv = CInt c /\ (0 <= c < Z.of_nat i)%Z) /\
      (forall p, In p (d_dependent d) -> In p (d_params d)) /\
      (forall p, In p (d_params d) ->
         (In p (d_dependent d) /\ ~ In p (d_fixed d)) \/ (~ In p (d_dependent d) /\ In p (d_fixed d)))
  end.

Definition WellFormedModel (ds : list desc) : Prop :=
  ds <> [] /\ forall i d, nth_error ds i = Some d -> wf_desc i d.

Lemma hier_ok_iff i cv : hier_ok i cv = true <-> exists c, cv = CInt c /\ (0 <= c < Z.of_nat i)%Z.
Proof.
  destruct cv as [|c|]; simpl.
  - split; [discriminate|]. intros [c [H _]]; discriminate.
  - rewrite andb_true_iff, Z.leb_le, Z.ltb_lt. split.
    + intros H. exists c. split; auto.
    + intros [c' [H1 H2]]. inversion H1; subst. exact H2.
  - split; [discriminate|]. intros [c [H _]]; discriminate.
Qed.

Lemma check_params_iff i fixed dep names :
  check_params i fixed dep names = Ok <->
  forall p, In p names -> (In p dep /\ ~ In p fixed) \/ (~ In p dep /\ In p fixed).
Proof.
  induction names as [|q names IH]; simpl.
  - split; auto. intros _ p [].
  - destruct (mem q dep) eqn:D, (mem q fixed) eqn:F.
    + split; [discriminate|]. intros H. apply mem_In in D. apply mem_In in F.
      destruct (H q (or_introl eq_refl)) as [[_ N]|[N _]]; contradiction.
    + rewrite IH. apply mem_In in D. apply mem_nIn in F. split.
      * intros H p [<-|Hp]; auto.
      * intros H p Hp. apply H. now right.
    + rewrite IH. apply mem_nIn in D. apply mem_In in F. split.
      * intros H p [<-|Hp]; auto.
      * intros H p Hp. apply H. now right.
    + split; [discriminate|]. intros H. apply mem_nIn in D. apply mem_nIn in F.
      destruct (H q (or_introl eq_refl)) as [[N _]|[_ N]]; contradiction.
Qed.

Lemma check_params_pos i fixed dep names t p : check_params i fixed dep names = Err t p -> p = i.
Proof.
  induction names as [|q names IH]; simpl; [discriminate|].
  destruct (mem q dep), (mem q fixed); auto; intros H; now inversion H.
Qed.

(* the part of wf_desc decided by _check_dist_descriptions *)
Definition wf_keys (i : nat) (d : desc) : Prop :=
  d_has_distribution d = true /\ d_other_keys d = [] /\
  match d_conditional_on d with
  | None => True
  | Some cv => d_has_parameters d = true /\ exists c, cv = CInt c /\ (0 <= c < Z.of_nat i)%Z
  end.

(* ... and by ConditionalDistribution.__init__ *)
Definition wf_cond (d : desc) : Prop :=
  match d_conditional_on d with
  | None => True
  | Some _ =>
      (forall p, In p (d_dependent d) -> In p (d_params d)) /\
      (forall p, In p (d_params d) ->
         (In p (d_dependent d) /\ ~ In p (d_fixed d)) \/ (~ In p (d_dependent d) /\ In p (d_fixed d)))
  end.

Lemma wf_desc_split i d : wf_desc i d <-> wf_keys i d /\ wf_cond d.
Proof. unfold wf_desc, wf_keys, wf_cond. destruct (d_conditional_on d); tauto. Qed.

Lemma check_keys_iff i d : check_keys true i d = Ok <-> wf_keys i d.
Proof.
  unfold check_keys, wf_keys.
  destruct (d_has_distribution d); simpl; [|split; [discriminate|intros [H _]; discriminate]].
  destruct (d_conditional_on d) as [cv|].
  - destruct (d_has_parameters d); simpl.
    + destruct (d_other_keys d) as [|u us]; simpl.
      * destruct (hier_ok i cv) eqn:H; simpl.
        -- apply hier_ok_iff in H. tauto.
        -- split; [discriminate|]. intros [_ [_ [_ E]]]. apply hier_ok_iff in E. congruence.
      * split; [discriminate|]. intros [_ [E _]]; discriminate.
    + split; [discriminate|]. intros [_ [_ [E _]]]; discriminate.
  - destruct (d_other_keys d); simpl; split; intros; try discriminate; auto.
    destruct H as [_ [E _]]; discriminate.
Qed.

Lemma check_cond_iff i d : check_cond i d = Ok <-> wf_cond d.
Proof.
  unfold check_cond, wf_cond. destruct (d_conditional_on d); [|tauto].
  destruct (forallb _ (d_dependent d)) eqn:F; simpl.
  - rewrite check_params_iff. rewrite forallb_forall in F. split.
    + intros H. split; auto. intros p Hp. apply mem_In. now apply F.
    + intros [_ H]; exact H.
  - split; [discriminate|]. intros [H _].
    assert (forallb (fun p => mem p (d_params d)) (d_dependent d) = true).
    { apply forallb_forall. intros p Hp. apply mem_In. now apply H. }
    congruence.
Qed.

Lemma check_keys_pos wh i d t p : check_keys wh i d = Err t p -> p = i.
Proof.
  unfold check_keys. destruct (d_has_distribution d); simpl; [|intros H; now inversion H].
  destruct (d_conditional_on d).
  - destruct (d_has_parameters d); simpl; [|intros H; now inversion H].
    destruct (is_nil (d_other_keys d)); simpl; [|intros H; now inversion H].
    destruct (wh && negb (hier_ok i c)); [intros H; now inversion H|discriminate].
  - destruct (is_nil (d_other_keys d)); [discriminate|intros H; now inversion H].
Qed.

Lemma check_cond_pos i d t p : check_cond i d = Err t p -> p = i.
Proof.
  unfold check_cond. destruct (d_conditional_on d); [|discriminate].
  destruct (negb _); [intros H; now inversion H|apply check_params_pos].
Qed.

(* with the hierarchy check, the first-dimension RuntimeError cannot be reached any more *)
Lemma first_conditional_unreachable d0 : check_keys true 0 d0 = Ok -> check_first d0 = Ok.
Proof.
  intros H. apply check_keys_iff in H. destruct H as [_ [_ H]]. unfold check_first.
  destruct (d_conditional_on d0) as [cv|]; auto.
  destruct H as [_ [c [_ H]]]. simpl in H. lia.
Qed.

(* SOUNDNESS and COMPLETENESS of GlobalHierarchicalModel.__init__ (with the hierarchy check) *)
Theorem validate_model_iff ds : validate_model ds = Ok <-> WellFormedModel ds.
Proof.
  unfold validate_model, validate_model_gen, WellFormedModel.
  destruct ds as [|d0 ds']; [split; [discriminate|intros [H _]; congruence]|].
  rewrite !and_then_ok, !first_err_ok. simpl Nat.add. split.
  - intros [K [C _]]. split; [discriminate|]. intros i d Hd. apply wf_desc_split. split.
    + apply check_keys_iff. now apply K.
    + apply (check_cond_iff i). now apply C.
  - intros [_ W]. assert (K : forall j x, nth_error (d0 :: ds') j = Some x -> check_keys true j x = Ok).
    { intros j x Hj. apply check_keys_iff. apply (proj1 (wf_desc_split j x)). now apply W. }
    split; [exact K|]. split.
    + intros j x Hj. apply check_cond_iff. apply (proj1 (wf_desc_split j x)). now apply W.
    + apply first_conditional_unreachable. exact (K 0 d0 eq_refl).
Qed.

(* every ill-formed description, wherever it is and whatever else is wrong, is rejected *)
Corollary ill_formed_rejected ds j d :
  nth_error ds j = Some d -> ~ wf_desc j d -> exists t p, validate_model ds = Err t p.
Proof.
  intros Hj N. destruct (validate_model ds) eqn:E; [|eauto].
  apply validate_model_iff in E. destruct E as [_ W]. exfalso. apply N. now apply W.
Qed.

(* the hierarchy in the words of the property *)
Corollary accepted_hierarchy ds : validate_model ds = Ok ->
  (forall d0, nth_error ds 0 = Some d0 -> d_conditional_on d0 = None) /\
  (forall i d cv, nth_error ds i = Some d -> d_conditional_on d = Some cv ->
     exists c, cv = CInt c /\ (0 <= c < Z.of_nat i)%Z /\ Z.to_nat c < i /\ Z.to_nat c < List.length ds).
Proof.
  intros H. apply validate_model_iff in H. destruct H as [_ W]. split.
  - intros d0 H0. specialize (W 0 d0 H0). destruct W as [_ [_ W]].
    destruct (d_conditional_on d0) as [cv0|]; auto. destruct W as [_ [[c [_ W]] _]]. simpl in W. lia.
  - intros i d cv Hd Hc. specialize (W i d Hd). destruct W as [_ [_ W]]. rewrite Hc in W.
    destruct W as [_ [[c [E R]] _]]. exists c. repeat split; auto; try lia.
    assert (i < List.length ds) by (apply nth_error_Some; congruence). lia.
Qed.

(* the reported dimension is a dimension whose description is ill-formed *)
Theorem reported_position_ill_formed ds t p : validate_model ds = Err t p ->
  t <> EmptyModel -> exists d, nth_error ds p = Some d /\ ~ wf_desc p d.
Proof.
  unfold validate_model, validate_model_gen. destruct ds as [|d0 ds']; [intros H N; inversion H; congruence|].
  intros H _. apply and_then_err in H. destruct H as [H|[K H]].
  - apply first_err_err in H. destruct H as [j [x [Hj [Hf _]]]]. simpl in Hf.
    pose proof (check_keys_pos _ _ _ _ _ Hf); subst p. exists x. split; auto.
    intros W. apply wf_desc_split in W. destruct W as [W _]. apply check_keys_iff in W. congruence.
  - apply and_then_err in H. destruct H as [H|[C H]].
    + apply first_err_err in H. destruct H as [j [x [Hj [Hf _]]]]. simpl in Hf.
      pose proof (check_cond_pos _ _ _ _ Hf); subst p. exists x. split; auto.
      intros W. apply wf_desc_split in W. destruct W as [_ W]. apply (check_cond_iff j) in W. congruence.
    + rewrite first_err_ok in K. specialize (K 0 d0 eq_refl). simpl in K.
      rewrite (first_conditional_unreachable _ K) in H. discriminate.
Qed.

(* ------------------------------------------------------------------ fit *)
Definition weights_ok (w : weightsv) : Prop := w <> WUnknownStr /\ w <> WScalar /\ w <> WArrayNonFinite.
Definition fixed_ok_for_lsq (fixed : list string) : Prop :=
  fixed = [] \/ (In "delta" fixed /\ ~ In "alpha" fixed /\ ~ In "beta" fixed).

(* a known method that the family implements, with a known weights keyword (or a finite array) where it is used *)
Definition method_ok (fam : family) (fixed : list string) (m : methodv) (w : weightsv) : Prop :=
  m = MMle \/
  ((m = MLsq \/ m = MWlsq) /\ fam = ExpWeibull /\ weights_ok w /\ fixed_ok_for_lsq fixed).

Lemma weights_iff w : weights_known w = true /\ weights_finite w = true <-> weights_ok w.
Proof. unfold weights_ok. destruct w; simpl; split; intros H; try (destruct H; discriminate);
  try (repeat split; discriminate); try (destruct H as [A [B C]]; congruence); auto. Qed.

Lemma lsq_fixed_ok_iff fixed : lsq_fixed_ok fixed = true <-> fixed_ok_for_lsq fixed.
Proof.
  unfold lsq_fixed_ok, fixed_ok_for_lsq.
  rewrite orb_true_iff, !andb_true_iff, !negb_true_iff, is_nil_true, mem_In, !mem_nIn. tauto.
Qed.

Lemma dispatch_lsq_iff i fam fixed w :
  match fam with
  | ExpWeibull =>
      if negb (weights_known w) then Err UnknownWeights i
      else if negb (weights_finite w) then Err WeightsNonFinite i
      else if lsq_fixed_ok fixed then Ok else Err LsqFixedNotImplemented i
  | _ => Err LsqNotImplemented i
  end = Ok <-> fam = ExpWeibull /\ weights_ok w /\ fixed_ok_for_lsq fixed.
Proof.
  destruct fam; try (split; [discriminate | intros [H _]; discriminate]).
  destruct (weights_known w) eqn:K; simpl.
  2:{ split; [discriminate|]. intros [_ [H _]]. apply weights_iff in H. destruct H; congruence. }
  destruct (weights_finite w) eqn:F; simpl.
  2:{ split; [discriminate|]. intros [_ [H _]]. apply weights_iff in H. destruct H; congruence. }
  destruct (lsq_fixed_ok fixed) eqn:X.
  - split; auto. intros _. split; [reflexivity|]. split; [apply weights_iff; auto | now apply lsq_fixed_ok_iff].
  - split; [discriminate|]. intros [_ [_ H]]. apply lsq_fixed_ok_iff in H. congruence.
Qed.

Lemma dispatch_iff i fam fixed m w : dispatch i fam fixed m w = Ok <-> method_ok fam fixed m w.
Proof.
  unfold dispatch, method_ok. destruct m.
  - split; auto.
  - rewrite dispatch_lsq_iff. split; [intros H; right; split; auto | intros [H|[_ H]]; [discriminate|exact H]].
  - rewrite dispatch_lsq_iff. split; [intros H; right; split; auto | intros [H|[_ H]]; [discriminate|exact H]].
  - split; [discriminate | intros [H|[[H|H] _]]; discriminate].
  - split; [discriminate | intros [H|[[H|H] _]]; discriminate].
Qed.

Lemma dispatch_pos i fam fixed m w t p : dispatch i fam fixed m w = Err t p -> p = i.
Proof.
  unfold dispatch. destruct m; try discriminate; try (intros H; now inversion H);
  (destruct fam; try (intros H; now inversion H);
   destruct (negb (weights_known w)); [intros H; now inversion H|];
   destruct (negb (weights_finite w)); [intros H; now inversion H|];
   destruct (lsq_fixed_ok fixed); [discriminate|intros H; now inversion H]).
Qed.

Lemma validate_slice_pos i s k t p : validate_slice i s k = Err t p -> p = i.
Proof.
  unfold validate_slice. destruct (s_kind s).
  1,2: destruct (s_ref s); try (intros H; now inversion H);
       (destruct (k <? eff_min_n_intervals s); [intros H; now inversion H|discriminate]).
  destruct (k =? 0); [intros H; now inversion H|].
  destruct (k <? eff_min_n_intervals s); [intros H; now inversion H|discriminate].
Qed.

Definition WellFormedFit (ds : list desc) (fi : fit_input) : Prop :=
  (* one entry per dimension, each None or with a method *)
  (forall l, fi_descs fi = Some l ->
     List.length l = List.length ds /\ forall i f, nth_error l i = Some (Some f) -> f_has_method f = true) /\
  (* data of the model's dimension *)
  fi_data_cols fi = List.length ds /\
  (* per dimension: supported method / weights, and a slicer of the conditioning variable that can slice *)
  (forall i d, nth_error ds i = Some d ->
     method_ok (d_family d) (d_fixed d) (f_method (eff_fitdesc fi i)) (f_weights (eff_fitdesc fi i)) /\
     forall c, cond_index d = Some c -> wf_slice (slicer_at ds c) (nth c (fi_surviving fi) 0)).

Lemma check_fit_descs_iff n fi :
  check_fit_descs n fi = Ok <->
  forall l, fi_descs fi = Some l ->
    List.length l = n /\ forall i f, nth_error l i = Some (Some f) -> f_has_method f = true.
Proof.
  unfold check_fit_descs. destruct (fi_descs fi) as [l|]; [|split; auto; intros _ l H; discriminate].
  destruct (List.length l =? n) eqn:E; [apply Nat.eqb_eq in E | apply Nat.eqb_neq in E].
  - rewrite first_err_ok. split.
    + intros H l' Hl'. inversion Hl'; subst l'. split; auto. intros i f Hi.
      specialize (H i (Some f) Hi). simpl in H. destruct (f_has_method f); auto; discriminate.
    + intros H j x Hj. destruct (H l eq_refl) as [_ H']. destruct x as [f|]; simpl; auto.
      rewrite (H' j f Hj). reflexivity.
  - split; [discriminate|]. intros H. destruct (H l eq_refl). contradiction.
Qed.

Lemma fit_dim_iff ds fi i d :
  fit_dim ds fi i d = Ok <->
  method_ok (d_family d) (d_fixed d) (f_method (eff_fitdesc fi i)) (f_weights (eff_fitdesc fi i)) /\
  forall c, cond_index d = Some c -> wf_slice (slicer_at ds c) (nth c (fi_surviving fi) 0).
Proof.
  unfold fit_dim. destruct (cond_index d) as [c|].
  - rewrite and_then_ok, dispatch_iff, validate_slice_iff. split.
    + intros [A B]. split; auto. intros c' H. inversion H; subst. exact A.
    + intros [A B]. split; auto.
  - rewrite dispatch_iff. split; [intros H; split; auto; intros c H'; discriminate|tauto].
Qed.

(* SOUNDNESS and COMPLETENESS of GlobalHierarchicalModel.fit's rejections *)
Theorem validate_fit_iff ds fi : validate_fit ds fi = Ok <-> WellFormedFit ds fi.
Proof.
  unfold validate_fit, WellFormedFit. rewrite !and_then_ok, check_fit_descs_iff, first_err_ok.
  destruct (fi_data_cols fi =? List.length ds) eqn:E; [apply Nat.eqb_eq in E | apply Nat.eqb_neq in E].
  - split.
    + intros [A [_ B]]. split; [exact A|]. split; [exact E|]. intros i d Hd. apply fit_dim_iff. exact (B i d Hd).
    + intros [A [_ B]]. split; [exact A|]. split; [reflexivity|]. intros j x Hj. simpl. apply fit_dim_iff. now apply B.
  - split; [intros [_ [H _]]; discriminate | intros [_ [H _]]; contradiction].
Qed.

(* ------------------------------------------------------------------ evaluation points *)
Section PointsProofs.
  Variable T : Type.
  Variable finite : T -> bool.
  Theorem validate_points_iff (b : evalpoint) (pts : list (list T)) :
    validate_points T finite b pts = Ok <-> forall row, In row pts -> forall x, In x row -> finite x = true.
  Proof.
    unfold validate_points, all_finite. destruct (forallb _ pts) eqn:F.
    - rewrite forallb_forall in F. split; auto. intros _ row Hr x Hx.
      specialize (F row Hr). rewrite forallb_forall in F. now apply F.
    - split; [discriminate|]. intros H.
      assert (forallb (forallb finite) pts = true).
      { apply forallb_forall. intros row Hr. apply forallb_forall. intros x Hx. now apply (H row). }
      congruence.
  Qed.
  Variable isnan : T -> bool.
  Theorem validate_no_nan_iff (cells : list T) :
    validate_no_nan T isnan cells = Ok <-> forall x, In x cells -> isnan x = false.
  Proof.
    unfold validate_no_nan. destruct (existsb isnan cells) eqn:E.
    - split; [discriminate|]. intros H. apply existsb_exists in E. destruct E as [x [Hx E]].
      rewrite (H x Hx) in E. discriminate.
    - split; auto. intros _ x Hx. destruct (isnan x) eqn:N; auto.
      assert (existsb isnan cells = true) by (apply existsb_exists; eauto). congruence.
  Qed.
End PointsProofs.

(* ------------------------------------------------------------------ highest density contour *)
Definition WellFormedHDC (n_dim : nat) (limits : option (list limentry)) (deltas : deltasv) (pdf_nan : bool) : Prop :=
  (forall l, limits = Some l -> List.length l = n_dim /\ forall e, In e l -> e = LTuple 2) /\
  (forall k, deltas = DList k -> k = n_dim) /\
  pdf_nan = false.

Lemma check_limit_tuple_iff i e : check_limit_tuple i e = Ok <-> e = LTuple 2.
Proof. destruct e as [|[|[|[|n]]]]; simpl; split; intros; try discriminate; auto. Qed.

Lemma all_tuples_ok ls :
  first_err_from 0 check_limit_tuple ls = Ok <-> forall e, In e ls -> e = LTuple 2.
Proof.
  rewrite first_err_ok. split.
  - intros H e He. apply In_nth_error in He. destruct He as [j Hj]. apply (check_limit_tuple_iff (0 + j)). now apply H.
  - intros H j x Hj. apply check_limit_tuple_iff. apply H. eapply nth_error_In; eauto.
Qed.

Lemma default_deltas_ok ls : (forall e, In e ls -> e = LTuple 2) -> first_err_from 0 check_default_delta ls = Ok.
Proof.
  intros H. apply first_err_ok. intros j x Hj. rewrite (H x (nth_error_In _ _ Hj)). reflexivity.
Qed.

Theorem validate_hdc_grid_iff n limits deltas nan :
  validate_hdc_grid n limits deltas nan = Ok <-> WellFormedHDC n limits deltas nan.
Proof.
  unfold validate_hdc_grid, WellFormedHDC. rewrite !and_then_ok, all_tuples_ok.
  assert (Dl : forall ls, (forall e, In e ls -> e = LTuple 2) -> (forall k, deltas = DList k -> k = n) ->
               match deltas with
               | DNone => first_err_from 0 check_default_delta ls
               | DScalar => Ok
               | DList k => if k =? n then Ok else Err DeltasLength 0
               end = Ok).
  { intros ls A D. destruct deltas as [| |k]; auto; [now apply default_deltas_ok|].
    rewrite (D k eq_refl), Nat.eqb_refl. reflexivity. }
  assert (Dr : match deltas with
               | DNone => Ok
               | DScalar => Ok
               | DList k => if k =? n then Ok else Err DeltasLength 0
               end = Ok -> forall k, deltas = DList k -> k = n).
  { intros H k Hk. subst deltas. destruct (k =? n) eqn:K; [now apply Nat.eqb_eq|discriminate]. }
  destruct limits as [l|].
  - destruct (List.length l =? n) eqn:E; [apply Nat.eqb_eq in E | apply Nat.eqb_neq in E].
    + split.
      * intros [_ [D [L N]]]. split; [|split].
        -- intros l' Hl. inversion Hl; subst l'. split; [exact E|exact L].
        -- apply Dr. destruct deltas; auto.
        -- destruct nan; [discriminate|reflexivity].
      * intros [L [D N]]. destruct (L l eq_refl) as [_ A]. split; [reflexivity|].
        split; [now apply Dl|]. split; [exact A|subst nan; reflexivity].
    + split; [intros [H _]; discriminate|]. intros [L _]. destruct (L l eq_refl). contradiction.
  - rewrite repeat_length, Nat.eqb_refl.
    assert (A : forall e, In e (repeat (LTuple 2) n) -> e = LTuple 2) by (intros e He; now apply repeat_spec in He).
    split.
    + intros [_ [D [_ N]]]. split; [intros l Hl; discriminate|]. split.
      * apply Dr. destruct deltas; auto.
      * destruct nan; [discriminate|reflexivity].
    + intros [_ [D N]]. split; [reflexivity|]. split; [now apply Dl|]. split; [exact A|subst nan; reflexivity].
Qed.

(* ------------------------------------------------------------------ guards *)
Lemma validate_dim2_iff k n : validate_dim2 k n = Ok <-> n = 2.
Proof. unfold validate_dim2. destruct (n =? 2) eqn:E; [apply Nat.eqb_eq in E | apply Nat.eqb_neq in E]; split; intros; auto; try discriminate; contradiction. Qed.

Lemma validate_iform_model_iff mk : validate_iform_model mk = Ok <-> mk <> MKOther.
Proof. destruct mk; simpl; split; intros; try discriminate; auto; congruence. Qed.

(* ------------------------------------------------------------------ whole session *)
Definition WellFormedContour (n_dim : nat) (c : contour_req) : Prop :=
  match c with
  | ReqHDC l d nan => WellFormedHDC n_dim l d nan
  | Req2D _ => n_dim = 2
  | ReqIFORM mk => mk <> MKOther
  end.

Definition WellFormedScenario (sc : scenario) : Prop :=
  (forall i d s, nth_error (sc_descs sc) i = Some d -> d_intervals d = Some s -> wf_slicer_init s) /\
  WellFormedModel (sc_descs sc) /\
  (forall fi, sc_fit sc = Some fi -> WellFormedFit (sc_descs sc) fi) /\
  (forall b pts, sc_points sc = Some (b, pts) -> forall row, In row pts -> forall x, In x row -> is_finite x = true) /\
  (forall c, sc_contour sc = Some c -> WellFormedContour (List.length (sc_descs sc)) c).

Lemma in_phase_none p r : in_phase p r = None <-> r = Ok.
Proof. destruct r; simpl; split; intros; auto; discriminate. Qed.

Lemma orelse_none {A} (a b : option A) : orelse a b = None <-> a = None /\ b = None.
Proof. destruct a; simpl; split.
  - discriminate.
  - intros [H _]; discriminate.
  - intros H; split; [reflexivity|exact H].
  - intros [_ H]; exact H.
Qed.

Lemma validate_contour_iff n c : validate_contour n c = Ok <-> WellFormedContour n c.
Proof. destruct c; simpl; [apply validate_hdc_grid_iff|apply validate_dim2_iff|apply validate_iform_model_iff]. Qed.

Theorem pipeline_iff sc : pipeline sc = None <-> WellFormedScenario sc.
Proof.
  unfold pipeline, WellFormedScenario. rewrite !orelse_none, !in_phase_none, validate_model_iff.
  unfold validate_slicers. rewrite first_err_ok.
  split.
  - intros [S [M [F [P C]]]]. split; [|split; [exact M|split; [|split]]].
    + intros i d s Hd Hs. specialize (S i d Hd). simpl in S. rewrite Hs in S. now apply validate_slicer_init_iff in S.
    + intros fi Hf. rewrite Hf in F. simpl in F. now apply validate_fit_iff.
    + intros b pts Hp. rewrite Hp in P. simpl in P. unfold validate_points_f in P.
      now apply (validate_points_iff float is_finite b pts).
    + intros c Hc. rewrite Hc in C. simpl in C. now apply validate_contour_iff.
  - intros [S [M [F [P C]]]]. split; [|split; [exact M|split; [|split]]].
    + intros j x Hj. simpl. destruct (d_intervals x) as [s|] eqn:I; auto. apply validate_slicer_init_iff. eapply S; eauto.
    + destruct (sc_fit sc) as [fi|]; simpl; auto. apply validate_fit_iff. now apply F.
    + destruct (sc_points sc) as [[b pts]|]; simpl; auto. unfold validate_points_f.
      apply (validate_points_iff float is_finite b pts). now apply (P b pts).
    + destruct (sc_contour sc) as [c|]; simpl; auto. apply validate_contour_iff. now apply C.
Qed.

(* ------------------------------------------------------------------ the code before the repair *)
Definition ok0 : desc := mkdesc true Weibull [] None false [] [] None.
Definition bad1 : desc := mkdesc true LogNormal [] (Some (CInt 2%Z)) true ["mu"; "sigma"] [] None.
Definition self1 : desc := mkdesc true LogNormal [] (Some (CInt 1%Z)) true ["mu"; "sigma"] [] None.

(* without the hierarchy check a description conditioning variable 1 on variable 2 (or on itself) passes *)
Lemma without_hierarchy_check_unsound :
  validate_model_gen false [ok0; bad1; ok0] = Ok /\ ~ WellFormedModel [ok0; bad1; ok0] /\
  validate_model_gen false [ok0; self1] = Ok /\ ~ WellFormedModel [ok0; self1].
Proof.
  split; [reflexivity|]. split.
  - intros [_ W]. specialize (W 1 bad1 eq_refl). destruct W as [_ [_ W]]. simpl in W.
    destruct W as [_ [[c [E R]] _]]. inversion E; subst. simpl in R. lia.
  - split; [reflexivity|]. intros [_ W]. specialize (W 1 self1 eq_refl). destruct W as [_ [_ W]]. simpl in W.
    destruct W as [_ [[c [E R]] _]]. inversion E; subst. simpl in R. lia.
Qed.

Lemma with_hierarchy_check_rejects :
  validate_model [ok0; bad1; ok0] = Err BadHierarchy 1 /\ validate_model [ok0; self1] = Err BadHierarchy 1.
Proof. split; reflexivity. Qed.

(* ------------------------------------------------------------------ where the exception comes from *)
(* per-dimension part of WellFormedFit *)
Definition wf_fit_dim (ds : list desc) (fi : fit_input) (i : nat) (d : desc) : Prop :=
  method_ok (d_family d) (d_fixed d) (f_method (eff_fitdesc fi i)) (f_weights (eff_fitdesc fi i)) /\
  forall c, cond_index d = Some c -> wf_slice (slicer_at ds c) (nth c (fi_surviving fi) 0).

Lemma fit_dim_pos ds fi i d t p : fit_dim ds fi i d = Err t p -> p = i.
Proof.
  unfold fit_dim. destruct (cond_index d).
  - intros H. apply and_then_err in H. destruct H as [H|[_ H]].
    + eapply validate_slice_pos; eauto.
    + eapply dispatch_pos; eauto.
  - apply dispatch_pos.
Qed.

(* the exception raised by fit names what is wrong: the length of fit_descriptions, an entry without method,
   the data dimension, or a dimension whose method / weights / slicer is not acceptable *)
Theorem fit_reported_position ds fi t p : validate_fit ds fi = Err t p ->
  (t = FitLength /\ exists l, fi_descs fi = Some l /\ List.length l <> List.length ds) \/
  (t = MissingMethod /\ exists l f, fi_descs fi = Some l /\ nth_error l p = Some (Some f) /\ f_has_method f = false) \/
  (t = DataDimension /\ fi_data_cols fi <> List.length ds) \/
  (exists d, nth_error ds p = Some d /\ ~ wf_fit_dim ds fi p d).
Proof.
  unfold validate_fit. intros H. apply and_then_err in H. destruct H as [H|[_ H]].
  - unfold check_fit_descs in H. destruct (fi_descs fi) as [l|] eqn:L; [|discriminate].
    destruct (List.length l =? List.length ds) eqn:E.
    + right. left. apply first_err_err in H. destruct H as [j [x [Hj [Hf _]]]]. simpl in Hf.
      destruct x as [f|]; [|discriminate]. simpl in Hf. destruct (f_has_method f) eqn:M; [discriminate|].
      inversion Hf; subst. split; auto. exists l, f. auto.
    + left. apply Nat.eqb_neq in E. inversion H; subst. split; auto. exists l. auto.
  - apply and_then_err in H. destruct H as [H|[_ H]].
    + right. right. left. destruct (fi_data_cols fi =? List.length ds) eqn:E; [discriminate|].
      apply Nat.eqb_neq in E. inversion H; subst. auto.
    + right. right. right. apply first_err_err in H. destruct H as [j [x [Hj [Hf _]]]]. simpl in Hf.
      pose proof (fit_dim_pos _ _ _ _ _ _ Hf); subst p. exists x. split; auto.
      intros W. apply fit_dim_iff in W. congruence.
Qed.

(* inputs of the five phases of a session *)
Definition phase_index (ph : phase) : nat :=
  match ph with PhSlicers => 0 | PhModel => 1 | PhFit => 2 | PhEval => 3 | PhContour => 4 end.

Definition phase_input_ok (sc : scenario) (ph : phase) : Prop :=
  match ph with
  | PhSlicers => forall i d s, nth_error (sc_descs sc) i = Some d -> d_intervals d = Some s -> wf_slicer_init s
  | PhModel => WellFormedModel (sc_descs sc)
  | PhFit => forall fi, sc_fit sc = Some fi -> WellFormedFit (sc_descs sc) fi
  | PhEval => forall b pts, sc_points sc = Some (b, pts) -> forall row, In row pts -> forall x, In x row -> is_finite x = true
  | PhContour => forall c, sc_contour sc = Some c -> WellFormedContour (List.length (sc_descs sc)) c
  end.

Definition phase_result (sc : scenario) (ph : phase) : result :=
  match ph with
  | PhSlicers => validate_slicers (sc_descs sc)
  | PhModel => validate_model (sc_descs sc)
  | PhFit => opt_result (validate_fit (sc_descs sc)) (sc_fit sc)
  | PhEval => opt_result (fun p => validate_points_f (fst p) (snd p)) (sc_points sc)
  | PhContour => opt_result (validate_contour (List.length (sc_descs sc))) (sc_contour sc)
  end.

Lemma phase_result_iff sc ph : phase_result sc ph = Ok <-> phase_input_ok sc ph.
Proof.
  destruct ph; simpl.
  - unfold validate_slicers. rewrite first_err_ok. split.
    + intros S i d s Hd Hs. specialize (S i d Hd). simpl in S. rewrite Hs in S. now apply validate_slicer_init_iff in S.
    + intros S j x Hj. simpl. destruct (d_intervals x) as [s|] eqn:I; auto. apply validate_slicer_init_iff. eapply S; eauto.
  - apply validate_model_iff.
  - destruct (sc_fit sc) as [fi|]; simpl.
    + rewrite validate_fit_iff. split; [intros H fi' E; inversion E; subst; exact H | intros H; now apply H].
    + split; auto. intros _ fi E. discriminate.
  - destruct (sc_points sc) as [[b pts]|]; simpl.
    + unfold validate_points_f. rewrite (validate_points_iff float is_finite b pts). split.
      * intros H b' pts' E. inversion E; subst. exact H.
      * intros H. now apply (H b pts).
    + split; auto. intros _ b pts E. discriminate.
  - destruct (sc_contour sc) as [c|]; simpl.
    + rewrite validate_contour_iff. split; [intros H c' E; inversion E; subst; exact H | intros H; now apply H].
    + split; auto. intros _ c E. discriminate.
Qed.

Lemma pipeline_phases sc :
  pipeline sc = orelse (in_phase PhSlicers (phase_result sc PhSlicers))
               (orelse (in_phase PhModel (phase_result sc PhModel))
               (orelse (in_phase PhFit (phase_result sc PhFit))
               (orelse (in_phase PhEval (phase_result sc PhEval))
                       (in_phase PhContour (phase_result sc PhContour))))).
Proof. reflexivity. Qed.

(* WHERE: a session raises in the first phase whose input is ill-formed -- the inputs of all earlier
   phases are well-formed, the input of the raising phase is not *)
Opaque phase_result.
Theorem pipeline_first_phase sc ph t p : pipeline sc = Some (ph, t, p) ->
  phase_result sc ph = Err t p /\ ~ phase_input_ok sc ph /\
  forall ph', phase_index ph' < phase_index ph -> phase_input_ok sc ph'.
Proof.
  rewrite pipeline_phases. intros H.
  assert (K : forall q, phase_result sc q = Err t p -> ~ phase_input_ok sc q).
  { intros q E W. apply phase_result_iff in W. congruence. }
  destruct (phase_result sc PhSlicers) eqn:R0; simpl in H.
  2:{ inversion H; subst. split; [exact R0|]. split; [now apply K|]. intros q L. simpl in L. lia. }
  destruct (phase_result sc PhModel) eqn:R1; simpl in H.
  2:{ inversion H; subst. split; [exact R1|]. split; [now apply K|]. intros q L.
      destruct q; simpl in L; try lia. now apply phase_result_iff. }
  destruct (phase_result sc PhFit) eqn:R2; simpl in H.
  2:{ inversion H; subst. split; [exact R2|]. split; [now apply K|]. intros q L.
      destruct q; simpl in L; try lia; now apply phase_result_iff. }
  destruct (phase_result sc PhEval) eqn:R3; simpl in H.
  2:{ inversion H; subst. split; [exact R3|]. split; [now apply K|]. intros q L.
      destruct q; simpl in L; try lia; now apply phase_result_iff. }
  destruct (phase_result sc PhContour) eqn:R4; simpl in H; [discriminate|].
  inversion H; subst. split; [exact R4|]. split; [now apply K|]. intros q L.
  destruct q; simpl in L; try lia; now apply phase_result_iff.
Qed.
Transparent phase_result.

(* the classes named by the property (ValueError / TypeError / RuntimeError / NotImplementedError) cover every
   rejection except four that surface as IndexError / AttributeError of the expression that trips first *)
Theorem exception_classes t :
  In (exc_of t) [ValueError; TypeError; RuntimeError; NotImplementedError] \/
  In t [EmptyModel; LimitIndex; NoIntervals; MethodNotString].
Proof. destruct t; simpl; tauto. Qed.

(* ConditionalDistribution.__init__ called directly *)
Theorem conditional_distribution_iff i d cv : d_conditional_on d = Some cv ->
  (check_cond i d = Ok <->
   (forall p, In p (d_dependent d) -> In p (d_params d)) /\
   (forall p, In p (d_params d) ->
      (In p (d_dependent d) /\ ~ In p (d_fixed d)) \/ (~ In p (d_dependent d) /\ In p (d_fixed d)))).
Proof. intros H. rewrite check_cond_iff. unfold wf_cond. rewrite H. tauto. Qed.
