"""Shared helpers of the C02 / C15 harnesses: replayable random hierarchical models over the shipped
families, grid generation, recorders installed from outside (cdf tables, scipy.ndimage, NearestNeighbors),
Coq text emission for the grid cases.  No virocon code is copied here: models are built through
virocon's public constructors and every value compared comes from the real implementation."""
import math
import warnings

import numpy as np

import vlib
from vlib import fl, fl_list


# ------------------------------------------------------------------ replayable model descriptions
def _dep(kind, a, b, c):
    if kind == "power3":
        return lambda x, a=a, b=b, c=c: a + b * x ** c
    if kind == "exp3":
        return lambda x, a=a, b=b, c=c: a + b * np.exp(c * x)
    if kind == "lin":
        return lambda x, a=a, b=b, c=c: a + b * x
    if kind == "step":      # jump at x = c: the conditional distribution moves abruptly (disconnected regions)
        return lambda x, a=a, b=b, c=c: a + b * (np.asarray(x) > c)
    raise ValueError(kind)


FAMILIES = ["weibull", "lognormal", "expweibull", "normal", "gengamma"]


def _family(vc, name, params):
    if name == "weibull":
        return vc.WeibullDistribution(**params)
    if name == "lognormal":
        return vc.LogNormalDistribution(**params)
    if name == "expweibull":
        return vc.ExponentiatedWeibullDistribution(**params)
    if name == "normal":
        return vc.NormalDistribution(**params)
    if name == "gengamma":
        return vc.GeneralizedGammaDistribution(**params)
    if name == "vonmises":
        return vc.VonMisesDistribution(**params)
    if name == "lognormfit":
        return vc.distributions.LogNormalNormFitDistribution(**params)
    if name == "scipygamma":
        global _GAMMA
        if _GAMMA is None:
            class GammaDistribution(vc.ScipyDistribution):
                scipy_dist_name = "gamma"
            _GAMMA = GammaDistribution
        return _GAMMA(**params)
    raise ValueError(name)


_GAMMA = None
SIGNED = ("normal", "vonmises")       # families with negative values: never used as conditioning variable

# the predefined model structures, fitted to the shipped one-year benchmark datasets (column order as the structure expects)
PREDEFINED = {
    "get_DNVGL_Hs_Tz": ("ec-benchmark_dataset_A_1year.txt", [0, 1], None),
    "get_OMAE2020_Hs_Tz": ("ec-benchmark_dataset_A_1year.txt", [0, 1], None),
    "get_DNVGL_Hs_U": ("ec-benchmark_dataset_D_1year.txt", [1, 0], None),
    "get_OMAE2020_V_Hs": ("ec-benchmark_dataset_D_1year.txt", [0, 1], None),
    "get_Windmeier_EW_Hs_S": ("ec-benchmark_dataset_A_1year.txt", [0, 1], "hs_s"),
    "get_Nonzero_EW_Hs_S": ("ec-benchmark_dataset_A_1year.txt", [0, 1], "hs_s"),
}
_FITTED = {}


def predefined_data(name, dataset=None):
    import os
    import pandas as pd
    import virocon as vc
    fn, cols, tr = PREDEFINED[name]
    fn = dataset or fn
    data = vc.read_ec_benchmark_dataset(os.path.join(vlib.REPO, "datasets", fn)).iloc[:, cols]
    if tr == "hs_s":
        hs, tz = data.iloc[:, 0], data.iloc[:, 1]
        _, st = vc.variable_transform.hs_tz_to_hs_s(hs, tz)
        st.name = "steepness"
        data = pd.concat([hs, st], axis=1)
    return data


def fit_predefined(name):
    """GlobalHierarchicalModel of a predefined structure fitted with its own fit description (deterministic)"""
    import virocon as vc
    if name not in _FITTED:
        r = getattr(vc, name)()
        model = vc.GlobalHierarchicalModel(r[0])
        data = predefined_data(name)
        with warnings.catch_warnings():
            warnings.simplefilter("ignore")
            model.fit(data, r[1])
        _FITTED[name] = (model, [float(data.iloc[:, k].max()) for k in range(data.shape[1])])
    return _FITTED[name]


def fit_predefined_fresh(name, dataset=None):
    """a NEW model object of the predefined structure fitted to the given dataset file (not shared with other cases)"""
    import virocon as vc
    r = getattr(vc, name)()
    model = vc.GlobalHierarchicalModel(r[0])
    with warnings.catch_warnings():
        warnings.simplefilter("ignore")
        model.fit(predefined_data(name, dataset), r[1])
    return model


def refit_predefined(model, name, dataset):
    """fit the SAME model object again, to another dataset"""
    import virocon as vc
    r = getattr(vc, name)()
    with warnings.catch_warnings():
        warnings.simplefilter("ignore")
        model.fit(predefined_data(name, dataset), r[1])
    return model


def predefined_desc(name):
    model, _ = fit_predefined(name)
    return {"predefined": name, "dims": [{"family": "predefined", "cond": c} for c in model.conditional_on]}


class MixtureConditional:
    """Y | X = sum_k w_k * Normal(mu_k(X), sigma_k): a conditional distribution with several modes, assembled from
    virocon's own ConditionalDistribution / NormalDistribution objects (duck-typed: HighestDensityContour only calls cdf)."""

    def __init__(self, comps):
        import virocon as vc
        self.weights = [float(c["w"]) for c in comps]
        tot = sum(self.weights)
        self.weights = [w / tot for w in self.weights]
        self.parts = [vc.distributions.ConditionalDistribution(
            vc.NormalDistribution(f_sigma=float(c["sigma"])),
            {"mu": vc.DependenceFunction(_dep(*c["mu"]), [(None, None)] * 3)}) for c in comps]

    def cdf(self, x, given):
        out = 0.0
        for w, part in zip(self.weights, self.parts):
            out = out + w * np.asarray(part.cdf(x, given=given), dtype=float)
        return out


class _TableMarginal:
    def __init__(self, edges, mass):
        self.edges = np.asarray(edges, dtype=float)
        self.cum = np.concatenate([[0.0], np.cumsum(np.asarray(mass, dtype=float))])
        self.cum = self.cum / self.cum[-1]

    def cdf(self, x):
        return np.interp(np.asarray(x, dtype=float), self.edges, self.cum)


class _TableConditional:
    def __init__(self, edges, centres_given, rows):
        self.edges = np.asarray(edges, dtype=float)
        self.centres = np.asarray(centres_given, dtype=float)
        self.cums = []
        for r in rows:
            c = np.concatenate([[0.0], np.cumsum(np.asarray(r, dtype=float))])
            self.cums.append(c / c[-1])

    def cdf(self, x, given):
        i = int(np.argmin(np.abs(self.centres - float(given))))
        return np.interp(np.asarray(x, dtype=float), self.edges, self.cums[i])


class TableModel:
    """a 2-D (or, with `extrude`, 3-D) model whose cell probabilities on ITS grid are proportional to a weight table:
    P[i, j] = w[i, j] / sum(w)  (3-D: P[i, m, j] = e[m] * w[i, j] / ...).  Used to hand HighestDensityContour an enclosed
    region of a chosen shape (regions with overlapping bounding boxes, nested regions, ...)."""

    def __init__(self, t):
        w = np.asarray(t["weights"], dtype=float)
        d0, d1 = float(t["deltas"][0]), float(t["deltas"][-1])
        n0, n1 = w.shape
        e0 = np.arange(n0 + 1) * d0
        e1 = np.arange(n1 + 1) * d1
        c0 = (np.arange(n0) + 0.5) * d0
        first = _TableMarginal(e0, w.sum(axis=1))
        last = _TableConditional(e1, c0, w)
        if t.get("extrude"):
            dm = float(t["deltas"][1])
            m = np.asarray(t["extrude"], dtype=float)
            mid = _TableMarginal(np.arange(len(m) + 1) * dm, m)
            self.distributions = [first, mid, last]
            self.conditional_on = [None, None, 0]
        else:
            self.distributions = [first, last]
            self.conditional_on = [None, 0]
        self.n_dim = len(self.distributions)

    def marginal_icdf(self, p, dim, precision_factor=1):
        raise NotImplementedError("table models are used with explicit limits")


class ProductModel:
    """independent variables with tabulated cell masses: P[i, j, ...] = a_i * b_j * ... on the model's own grid
    (a region with an enclosed hole / cavity arises from masses that dip in the middle of every axis)"""

    def __init__(self, t):
        self.distributions = [_TableMarginal(np.arange(len(m) + 1) * float(dl), m) for m, dl in zip(t["masses"], t["deltas"])]
        self.conditional_on = [None] * len(self.distributions)
        self.n_dim = len(self.distributions)

    def marginal_icdf(self, p, dim, precision_factor=1, **kw):
        raise NotImplementedError("product table models are used with explicit limits")


def product_grid(t):
    deltas = [float(d) for d in t["deltas"]]
    limits = [[0.5 * dl, (len(m) - 0.5) * dl] for m, dl in zip(t["masses"], deltas)]
    return limits, deltas


def table_grid(t):
    """limits and deltas under which the HDC grid is the table's grid (cell centres at (k + 1/2) * delta)"""
    w = np.asarray(t["weights"], dtype=float)
    shape = [w.shape[0]] + ([len(t["extrude"])] if t.get("extrude") else []) + [w.shape[1]]
    deltas = [float(d) for d in t["deltas"]]
    limits = [[0.5 * dl, (k - 0.5) * dl] for k, dl in zip(shape, deltas)]
    return limits, deltas


def build_model(desc):
    """desc: {"dims": [{"family", "params"} | {"family", "params"(fixed), "cond", "dep": {par: [kind,a,b,c]}}
                       | {"family": "mixture", "cond", "components": [{"w", "mu": [kind,a,b,c], "sigma"}]}]}
       or {"table": {...}, "dims": [placeholders]}"""
    import virocon as vc
    if desc.get("table") is not None:
        return TableModel(desc["table"])
    if desc.get("product") is not None:
        return ProductModel(desc["product"])
    if desc.get("predefined") is not None:
        return fit_predefined(desc["predefined"])[0]
    dds = []
    mixtures = []
    for k, d in enumerate(desc["dims"]):
        if d["family"] == "mixture":
            mixtures.append((k, d))
            dds.append({"distribution": vc.NormalDistribution(f_sigma=1.0), "conditional_on": d["cond"],
                        "parameters": {"mu": vc.DependenceFunction(_dep("lin", 0.0, 1.0, 0.0), [(None, None)] * 3)}})
        elif d.get("cond") is None:
            dds.append({"distribution": _family(vc, d["family"], d["params"])})
        else:
            fixed = {"f_" + k2: v for k2, v in d.get("params", {}).items()}
            deps = {k2: vc.DependenceFunction(_dep(*v), [(None, None)] * 3) for k2, v in d["dep"].items()}
            dds.append({"distribution": _family(vc, d["family"], fixed), "conditional_on": d["cond"], "parameters": deps})
    model = vc.GlobalHierarchicalModel(dds)
    for k, d in mixtures:
        model.distributions[k] = MixtureConditional(d["components"])
    return model


def r3(rng, lo, hi):
    return round(rng.uniform(lo, hi), 3)


def gen_marginal(rng):
    fam = rng.choice(["weibull", "weibull", "lognormal", "expweibull", "gengamma", "normal", "vonmises", "lognormfit", "scipygamma"])
    if fam == "vonmises":
        return {"family": fam, "params": {"kappa": r3(rng, 0.8, 4), "mu": r3(rng, -1.0, 1.0)}}
    if fam == "lognormfit":
        return {"family": fam, "params": {"mu_norm": r3(rng, 1.5, 4), "sigma_norm": r3(rng, 0.4, 1.5)}}
    if fam == "scipygamma":
        return {"family": fam, "params": {"a": r3(rng, 1.2, 4), "loc": 0.0, "scale": r3(rng, 0.5, 2)}}
    if fam == "weibull":
        return {"family": fam, "params": {"alpha": r3(rng, 0.8, 4), "beta": r3(rng, 0.9, 3), "gamma": rng.choice([0.0, r3(rng, 0, 1)])}}
    if fam == "lognormal":
        return {"family": fam, "params": {"mu": r3(rng, 0.0, 1.5), "sigma": r3(rng, 0.15, 0.6)}}
    if fam == "expweibull":
        return {"family": fam, "params": {"alpha": r3(rng, 0.5, 3), "beta": r3(rng, 0.8, 2.5), "delta": r3(rng, 0.6, 4)}}
    if fam == "gengamma":
        return {"family": fam, "params": {"m": r3(rng, 0.8, 3), "c": r3(rng, 0.8, 2.5), "lambda_": r3(rng, 0.3, 1.5)}}
    return {"family": fam, "params": {"mu": r3(rng, 3, 8), "sigma": r3(rng, 0.5, 2)}}


def gen_conditional(rng, cond):
    fam = rng.choice(["lognormal", "lognormal", "weibull", "normal", "expweibull"])
    if fam == "lognormal":
        return {"family": fam, "cond": cond, "params": {},
                "dep": {"mu": ["power3", r3(rng, 0.0, 0.8), r3(rng, 0.3, 1.6), r3(rng, 0.1, 0.5)],
                        "sigma": ["exp3", r3(rng, 0.03, 0.2), r3(rng, 0.05, 0.3), -r3(rng, 0.05, 0.4)]}}
    if fam == "weibull":
        return {"family": fam, "cond": cond, "params": {"gamma": 0.0},
                "dep": {"alpha": ["lin", r3(rng, 0.5, 2), r3(rng, 0.2, 1.5), 0.0],
                        "beta": ["power3", r3(rng, 1.0, 2), r3(rng, 0.0, 0.5), r3(rng, 0.3, 1.0)]}}
    if fam == "normal":
        return {"family": fam, "cond": cond, "params": {"sigma": r3(rng, 0.4, 1.5)},
                "dep": {"mu": ["lin", r3(rng, 2, 5), r3(rng, 0.2, 1.0), 0.0]}}
    return {"family": fam, "cond": cond, "params": {"beta": r3(rng, 0.9, 2.0), "delta": r3(rng, 0.7, 3)},
            "dep": {"alpha": ["power3", r3(rng, 0.3, 1.5), r3(rng, 0.2, 1.0), r3(rng, 0.3, 1.0)]}}


def gen_multimodal_desc(rng):
    """2-D model whose second variable jumps at a threshold of the first: the enclosed region falls apart"""
    m = {"family": "weibull", "params": {"alpha": r3(rng, 2.0, 3.5), "beta": r3(rng, 1.8, 3.0), "gamma": 0.0}}
    t = r3(rng, 1.5, 2.5)
    c = {"family": "lognormal", "cond": 0, "params": {"sigma": r3(rng, 0.05, 0.12)},
         "dep": {"mu": ["step", r3(rng, 0.2, 0.6), r3(rng, 1.2, 2.0), t]}}
    return {"dims": [m, c]}


def gen_model_desc(rng, n_dim, multimodal=False):
    if multimodal and n_dim == 2:
        return gen_multimodal_desc(rng)
    dims = [gen_marginal(rng)]
    for d in range(1, n_dim):
        r = rng.random()
        parents = [k for k in range(d) if dims[k]["family"] not in SIGNED]    # a conditioning variable must be positive
        if r < 0.2 or not parents:
            dims.append(gen_marginal(rng))
        else:
            dims.append(gen_conditional(rng, rng.choice(parents)))
    return {"dims": dims}


def typical_upper(model, desc, p=0.9995):
    """a generous upper end per dimension (used only to place the grid): quantile p of the marginal, or of the
    conditional at an upper-ish conditioning value"""
    if desc.get("predefined") is not None:
        return [1.5 * u for u in fit_predefined(desc["predefined"])[1]]
    ups = []
    for d, dd in enumerate(desc["dims"]):
        dist = model.distributions[d]
        if dd.get("cond") is None:
            ups.append(float(dist.icdf(np.array([p]))[0]))
        else:
            g = np.array([0.3 * ups[dd["cond"]], 0.6 * ups[dd["cond"]], ups[dd["cond"]]])
            v = [float(dist.icdf(np.array([p]), given=np.array([gi]))[0]) for gi in g]
            ups.append(max(v))
    return ups


DECIMAL = [0.05, 0.1, 0.2, 0.25, 0.5, 1.0]


def gen_grid(rng, model, desc, max_cells, alpha=None, ratio_max=10.0, min_axis=8):
    """-> dict(limits, deltas) as they are passed to HighestDensityContour (JSON-able)"""
    n = len(desc["dims"])
    ups = typical_upper(model, desc, 0.9995 if alpha is None else min(1 - 1e-10, 1 - alpha / 30.0))
    scale = rng.choice([1.0, 1.0, 1.0, 1.3, 0.8, 0.55])   # < 1: the grid may be too small (RuntimeWarning path)
    per_axis = max(min_axis, int(round(max_cells ** (1.0 / n))))
    lims, dls = [], []
    aniso = rng.random() < 0.5
    for d in range(n):
        hi = ups[d] * scale
        hi = float(round(hi, 1)) if hi > 2 and rng.random() < 0.6 else float(hi)
        if hi <= 0:
            hi = 1.0
        lo = 0.0
        if rng.random() < 0.25:
            lo = float(round(rng.uniform(0, 0.04) * hi, 2))      # grid not starting at 0: c[1] - c[0] may differ from delta by an ulp
        if desc["dims"][d]["family"] == "vonmises":
            lo, hi = -3.3, 3.3                                   # the support is [-pi, pi]
        if desc.get("predefined") is not None:
            lo = float(round(0.02 * hi, 3))                      # some fitted dependence functions are undefined at 0
        cells = rng.randrange(min_axis, per_axis + 1)
        dl = (hi - lo) / cells
        if rng.random() < 0.5:
            cand = [x for x in DECIMAL if hi / x <= per_axis * 1.5 and hi / x >= min_axis]
            if cand:
                dl = rng.choice(cand)
        lims.append([lo, hi])
        dls.append(float(dl))
    if aniso:
        k = rng.randrange(n)
        f = rng.choice([2.0, 3.0, 5.0, 10.0])
        if f <= ratio_max:
            if (lims[k][1] - lims[k][0]) / (dls[k] * f) >= 4:
                dls[k] = dls[k] * f
            else:
                dls[k] = dls[k] / f
    else:
        if rng.random() < 0.5:
            dls = [dls[0]] * n
    # keep the total inside the budget
    def ncell():
        t = 1
        for d in range(n):
            t *= int(math.ceil((lims[d][1] + dls[d] - lims[d][0]) / dls[d]))
        return t
    guard = 0
    while ncell() > max_cells and guard < 60:
        k = max(range(n), key=lambda d: (lims[d][1] - lims[d][0]) / dls[d])
        dls[k] *= 1.25
        guard += 1
    form = rng.random()
    deltas = dls
    if len(set(dls)) == 1 and form < 0.5:
        deltas = dls[0]                         # scalar form
    if rng.random() < 0.15:
        k = rng.randrange(n)
        lims[k] = [lims[k][1], lims[k][0]]       # (max, min): _compute takes min()/max() of the tuple
    if rng.random() < 0.2:
        lims = [[int(round(a)), int(round(b))] if abs(round(b) - b) < 1e-12 and abs(round(a) - a) < 1e-12 else [a, b] for a, b in lims]
    # container types: deltas list / tuple / ndarray / numpy scalar / int, limits list of lists / of tuples / ndarray / tuple
    dl_form = rng.choice(["asis", "asis", "tuple", "ndarray"]) if isinstance(deltas, list) else rng.choice(["asis", "asis", "npfloat"])
    if not isinstance(deltas, list) and float(deltas) == int(deltas) and rng.random() < 0.5:
        dl_form = "int"
    lim_form = rng.choice(["tuples", "tuples", "lists", "ndarray", "tuple_of_lists"])
    return {"limits": lims, "deltas": deltas, "lim_form": lim_form, "dl_form": dl_form}


def apply_forms(limits, deltas, lim_form="tuples", dl_form="asis"):
    lim = limits
    if limits is not None:
        if lim_form == "lists":
            lim = [list(l) for l in limits]
        elif lim_form == "ndarray":
            lim = np.array([list(l) for l in limits])
        elif lim_form == "tuple_of_lists":
            lim = tuple(list(l) for l in limits)
        else:
            lim = [tuple(l) for l in limits]
    dl = deltas
    if deltas is not None:
        if dl_form == "tuple":
            dl = tuple(deltas)
        elif dl_form == "ndarray":
            dl = np.array(deltas, dtype=float)
        elif dl_form == "npfloat":
            dl = np.float64(deltas)
        elif dl_form == "int":
            dl = int(deltas)
        elif dl_form == "npint":
            try:
                dl = [np.int64(v) if isinstance(v, int) else v for v in deltas]
            except TypeError:
                dl = np.int64(deltas)
    return lim, dl


# ------------------------------------------------------------------ recorders
class CdfRecorder:
    """replaces dist.cdf on the instances of one model (instance attribute shadows the method)"""

    def __init__(self, model):
        self.model = model
        self.calls = []       # (d, given or None, xs, result)
        self.saved = []
        for d, dist in enumerate(model.distributions):
            real = dist.cdf
            self.saved.append((dist, "cdf" in dist.__dict__, dist.__dict__.get("cdf")))
            dist.cdf = self._wrap(d, real)

    def _wrap(self, d, real):
        def cdf(x, *a, **kw):
            out = real(x, *a, **kw)
            given = kw.get("given", a[0] if a else None)
            self.calls.append((d, None if given is None else float(given), np.array(x, dtype=float).copy(),
                               np.array(out, dtype=float).copy()))
            return out
        return cdf

    def restore(self):
        for dist, had, old in self.saved:
            if had:
                dist.cdf = old
            else:
                try:
                    del dist.cdf
                except AttributeError:
                    pass


class NdiProxy:
    """stands in for the name `ndi` inside virocon.contours; forwards to scipy.ndimage and records"""

    def __init__(self, real):
        self._real = real
        self.erosions = []    # (input, structure, output)
        self.labels = []      # (input, structure, labeled, n)

    def binary_erosion(self, input, structure=None, *a, **kw):
        out = self._real.binary_erosion(input, structure, *a, **kw)
        self.erosions.append((np.array(input).copy(), None if structure is None else np.array(structure).copy(), np.array(out).copy()))
        return out

    def label(self, input, structure=None, *a, **kw):
        lab, n = self._real.label(input, structure, *a, **kw)
        self.labels.append((np.array(input).copy(), None if structure is None else np.array(structure).copy(), np.array(lab).copy(), int(n)))
        return lab, n

    def __getattr__(self, name):
        return getattr(self._real, name)


class Recording:
    """context manager: ndi proxy on virocon.contours, kNN recorder on virocon.utils, marginal_icdf recorder"""

    def __init__(self, model=None):
        self.model = model
        self.knn = []        # per sorter call: (points, neighbour index array (n,2))
        self.micdf = []      # (p, dim, precision_factor, value)

    def __enter__(self):
        import virocon.contours as vcon
        import virocon.utils as vut
        self.vcon, self.vut = vcon, vut
        self.old_ndi = vcon.ndi
        self.ndi = NdiProxy(vcon.ndi)
        vcon.ndi = self.ndi
        self.old_nn = vut.NearestNeighbors
        rec = self

        class NN:
            def __init__(self, *a, **kw):
                self._r = rec.old_nn(*a, **kw)
                self.args = (a, kw)

            def fit(self, pts):
                self._pts = np.array(pts, dtype=float).copy()
                self._r.fit(pts)
                return self

            def kneighbors_graph(self, *a, **kw):
                g = self._r.kneighbors_graph(*a, **kw)
                csr = g.tocsr() if g.format != "csr" else g
                rec.knn.append({"points": self._pts, "indptr": np.array(csr.indptr).copy(), "indices": np.array(csr.indices).copy(),
                                "format": g.format, "args": self.args})
                return g

            def __getattr__(self, name):
                return getattr(self._r, name)
        vut.NearestNeighbors = NN
        self.cdf = CdfRecorder(self.model) if self.model is not None else None
        if self.model is not None:
            real_m = self.model.marginal_icdf
            self._had_m = "marginal_icdf" in self.model.__dict__

            def marginal_icdf(p, dim, precision_factor=1, **kw):
                v = real_m(p, dim, precision_factor=precision_factor, **kw)
                rec.micdf.append((float(p), int(dim), float(precision_factor), float(v)))
                return v
            self.model.marginal_icdf = marginal_icdf
        return self

    def __exit__(self, *exc):
        self.vcon.ndi = self.old_ndi
        self.vut.NearestNeighbors = self.old_nn
        if self.cdf is not None:
            self.cdf.restore()
            try:
                del self.model.marginal_icdf
            except AttributeError:
                pass
        return False


def run_hdc(model, alpha, limits, deltas, lim_form="tuples", dl_form="asis"):
    """Runs the real HighestDensityContour with recorders; returns a dict (never raises)."""
    import virocon as vc
    lim, deltas = apply_forms(limits, deltas, lim_form, dl_form)
    out = {"alpha": alpha}
    with Recording(model) as rec:
        with warnings.catch_warnings(record=True) as wl:
            warnings.simplefilter("always")
            try:
                c = vc.HighestDensityContour(model, alpha, lim, deltas)
                out["contour"] = c
            except Exception as e:  # noqa
                out["err"] = type(e).__name__
                out["err_msg"] = str(e)[:300]
        out["warned"] = any(issubclass(w.category, RuntimeWarning) and "1-alpha could not be reached" in str(w.message) for w in wl)
        out["calls_compute"] = list(rec.cdf.calls)
        out["micdf"] = list(rec.micdf)
        out["erosions"] = rec.ndi.erosions
        out["labels"] = rec.ndi.labels
        out["knn"] = rec.knn
        if "contour" in out:
            c = out["contour"]
            n0 = len(rec.cdf.calls)
            f = c.cell_averaged_joint_pdf(c.cell_center_coordinates)
            out["f"] = np.array(f, dtype=float)
            out["calls"] = rec.cdf.calls[n0:]
    return out


# ------------------------------------------------------------------ Coq emission
GRID_PRELUDE = """From V.base Require Import FloatBits.
From V.model Require Import Hdc.
Local Open Scope float_scope.
Definition fclose (a b : float) : bool :=
  fbits_eq a b || (PrimFloat.leb (abs (a - b)) (0x1.12e0be826d695p-30 * (if PrimFloat.ltb (abs a) (abs b) then abs b else abs a))).
Fixpoint all2 {A B} (f : A -> B -> bool) (a : list A) (b : list B) : bool :=
  match a, b with [], [] => true | x :: a', y :: b' => f x y && all2 f a' b' | _, _ => false end.
Fixpoint count2 {A B} (f : A -> B -> bool) (a : list A) (b : list B) : Z :=
  match a, b with x :: a', y :: b' => ((if f x y then 1 else 0) + count2 f a' b')%Z | _, _ => 0%Z end.
Definition oeq (a b : option float) : bool :=
  match a, b with None, None => true | Some x, Some y => fbits_eq x y | _, _ => false end.
(* recorded cdf calls: (distribution index, given, xs, result); a call the implementation never made yields [] *)
Fixpoint lookup (t : list (nat * option float * list float * list float)) (d : nat) (g : option float) (xs : list float) : list float :=
  match t with
  | [] => []
  | (d', g', xs', r) :: t' => if (Nat.eqb d d' && oeq g g' && all2 fbits_eq xs xs')%bool then r else lookup t' d g xs
  end.
Definition beq_list := all2 Bool.eqb.
"""


def opt_f(v):
    return "None" if v is None else "(Some %s)" % fl(v)


def cdf_table(calls):
    return "[" + ";\n ".join("(%d%%nat, %s, %s, %s)" % (d, opt_f(g), fl_list(xs), fl_list(r)) for d, g, xs, r in calls) + "]"


def cond_list(desc):
    return "[" + "; ".join("None" if d.get("cond") is None else "(Some %d%%nat)" % d["cond"] for d in desc["dims"]) + "]"


def limits_coq(limits):
    if limits is None:
        return "None"
    return "(Some [" + "; ".join("(%s, %s)" % (fl(a), fl(b)) for a, b in limits) + "])"


def deltas_coq(deltas):
    if deltas is None:
        return "DNone"
    try:
        return "(DList %s)" % fl_list(list(deltas))
    except TypeError:
        return "(DScalar %s)" % fl(deltas)


def nat_list(xs):
    return "[" + "; ".join("%d" % int(x) for x in xs) + "]%nat"


def coq_grid_case(i, desc, alpha, limits, deltas, out):
    """Coq text for one grid case: the binary64 model recomputes grid, joint cell-averaged pdf (from the recorded cdf
    tables), HDR mask, fm, warning and compares with the implementation.  Result tuple (one Eval):
    (coords_ok, shape_ok, n_bitexact_f, f_close, hdr_code, fm_bitexact, fm_close, warn_ok)
    hdr_code: 0 equal masks, 1 masks differ, 2 model error branch, 3 no recorded HDR"""
    c = out["contour"]
    n = len(desc["dims"])
    marg = [v for (_, _, _, v) in out["micdf"]]
    hdr = out["erosions"][0][0] if out["erosions"] else None
    t = []
    t.append("Definition tbl_%d : list (nat * option float * list float * list float) := %s." % (i, cdf_table(out["calls"])))
    t.append("Definition lims_%d := grid_limits %d%%nat %s %s." % (i, n, limits_coq(limits), fl_list(marg)))
    t.append("Definition dls_%d := grid_deltas %d%%nat lims_%d %s." % (i, n, i, deltas_coq(deltas)))
    t.append("Definition coords_%d := grid_coords lims_%d dls_%d." % (i, i, i))
    t.append("Definition joint_%d := f_joint (lookup tbl_%d) %s coords_%d." % (i, i, cond_list(desc), i))
    t.append("Definition impl_f_%d := %s." % (i, fl_list(out["f"].ravel())))
    t.append("Definition region_%d := f_region (lookup tbl_%d) %s coords_%d dls_%d %s." % (i, i, cond_list(desc), i, i, fl(alpha)))
    impl_coords = "[" + "; ".join(fl_list(a) for a in c.cell_center_coordinates) + "]"
    hdr_txt = "None" if hdr is None else "(Some %s)" % vlib.bool_list([bool(v) for v in hdr.ravel()])
    t.append("""Definition res_%d :=
  (all2 (all2 fbits_eq) coords_%d %s,
   all2 Nat.eqb (a_shape joint_%d) %s,
   count2 fbits_eq (a_data joint_%d) impl_f_%d,
   all2 fclose (a_data joint_%d) impl_f_%d,
   match fst region_%d, %s with
   | HdrOk m _ _, Some h => if beq_list m h then 0%%Z else 1%%Z
   | _, None => 3%%Z
   | _, _ => 2%%Z
   end,
   fbits_eq (snd region_%d) %s, fclose (snd region_%d) %s,
   match fst region_%d with HdrOk _ _ w => Bool.eqb w %s | _ => false end).
Eval vm_compute in res_%d.""" % (i, i, impl_coords, i, nat_list(out["f"].shape), i, i, i, i, i, hdr_txt,
                               i, fl(float(c.fm)), i, fl(float(c.fm)), i, "true" if out["warned"] else "false", i))
    return "\n".join(t) + "\n"


def coq_grid_error_case(i, desc, alpha, limits, deltas, out):
    """the implementation raised inside _compute: the model, fed with the cdf calls recorded up to the exception, must take
    the same branch.  Result (one Eval): (branch: 0 ok / 1 nan -> ValueError / 2 IndexError, number of cells)"""
    n = len(desc["dims"])
    marg = [v for (_, _, _, v) in out["micdf"]]
    t = []
    t.append("Definition etbl_%d : list (nat * option float * list float * list float) := %s." % (i, cdf_table(out["calls_compute"])))
    t.append("Definition elims_%d := grid_limits %d%%nat %s %s." % (i, n, limits_coq(limits), fl_list(marg)))
    t.append("Definition edls_%d := grid_deltas %d%%nat elims_%d %s." % (i, n, i, deltas_coq(deltas)))
    t.append("Definition ecoords_%d := grid_coords elims_%d edls_%d." % (i, i, i))
    t.append("""Eval vm_compute in
  (match fst (f_region (lookup etbl_%d) %s ecoords_%d edls_%d %s) with HdrOk _ _ _ => 0%%Z | HdrNan => 1%%Z | HdrIndexError => 2%%Z end,
   Z.of_nat (List.length (a_data (f_joint (lookup etbl_%d) %s ecoords_%d)))).""" % (i, cond_list(desc), i, i, fl(alpha), i, cond_list(desc), i))
    return "\n".join(t) + "\n"
