(* Abstract heap / footprint model of virocon's public operations (C19).

   Cells are the units of mutable state that the deep snapshots of tools/harness/c19.py distinguish.
   Every model k comes from its own description (a fresh call of a predefined getter or freshly
   constructed distributions / dependence functions); the cells `M k _` are what is reachable from it.
   Each operation has a read set and a write set, written down from the code:

   * evaluations, contours, design conditions, plots and exports write the object they return, possibly
     numpy's global random state (Monte-Carlo paths without a seed), matplotlib's figure registry, a
     file -- and, for TransformedModel.empirical_cdf, the cached sample of that model; nothing else;
   * GlobalHierarchicalModel.fit / TransformedModel.fit write the parameters of the unconditional
     distributions, the per-interval results and the dependence functions of the conditional ones, and
     the defaults in the caller's fit_descriptions; they do not write the template
     (ConditionalDistribution.distribution is deep-copied per interval), the slicers or the structure.

   What an operation computes is abstract (`result`, `effect`): a function of the values in its read set.
   NO proofs in this file. *)
From Coq Require Import List Arith Bool.
Import ListNotations.

Inductive field :=
  | Struct                       (* n_dim, conditional_on, param_names, func, bounds, latex, transformations: set by constructors only *)
  | DistParams (dim : nat)       (* attributes of the unconditional distribution of dimension dim *)
  | Template (dim : nat)         (* ConditionalDistribution.distribution: the template's own attributes *)
  | DepFun (dim par : nat)       (* DependenceFunction par of dimension dim: parameters, x, y, _may_fit, _fitted_conditioners *)
  | PerInterval (dim : nat)      (* distributions_per_interval, parameters_per_interval, data_intervals, conditioning_values/-boundaries *)
  | Slicer (dim : nat)
  | SampleCache.                 (* TransformedModel._sample *)

Inductive cell :=
  | M (k : nat) (f : field)      (* reachable from model k *)
  | Arr (a : nat)                (* an array of the caller (points, sample, data set, limits) *)
  | FitDesc (a : nat)            (* a fit_descriptions list of the caller *)
  | Obj (t : nat)                (* the object returned by operation number t (array, contour, axes) *)
  | Rng                          (* numpy's global random state *)
  | Figs                         (* matplotlib's figure registry *)
  | File (c : nat)               (* the file a contour is exported to (one path per contour c) *)
  | Glob (g : nat).              (* a module-level object of virocon.* (list, dict, array, random generator) *)

Definition field_eqb (a b : field) : bool :=
  match a, b with
  | Struct, Struct | SampleCache, SampleCache => true
  | DistParams i, DistParams j | Template i, Template j | PerInterval i, PerInterval j | Slicer i, Slicer j => Nat.eqb i j
  | DepFun i p, DepFun j q => Nat.eqb i j && Nat.eqb p q
  | _, _ => false
  end.
Definition cell_eqb (a b : cell) : bool :=
  match a, b with
  | M k f, M k' f' => Nat.eqb k k' && field_eqb f f'
  | Arr a, Arr b | FitDesc a, FitDesc b | Obj a, Obj b | File a, File b | Glob a, Glob b => Nat.eqb a b
  | Rng, Rng | Figs, Figs => true
  | _, _ => false
  end.
Definition mem (c : cell) (l : list cell) : bool := existsb (cell_eqb c) l.

(* public entry points that take a model *)
Inductive entry :=
  | Pdf | Cdf | MarginalPdf | MarginalCdf | MarginalIcdf | MarginalIcdfSeeded | ConditionalCdf | ConditionalIcdf
  | ConditionalSample            (* seeded rejection sampling *)
  | DrawSampleSeeded | DrawSample | EmpiricalCdf
  | DepCall                      (* DependenceFunction.__call__ *)
  | DistPdf | DistCdf | DistIcdf | DistSampleSeeded
  | IFORM | IFORMMonteCarlo | IFORMSeeded (* TransformedModel with random_state set *) | ISORM | HDC | HDCDefaultGrid | DirectSampling | AndC | OrC
  | PlotMarginalQuantiles | PlotDependenceFunctions | PlotHistograms | PlotIsodensity.

(* operations on a contour object *)
Inductive post := DesignConditions | PlotContour | SaveContour.

Inductive op :=
  | Eval (k : nat) (e : entry) (args : list nat)          (* args: the caller's arrays it is given *)
  | OnContour (c : nat) (p : post) (args : list nat)      (* c: number of the operation that built the contour *)
  | Fit (k : nat) (data : nat) (fd : option nat).         (* fd: the caller's fit_descriptions, if any *)

(* may draw from numpy's global random state (Monte-Carlo path without a seed) *)
Definition may_use_rng (e : entry) : bool :=
  match e with
  | MarginalIcdf | DrawSample | EmpiricalCdf | HDCDefaultGrid | AndC | OrC | PlotMarginalQuantiles
  | IFORMMonteCarlo (* IFORM on a TransformedModel: marginal_icdf by Monte Carlo *) => true
  | _ => false
  end.
Definition plots (e : entry) : bool :=
  match e with PlotMarginalQuantiles | PlotDependenceFunctions | PlotHistograms | PlotIsodensity => true | _ => false end.

Section Footprints.
  (* structure of model k: per dimension None (unconditional) or Some m (conditional, m dependence functions) *)
  Variable shape : nat -> list (option nat).

  Definition dim_cells (k : nat) (i : nat) (d : option nat) : list cell :=
    match d with
    | None => [M k (DistParams i); M k (Slicer i)]
    | Some m => [M k (Template i); M k (PerInterval i); M k (Slicer i)] ++ map (fun p => M k (DepFun i p)) (seq 0 m)
    end.
  Definition indexed {A} (l : list A) : list (nat * A) := combine (seq 0 (length l)) l.
  (* everything reachable from model k *)
  Definition region (k : nat) : list cell :=
    M k Struct :: M k SampleCache :: flat_map (fun id => dim_cells k (fst id) (snd id)) (indexed (shape k)).

  (* what fitting model k writes inside the model *)
  Definition fit_writes (k : nat) : list cell :=
    flat_map (fun id => match snd id with
                        | None => [M k (DistParams (fst id))]
                        | Some m => M k (PerInterval (fst id)) :: map (fun p => M k (DepFun (fst id) p)) (seq 0 m)
                        end) (indexed (shape k)).

  Definition rset (o : op) : list cell :=
    match o with
    | Eval k e args => region k ++ map Arr args ++ (if may_use_rng e then [Rng] else [])
    | OnContour c p args => Obj c :: map Arr args
    | Fit k data fd => region k ++ [Arr data] ++ match fd with Some a => [FitDesc a] | None => [] end
    end.

  (* t: position of the operation in the history *)
  Definition wset (t : nat) (o : op) : list cell :=
    match o with
    | Eval k e args => Obj t :: (if may_use_rng e then [Rng] else []) ++ (if plots e then [Figs] else [])
                             ++ (match e with EmpiricalCdf => [M k SampleCache] | _ => [] end)
    | OnContour c DesignConditions args => [Obj t]
    | OnContour c PlotContour args => [Obj t; Figs]
    | OnContour c SaveContour args => [File c]
    | Fit k data fd => fit_writes k ++ match fd with Some a => [FitDesc a] | None => [] end
    end.

  (* a deterministic operation: repeating it on an unchanged read set returns the same object *)
  Definition deterministic (o : op) : bool :=
    match o with Eval k e _ => negb (may_use_rng e) | OnContour _ _ _ => true | Fit _ _ _ => false end.

  Section Sem.
    Variable V : Type.
    Definition heap := cell -> V.
    (* what is computed: the returned object is a function of the operation and of the values read;
       the other writes may depend on the position as well *)
    Variable result : op -> list V -> V.
    Variable effect : nat -> op -> list V -> cell -> V.

    (* a written file is, like a returned object, a function of the operation and of what it reads: the export
       TRUNCATES -- the new content does not depend on what the file held before (File c is not in the read set) *)
    Definition is_file (c : cell) : bool := match c with File _ => true | _ => false end.
    Definition step (t : nat) (o : op) (h : heap) : heap :=
      fun c => if mem c (wset t o)
               then (if cell_eqb c (Obj t) || is_file c then result o (map h (rset o)) else effect t o (map h (rset o)) c)
               else h c.

    Fixpoint run (t : nat) (ops : list op) (h : heap) : heap :=
      match ops with [] => h | o :: r => run (S t) r (step t o h) end.
  End Sem.

  (* ---- executable summaries used by the correspondence check *)
  Fixpoint wsets (t : nat) (ops : list op) : list (list cell) :=
    match ops with [] => [] | o :: r => wset t o :: wsets (S t) r end.

  (* is any cell of `cs` written by the operations ops (numbered from t)? *)
  Fixpoint written (t : nat) (ops : list op) (cs : list cell) : bool :=
    match ops with [] => false | o :: r => existsb (fun c => mem c (wset t o)) cs || written (S t) r cs end.

  (* the model guarantees that operation number j (a repetition of the deterministic operation number i < j)
     returns the same object: nothing it reads is written in between *)
  Definition same_result_guaranteed (ops : list op) (i j : nat) : bool :=
    match nth_error ops i with
    | Some a => deterministic a && (i <? j) && negb (written i (firstn (j - i) (skipn i ops)) (rset a))
    | None => false
    end.
  (* numpy's global generator is part of what an unseeded Monte-Carlo operation reads.  When the caller re-seeds it
     (np.random.seed(s)) to the same value before both occurrences, the operation must return the same object as long as
     nothing ELSE it reads was written in between: the test ignores writes to Rng. *)
  Definition is_rng (c : cell) : bool := match c with Rng => true | _ => false end.
  Definition same_result_if_reseeded (ops : list op) (i j : nat) : bool :=
    match nth_error ops i with
    | Some a => (match a with Fit _ _ _ => false | _ => true end) && (i <? j)
                && negb (written i (firstn (j - i) (skipn i ops)) (filter (fun c => negb (is_rng c)) (rset a)))
    | None => false
    end.
End Footprints.
