(* C17 -- design conditions lie on the contour at the requested abscissa, top ordinate; the
   intersection routine returns exactly the crossing points.  Property theorems only; proofs are in
   proofs/IntersectionProofs.v, the model in model/Intersection.v (generic over the number type;
   the theorems are about its instance over R, the correspondence check executes its instance over Q). *)
From Coq Require Import List Bool ZArith QArith Reals Lra.
From V.model Require Import Intersection.
From V.proofs Require Import IntersectionProofs.
Import ListNotations.
Local Open Scope R_scope.

(* ---- intersection(x1, y1, x2, y2) *)

(* exactly the crossing points: p is returned iff segments s1 of curve 1 and s2 of curve 2, not
   parallel, both contain p (soundness: every returned point lies on both curves; completeness: the
   bounding-box prefilter and the in-range filter lose no crossing) *)
Theorem C17_intersection_exact : forall c1 c2 p,
  In p (intersection R Rplus Rminus Rmult Rdiv Rleb IZR c1 c2) <->
  exists s1 s2, In s1 (segments c1) /\ In s2 (segments c2) /\ nonparallel s1 s2 /\ on_seg s1 p /\ on_seg s2 p.
Proof. exact intersection_spec. Qed.

(* one candidate pair contributes its unique crossing point or nothing; parallel / singular pairs nothing;
   the result is the row-major concatenation over the pairs (order of the returned arrays) *)
Theorem C17_pairwise : forall c1 c2,
  intersection R Rplus Rminus Rmult Rdiv Rleb IZR c1 c2 =
    flat_map (fun s1 => flat_map (fun s2 => pair_result R Rplus Rminus Rmult Rdiv Rleb IZR s1 s2) (segments c2)) (segments c1)
  /\ (forall s1 s2 p, In p (pair_result R Rplus Rminus Rmult Rdiv Rleb IZR s1 s2) <-> nonparallel s1 s2 /\ on_seg s1 p /\ on_seg s2 p)
  /\ (forall s1 s2, pair_result R Rplus Rminus Rmult Rdiv Rleb IZR s1 s2 = [] \/ exists p, pair_result R Rplus Rminus Rmult Rdiv Rleb IZR s1 s2 = [p])
  /\ (forall s1 s2, det R Rminus Rmult s1 s2 = 0 -> pair_result R Rplus Rminus Rmult Rdiv Rleb IZR s1 s2 = []).
Proof. exact (fun c1 c2 => conj eq_refl (conj pair_result_spec (conj pair_result_shape pair_result_parallel))). Qed.

(* segment i of a polyline joins vertices i and i+1; n+1 vertices give n segments *)
Theorem C17_segments : forall (c : list (R * R)) i d, (S i < length c)%nat ->
  nth_error (segments c) i = Some (nth i c d, nth (S i) c d) /\ length (segments c) = (length c - 1)%nat.
Proof. exact (fun c i d H => conj (segments_nth c i d H) (segments_length c)). Qed.

(* ---- calculate_design_conditions(contour, steps, swap_axis)  (as repaired, see model) *)

(* full functional specification: going through the requested abscissae in order, an abscissa whose
   vertical line crosses no edge of the closed polygon is omitted, every other one yields exactly
   (that abscissa, the largest ordinate among all crossings there).
   Hypothesis: the polygon does not lie flat on the axis (min ordinate < max ordinate, or max ordinate <> 0). *)
Theorem C17_design_conditions : forall swap coords st,
  let cl := closed_of R swap coords in
  lmin R Rleb IZR (map snd cl) < lmax R Rleb IZR (map snd cl) \/ lmax R Rleb IZR (map snd cl) <> 0 ->
  dc_rel cl (steps_of R Rplus Rminus Rmult Rdiv Rleb IZR cl st)
            (design_conditions R Rplus Rminus Rmult Rdiv Rleb IZR swap coords st).
Proof. exact (fun swap coords st => design_conditions_rel (closed_of R swap coords) st). Qed.

(* ... which determines the result uniquely *)
Theorem C17_specification_unique : forall cl xs r1 r2, dc_rel cl xs r1 -> dc_rel cl xs r2 -> r1 = r2.
Proof. exact dc_rel_unique. Qed.

(* in the words of the property: each returned design condition has a requested abscissa, lies on
   the contour polygon, and carries the largest ordinate among all crossings at that abscissa *)
Theorem C17_each_condition : forall swap coords st q,
  let cl := closed_of R swap coords in
  lmin R Rleb IZR (map snd cl) < lmax R Rleb IZR (map snd cl) \/ lmax R Rleb IZR (map snd cl) <> 0 ->
  In q (design_conditions R Rplus Rminus Rmult Rdiv Rleb IZR swap coords st) ->
  In (fst q) (steps_of R Rplus Rminus Rmult Rdiv Rleb IZR cl st) /\ on_polyline cl q /\
  crossing cl (fst q) (snd q) /\ forall y, crossing cl (fst q) y -> y <= snd q.
Proof.
  exact (fun swap coords st q H => dc_rel_in _ _ _ q (design_conditions_rel (closed_of R swap coords) st H)).
Qed.

(* abscissae that do not cross the contour are omitted, all others are present, order is kept *)
Theorem C17_omitted_iff_no_crossing : forall swap coords st x,
  let cl := closed_of R swap coords in
  lmin R Rleb IZR (map snd cl) < lmax R Rleb IZR (map snd cl) \/ lmax R Rleb IZR (map snd cl) <> 0 ->
  In x (steps_of R Rplus Rminus Rmult Rdiv Rleb IZR cl st) ->
  (In x (map fst (design_conditions R Rplus Rminus Rmult Rdiv Rleb IZR swap coords st)) <-> exists y, crossing cl x y).
Proof.
  exact (fun swap coords st x H => dc_rel_omitted _ _ _ (design_conditions_rel (closed_of R swap coords) st H) x).
Qed.
Theorem C17_order_kept : forall swap coords st,
  let cl := closed_of R swap coords in
  lmin R Rleb IZR (map snd cl) < lmax R Rleb IZR (map snd cl) \/ lmax R Rleb IZR (map snd cl) <> 0 ->
  sublist (steps_of R Rplus Rminus Rmult Rdiv Rleb IZR cl st)
          (map fst (design_conditions R Rplus Rminus Rmult Rdiv Rleb IZR swap coords st)).
Proof.
  exact (fun swap coords st H => dc_rel_sublist _ _ _ (design_conditions_rel (closed_of R swap coords) st H)).
Qed.

(* the polygon is closed: its edges are the consecutive vertex pairs plus the edge last -> first *)
Theorem C17_closed_polygon : forall (p0 : R * R) tl,
  segments (closed_of R false (p0 :: tl)) = segments (p0 :: tl) ++ [(last (p0 :: tl) p0, p0)].
Proof. exact closed_segments. Qed.

(* swap_axis is equivalent to exchanging the two coordinates of the contour *)
Theorem C17_swap_axis : forall coords st,
  design_conditions R Rplus Rminus Rmult Rdiv Rleb IZR true coords st =
  design_conditions R Rplus Rminus Rmult Rdiv Rleb IZR false (map swap_pt coords) st.
Proof. exact design_conditions_swap. Qed.

(* the default abscissae span the contour's extent: n (default 10) evenly spaced values from
   xmin + eps to xmax - eps, eps = (xmax - xmin)/10000; an explicit list is used as it is *)
Theorem C17_default_abscissae : forall cl m,
  let xmin := lmin R Rleb IZR (map fst cl) in let xmax := lmax R Rleb IZR (map fst cl) in
  let lo := xmin + (xmax - xmin) / 10000 in let hi := xmax - (xmax - xmin) / 10000 in
  let n := S (S m) in
  let xs := steps_of R Rplus Rminus Rmult Rdiv Rleb IZR cl (StepsNum n) in
  steps_of R Rplus Rminus Rmult Rdiv Rleb IZR cl StepsDefault = steps_of R Rplus Rminus Rmult Rdiv Rleb IZR cl (StepsNum 10) /\
  length xs = n /\ nth 0 xs 0 = lo /\ nth (S m) xs 0 = hi /\
  (forall i, (i < S m)%nat -> nth (S i) xs 0 - nth i xs 0 = (hi - lo) / INR (S m)) /\
  (lo <= hi -> forall x, In x xs -> lo <= x <= hi) /\
  (forall l, steps_of R Rplus Rminus Rmult Rdiv Rleb IZR cl (StepsList l) = l).
Proof. exact default_abscissae. Qed.

(* ---- audit round: further behaviour of the anchored code *)

(* steps given as an int count is the same as passing the list of default abscissae; the default is the
   count 10; counts 0 and 1 give no abscissa / the lower default limit only *)
Theorem C17_count_is_list : forall sw coords n,
  design_conditions R Rplus Rminus Rmult Rdiv Rleb IZR sw coords (StepsNum n) =
    design_conditions R Rplus Rminus Rmult Rdiv Rleb IZR sw coords
      (StepsList (steps_of R Rplus Rminus Rmult Rdiv Rleb IZR (closed_of R sw coords) (StepsNum n))) /\
  design_conditions R Rplus Rminus Rmult Rdiv Rleb IZR sw coords StepsDefault =
    design_conditions R Rplus Rminus Rmult Rdiv Rleb IZR sw coords (StepsNum 10) /\
  steps_of R Rplus Rminus Rmult Rdiv Rleb IZR (closed_of R sw coords) (StepsNum 0) = [] /\
  steps_of R Rplus Rminus Rmult Rdiv Rleb IZR (closed_of R sw coords) (StepsNum 1) =
    [default_lower R Rplus Rminus Rmult Rdiv Rleb IZR (closed_of R sw coords)].
Proof.
  exact (fun sw coords n => conj (count_is_list sw coords n) (conj (default_is_ten sw coords)
          (small_counts (closed_of R sw coords)))).
Qed.

(* each abscissa is treated on its own: the result for a concatenated list is the concatenation of the
   results (any order, duplicates, the empty list) *)
Theorem C17_pointwise : forall cl l1 l2,
  design_conditions_closed R Rplus Rminus Rmult Rdiv Rleb IZR cl (StepsList (l1 ++ l2)) =
    design_conditions_closed R Rplus Rminus Rmult Rdiv Rleb IZR cl (StepsList l1) ++
    design_conditions_closed R Rplus Rminus Rmult Rdiv Rleb IZR cl (StepsList l2) /\
  design_conditions_closed R Rplus Rminus Rmult Rdiv Rleb IZR cl (StepsList []) = [].
Proof. exact (fun cl l1 l2 => conj (dc_list_app cl l1 l2) (dc_list_nil cl)). Qed.

(* abscissae outside the contour's extent never cross it (so they are omitted); abscissae strictly
   inside the extent always cross it (so they are never omitted) -- no general-position hypothesis *)
Theorem C17_outside_inside : forall cl x,
  (x < lmin R Rleb IZR (map fst cl) \/ lmax R Rleb IZR (map fst cl) < x -> ~ exists y, crossing cl x y) /\
  (lmin R Rleb IZR (map fst cl) < x < lmax R Rleb IZR (map fst cl) -> exists y, crossing cl x y).
Proof. exact (fun cl x => conj (outside_extent_no_crossing cl x) (strictly_inside_crossing cl x)). Qed.

(* consequently none of the default / counted abscissae is omitted *)
Theorem C17_defaults_all_present : forall cl n,
  lmin R Rleb IZR (map snd cl) < lmax R Rleb IZR (map snd cl) \/ lmax R Rleb IZR (map snd cl) <> 0 ->
  lmin R Rleb IZR (map fst cl) < lmax R Rleb IZR (map fst cl) ->
  map fst (design_conditions_closed R Rplus Rminus Rmult Rdiv Rleb IZR cl (StepsNum n)) =
  steps_of R Rplus Rminus Rmult Rdiv Rleb IZR cl (StepsNum n).
Proof. exact defaults_all_present. Qed.

(* a polygon without vertical edges: the design condition tops EVERY point of the polygon at its abscissa *)
Theorem C17_top_of_polygon : forall cl xs r q,
  (forall s, In s (segments cl) -> nonvertical s) -> dc_rel cl xs r -> In q r ->
  forall y, on_polyline cl (fst q, y) -> y <= snd q.
Proof. exact top_of_polygon. Qed.

(* duplicated consecutive vertices (zero-length segments, an explicitly closed contour) change nothing,
   in either curve; the routine is symmetric in its two curves *)
Theorem C17_duplicate_vertices : forall a p b c,
  intersection R Rplus Rminus Rmult Rdiv Rleb IZR (a ++ p :: p :: b) c = intersection R Rplus Rminus Rmult Rdiv Rleb IZR (a ++ p :: b) c /\
  intersection R Rplus Rminus Rmult Rdiv Rleb IZR c (a ++ p :: p :: b) = intersection R Rplus Rminus Rmult Rdiv Rleb IZR c (a ++ p :: b).
Proof. exact (fun a p b c => conj (duplicate_vertex_left a p b c) (duplicate_vertex_right c a p b)). Qed.
Theorem C17_intersection_symmetric : forall c1 c2 p,
  In p (intersection R Rplus Rminus Rmult Rdiv Rleb IZR c1 c2) <-> In p (intersection R Rplus Rminus Rmult Rdiv Rleb IZR c2 c1).
Proof. exact intersection_sym. Qed.

(* the executable instance run against the implementation is the same generic function at Q
   (exact rational arithmetic, every result reduced to lowest terms) *)
Theorem C17_executable_instance :
  Qdesign_conditions = design_conditions Q Qadd_r Qsub_r Qmul_r Qdiv_r Qle_bool inject_Z /\
  Qintersection = intersection Q Qadd_r Qsub_r Qmul_r Qdiv_r Qle_bool inject_Z.
Proof. split; reflexivity. Qed.

(* non-vacuity: a concrete triangle meets the hypothesis and has a crossing; the Q instance computes
   the top ordinate 3 at abscissa 1 of the triangle (0,0) (2,1) (1,3) (through its top vertex: three
   hits), omits abscissa 5, and the routine returns both hits of a probe through the apex of a wedge *)
Example C17_nonvacuous :
  (let cl := closed_of R false [(0, 0); (2, 1); (1, 3)] in
   (lmin R Rleb IZR (map snd cl) < lmax R Rleb IZR (map snd cl) \/ lmax R Rleb IZR (map snd cl) <> 0) /\ crossing cl 1 (1 / 2)) /\
  map (fun q => (Qred (fst q), Qred (snd q))) (Qdesign_conditions false [(0, 0); (2, 1); (1, 3)]%Q (StepsList [1; 5]%Q)) = [(1, 3 # 1)]%Q /\
  length (Qintersection [(0, 0); (2, 2); (4, 0)]%Q [(2, -1 # 1); (2, 5)]%Q) = 2%nat /\
  (* a duplicated vertex and an explicitly repeated first vertex give the same design condition *)
  map (fun q => (Qred (fst q), Qred (snd q))) (Qdesign_conditions false [(0, 0); (2, 1); (2, 1); (1, 3); (0, 0)]%Q (StepsList [1; 5]%Q)) = [(1, 3 # 1)]%Q /\
  Qdesign_conditions false [(0, 0); (2, 1); (1, 3)]%Q (StepsNum 0) = [].
Proof.
  split; [|repeat split; vm_compute; reflexivity].
  cbv zeta. split.
  - left. cbn [closed_of map proj app snd lmin lmax minl maxl fold_left].
    unfold fmin, fmax.
    repeat match goal with
    | |- context [Rleb ?a ?b] =>
        first [ rewrite (proj2 (Rleb_true a b)) by lra | rewrite (proj2 (Rleb_false a b)) by lra ]
    end. lra.
  - exists ((0, 0), (2, 1)). split; [left; reflexivity|]. split; [unfold nonvertical; cbn [fst snd]; lra|].
    exists (1 / 2). cbn [fst snd]. repeat split; lra.
Qed.

Print Assumptions C17_intersection_exact.
Print Assumptions C17_pairwise.
Print Assumptions C17_segments.
Print Assumptions C17_design_conditions.
Print Assumptions C17_specification_unique.
Print Assumptions C17_each_condition.
Print Assumptions C17_omitted_iff_no_crossing.
Print Assumptions C17_order_kept.
Print Assumptions C17_closed_polygon.
Print Assumptions C17_swap_axis.
Print Assumptions C17_default_abscissae.
Print Assumptions C17_executable_instance.
Print Assumptions C17_count_is_list.
Print Assumptions C17_pointwise.
Print Assumptions C17_outside_inside.
Print Assumptions C17_defaults_all_present.
Print Assumptions C17_top_of_polygon.
Print Assumptions C17_duplicate_vertices.
Print Assumptions C17_intersection_symmetric.
