(* Documented formulas: generated parameter map composed with the contract of scipy.stats (loc/scale
   convention and the standard cdf of each family, as documented by scipy).  The contract is a set of
   named Section hypotheses (oracle contracts, DESIGN.md section 5), never an Axiom. *)
From Coq Require Import Reals List String Bool Lra Lia.
From V.base Require Import Num.
From V.gen Require Import Distributions.
From V.model Require Import DistHand.
From V.proofs Require Import DistProofs.
Import ListNotations.
Local Open Scope R_scope.
Local Open Scope string_scope.
Local Open Scope list_scope.

Definition eval (sts : call R -> R -> R) (c : call R) (x : R) : R := sts c x.

Section ScipyContract.
  Variable sts : call R -> R -> R.    (* scipy.stats.<family>.<method>(x, *params) *)
  Variable Phi : R -> R.              (* standard normal cdf *)
  Variable F0_gg : R -> R -> R -> R.  (* standard generalized gamma cdf F0(z; a, c) *)
  Variable F0_vm : R -> R -> R.       (* von Mises cdf F0(z; kappa) *)
  Hypothesis weibull_min_cdf : forall x c loc scale, loc < x ->
    sts (mkcall "weibull_min" "cdf" [c; loc; scale]) x = 1 - exp (- Rpower ((x - loc) / scale) c).
  Hypothesis exponweib_cdf : forall x a c loc scale, loc < x ->
    sts (mkcall "exponweib" "cdf" [a; c; loc; scale]) x = Rpower (1 - exp (- Rpower ((x - loc) / scale) c)) a.
  Hypothesis lognorm_cdf : forall x s loc scale, loc < x ->
    sts (mkcall "lognorm" "cdf" [s; loc; scale]) x = Phi (ln ((x - loc) / scale) / s).
  Hypothesis norm_cdf : forall x loc scale, sts (mkcall "norm" "cdf" [loc; scale]) x = Phi ((x - loc) / scale).
  Hypothesis gengamma_cdf : forall x a c loc scale, sts (mkcall "gengamma" "cdf" [a; c; loc; scale]) x = F0_gg ((x - loc) / scale) a c.
  Hypothesis vonmises_cdf : forall x kappa loc, sts (mkcall "vonmises" "cdf" [kappa; loc]) x = F0_vm (x - loc) kappa.

  Lemma weibull_documented (s : @WeibullDistribution R) x : WeibullDistribution_gamma s < x ->
    eval sts (WeibullDistribution_cdf s None None None) x =
    1 - exp (- Rpower ((x - WeibullDistribution_gamma s) / WeibullDistribution_alpha s) (WeibullDistribution_beta s)).
  Proof. intros H. unfold eval. cbn. apply weibull_min_cdf. exact H. Qed.

  Lemma exponweib_documented (s : @ExponentiatedWeibullDistribution R) x : 0 < x ->
    eval sts (ExponentiatedWeibullDistribution_cdf RN s None None None) x =
    Rpower (1 - exp (- Rpower (x / ExponentiatedWeibullDistribution_alpha s) (ExponentiatedWeibullDistribution_beta s)))
           (ExponentiatedWeibullDistribution_delta s).
  Proof. intros H. unfold eval. cbn. rewrite exponweib_cdf by exact H. rewrite Rminus_0_r. reflexivity. Qed.

  Lemma lognormal_documented (s : @LogNormalDistribution R) x : 0 < x ->
    eval sts (LogNormalDistribution_cdf RN s None None) x =
    Phi ((ln x - LogNormalDistribution_mu s) / LogNormalDistribution_sigma s).
  Proof.
    intros Hx. unfold eval. cbn. rewrite lognorm_cdf by exact Hx. f_equal. f_equal.
    rewrite Rminus_0_r. unfold Rdiv at 1. rewrite ln_mult; [|lra|apply Rinv_0_lt_compat, exp_pos].
    rewrite ln_Rinv by apply exp_pos. rewrite ln_exp. lra.
  Qed.

  Lemma normal_documented (s : @NormalDistribution R) x :
    eval sts (NormalDistribution_cdf s None None) x = Phi ((x - NormalDistribution_mu s) / NormalDistribution_sigma s).
  Proof. unfold eval. cbn. apply norm_cdf. Qed.

  Lemma gengamma_documented (s : @GeneralizedGammaDistribution R) x : GeneralizedGammaDistribution_lambda_ s <> 0 ->
    eval sts (GeneralizedGammaDistribution_cdf RN s None None None) x =
    F0_gg (GeneralizedGammaDistribution_lambda_ s * x) (GeneralizedGammaDistribution_m s) (GeneralizedGammaDistribution_c s).
  Proof. intros H. unfold eval. cbn. rewrite gengamma_cdf. f_equal. field. exact H. Qed.

  Lemma vonmises_documented (s : @VonMisesDistribution R) x :
    eval sts (VonMisesDistribution_cdf s None None) x = F0_vm (x - VonMisesDistribution_mu s) (VonMisesDistribution_kappa s).
  Proof. unfold eval. cbn. apply vonmises_cdf. Qed.

  (* the exponentiated Weibull pdf is 0 for x <= 0 whatever scipy answers there *)
  Lemma EW_pdf_zero_outside (s : @ExponentiatedWeibullDistribution R) x a b d : x <= 0 -> EW_pdf RN sts s x a b d = 0.
  Proof. intros H. unfold EW_pdf. destruct (ExponentiatedWeibullDistribution__get_scipy_parameters RN s a b d) as [[[p1 p2] p3] p4].
    unfold EW_pdf_guard. cbn. destruct (Rlt_dec 0 x); [lra|reflexivity]. Qed.
  Lemma EW_pdf_inside (s : @ExponentiatedWeibullDistribution R) x a b d : 0 < x ->
    EW_pdf RN sts s x a b d = sts (mkcall "exponweib" "pdf" (c_params (ExponentiatedWeibullDistribution_cdf RN s a b d))) x.
  Proof. intros H. unfold EW_pdf. destruct a, b, d; cbn; destruct (Rlt_dec 0 x); try lra; reflexivity. Qed.
End ScipyContract.

(* ---- C12: likelihood of a loc-scale family is equivariant under x -> c x, loc -> c loc, scale -> c scale *)
Section Equivariance.
  Variable f0 : R -> R.   (* standard density of the family for fixed shapes *)
  Definition dens (loc scale x : R) : R := f0 ((x - loc) / scale) / scale.
  Fixpoint lik (loc scale : R) (xs : list R) : R := match xs with [] => 1 | x :: xs' => dens loc scale x * lik loc scale xs' end.
  Lemma dens_scaled c loc scale x : 0 < c -> scale <> 0 -> dens (c * loc) (c * scale) (c * x) = dens loc scale x / c.
  Proof. intros Hc Hs. unfold dens. replace ((c * x - c * loc) / (c * scale)) with ((x - loc) / scale) by (field; lra). field. lra. Qed.
  Theorem likelihood_equivariant c loc scale xs : 0 < c -> scale <> 0 ->
    lik (c * loc) (c * scale) (map (Rmult c) xs) = lik loc scale xs / c ^ (List.length xs).
  Proof.
    intros Hc Hs. induction xs as [|x xs IH]; cbn [lik map List.length pow].
    - field.
    - rewrite IH, dens_scaled by assumption. field. split; [apply pow_nonzero|]; lra.
  Qed.
  (* hence a maximiser for the scaled data is the scaled maximiser *)
  Corollary maximiser_equivariant c loc scale xs : 0 < c -> scale <> 0 ->
    (forall l s, s <> 0 -> lik l s xs <= lik loc scale xs) ->
    forall l s, s <> 0 -> lik l s (map (Rmult c) xs) <= lik (c * loc) (c * scale) (map (Rmult c) xs).
  Proof.
    intros Hc Hs Hmax l s Hs'.
    replace l with (c * (l / c)) by (field; lra). replace s with (c * (s / c)) by (field; lra).
    assert (s / c <> 0). { unfold Rdiv. apply Rmult_integral_contrapositive_currified; [exact Hs'|]. apply Rinv_neq_0_compat. lra. }
    rewrite !likelihood_equivariant by assumption.
    apply Rmult_le_compat_r; [|apply Hmax; assumption].
    apply Rlt_le, Rinv_0_lt_compat, pow_lt. exact Hc.
  Qed.
End Equivariance.

(* ---- C12: the log-normal likelihood is equivariant under x -> c x, mu -> mu + ln c (log-scale parameter) *)
Section LogEquivariance.
  Variable g0 : R -> R.   (* standard normal density (any function: only the argument matters) *)
  Definition dens_ln (mu sigma x : R) : R := g0 ((ln x - mu) / sigma) / (x * sigma).
  Fixpoint lik_ln (mu sigma : R) (xs : list R) : R := match xs with [] => 1 | x :: xs' => dens_ln mu sigma x * lik_ln mu sigma xs' end.
  Lemma dens_ln_scaled c mu sigma x : 0 < c -> 0 < x -> sigma <> 0 -> dens_ln (mu + ln c) sigma (c * x) = dens_ln mu sigma x / c.
  Proof. intros Hc Hx Hs. unfold dens_ln. rewrite ln_mult by assumption.
    replace ((ln c + ln x - (mu + ln c)) / sigma) with ((ln x - mu) / sigma) by (field; exact Hs). field. repeat split; lra. Qed.
  Theorem lognormal_likelihood_equivariant c mu sigma xs : 0 < c -> sigma <> 0 -> Forall (fun x => 0 < x) xs ->
    lik_ln (mu + ln c) sigma (map (Rmult c) xs) = lik_ln mu sigma xs / c ^ (List.length xs).
  Proof.
    intros Hc Hs Hx. induction Hx as [|x xs Hx0 _ IH]; cbn [lik_ln map List.length pow].
    - field.
    - rewrite IH, dens_ln_scaled by assumption. field. split; [apply pow_nonzero|]; lra.
  Qed.
End LogEquivariance.
