"""Shared plumbing for the per-property checks (see DESIGN.md section 4).

Everything here is deliberately small: PRNG derivation, float <-> Coq literal printing,
running generated `cases` files through coqc (vm_compute inside), the proof gate
(build of the property's cone + Print Assumptions allow-list + textual gate), known
findings, replay files, evidence files and the VIOLATION protocol.
"""
import hashlib
import json, shutil
import math
import os
import random
import re
import subprocess
import sys
import time

VERIF = os.path.dirname(os.path.dirname(os.path.dirname(os.path.abspath(__file__))))
COQ = os.path.join(VERIF, "coq")
BUILD = os.path.join(VERIF, "build")
REPO = os.environ.get("VIROCON_REPO", "/repo")

# axioms of the standard library (and of libraries shipped with it) that theorems may rest on
ALLOWED_AXIOMS = {
    "ClassicalDedekindReals.sig_not_dec",
    "ClassicalDedekindReals.sig_forall_dec",
    "FunctionalExtensionality.functional_extensionality_dep",
    "Classical_Prop.classic",
    "Eqdep.Eq_rect_eq.eq_rect_eq",
    "ProofIrrelevance.proof_irrelevance",
    "JMeq.JMeq_eq",
    # specification of primitive floats / ints in the standard library (FloatAxioms, Uint63 axioms)
}
ALLOWED_AXIOM_PREFIXES = ("FloatAxioms.", "Uint63.", "PrimFloat.", "PrimInt63.", "FloatOps.",
                          "Floats.FloatAxioms.", "Coq.Floats.", "Coq.Numbers.Cyclic.Int63.",
                          "Uint63Axioms.")

FORBIDDEN = re.compile(
    r"\b(Admitted|admit|Axiom|Axioms|Parameter|Parameters|Conjecture|Conjectures|Admit Obligations)\b"
    r"|Unset\s+Guard|bypass_check|type-in-type|impredicative-set|Unset\s+Universe\s+Checking|Unset\s+Positivity")
OBLIGATION = re.compile(r"^\s*(?:Local\s+|Global\s+|#\[[^\]]*\]\s*)*(Theorem|Lemma|Example|Corollary|Fact|Remark|Proposition)\s+([A-Za-z0-9_']+)", re.M)


# ----------------------------------------------------------------------------- floats
def fl(x):
    """Python float -> Coq PrimFloat literal (bit exact)."""
    x = float(x)
    if math.isnan(x):
        return "nan"
    if math.isinf(x):
        return "infinity" if x > 0 else "neg_infinity"
    if x == 0.0:
        return "neg_zero" if math.copysign(1.0, x) < 0 else "0"
    h = x.hex()
    if h.startswith("-"):
        return "(-" + h[1:] + ")"
    return h


def fl_list(xs):
    return "[" + "; ".join(fl(x) for x in xs) + "]"


def fl_mat(rows):
    return "[" + "; ".join(fl_list(r) for r in rows) + "]"


def z(i):
    i = int(i)
    return "(%d)" % i if i < 0 else "%d" % i


def z_list(xs):
    return "[" + "; ".join(z(i) for i in xs) + "]"


def bool_list(xs):
    return "[" + "; ".join("true" if b else "false" for b in xs) + "]"


def qlit(fr):
    """fractions.Fraction -> Coq Q literal"""
    return "(%d # %d)" % (fr.numerator, fr.denominator)


def ulp_diff(a, b):
    """distance in units of representable doubles (0 = bit-exact); inf if signs/NaN differ badly"""
    import struct
    if math.isnan(a) and math.isnan(b):
        return 0
    if math.isnan(a) or math.isnan(b):
        return float("inf")
    def key(v):
        i = struct.unpack("<q", struct.pack("<d", v))[0]
        return i if i >= 0 else -(i & 0x7FFFFFFFFFFFFFFF)
    return abs(key(a) - key(b))


def close(a, b, rel=1e-9, abs_=1e-300):
    if a == b:
        return True
    if math.isnan(a) and math.isnan(b):
        return True
    if math.isnan(a) or math.isnan(b) or math.isinf(a) or math.isinf(b):
        return False
    return abs(a - b) <= rel * max(abs(a), abs(b), abs_)


# ----------------------------------------------------------------------------- Coq term parser
_TOK = re.compile(r"\s*(\[|\]|\(|\)|;|,|[^\s\[\]\(\);,]+)")


def parse_term(s):
    """Parse the printed form of lists / tuples / option / bool / Z / nat / float terms."""
    toks = _TOK.findall(s)
    pos = [0]

    def atom(t):
        t = re.sub(r"%[a-zA-Z_]+$", "", t)
        if t == "true":
            return True
        if t == "false":
            return False
        if t == "None":
            return None
        if t in ("infinity",):
            return float("inf")
        if t == "neg_infinity":
            return float("-inf")
        if t == "nan":
            return float("nan")
        if t == "neg_zero":
            return -0.0
        try:
            return int(t)
        except ValueError:
            pass
        try:
            return float(t)
        except ValueError:
            return t

    def term():
        t = toks[pos[0]]
        if t == "[":
            pos[0] += 1
            out = []
            if toks[pos[0]] == "]":
                pos[0] += 1
                return out
            while True:
                out.append(app())
                t2 = toks[pos[0]]
                pos[0] += 1
                if t2 == "]":
                    return out
                assert t2 == ";", (t2, pos[0])
        if t == "(":
            pos[0] += 1
            out = [app()]
            while toks[pos[0]] == ",":
                pos[0] += 1
                out.append(app())
            assert toks[pos[0]] == ")", toks[pos[0]]
            pos[0] += 1
            # swallow a scope suffix glued after ')', e.g. ")%float"
            if pos[0] < len(toks) and toks[pos[0]].startswith("%"):
                pos[0] += 1
            return out[0] if len(out) == 1 else tuple(out)
        pos[0] += 1
        return atom(t)

    def app():
        # handles `Some x`, `- x` and constructor applications `C a b` -> ("C", a, b)
        t = toks[pos[0]]
        if t == "Some":
            pos[0] += 1
            return ("Some", term())
        if t == "-":
            pos[0] += 1
            v = term()
            return -v
        head = term()
        if isinstance(head, str) and re.match(r"^[A-Z][A-Za-z0-9_]*$", head):
            args = []
            while pos[0] < len(toks) and toks[pos[0]] not in ("]", ")", ";", ","):
                args.append(term())
            return (head, *args) if args else head
        return head

    v = app()
    return v


def unsome(v):
    if isinstance(v, tuple) and len(v) == 2 and v[0] == "Some":
        return v[1]
    return v


# ----------------------------------------------------------------------------- running Coq
def sh(cmd, timeout=None, cwd=None, env=None):
    p = subprocess.run(cmd, shell=isinstance(cmd, str), cwd=cwd, env=env, timeout=timeout,
                       stdout=subprocess.PIPE, stderr=subprocess.STDOUT, text=True)
    return p.returncode, p.stdout


COQ_ARGS = ["-Q", COQ, "V"]
CASE_HEADER = """From Coq Require Import PrimFloat Uint63 ZArith QArith List Bool String.
Import ListNotations.
Set Printing Width 2000000000.
Set Printing Depth 2000000000.
"""


def coq_run(prop, name, text, timeout=600):
    """Compile build/<prop>/<name>.v ; returns (ok, output)."""
    d = os.path.join(BUILD, prop)
    os.makedirs(d, exist_ok=True)
    path = os.path.join(d, name + ".v")
    with open(path, "w") as f:
        f.write(text)
    try:
        rc, out = sh(["bash", "-c", "ulimit -s unlimited 2>/dev/null; exec coqc -q -noglob " +
                      " ".join(COQ_ARGS) + " -Q %s Cases_%s %s" % (d, prop, path)], timeout=timeout, cwd=d)
    except subprocess.TimeoutExpired:
        return False, "TIMEOUT"
    finally:
        # only the printed values are used; the compiled case file is scratch (disk space is limited)
        for ext in (".vo", ".vok", ".vos", ".glob"):
            try:
                os.remove(os.path.join(d, name + ext))
            except OSError:
                pass
    return rc == 0, out


def coq_run_many(prop, items, timeout=900, jobs=8):
    """items: list of (name, text).  Runs in parallel.  Returns list of (ok, output)."""
    from concurrent.futures import ThreadPoolExecutor
    with ThreadPoolExecutor(max_workers=jobs) as ex:
        futs = [ex.submit(coq_run, prop, n, t, timeout) for n, t in items]
        return [f.result() for f in futs]


def eval_results(out):
    """Split coqc output into the printed values of successive `Eval` commands (as strings)."""
    res = []
    cur = None
    for line in out.splitlines():
        if line.lstrip().startswith("= "):
            if cur is not None:
                res.append(cur)
            cur = line.lstrip()[2:]
        elif line.lstrip().startswith(": ") and cur is not None:
            res.append(cur)
            cur = None
        elif cur is not None:
            cur += " " + line.strip()
    if cur is not None:
        res.append(cur)
    # strip trailing type annotation if it is on the same line
    out2 = []
    for r in res:
        r = re.sub(r"\s+:\s+[^\]\)]*$", "", r)
        out2.append(r)
    return out2


# ----------------------------------------------------------------------------- build / proof gate
def regen():
    """Regenerate coq/gen from /repo's current sources (translator); returns (ok, log, failures)."""
    rc, out = sh([sys.executable, os.path.join(VERIF, "tools", "py2v.py"), REPO, os.path.join(COQ, "gen")], timeout=300)
    fails = []
    for line in out.splitlines():
        if line.startswith("REJECT "):
            fails.append(line[7:])
    return rc == 0, out, fails


def write_coqproject():
    files = []
    for sub in ("base", "gen", "model", "proofs", "props"):
        d = os.path.join(COQ, sub)
        if os.path.isdir(d):
            for f in sorted(os.listdir(d)):
                if f.endswith(".v"):
                    files.append("%s/%s" % (sub, f))
    text = "-Q . V\n-arg -w -arg -notation-overridden,-deprecated,-ambiguous-paths\n" + "\n".join(files) + "\n"
    p = os.path.join(COQ, "_CoqProject")
    old = open(p).read() if os.path.exists(p) else None
    if old != text:
        with open(p, "w") as f:
            f.write(text)
        sh("coq_makefile -f _CoqProject -o Makefile", cwd=COQ, timeout=120)
    elif not os.path.exists(os.path.join(COQ, "Makefile")):
        sh("coq_makefile -f _CoqProject -o Makefile", cwd=COQ, timeout=120)
    return files


def build(targets=None, timeout=3000):
    """make (full .vo) under a lock; targets: list of .vo paths relative to coq/ or None = all."""
    write_coqproject()
    tg = " ".join(targets) if targets else ""
    # every single coqc is bounded (a hanging proof must not block the other checks behind the lock)
    cmd = "flock %s/.build.lock timeout %d make -k -j16 COQC='timeout 600 coqc' %s" % (VERIF, timeout, tg)
    rc, out = sh(cmd, cwd=COQ, timeout=timeout + 60)
    return rc == 0, out


def deps_cone(vfile):
    """transitive V.* dependencies of coq/<vfile> (relative paths)."""
    seen, todo = [], [vfile]
    while todo:
        f = todo.pop()
        if f in seen:
            continue
        seen.append(f)
        try:
            src = open(os.path.join(COQ, f)).read()
        except OSError:
            continue
        for m in re.finditer(r"V\.([a-z]+)\.([A-Za-z0-9_]+)", src):
            g = "%s/%s.v" % (m.group(1), m.group(2))
            if os.path.exists(os.path.join(COQ, g)) and g not in seen:
                todo.append(g)
        for m in re.finditer(r"From\s+V\.([a-z]+)\s+Require\s+(?:Import|Export)?\s*([A-Za-z0-9_ ]+)\.", src):
            for nm in m.group(2).split():
                g = "%s/%s.v" % (m.group(1), nm)
                if os.path.exists(os.path.join(COQ, g)) and g not in seen:
                    todo.append(g)
    return seen


def strip_comments(src):
    out, depth, i = [], 0, 0
    while i < len(src):
        if src.startswith("(*", i):
            depth += 1
            i += 2
        elif src.startswith("*)", i) and depth:
            depth -= 1
            i += 2
        else:
            if not depth:
                out.append(src[i])
            i += 1
    return "".join(out)


def parse_assumptions(out):
    """Parse `Print Assumptions` output -> list of (theorem-order index, set(axioms))."""
    blocks, cur = [], None
    for line in out.splitlines():
        if line.startswith("Closed under the global context"):
            blocks.append(set())
            cur = None
        elif line.startswith("Axioms:"):
            cur = set()
            blocks.append(cur)
        elif cur is not None:
            m = re.match(r"^([A-Za-z_][A-Za-z0-9_.']*)\s*(:|$)", line)
            if m:
                cur.add(m.group(1))
            elif line and not line.startswith(" "):
                cur = None
    return blocks


PRIMITIVES = set("""float classify abs sqrt opp eqb ltb leb compare mul add sub div of_uint63 normfr_mantissa
frshiftexp ldshiftexp next_up next_down int lsl lsr land lor lxor asr mulc mod divs mods ltsb lesb addc addcarryc
subc subcarryc diveucl diveucl_21 addmuldiv compares head0 tail0""".split())
STDLIB_SPEC_AXIOMS = set("""Prim2SF_valid SF2Prim_Prim2SF Prim2SF_SF2Prim opp_spec abs_spec eqb_spec ltb_spec leb_spec
compare_spec classify_spec mul_spec add_spec sub_spec div_spec sqrt_spec of_uint63_spec normfr_mantissa_spec
frshiftexp_spec ldshiftexp_spec next_up_spec next_down_spec of_to_Z lsl_spec lsr_spec land_spec lor_spec lxor_spec
mulc_spec mod_spec eqb_correct eqb_refl compare_def_spec head0_spec tail0_spec addc_def_spec addcarryc_def_spec
subc_def_spec subcarryc_def_spec diveucl_def_spec diveucl_21_spec addmuldiv_def_spec asr_spec""".split())


def axiom_allowed(a):
    """standard-library axioms (DESIGN.md section 5) and the native int/float primitives"""
    if a in ALLOWED_AXIOMS:
        return True
    last = a.split(".")[-1]
    if last in {x.split(".")[-1] for x in ALLOWED_AXIOMS}:
        return True
    mods = a.split(".")[:-1]
    if all(m in ("PrimFloat", "PrimInt63", "Uint63", "FloatAxioms", "Floats", "Coq", "Numbers", "Cyclic", "Int63",
                 "Uint63Axioms", "FloatOps", "Leibniz") for m in mods):
        if last in PRIMITIVES or last in STDLIB_SPEC_AXIOMS:
            return True
    return False


class Ctx:
    def __init__(self, prop, tier=None, seed=None):
        self.prop = prop
        self.tier = tier or os.environ.get("VERIF_TIER") or "quick"
        if self.tier not in ("quick", "thorough"):
            self.tier = "quick"
        s = seed if seed is not None else os.environ.get("VERIF_SEED", "0")
        try:
            self.seed = int(s)
        except ValueError:
            self.seed = int(hashlib.sha256(str(s).encode()).hexdigest()[:8], 16)
        self.rng = random.Random(self.seed * 1000003 + int(prop[1:]))
        self.t0 = time.time()
        # scratch case files of earlier runs are not needed again (disk space is limited)
        shutil.rmtree(os.path.join(BUILD, prop), ignore_errors=True)
        self.cov = {"evaluations": 0, "distinct_nontrivial": 0, "rule": "", "samples": [],
                    "obligations": 0, "discharged": 0, "checker_cmd": "", "trusted_base": [],
                    "programs": 0, "disagreements_checked": 0}
        self._distinct = set()
        self.assumptions = []
        self.violations = []   # (signature, what, replay-dict)
        self.known_hits = []
        self.broken = []       # broken obligations / correspondences: (kind, name, detail)
        self.notes = {}
        allf = list(json.load(open(os.path.join(VERIF, "known_findings.json")))["findings"])
        kd = os.path.join(VERIF, "known_findings.d")   # per-property files, same format (committed, never written at run time)
        if os.path.isdir(kd):
            for fn in sorted(os.listdir(kd)):
                if fn.endswith(".json"):
                    allf += json.load(open(os.path.join(kd, fn)))["findings"]
        self.findings = [f for f in allf if f["property"] == prop]
        os.makedirs(os.path.join(BUILD, prop), exist_ok=True)

    # -- numpy generator derived from the same seed
    def np_rng(self, stream=0):
        import numpy as np
        return np.random.default_rng([self.seed, int(self.prop[1:]), stream])

    def quick(self):
        return self.tier == "quick"

    def n(self, quick, thorough):
        return quick if self.tier == "quick" else thorough

    # -- counting
    def count(self, case_key, nontrivial=True, n=1):
        self.cov["evaluations"] += n
        if nontrivial:
            h = hashlib.sha1(repr(case_key).encode()).hexdigest()
            if h not in self._distinct:
                self._distinct.add(h)
                self.cov["distinct_nontrivial"] += 1

    def sample(self, obj, limit=4):
        if len(self.cov["samples"]) < limit:
            self.cov["samples"].append(obj)

    # -- proof gate
    def proof_gate(self, props_file=None, need_gen=True):
        """Build the property's cone, check textual gate and assumptions.  Registers broken obligations."""
        pf = props_file or ("props/%s.v" % self.prop)
        gen_missing = not os.path.exists(os.path.join(COQ, "gen", "Distributions.v"))
        uses_gen = gen_missing or any(c.startswith("gen/") for c in deps_cone(pf))
        if need_gen and uses_gen and os.path.exists(os.path.join(VERIF, "tools", "py2v.py")):
            ok, log, fails = regen()
            self.notes["translator_log_tail"] = log[-1500:]
            self._regen = (ok, fails, log)
        cone = deps_cone(pf)
        if getattr(self, "_regen", None) and any(c.startswith("gen/") for c in cone):
            ok, fails, log = self._regen
            used = [c[4:-2] for c in cone if c.startswith("gen/")]
            for fmsg in fails:
                if any(fmsg.startswith(u + ":") or fmsg.startswith(u + " ") for u in used) or not used:
                    self.broken.append(("translator", fmsg, ""))
            if not ok:
                self.broken.append(("translator", "py2v crashed", log[-1500:]))
        # textual gate
        for f in cone:
            try:
                src = strip_comments(open(os.path.join(COQ, f)).read())
            except OSError:
                self.broken.append(("missing-file", f, ""))
                continue
            m = FORBIDDEN.search(src)
            if m:
                self.broken.append(("forbidden-construct", "%s: %s" % (f, m.group(0)), ""))
        targets = [f[:-2] + ".vo" for f in cone]
        ok, out = build(targets)
        failed = set(re.findall(r"\*\*\* \[[^\]]*?:\s*([^\]\s]+\.vo)\] Error", out))
        failed = {f[:-3] + ".v" for f in failed}
        # whatever depends on a file that failed to build was not remade: it is not discharged either
        changed = True
        while changed:
            changed = False
            for f in cone:
                if f not in failed and any(d in failed for d in deps_cone(f)[1:]):
                    failed.add(f)
                    changed = True
        for f in failed:
            try:
                os.remove(os.path.join(COQ, f[:-2] + ".vo"))   # never leave a stale .vo behind
            except OSError:
                pass
        nobl = 0
        ndis = 0
        per_file = {}
        for f in cone:
            try:
                src = strip_comments(open(os.path.join(COQ, f)).read())
            except OSError:
                continue
            k = len(OBLIGATION.findall(src))
            per_file[f] = k
            nobl += k
            vo = os.path.join(COQ, f[:-2] + ".vo")
            if f not in failed and os.path.exists(vo) and os.path.getmtime(vo) >= os.path.getmtime(os.path.join(COQ, f)):
                ndis += k
            else:
                self.broken.append(("proof", f, _tail_for(out, f)))
        # recompile the props file to collect Print Assumptions (its output is evidence)
        axioms = set()
        n_thm = 0
        if os.path.exists(os.path.join(COQ, pf)) and not any(b[0] == "proof" for b in self.broken):
            rc, pout = sh(["coqc", "-q"] + COQ_ARGS + [os.path.join(COQ, pf)], cwd=COQ, timeout=900)
            if rc != 0:
                self.broken.append(("proof", pf, pout[-1500:]))
                ndis -= per_file.get(pf, 0)
            blocks = parse_assumptions(pout)
            src = strip_comments(open(os.path.join(COQ, pf)).read())
            n_thm = len(re.findall(r"^\s*Theorem\s", src, re.M))
            n_pa = len(re.findall(r"Print Assumptions", src))
            if n_pa < n_thm or len(blocks) < n_pa:
                self.broken.append(("assumptions", "%s: %d theorems, %d Print Assumptions, %d reports" % (pf, n_thm, n_pa, len(blocks)), ""))
            for b in blocks:
                for a in b:
                    axioms.add(a)
                    if not axiom_allowed(a):
                        self.broken.append(("axiom", a, "not on the allow-list of DESIGN.md section 5"))
        # thorough tier: re-check the compiled property library and everything it depends on with the independent checker
        if self.tier == "thorough" and not self.broken and os.environ.get("VERIF_NO_COQCHK") != "1":
            try:
                rc, cout = sh(["coqchk", "-silent", "-o", "-Q", COQ, "V", "V.props.%s" % self.prop], cwd=COQ, timeout=2400)
            except subprocess.TimeoutExpired:
                rc, cout = 124, "coqchk timed out"
            chk_ax, on = [], False
            for line in cout.splitlines():
                if line.startswith("* Axioms:"):
                    on = True
                    if "<none>" in line:
                        on = False
                elif line.startswith("* "):
                    on = False
                elif on and line.strip():
                    chk_ax.append(line.strip())
            bad = [a for a in chk_ax if not axiom_allowed(a)]
            self.cov["coqchk"] = {"exit": rc, "axioms_of_all_loaded_libraries": len(chk_ax), "not_on_allow_list": bad,
                                  "type_in_type_is_none": "type-in-type: <none>" in cout, "cmd": "coqchk -silent -o -Q coq V V.props.%s" % self.prop}
            if rc != 0:
                self.broken.append(("coqchk", "V.props.%s" % self.prop, cout[-1200:]))
            for a in bad:
                self.broken.append(("axiom", a, "reported by coqchk -o, not on the allow-list"))
        self.cov["obligations"] = nobl
        self.cov["discharged"] = max(ndis, 0)
        self.cov["checker_cmd"] = "cd /verif/coq && make -j16 (coqc 8.16.1, full .vo) ; coqc props/%s.v (Print Assumptions)" % self.prop
        self.cov["property_theorems"] = n_thm
        self.cov["axioms_reported"] = sorted(axioms)
        self.cov["cone_files"] = cone
        return not self.broken

    # -- correspondence
    def coq_eval(self, name, body, timeout=900):
        ok, out = coq_run(self.prop, name, CASE_HEADER + body, timeout)
        if not ok:
            self.broken.append(("correspondence-run", name, out[-1500:]))
            return None
        return eval_results(out)

    def coq_eval_many(self, items, timeout=900, jobs=8):
        res = coq_run_many(self.prop, [(n, CASE_HEADER + b) for n, b in items], timeout, jobs)
        outs = []
        for (n, _), (ok, out) in zip(items, res):
            if not ok:
                self.broken.append(("correspondence-run", n, out[-1500:]))
                outs.append(None)
            else:
                outs.append(eval_results(out))
        return outs

    def mismatch(self, name, detail):
        """model and implementation disagree on a case"""
        self.cov["disagreements_checked"] += 1
        if len([b for b in self.broken if b[0] == "correspondence"]) < 5:
            self.broken.append(("correspondence", name, detail))
        else:
            self.notes["more_correspondence_mismatches"] = self.notes.get("more_correspondence_mismatches", 0) + 1

    # -- violations
    def violation(self, signature, what, replay):
        """A concrete failing input.  signature: dict used for known-finding matching."""
        for f in self.findings:
            if f.get("status") == "known" and all(signature.get(k) == v for k, v in f["match"].items()):
                if f["id"] not in [k["id"] for k in self.known_hits]:
                    self.known_hits.append(f)
                return False
        if len(self.violations) < 20:
            self.violations.append((signature, what, replay))
        return True

    def finish(self):
        wall = time.time() - self.t0
        vio_lines = []
        rdir = os.path.join(VERIF, "replays")
        os.makedirs(rdir, exist_ok=True)
        # concrete violations: report the first (smallest replay) per distinct signature class
        seen_sig = set()
        for sig, what, replay in self.violations:
            key = json.dumps(sig, sort_keys=True, default=str)
            if key in seen_sig:
                continue
            seen_sig.add(key)
            body = {"property": self.prop, "signature": sig, "what": what, "replay": replay,
                    "seed": self.seed, "tier": self.tier,
                    "replay_cmd": "./check.sh replay <this file>"}
            h = hashlib.sha1(json.dumps(body, sort_keys=True, default=str).encode()).hexdigest()[:10]
            path = os.path.join(rdir, "%s-%s.json" % (self.prop, h))
            with open(path, "w") as f:
                json.dump(body, f, indent=1, default=str)
            vio_lines.append("VIOLATION property=%s replay=%s" % (self.prop, path))
            print("  what: " + what)
        if self.broken and not vio_lines:
            body = {"property": self.prop, "no_failing_input_found": True,
                    "broken": [{"kind": k, "name": n, "detail": d} for k, n, d in self.broken],
                    "seed": self.seed, "tier": self.tier}
            h = hashlib.sha1(json.dumps(body, sort_keys=True, default=str).encode()).hexdigest()[:10]
            path = os.path.join(rdir, "%s-broken-%s.json" % (self.prop, h))
            with open(path, "w") as f:
                json.dump(body, f, indent=1, default=str)
            for k, n, d in self.broken[:6]:
                print("  broken %s: %s\n    %s" % (k, n, str(d)[-600:].replace("\n", "\n    ")))
            vio_lines.append("VIOLATION property=%s replay=%s no-failing-input-found" % (self.prop, path))
        elif self.broken:
            for k, n, d in self.broken[:6]:
                print("  broken %s: %s  %s" % (k, n, str(d)[:400]))
        for f in self.known_hits:
            print("KNOWN-FINDING: property=%s %s" % (self.prop, f["what"]))
        cov = dict(self.cov)
        if self.broken:
            cov["broken"] = [{"kind": k, "name": n} for k, n, _ in self.broken][:20]
        cov.update(self.notes)
        cov["known_findings_hit"] = [f["id"] for f in self.known_hits]
        ev = {"property_id": self.prop, "tier": self.tier, "seed": self.seed, "level": "proof",
              "coverage": cov, "assumptions": self.assumptions, "wall_s": round(wall, 2),
              "violations": len(vio_lines)}
        os.makedirs(os.path.join(VERIF, "evidence"), exist_ok=True)
        with open(os.path.join(VERIF, "evidence", "%s.json" % self.prop), "w") as f:
            json.dump(ev, f, indent=1, default=_jsonable)
        for l in vio_lines:
            print(l)
        print("%s %s: obligations %d/%d, evaluations %d (distinct non-trivial %d), %.1fs%s" % (
            self.prop, self.tier, cov["discharged"], cov["obligations"], cov["evaluations"],
            cov["distinct_nontrivial"], wall, "" if not vio_lines else "  -> VIOLATION"))
        return 1 if vio_lines else 0


def _tail_for(out, f):
    lines = out.splitlines()
    idx = [i for i, l in enumerate(lines) if f in l or f.replace("/", ".") in l]
    if idx:
        i = idx[-1]
        return "\n".join(lines[max(0, i - 2): i + 25])
    return "\n".join(lines[-25:])


def _jsonable(o):
    try:
        import numpy as np
        if isinstance(o, np.ndarray):
            return o.tolist()
        if isinstance(o, (np.floating,)):
            return float(o)
        if isinstance(o, (np.integer,)):
            return int(o)
        if isinstance(o, (np.bool_,)):
            return bool(o)
    except ImportError:
        pass
    if isinstance(o, (set, frozenset)):
        return sorted(o)
    return repr(o)


def shrink_list(xs, fails, min_len=1):
    """Greedy delta-debugging of a list: `fails(list) -> bool`."""
    xs = list(xs)
    chunk = max(1, len(xs) // 2)
    while chunk >= 1:
        i = 0
        changed = False
        while i < len(xs) and len(xs) > min_len:
            cand = xs[:i] + xs[i + chunk:]
            if len(cand) >= min_len and fails(cand):
                xs = cand
                changed = True
            else:
                i += chunk
        if not changed or chunk == 1:
            if chunk == 1:
                break
        chunk = max(1, chunk // 2)
    return xs
