"""C10 -- interval slicing partitions the data (DESIGN.md section 6, C10).

proof gate: props/C10.v (partition theorems over one edge vector, alignment, dropping, PPI chunks)
correspondence: binary64 model model/Intervals.v evaluated by vm_compute vs virocon.intervals
search: property oracle on the real slicers (membership count per datum, alignment, boundaries, dropping)
"""
import itertools
import math

import numpy as np

import vlib
from vlib import fl, fl_list, z, bool_list

REFS = ["center", "left", "right", "callable"]
REFK = {"center": "RCenter", "left": "RLeft", "right": "RRight", "callable": "RCallable"}


def _imp():
    import virocon.intervals as iv
    return iv


# ------------------------------------------------------------------ case generation
WIDTHS = [1.0, 0.5, 0.1, 0.3, 0.7, 0.25, 1.0 / 3.0, 2.0]


def gen_data(rng, w, n):
    mode = rng.choice(["lattice", "lattice", "uniform", "round1", "ties", "arangeacc"])
    if mode == "lattice":
        ks = [rng.randrange(0, 25) for _ in range(n)]
        xs = [k * w / 2 if rng.random() < 0.7 else round(k * w / 2, 10) for k in ks]
    elif mode == "uniform":
        xs = [rng.uniform(0, 12 * w) for _ in range(n)]
    elif mode == "round1":
        xs = [round(rng.uniform(0, 12 * w), 1) for _ in range(n)]
    elif mode == "ties":
        base = [round(rng.uniform(0, 8 * w), 1) for _ in range(max(1, n // 3))]
        xs = [rng.choice(base) for _ in range(n)]
    else:
        acc, xs = 0.0, []
        for _ in range(n):
            acc += w * rng.choice([0.5, 1, 1, 2])
            xs.append(acc)
        rng.shuffle(xs)
    if rng.random() < 0.3:
        xs.sort()
    return [float(x) for x in xs]


def gen_case(rng, big=False):
    kind = rng.choice(["width", "number", "ppi"])
    n = rng.randrange(1, 400) if big else rng.randrange(1, 30)
    w = rng.choice(WIDTHS) if rng.random() < 0.85 else round(rng.uniform(0.05, 3), rng.choice([1, 2, 6]))
    data = gen_data(rng, w, n)
    if rng.random() < 0.2:     # a signed variable: part of the data (and possibly the lower limit of the value range) below zero
        shift = rng.randrange(1, 9) * w * rng.choice([1, 0.5])
        data = [float(x - shift) for x in data]
    c = {"kind": kind, "data": data, "min_n_points": rng.choice([0, 1, 1, 2, 3]),
         "min_n_intervals": rng.choice([0, 1, 2, 3])}
    if kind == "width":
        c["width"] = w
        c["reference"] = rng.choice(REFS)
        c["right_open"] = rng.random() < 0.6
        r = rng.random()
        lo = rng.choice([0.0, w, 0.5 * w, round(min(data), 1), -w, -2.5 * w, min(data) - 0.5 * w])
        hi = rng.choice([max(data), max(data) + w, max(data) - w if max(data) - w > lo else max(data), round(max(data), 1)])
        if hi <= lo:
            hi = lo + 3 * w
        c["value_range"] = None if r < 0.5 else ((lo, None) if r < 0.65 else ((None, hi) if r < 0.8 else (lo, hi)))
    elif kind == "number":
        c["n_intervals"] = rng.randrange(1, 13)
        c["reference"] = rng.choice(REFS)
        c["include_max"] = rng.random() < 0.6
        if rng.random() < 0.5 or len(set(data)) < 2:
            lo = rng.choice([0.0, 1.2, round(min(data), 1), min(data), -1.0, min(data) - 0.7])
            hi = rng.choice([max(data), 8.0, round(max(data), 1) + w, max(data) + w])
            if hi <= lo:
                hi = lo + 1.0
            c["value_range"] = (lo, hi)
        else:
            c["value_range"] = None
    else:
        c["n_points"] = rng.randrange(1, max(2, min(n, 9) + 1))
        c["last_full"] = rng.random() < 0.5
        if rng.random() < 0.4:
            c["data"] = sorted(c["data"])
    return c


def make_slicer(iv, c, min_n_points=None, min_n_intervals=None):
    kw = {"min_n_points": c["min_n_points"] if min_n_points is None else min_n_points,
          "min_n_intervals": c["min_n_intervals"] if min_n_intervals is None else min_n_intervals}
    if c["kind"] == "width":
        ref = np.median if c["reference"] == "callable" else c["reference"]
        return iv.WidthOfIntervalSlicer(c["width"], reference=ref, right_open=c["right_open"],
                                        value_range=c["value_range"], **kw)
    if c["kind"] == "number":
        ref = np.median if c["reference"] == "callable" else c["reference"]
        return iv.NumberOfIntervalsSlicer(c["n_intervals"], reference=ref, include_max=c["include_max"],
                                          value_range=c["value_range"], **kw)
    return iv.PointsPerIntervalSlicer(c["n_points"], last_full=c["last_full"], **kw)


def run_impl(iv, c, **over):
    data = np.array(c["data"], dtype=float)
    try:
        s = make_slicer(iv, c, **over)
        masks, refs, bounds = s.slice_(data)
    except RuntimeError:
        return {"err": "RuntimeError"}
    except Exception as e:  # noqa
        return {"err": type(e).__name__}
    return {"masks": [[bool(b) for b in m] for m in masks], "refs": [float(r) for r in refs],
            "bounds": [(float(a), float(b)) for a, b in bounds]}


# ------------------------------------------------------------------ Coq side
PRELUDE = """From V.base Require Import FloatBits.
From V.model Require Import Intervals.
Local Open Scope float_scope.
Definition fclose (a b : float) : bool :=
  fbits_eq a b || (PrimFloat.leb (abs (a - b)) (0x1.12e0be826d695p-30 * (if PrimFloat.ltb (abs a) (abs b) then abs b else abs a))).
Fixpoint all2 {A B} (f : A -> B -> bool) (a : list A) (b : list B) : bool :=
  match a, b with [], [] => true | x :: a', y :: b' => f x y && all2 f a' b' | _, _ => false end.
Definition beq_list := all2 Bool.eqb.
(* 0 ok; 1 error/ok mismatch; 2 masks; 3 references; 4 boundaries; 5 edge vector not sorted; 6 argsort contract *)
Definition cmp_rows (cmp_refs : bool) (res : option (list (row float float))) (emasks : option (list (list bool)))
           (erefs : list float) (ebounds : list (float * float)) : Z :=
  match res, emasks with
  | None, None => 0
  | Some rs, Some ms =>
      if negb (all2 beq_list (map r_mask rs) ms) then 2
      else if cmp_refs && negb (all2 fclose (map r_ref rs) erefs) then 3
      else if negb (all2 (fun a b => fclose (fst a) (fst b) && fclose (snd a) (snd b)) (map r_bounds rs) ebounds) then 4
      else 0
  | _, _ => 1
  end%Z.
Definition cmp_ppi (res : option (list (list bool) * list (float * float))) (emasks : option (list (list bool)))
           (ebounds : list (float * float)) : Z :=
  match res, emasks with
  | None, None => 0
  | Some (ms', bs), Some ms =>
      if negb (all2 beq_list ms' ms) then 2
      else if negb (all2 (fun a b => fclose (fst a) (fst b) && fclose (snd a) (snd b)) bs ebounds) then 4 else 0
  | _, _ => 1
  end%Z.
Definition edges_sorted (e : list float) : bool := sortedb e.
"""


def opt_f(v):
    return "None" if v is None else "(Some %s)" % fl(v)


def coq_case(c, r):
    d = fl_list(c["data"])
    em = "None" if "err" in r else "(Some [%s])" % "; ".join(bool_list(m) for m in r["masks"])
    er = "[]" if "err" in r else fl_list(r["refs"])
    eb = "[]" if "err" in r else "[" + "; ".join("(%s, %s)" % (fl(a), fl(b)) for a, b in r["bounds"]) + "]"
    if c["kind"] == "width":
        vr = c["value_range"] or (None, None)
        dmin = fl(vr[0]) if vr[0] is not None else "0"
        dmax = fl(vr[1]) if vr[1] is not None else "(fmax %s)" % d
        sorted_chk = "edges_sorted (snd (width_edges %s %s %s))" % (dmin, dmax, fl(c["width"]))
        call = "width_slice %s %s %s %s %s %d%%nat %d%%nat %s" % (
            fl(c["width"]), REFK[c["reference"]], "true" if c["right_open"] else "false",
            opt_f(vr[0]), opt_f(vr[1]), c["min_n_points"], c["min_n_intervals"], d)
        return "(if %s then cmp_rows %s (%s) %s %s %s else 5%%Z)" % (
            sorted_chk, "false" if c["reference"] == "callable" else "true", call, em, er, eb)
    if c["kind"] == "number":
        vr = c["value_range"]
        vrs = "None" if vr is None else "(Some (%s, %s))" % (fl(vr[0]), fl(vr[1]))
        v0 = fl(vr[0]) if vr else "(fmin %s)" % d
        v1 = fl(vr[1]) if vr else "(fmax %s)" % d
        sorted_chk = "edges_sorted (snd (number_edges %s %s %d%%nat))" % (v0, v1, c["n_intervals"])
        call = "number_slice %d%%nat %s %s %s %d%%nat %d%%nat %s" % (
            c["n_intervals"], REFK[c["reference"]], "true" if c["include_max"] else "false", vrs,
            c["min_n_points"], c["min_n_intervals"], d)
        return "(if %s then cmp_rows %s (%s) %s %s %s else 5%%Z)" % (
            sorted_chk, "false" if c["reference"] == "callable" else "true", call, em, er, eb)
    perm = [int(i) for i in np.argsort(np.array(c["data"], dtype=float))]
    pl = "[" + "; ".join("%d" % i for i in perm) + "]%nat"
    call = "ppi_slice %d%%nat %s %d%%nat %d%%nat %s %s" % (c["n_points"], "true" if c["last_full"] else "false",
                                            c["min_n_points"], c["min_n_intervals"], pl, d)
    return "(if argsort_ok %s %s then cmp_ppi (%s) %s %s else 6%%Z)" % (pl, d, call, em, eb)


# ------------------------------------------------------------------ property oracle (search)
def reuse_oracle(iv, c):
    """history: ONE slicer object sliced on two different data vectors gives, on the second, exactly what a fresh slicer gives
    (the documented defaults -- 0 and max(data) -- are those of the data at hand, nothing is remembered from the first call)"""
    data = np.array(c["data"], dtype=float)
    if len(data) < 2:
        return None
    for second in (np.concatenate([data * 1.9 + 0.35, data]), data[: max(1, len(data) // 2)] * 0.45):
        try:
            s = make_slicer(iv, c, min_n_points=0, min_n_intervals=0)
            s.slice_(data)
        except Exception:  # noqa
            return None
        try:
            got = s.slice_(second)
        except Exception as e:  # noqa
            got = type(e).__name__
        try:
            want = make_slicer(iv, c, min_n_points=0, min_n_intervals=0).slice_(second)
        except Exception as e:  # noqa
            want = type(e).__name__
        if isinstance(got, str) or isinstance(want, str):
            same = got == want if isinstance(got, str) and isinstance(want, str) else False
        else:
            same = (len(got[0]) == len(want[0]) and all(np.array_equal(a, b) for a, b in zip(got[0], want[0]))
                    and np.array_equal(np.asarray(got[1], dtype=float), np.asarray(want[1], dtype=float), equal_nan=True)
                    and [tuple(map(float, b)) for b in got[2]] == [tuple(map(float, b)) for b in want[2]])
        if not same:
            def brief(r):
                return r if isinstance(r, str) else "%d intervals, boundaries %r" % (len(r[0]), [tuple(map(float, b)) for b in r[2]][:6])
            return ({"slicer": c["kind"], "clause": "reuse"},
                    "%s slicer used on a second data vector (max %r, after a first one with max %r) gives %s; a fresh slicer gives %s"
                    % (c["kind"], float(np.max(second)), float(np.max(data)), brief(got), brief(want)))
    return None


def oracle(iv, c):
    """Returns None if the property holds on this configuration, else (signature, message)."""
    data = np.array(c["data"], dtype=float)
    n = len(data)
    ro = reuse_oracle(iv, c)
    if ro is not None:
        return ro
    r0 = run_impl(iv, c, min_n_points=0, min_n_intervals=0)
    if "err" in r0:
        if c["kind"] == "ppi" and len(c["data"]) < c["n_points"]:
            return None  # fewer observations than one interval needs: rejected, outside the property
        if c["kind"] == "ppi" or r0["err"] != "RuntimeError":
            return ({"slicer": c["kind"], "clause": "unexpected-exception"}, "slice_ raised %s with nothing to drop" % r0["err"])
        return None
    masks = np.array(r0["masks"], dtype=bool).reshape(len(r0["masks"]), n)
    bounds = r0["bounds"]
    if any(len(m) != n for m in r0["masks"]):
        return ({"slicer": c["kind"], "clause": "alignment"}, "mask length differs from data length")
    cnt = masks.sum(axis=0) if len(masks) else np.zeros(n, dtype=int)
    if not bounds:
        # no interval at all: legitimate only if no observation lies in the covered range (e.g. all data below the lower limit)
        if c["kind"] == "width":
            vr_ = c["value_range"] or (None, None)
            dmin_ = 0.0 if vr_[0] is None else vr_[0]
            dmax_ = float(data.max()) if vr_[1] is None else vr_[1]
            # (a range that is the single point `lower` is covered by [lower, lower + width) of a right-open slicer)
            inside = [float(v) for v in data if dmin_ <= v <= dmax_ and (dmin_ < dmax_ or c["right_open"])]
            if inside:
                return ({"slicer": c["kind"], "clause": "exactly-one"}, "no interval at all although %r lie in the covered range [%r, %r]" % (inside[:5], dmin_, dmax_))
        return None
    lo0, hiN = bounds[0][0], bounds[-1][1]
    for j in range(n):
        d = data[j]
        if c["kind"] == "width":
            # the covered range is what the configuration promises (value_range or [0, max(data)]), not what the
            # reported boundaries happen to span: the maximum always lies in the trailing interval arange creates
            vr_ = c["value_range"] or (None, None)
            dmin_ = 0.0 if vr_[0] is None else vr_[0]
            dmax_ = float(data.max()) if vr_[1] is None else vr_[1]
            cov = (dmin_ <= d <= dmax_) if c["right_open"] else (dmin_ < d <= dmax_)
        elif c["kind"] == "number":
            vr = c["value_range"] or (data.min(), data.max())
            cov = (vr[0] <= d <= vr[1]) if c["include_max"] else (vr[0] <= d < vr[1])
        else:
            cov = True
        if cov and cnt[j] != 1:
            sig = {"slicer": c["kind"], "clause": "partition", "count": int(cnt[j])}
            if c["kind"] == "number" and c["include_max"] and d == (c["value_range"] or (0, data.max()))[1]:
                sig["datum"] = "max"
            return (sig, "datum %r at position %d is in %d intervals" % (float(d), j, int(cnt[j])))
        if not cov and cnt[j] > 1:
            return ({"slicer": c["kind"], "clause": "partition", "count": int(cnt[j])},
                    "datum %r outside the covered range is in %d intervals" % (float(d), int(cnt[j])))
    # boundaries contain members, neighbouring boundaries do not overlap
    for i, (a, b) in enumerate(bounds):
        mem = data[masks[i]]
        if len(mem) and (mem.min() < a or mem.max() > b):
            return ({"slicer": c["kind"], "clause": "boundaries-contain"},
                    "interval %d reports boundaries (%r, %r) but holds %r..%r" % (i, a, b, float(mem.min()), float(mem.max())))
        if i + 1 < len(bounds) and bounds[i + 1][0] < b:
            return ({"slicer": c["kind"], "clause": "boundaries-overlap"},
                    "boundaries %d and %d overlap: %r > %r" % (i, i + 1, b, bounds[i + 1][0]))
    # alignment: permuting the input permutes the masks (ties make PPI membership ambiguous: only counts there)
    perm = np.argsort(np.sin(np.arange(n) * 12.9898 + 1.0), kind="stable")
    c2 = dict(c, data=[float(x) for x in data[perm]])
    r2 = run_impl(iv, c2, min_n_points=0, min_n_intervals=0)
    if "err" in r2:
        return ({"slicer": c["kind"], "clause": "alignment"}, "permuted data raises %s" % r2["err"])
    m2 = np.array(r2["masks"], dtype=bool).reshape(len(r2["masks"]), n)
    if c["kind"] != "ppi" or len(set(c["data"])) == n:
        if m2.shape != masks.shape or not np.array_equal(m2, masks[:, perm]):
            return ({"slicer": c["kind"], "clause": "alignment"}, "masks of permuted data are not the permuted masks")
    # references
    if c["kind"] != "ppi" and c["reference"] != "callable":
        for (a, b), rf in zip(bounds, r0["refs"]):
            want = {"center": (a + b) / 2, "left": a, "right": b}[c["reference"]]
            if not vlib.close(rf, want, rel=1e-9, abs_=1e-12) and abs(rf - want) > 1e-9:
                return ({"slicer": c["kind"], "clause": "reference"}, "reference %r is not the %s of (%r, %r)" % (rf, c["reference"], a, b))
    if c["kind"] == "ppi" or c["reference"] == "callable":
        for i, rf in enumerate(r0["refs"]):
            mem = data[masks[i]]
            if len(mem) and not vlib.close(rf, float(np.median(mem)), rel=1e-12, abs_=1e-12):
                return ({"slicer": c["kind"], "clause": "reference"}, "callable reference is not median of the interval's members")
    # dropping and RuntimeError
    mnp, mni = c["min_n_points"], c["min_n_intervals"]
    if c["kind"] == "ppi":
        mnp = min(mnp, c["n_points"])
    if c["kind"] == "number":
        mni = min(mni, c["n_intervals"])
    keep = [i for i in range(len(masks)) if masks[i].sum() >= mnp]
    r1 = run_impl(iv, c)
    if len(keep) < mni:
        if r1.get("err") != "RuntimeError":
            return ({"slicer": c["kind"], "clause": "runtime-error"}, "fewer than min_n_intervals remain but no RuntimeError")
    else:
        if "err" in r1:
            if c["kind"] == "ppi" and not keep:
                return None
            return ({"slicer": c["kind"], "clause": "runtime-error"}, "%s although %d intervals remain" % (r1["err"], len(keep)))
        if [list(m) for m in masks[keep]] != r1["masks"]:
            return ({"slicer": c["kind"], "clause": "drop"}, "kept intervals are not exactly those with >= min_n_points members, in order")
    return None


def nontrivial(c, r):
    if "err" in r:
        return True
    on_edge = False
    for (a, b) in r["bounds"]:
        if a in c["data"] or b in c["data"]:
            on_edge = True
    populated = sum(1 for m in r["masks"] if any(m))
    return on_edge or populated >= 2


def shrink(iv, c, sig):
    def fails(xs):
        if not xs:
            return False
        try:
            o = oracle(iv, dict(c, data=list(xs)))
        except Exception:
            return False
        return o is not None and o[0].get("clause") == sig.get("clause")
    data = vlib.shrink_list(c["data"], fails)
    return dict(c, data=data)


def replay(ctx, c):
    iv = _imp()
    if c.get("value_range") is not None:
        c["value_range"] = tuple(c["value_range"])
    o = oracle(iv, c)
    if o:
        print("  ", o[1])
    return o is not None


def lattice_cases(w, maxlen):
    vals = [k * w / 2 for k in range(0, 7)]
    for L in range(1, maxlen + 1):
        for xs in itertools.product(vals, repeat=L):
            yield list(xs)


def run(ctx):
    iv = _imp()
    ctx.proof_gate()
    rng = ctx.rng
    ncases = ctx.n(1500, 16000)
    cases = [gen_case(rng, big=(i % 10 == 0)) for i in range(ncases)]
    # small exhaustive part: lattice vectors for the decimal widths (all orders), main option combinations
    maxlen = ctx.n(2, 3)
    for w in [1.0, 0.5, 0.1, 0.3, 0.7]:
        for xs in lattice_cases(w, maxlen):
            for ro in (True, False):
                cases.append({"kind": "width", "data": xs, "width": w, "reference": "center", "right_open": ro,
                              "value_range": None, "min_n_points": 0, "min_n_intervals": 0})
            if len(set(xs)) > 1:
                for im in (True, False):
                    cases.append({"kind": "number", "data": xs, "n_intervals": 3, "reference": "center",
                                  "include_max": im, "value_range": None, "min_n_points": 0, "min_n_intervals": 0})
            cases.append({"kind": "ppi", "data": xs, "n_points": 2, "last_full": True, "min_n_points": 0, "min_n_intervals": 0})
    # EVERY run: the covered range is a single point (all data on the lower limit / the upper limit equal to the lower one)
    for w in (1.0, 0.5, 0.1):
        for ro in (True, False):
            for data, vr in (([0.0], None), ([0.0, 0.0], None), ([1.0, 2.0, 2.0], (2.0, None)), ([3 * w, 3 * w, w], (3 * w, 3 * w)), ([-w, 0.0], None)):
                for mn in (0, 1):
                    cases.append({"kind": "width", "data": data, "width": w, "reference": "left", "right_open": ro, "value_range": vr,
                                  "min_n_points": mn, "min_n_intervals": mn})
    results = [run_impl(iv, c) for c in cases]
    dist = {}
    for c, r in zip(cases, results):
        k = c["kind"] + ("/err:" + r["err"] if "err" in r else "")
        dist[k] = dist.get(k, 0) + 1
        ctx.count((c["kind"], tuple(c["data"]), str(sorted((k2, str(v)) for k2, v in c.items() if k2 != "data"))), nontrivial(c, r))
    ctx.notes["input_distribution"] = dist
    ctx.notes["lengths"] = {"min": min(len(c["data"]) for c in cases), "max": max(len(c["data"]) for c in cases)}
    for c, r in list(zip(cases, results))[:3]:
        ctx.sample({"case": c, "implementation": {k: (v if k == "err" else v[:3]) for k, v in r.items()}})
    # ---- correspondence
    shard = 400
    items = []
    for s in range(0, len(cases), shard):
        body = PRELUDE + "Definition results : list Z := [\n" + ";\n".join(
            coq_case(c, r) for c, r in zip(cases[s:s + shard], results[s:s + shard])) + "].\nEval vm_compute in results.\n"
        items.append(("cases_%d" % (s // shard), body))
    outs = ctx.coq_eval_many(items, jobs=12)
    ncmp = 0
    mism = []
    for k, o in enumerate(outs):
        if o is None:
            continue
        codes = vlib.parse_term(o[0])
        for i, code in enumerate(codes):
            ncmp += 1
            if code != 0:
                mism.append((k * shard + i, code))
    ctx.cov["programs"] = 3
    ctx.notes["correspondence"] = {"cases_compared": ncmp, "mismatches": len(mism)}
    names = {1: "error/ok", 2: "masks", 3: "references", 4: "boundaries", 5: "edge vector not non-decreasing", 6: "argsort contract"}
    suspects = []
    for idx, code in mism:
        ctx.mismatch("intervals case %d" % idx, "%s differ: %r" % (names.get(code, code), cases[idx]))
        suspects.append(cases[idx])
    # ---- search: property oracle on mismatching cases first, then on everything (cheap)
    found = 0
    for c in suspects + cases:
        if found >= 12:
            break
        o = oracle(iv, c)
        if o is not None:
            sig, msg = o
            small = shrink(iv, c, sig)
            o2 = oracle(iv, small) or o
            if ctx.violation(o2[0], "%s slicer: %s" % (c["kind"], o2[1]), small):
                found += 1
    # thorough: exhaustive lattice (length <= 5 for the widths that hit rounding) through the oracle only
    if not ctx.quick() and not found:
        nex = 0
        for w in [1.0, 0.5, 0.1, 0.3, 0.7]:
            for xs in lattice_cases(w, 4 if w in (1.0, 0.5) else 5):
                if xs != sorted(xs) and len(xs) > 3:
                    continue  # orders of longer vectors are covered by the alignment clause
                for c in ({"kind": "width", "data": xs, "width": w, "reference": "left", "right_open": True, "value_range": None, "min_n_points": 1, "min_n_intervals": 1},
                          {"kind": "width", "data": xs, "width": w, "reference": "right", "right_open": False, "value_range": (0.5 * w, None), "min_n_points": 2, "min_n_intervals": 0},
                          {"kind": "number", "data": xs, "n_intervals": 4, "reference": "left", "include_max": True, "value_range": (0.0, 3 * w), "min_n_points": 1, "min_n_intervals": 2},
                          {"kind": "ppi", "data": xs, "n_points": 2, "last_full": False, "min_n_points": 2, "min_n_intervals": 1}):
                    nex += 1
                    o = oracle(iv, c)
                    if o is not None:
                        if ctx.violation(o[0], "%s slicer: %s" % (c["kind"], o[1]), c):
                            found += 1
                if found >= 5:
                    break
        ctx.notes["exhaustive_lattice_oracle_cases"] = nex
        ctx.cov["evaluations"] += nex
    ctx.cov["rule"] = ("random + lattice configurations of the three slicers (widths 1, .5, .1, .3, .7, ...; data on half-width lattices, "
                       "rounded, tied, any order; all option combinations); non-trivial = a datum equals a reported boundary or >= 2 intervals populated or an error is raised; "
                       "distinct = hash of (slicer, options, data)")
    ctx.cov["trusted_base"] = ["Coq 8.16.1 kernel + vm_compute (primitive floats)", "harness tools/harness/c10.py (generators, comparison)",
                               "np.argsort as an oracle whose contract (permutation that sorts) is checked per case",
                               "binary64 edge vectors checked non-decreasing per case (not proved)"]
    ctx.assumptions += ["order on data is total and transitive (no NaN)", "numpy arange/linspace reproduced by model/FloatBits.v (validated by this run's correspondence)"]
