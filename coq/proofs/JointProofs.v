(* Lemmas for C06 / C07 about model/Joint.v: the joint density is the product of the
   per-dimension densities at (x_i, x_cond(i)) of the same row and is non-negative; the
   argument reordering of the nquad integrand wrappers is the inverse permutation, so that the
   integrand sees every variable in model order; the hierarchical product integrates to one;
   the data flow of draw_sample (row pairing, generator threading, shape, determinism). *)
From Coq Require Import List Bool Arith Lia Permutation Sorted ZArith FunctionalExtensionality PrimFloat.
From V.base Require Import FloatBits.
From V.model Require Import Joint.
Import ListNotations.

(* ------------------------------------------------------------------ generic list facts *)
Section Lists.
  Lemma map_nth_seq_from {A} (v : list A) d : forall s, map (fun m => nth (m - s) v d) (seq s (length v)) = v.
  Proof.
    induction v as [|a v IH]; intros s; [reflexivity|].
    cbn [length seq map]. rewrite Nat.sub_diag. cbn [nth]. f_equal.
    rewrite <- (IH (S s)) at 2. apply map_ext_in. intros m Hm. apply in_seq in Hm.
    replace (m - s) with (S (m - S s)) by lia. reflexivity.
  Qed.
  Lemma map_nth_seq {A} (v : list A) d : map (fun m => nth m v d) (seq 0 (length v)) = v.
  Proof. rewrite <- (map_nth_seq_from v d 0) at 2. apply map_ext. intros m. now rewrite Nat.sub_0_r. Qed.

  Lemma nth_map_in {A B} (f : A -> B) l j dA dB : j < length l -> nth j (map f l) dB = f (nth j l dA).
  Proof. intros H. rewrite (nth_indep _ dB (f dA)) by (now rewrite map_length). apply map_nth. Qed.

  Lemma map_snd_combine {A B} : forall (l : list A) (l' : list B), length l = length l' -> map snd (combine l l') = l'.
  Proof. induction l as [|a l IH]; intros [|b l'] H; try discriminate; [reflexivity|]. cbn. f_equal. apply IH. now inversion H. Qed.
  Lemma map_fst_combine {A B} : forall (l : list A) (l' : list B), length l = length l' -> map fst (combine l l') = l.
  Proof. induction l as [|a l IH]; intros [|b l'] H; try discriminate; [reflexivity|]. cbn. f_equal. apply IH. now inversion H. Qed.

  Lemma seq_strongly_sorted : forall n s, StronglySorted le (seq s n).
  Proof.
    induction n as [|n IH]; intros s; [constructor|]. cbn. constructor; [apply IH|].
    apply Forall_forall. intros x Hx. apply in_seq in Hx. lia.
  Qed.

  Lemma sorted_perm_eq : forall l1 l2 : list nat,
    StronglySorted le l1 -> StronglySorted le l2 -> Permutation l1 l2 -> l1 = l2.
  Proof.
    induction l1 as [|a l1 IH]; intros l2 S1 S2 HP.
    - apply Permutation_nil in HP. now subst.
    - destruct l2 as [|b l2]; [apply Permutation_sym, Permutation_nil in HP; discriminate|].
      inversion S1 as [|? ? S1' F1]; subst. inversion S2 as [|? ? S2' F2]; subst.
      assert (Hab : a <= b).
      { assert (Hin : In b (a :: l1)) by (apply (Permutation_in _ (Permutation_sym HP)); now left).
        destruct Hin as [->|Hin]; [lia|]. rewrite Forall_forall in F1. now apply F1. }
      assert (Hba : b <= a).
      { assert (Hin : In a (b :: l2)) by (apply (Permutation_in _ HP); now left).
        destruct Hin as [->|Hin]; [lia|]. rewrite Forall_forall in F2. now apply F2. }
      assert (a = b) by lia. subst b. f_equal. apply IH; auto. now apply Permutation_cons_inv in HP.
  Qed.
End Lists.

(* ------------------------------------------------------------------ argsort / reorder *)
Section Reorder.
  Variable T : Type.
  Variable zero : T.
  Notation reorder := (reorder T zero).

  Definition key_le (a b : nat * nat) : Prop := fst a <= fst b.

  Lemma ins_perm p l : Permutation (ins p l) (p :: l).
  Proof.
    induction l as [|q l IH]; [reflexivity|]. cbn [ins]. destruct (fst p <=? fst q); [reflexivity|].
    apply (perm_trans (l' := q :: p :: l)); [now apply perm_skip|apply perm_swap].
  Qed.
  Lemma sort_pairs_perm l : Permutation (sort_pairs l) l.
  Proof.
    induction l as [|p l IH]; [reflexivity|]. cbn [sort_pairs fold_right].
    apply (perm_trans (ins_perm p _)). now apply perm_skip.
  Qed.

  Lemma ins_sorted p l : Sorted key_le l -> Sorted key_le (ins p l).
  Proof.
    induction l as [|q l IH]; intros S; [repeat constructor|]. cbn [ins].
    destruct (Nat.leb_spec (fst p) (fst q)) as [H|H].
    - constructor; [exact S|]. constructor. exact H.
    - inversion S as [|? ? S' Hd]; subst. constructor; [apply IH; exact S'|].
      destruct l as [|r l]; cbn [ins].
      + constructor. unfold key_le. lia.
      + destruct (fst p <=? fst r); constructor; unfold key_le in *.
        * lia.
        * inversion Hd; subst. assumption.
  Qed.
  Lemma sort_pairs_sorted l : Sorted key_le (sort_pairs l).
  Proof. induction l as [|p l IH]; [constructor|]. cbn [sort_pairs fold_right]. now apply ins_sorted. Qed.

  Lemma sorted_map_fst l : Sorted key_le l -> StronglySorted le (map fst l).
  Proof.
    intros S. apply Sorted_StronglySorted; [intros x y z; apply Nat.le_trans|].
    induction S as [|a l S IH Hd]; [constructor|]. cbn [map]. constructor; [exact IH|].
    destruct Hd; cbn [map]; constructor. assumption.
  Qed.

  Lemma in_combine_seq (l : list nat) a j : In (a, j) (combine l (seq 0 (length l))) -> nth j l 0 = a /\ j < length l.
  Proof.
    intros H. destruct (In_nth _ _ (0, 0) H) as [i [Hi E]].
    rewrite combine_length, seq_length, Nat.min_id in Hi.
    rewrite combine_nth in E by (now rewrite seq_length). rewrite seq_nth in E by exact Hi.
    inversion E; subst. split; [reflexivity|exact Hi].
  Qed.

  Lemma argsort_length l : length (argsort l) = length l.
  Proof.
    unfold argsort. rewrite map_length. rewrite (Permutation_length (sort_pairs_perm _)).
    now rewrite combine_length, seq_length, Nat.min_id.
  Qed.
  Lemma argsort_perm l : Permutation (argsort l) (seq 0 (length l)).
  Proof.
    unfold argsort. apply (perm_trans (l' := map snd (combine l (seq 0 (length l))))).
    - apply Permutation_map, sort_pairs_perm.
    - rewrite map_snd_combine by (now rewrite seq_length). reflexivity.
  Qed.
  Lemma argsort_lt l j : In j (argsort l) -> j < length l.
  Proof. intros H. apply (Permutation_in _ (argsort_perm l)) in H. apply in_seq in H. lia. Qed.

  (* the values read through argsort are the sorted values *)
  Lemma argsort_values l :
    map (fun j => nth j l 0) (argsort l) = map fst (sort_pairs (combine l (seq 0 (length l)))).
  Proof.
    unfold argsort. rewrite map_map. apply map_ext_in. intros [a j] H.
    apply (Permutation_in _ (sort_pairs_perm _)) in H. apply in_combine_seq in H. cbn. tauto.
  Qed.
  Lemma argsort_sorts l : StronglySorted le (map (fun j => nth j l 0) (argsort l)).
  Proof. rewrite argsort_values. apply sorted_map_fst, sort_pairs_sorted. Qed.
  Lemma argsort_values_perm l : Permutation (map (fun j => nth j l 0) (argsort l)) l.
  Proof.
    rewrite argsort_values. apply (perm_trans (l' := map fst (combine l (seq 0 (length l))))).
    - apply Permutation_map, sort_pairs_perm.
    - rewrite map_fst_combine by (now rewrite seq_length). reflexivity.
  Qed.

  (* for a permutation of 0..n-1, argsort is the inverse permutation *)
  Lemma argsort_inverse ao n : Permutation ao (seq 0 n) -> map (fun j => nth j ao 0) (argsort ao) = seq 0 n.
  Proof.
    intros HP. apply sorted_perm_eq; [apply argsort_sorts|apply seq_strongly_sorted|].
    apply (perm_trans (argsort_values_perm ao) HP).
  Qed.

  Lemma perm_seq_length (ao : list nat) n : Permutation ao (seq 0 n) -> length ao = n.
  Proof. intros H. rewrite (Permutation_length H). apply seq_length. Qed.
  Lemma perm_seq_lt (ao : list nat) n k : Permutation ao (seq 0 n) -> k < n -> nth k ao 0 < n.
  Proof.
    intros H Hk. assert (In (nth k ao 0) ao) by (apply nth_In; now rewrite (perm_seq_length ao n H)).
    apply (Permutation_in _ H), in_seq in H0. lia.
  Qed.

  Lemma reorder_length ao args : length (reorder ao args) = length ao.
  Proof. unfold Joint.reorder. now rewrite map_length, argsort_length. Qed.

  (* THE permutation lemma: if nquad's k-th argument is the value of model variable arg_order[k],
     the row handed to pdf is the point in model order -- for EVERY permutation arg_order *)
  Theorem reorder_perm ao (v : list T) :
    Permutation ao (seq 0 (length v)) -> reorder ao (map (fun k => nth k v zero) ao) = v.
  Proof.
    intros HP. unfold Joint.reorder.
    rewrite (map_ext_in _ (fun j => nth (nth j ao 0) v zero)).
    - rewrite <- (map_map (fun j => nth j ao 0) (fun m => nth m v zero)).
      rewrite (argsort_inverse ao _ HP). apply map_nth_seq.
    - intros j Hj. apply argsort_lt in Hj. exact (nth_map_in (fun k => nth k v zero) ao j 0 zero Hj).
  Qed.

  (* ... and conversely: model variable arg_order[k] receives nquad's k-th argument (which ranges
     over ranges[k], or is the k-th of the trailing extra args) *)
  Theorem reorder_scatter ao (args : list T) k :
    Permutation ao (seq 0 (length args)) -> k < length args ->
    nth (nth k ao 0) (reorder ao args) zero = nth k args zero.
  Proof.
    intros HP Hk. set (n := length args) in *. set (m := nth k ao 0).
    assert (Hm : m < n) by (apply perm_seq_lt; assumption).
    assert (Hlen : length ao = n) by (now apply perm_seq_length).
    unfold Joint.reorder. rewrite (nth_map_in _ _ _ 0) by (now rewrite argsort_length, Hlen).
    f_equal.
    (* nth m (argsort ao) = k, because ao has no duplicates *)
    pose proof (argsort_inverse ao n HP) as Hinv.
    assert (E : nth (nth m (argsort ao) 0) ao 0 = m).
    { assert (E1 : nth m (map (fun j => nth j ao 0) (argsort ao)) 0 = nth m (seq 0 n) 0) by (now rewrite Hinv).
      rewrite seq_nth in E1 by exact Hm. rewrite (nth_map_in _ _ _ 0) in E1 by (now rewrite argsort_length, Hlen).
      exact E1. }
    assert (ND : NoDup ao) by (apply (Permutation_NoDup (Permutation_sym HP)), seq_NoDup).
    rewrite (NoDup_nth ao 0) in ND. apply ND.
    - apply argsort_lt. apply nth_In. now rewrite argsort_length, Hlen.
    - now rewrite Hlen.
    - exact E.
  Qed.

  Lemma reorder_id (args : list T) : reorder (seq 0 (length args)) args = args.
  Proof.
    pose proof (reorder_perm (seq 0 (length args)) args (Permutation_refl _)) as H.
    rewrite map_nth_seq in H. exact H.
  Qed.

  (* the argument orders the code builds are permutations *)
  Lemma remove_at_perm {A} : forall (l : list A) k d, k < length l -> Permutation (nth k l d :: remove_at k l) l.
  Proof.
    induction l as [|a l IH]; intros k d H; [cbn in H; lia|]. destruct k as [|k]; [reflexivity|].
    cbn [nth remove_at]. apply (perm_trans (perm_swap _ _ _)). apply perm_skip. apply IH. cbn in H. lia.
  Qed.
  Lemma remove_at_length {A} : forall (l : list A) k, k < length l -> length (remove_at k l) = length l - 1.
  Proof. induction l as [|a l IH]; intros k H; [cbn in H; lia|]. destruct k; cbn in *; [lia|]. rewrite IH by lia. lia. Qed.

  Theorem marg_order_perm n dimi : dimi < n -> Permutation (marg_order n dimi) (seq 0 n).
  Proof.
    intros H. unfold marg_order.
    apply (perm_trans (Permutation_app_comm _ _)). cbn [app].
    apply (perm_trans (l' := dimi :: remove_at dimi (seq 0 n))).
    - apply perm_skip, Permutation_sym, Permutation_rev.
    - pose proof (remove_at_perm (seq 0 n) dimi 0) as Hp. rewrite seq_length in Hp. specialize (Hp H).
      rewrite seq_nth in Hp by exact H. exact Hp.
  Qed.
  Lemma marg_order_length n dimi : dimi < n -> length (marg_order n dimi) = n.
  Proof. intros H. apply perm_seq_length, marg_order_perm, H. Qed.
  Lemma marg_order_last n dimi : dimi < n -> nth (n - 1) (marg_order n dimi) 0 = dimi.
  Proof.
    intros H. unfold marg_order. rewrite app_nth2; rewrite rev_length, remove_at_length, seq_length; try (rewrite ?seq_length; lia).
    now rewrite Nat.sub_diag.
  Qed.
End Reorder.

(* ------------------------------------------------------------------ pdf = product, >= 0, input forms *)
Section Pdf.
  Variable T : Type.
  Variables zero one : T.
  Variable mul : T -> T -> T.
  Variable of_int : Z -> T.
  Notation dim := (dim T).
  Notation factors_from := (factors_from T zero).
  Notation factors := (factors T zero).
  Notation pdf_row := (pdf_row T zero one mul).
  Notation pdf := (pdf T zero one mul).
  Notation pdf_in := (pdf_in T zero one mul of_int).

  Lemma factors_from_length ds : forall i row, length (factors_from i ds row) = length ds.
  Proof. induction ds as [|d ds IH]; intros i row; [reflexivity|]. cbn. now rewrite IH. Qed.

  Lemma factors_from_nth : forall ds i row k d, nth_error ds k = Some d ->
    nth_error (factors_from i ds row) k = Some (dpdf d (nth (i + k) row zero) (given_of T zero (cond d) row)).
  Proof.
    induction ds as [|d0 ds IH]; intros i row k d H; [destruct k; discriminate|].
    destruct k as [|k]; cbn in *.
    - inversion H; subst. now rewrite Nat.add_0_r.
    - rewrite (IH (S i) row k d H). do 3 f_equal. lia.
  Qed.

  (* the joint density of a row is the product, over the dimensions, of the dimension's density at
     the row's own value given the value of the declared conditioning variable OF THE SAME ROW *)
  Theorem pdf_is_product ds row :
    pdf_row ds row = fold_left mul (factors ds row) one /\
    length (factors ds row) = length ds /\
    forall k d, nth_error ds k = Some d ->
      nth_error (factors ds row) k =
      Some (dpdf d (nth k row zero) (match cond d with None => None | Some j => Some (nth j row zero) end)).
  Proof.
    split; [reflexivity|]. split; [apply factors_from_length|].
    intros k d H. unfold Joint.factors. rewrite (factors_from_nth ds 0 row k d H). reflexivity.
  Qed.

  Theorem pdf_rowwise ds rows r : nth r (pdf ds rows) one = match nth_error rows r with Some row => pdf_row ds row | None => one end.
  Proof.
    unfold Joint.pdf. revert r. induction rows as [|row rows IH]; intros [|r]; cbn; auto.
  Qed.
  Lemma pdf_length ds rows : length (pdf ds rows) = length rows.
  Proof. apply map_length. Qed.

  (* row vector / list / (n, n_dim) array, integer or float dtype: the same numbers *)
  Theorem pdf_input_forms ds :
    (forall v, pdf_in ds (VecF v) = pdf_in ds (MatF [v])) /\
    (forall v, pdf_in ds (VecI v) = pdf_in ds (VecF (map of_int v))) /\
    (forall m, pdf_in ds (MatI m) = pdf_in ds (MatF (map (map of_int) m))) /\
    (forall m, pdf_in ds (MatF m) = map (pdf_row ds) m).
  Proof. repeat split; reflexivity. Qed.

  (* the repaired container stores the factors unchanged *)
  Lemma pdf_stored_id ds rows : pdf_stored T zero one mul (fun x => x) ds rows = pdf ds rows.
  Proof. unfold pdf_stored, Joint.pdf, Joint.pdf_row, prod. apply map_ext. intros row. now rewrite map_id. Qed.

  Section NonNeg.
    Variable le : T -> T -> Prop.
    Hypothesis le_0_1 : le zero one.
    Hypothesis mul_nonneg : forall a b, le zero a -> le zero b -> le zero (mul a b).
    Lemma prod_nonneg l : Forall (le zero) l -> forall acc, le zero acc -> le zero (fold_left mul l acc).
    Proof. induction 1 as [|a l Ha _ IH]; intros acc Hacc; cbn; auto. Qed.
    Theorem pdf_nonneg ds row :
      (forall d x g, In d ds -> le zero (dpdf d x g)) -> le zero (pdf_row ds row).
    Proof.
      intros H. unfold Joint.pdf_row, prod. apply prod_nonneg; [|exact le_0_1].
      unfold Joint.factors. generalize 0 as i. induction ds as [|d ds' IH]; intros i; cbn; constructor.
      - apply H. now left.
      - apply IH. intros d' x g Hin. apply H. now right.
    Qed.
  End NonNeg.

  (* ---------------- hierarchical structure: conditional_on[i] < i *)
  Fixpoint wf_from (i : nat) (ds : list dim) : Prop :=
    match ds with
    | [] => True
    | d :: ds' => (match cond d with None => True | Some j => j < i end) /\ wf_from (S i) ds'
    end.

  Lemma wf_from_app : forall a b i, wf_from i (a ++ b) <-> wf_from i a /\ wf_from (i + length a) b.
  Proof.
    induction a as [|d a IH]; intros b i; cbn [app wf_from length].
    - rewrite Nat.add_0_r. tauto.
    - rewrite IH. replace (S i + length a) with (i + S (length a)) by lia. tauto.
  Qed.

  Lemma given_of_app c (acc tl : list T) :
    (match c with None => True | Some j => j < length acc end) -> given_of T zero c (acc ++ tl) = given_of T zero c acc.
  Proof. destruct c as [j|]; intros H; cbn; [|reflexivity]. now rewrite app_nth1. Qed.

  Lemma factors_from_app : forall ds i acc tl, wf_from i ds -> i + length ds <= length acc ->
    factors_from i ds (acc ++ tl) = factors_from i ds acc.
  Proof.
    induction ds as [|d ds IH]; intros i acc tl Hwf Hl; [reflexivity|].
    cbn [length] in Hl. destruct Hwf as [Hc Hwf]. cbn [Joint.factors_from]. f_equal.
    - rewrite app_nth1 by lia. rewrite given_of_app; [reflexivity|]. destruct (cond d); auto. lia.
    - apply IH; auto. lia.
  Qed.

  Lemma factors_from_snoc : forall ds i d row,
    factors_from i (ds ++ [d]) row =
    factors_from i ds row ++ [dpdf d (nth (i + length ds) row zero) (given_of T zero (cond d) row)].
  Proof.
    induction ds as [|d0 ds IH]; intros i d row; cbn [app Joint.factors_from length].
    - now rewrite Nat.add_0_r.
    - rewrite IH. replace (S i + length ds) with (i + S (length ds)) by lia. reflexivity.
  Qed.

  (* adding one variable at the end multiplies the density of the prefix by the new factor *)
  Lemma pdf_row_snoc ds d (acc : list T) t :
    wf_from 0 (ds ++ [d]) -> length acc = length ds ->
    pdf_row (ds ++ [d]) (acc ++ [t]) = mul (pdf_row ds acc) (dpdf d t (given_of T zero (cond d) acc)).
  Proof.
    intros Hwf Hl. apply wf_from_app in Hwf. destruct Hwf as [Hw1 [Hc _]]. cbn [Nat.add] in Hc.
    unfold Joint.pdf_row, Joint.factors, prod. rewrite factors_from_snoc, fold_left_app. cbn [fold_left].
    rewrite (factors_from_app ds 0 acc [t] Hw1) by (cbn; lia). cbn [Nat.add]. rewrite app_nth2 by lia.
    rewrite <- Hl, Nat.sub_diag. cbn [nth]. rewrite given_of_app; [reflexivity|].
    destruct (cond d); auto. lia.
  Qed.
End Pdf.

(* ------------------------------------------------------------------ nquad contract: iterated integrals *)
Section Integrals.
  Variable T : Type.
  Variables zero one inf : T.
  Variable mul : T -> T -> T.
  Variable of_int : Z -> T.
  Variable integral : (T -> T) -> T -> T -> T.     (* the 1-dimensional integral of f over (a, b) *)
  Variable nquad : (list T -> T) -> list (T * T) -> list T -> T.
  Notation dim := (dim T).
  Notation pdf_row := (pdf_row T zero one mul).
  Notation reorder := (reorder T zero).

  (* iterated integral; the ranges are listed from the OUTERMOST integral to the innermost one, the
     integration variables are collected so that the innermost one comes first *)
  Fixpoint iint (f : list T -> T) (rs : list (T * T)) (acc : list T) : T :=
    match rs with
    | [] => f acc
    | r :: rs' => integral (fun t => iint f rs' (t :: acc)) (fst r) (snd r)
    end.

  (* oracle contract of scipy.integrate.nquad(func, ranges, args): argument k of func ranges over
     ranges[k] (ranges[0] innermost), the extra args are appended *)
  Definition nquad_is_iterated_integral : Prop :=
    forall f ranges extra, nquad f ranges extra = iint (fun a => f (a ++ extra)) (rev ranges) [].

  Lemma integral_ext f g a b : (forall t, f t = g t) -> integral f a b = integral g a b.
  Proof. intros H. f_equal. apply functional_extensionality. exact H. Qed.

  Lemma iint_ext f g : forall rs acc,
    (forall a, length a = length rs + length acc -> f a = g a) -> iint f rs acc = iint g rs acc.
  Proof.
    induction rs as [|r rs IH]; intros acc H; cbn [iint].
    - apply H. reflexivity.
    - apply integral_ext. intros t. apply IH. intros a Ha. apply H. cbn [length] in *. lia.
  Qed.

  Hypothesis nquad_contract : nquad_is_iterated_integral.

  Lemma cdf_ranges (x : list T) :
    map (fun j => (zero, nth j x zero)) (seq 0 (length x)) = map (fun xi => (zero, xi)) x.
  Proof. rewrite <- (map_nth_seq x zero) at 2. now rewrite map_map. Qed.

  (* joint cdf = integral of the pdf over the lower-left orthant (x_0 innermost) *)
  Theorem cdf_is_orthant_integral (ds : list dim) (x : list T) : length x = length ds ->
    run_nq T zero one mul nquad ds (cdf_call T zero (length ds) x) =
    iint (pdf_row ds) (rev (map (fun xi => (zero, xi)) x)) [].
  Proof.
    intros Hl. unfold run_nq. rewrite nquad_contract. unfold cdf_call, nq_f. cbn [nq_row nq_ranges nq_args].
    rewrite <- Hl, cdf_ranges. apply iint_ext. intros a Ha. rewrite app_nil_r.
    rewrite rev_length, map_length in Ha. cbn [length] in Ha. rewrite Nat.add_0_r in Ha.
    unfold cdf_order. rewrite <- Ha. now rewrite reorder_id.
  Qed.

  (* marginal pdf / cdf of a conditional variable: iterated integrals whose integrand receives the point
     in model order: model variable marg_order[k] is the k-th integration variable (over (0, inf)),
     the dim-th variable is fixed to x (pdf) or is the outermost integration variable over (0, x) (cdf) *)
  Theorem marginal_pdf_is_integral (ds : list dim) dimi (x : T) :
    let n := length ds in let ao := marg_order n dimi in
    dimi < n ->
    run_nq T zero one mul nquad ds (mpdf_call T zero inf n dimi x) =
      iint (fun a => pdf_row ds (reorder ao (a ++ [x]))) (rev (repeat (zero, inf) (n - 1))) [] /\
    forall a, length a = n - 1 ->
      let row := reorder ao (a ++ [x]) in
      length row = n /\ nth dimi row zero = x /\
      forall k, k < n - 1 -> nth (nth k ao 0) row zero = nth k a zero.
  Proof.
    intros n ao Hd. split.
    - unfold run_nq. rewrite nquad_contract. reflexivity.
    - intros a Ha row.
      assert (Hlen : length (a ++ [x]) = n) by (rewrite app_length; cbn; lia).
      assert (HP : Permutation ao (seq 0 (length (a ++ [x])))) by (rewrite Hlen; now apply marg_order_perm).
      split; [unfold row; rewrite reorder_length; now apply marg_order_length|]. split.
      + unfold row. rewrite <- (marg_order_last n dimi Hd) at 1. fold ao.
        rewrite (reorder_scatter T zero ao (a ++ [x]) (n - 1) HP) by lia.
        rewrite app_nth2 by lia. now rewrite Ha, Nat.sub_diag.
      + intros k Hk. unfold row. rewrite (reorder_scatter T zero ao (a ++ [x]) k HP) by lia.
        now rewrite app_nth1 by lia.
  Qed.

  Theorem marginal_cdf_is_integral (ds : list dim) dimi (x : T) :
    let n := length ds in let ao := marg_order n dimi in
    dimi < n ->
    run_nq T zero one mul nquad ds (mcdf_call T zero inf n dimi x) =
      iint (fun a => pdf_row ds (reorder ao a)) ((zero, x) :: rev (repeat (zero, inf) (n - 1))) [] /\
    nth (n - 1) ao 0 = dimi /\
    forall a, length a = n ->
      let row := reorder ao a in
      length row = n /\ forall k, k < n -> nth (nth k ao 0) row zero = nth k a zero.
  Proof.
    intros n ao Hd. split; [|split].
    - unfold run_nq. rewrite nquad_contract. unfold mcdf_call, nq_f. cbn [nq_row nq_ranges nq_args].
      rewrite rev_app_distr. cbn [rev app]. apply iint_ext. intros a _. now rewrite app_nil_r.
    - now apply marg_order_last.
    - intros a Ha row.
      assert (HP : Permutation ao (seq 0 (length a))) by (rewrite Ha; now apply marg_order_perm).
      split; [unfold row; rewrite reorder_length; now apply marg_order_length|].
      intros k Hk. unfold row. apply reorder_scatter; [exact HP|lia].
  Qed.

  (* unconditional variables: the marginal IS the distribution (no integration) *)
  Theorem marginal_unconditional (ds : list dim) dimi d x :
    nth_error ds dimi = Some d -> cond d = None ->
    marginal_pdf T zero one inf mul of_int nquad ds x dimi = Some (map (fun v => dpdf d v None) (as_vals T of_int x)) /\
    marginal_cdf T zero one inf mul of_int nquad ds x dimi = Some (map (fun v => dcdf d v None) (as_vals T of_int x)).
  Proof. intros H1 H2. unfold marginal_pdf, marginal_cdf. rewrite H1, H2. split; reflexivity. Qed.

  Theorem marginal_conditional (ds : list dim) dimi d j x :
    nth_error ds dimi = Some d -> cond d = Some j ->
    marginal_pdf T zero one inf mul of_int nquad ds x dimi =
      Some (map (fun v => run_nq T zero one mul nquad ds (mpdf_call T zero inf (length ds) dimi v)) (as_vals T of_int x)) /\
    marginal_cdf T zero one inf mul of_int nquad ds x dimi =
      Some (map (fun v => run_nq T zero one mul nquad ds (mcdf_call T zero inf (length ds) dimi v)) (as_vals T of_int x)).
  Proof. intros H1 H2. unfold marginal_pdf, marginal_cdf. rewrite H1, H2. split; reflexivity. Qed.

  (* ---------------- total mass: the hierarchical product integrates to one (last variable innermost) *)
  Fixpoint iint_lo (k : nat) (f : list T -> T) (acc : list T) : T :=
    match k with
    | O => f acc
    | S k' => integral (fun t => iint_lo k' f (acc ++ [t])) zero inf
    end.

  Hypothesis mul_one_r : forall c, mul c one = c.
  Hypothesis integral_scal : forall c f a b, integral (fun t => mul c (f t)) a b = mul c (integral f a b).

  Lemma mass_aux : forall (ds2 ds1 : list dim) acc,
    wf_from T 0 (ds1 ++ ds2) -> length acc = length ds1 ->
    (forall d g, In d ds2 -> integral (fun t => dpdf d t g) zero inf = one) ->
    iint_lo (length ds2) (pdf_row (ds1 ++ ds2)) acc = pdf_row ds1 acc.
  Proof.
    induction ds2 as [|d ds2 IH]; intros ds1 acc Hwf Hl Hn.
    - cbn [length iint_lo]. now rewrite app_nil_r.
    - cbn [length iint_lo].
      assert (E : ds1 ++ d :: ds2 = (ds1 ++ [d]) ++ ds2) by (now rewrite <- app_assoc).
      rewrite E in *.
      rewrite (integral_ext _ (fun t => mul (pdf_row ds1 acc) (dpdf d t (given_of T zero (cond d) acc)))).
      + rewrite integral_scal. rewrite Hn by (now left). apply mul_one_r.
      + intros t. rewrite IH.
        * apply pdf_row_snoc; auto. apply (wf_from_app T zero mul) in Hwf. tauto.
        * exact Hwf.
        * rewrite !app_length. cbn. lia.
        * intros d' g Hin. apply Hn. now right.
  Qed.

  Theorem pdf_integrates_to_one (ds : list dim) :
    wf_from T 0 ds ->
    (forall d g, In d ds -> integral (fun t => dpdf d t g) zero inf = one) ->
    iint_lo (length ds) (pdf_row ds) [] = one.
  Proof. intros Hwf Hn. apply (mass_aux ds [] [] Hwf eq_refl Hn). Qed.
End Integrals.

(* marginal_cdf(marginal_icdf(p)) = p for an unconditional variable, given the distribution's own
   cdf(icdf(p)) = p (C05) *)
Section MarginalRoundTrip.
  Variable T : Type.
  Variables zero one inf : T.
  Variable mul : T -> T -> T.
  Variable of_int : Z -> T.
  Variable nquad : (list T -> T) -> list (T * T) -> list T -> T.
  Variables G P : Type.
  Variable seed_state : Z -> G.
  Variable quantile : list T -> list T -> list T.
  Variable okp : T -> Prop.

  Lemma draw_function_of_state_early (sds : list (sdim T G P)) n g g' rs rs' :
    initial_state G seed_state g rs = initial_state G seed_state g' rs' ->
    draw_full T zero G P seed_state sds n g rs = draw_full T zero G P seed_state sds n g' rs'.
  Proof. intros H. unfold draw_full. now rewrite H. Qed.

  Theorem marginal_roundtrip_unconditional (ds : list (dim T)) (sds : list (sdim T G P)) dimi d ps mc g rs :
    nth_error ds dimi = Some d -> cond d = None ->
    (forall p, okp p -> dcdf d (dicdf d p None) None = p) -> Forall okp ps ->
    exists xs, marginal_icdf T zero G P seed_state quantile ds sds ps dimi mc g rs = Some xs /\
               xs = map (fun p => dicdf d p None) ps /\
               marginal_cdf T zero one inf mul of_int nquad ds (ArrF xs) dimi = Some ps.
  Proof.
    intros H1 H2 Hinv Hps. exists (map (fun p => dicdf d p None) ps). unfold marginal_icdf, marginal_cdf.
    rewrite H1, H2. repeat split. cbn [as_vals]. f_equal. rewrite map_map.
    rewrite <- (map_id ps) at 2. apply map_ext_in. intros p Hp. apply Hinv. rewrite Forall_forall in Hps. now apply Hps.
  Qed.

  (* several points in one call: the result has one entry per point, in the order given, and entry r is the value of
     the single nquad call for point r (no dependence on the other points, on their order or on repetitions) *)
  Theorem cdf_rowwise (ds : list (dim T)) (rows : list (list T)) :
    length (cdf T zero one mul nquad ds rows) = length rows /\
    (forall r x, nth_error rows r = Some x ->
       nth_error (cdf T zero one mul nquad ds rows) r = Some (run_nq T zero one mul nquad ds (cdf_call T zero (length ds) x))) /\
    (forall a b, cdf T zero one mul nquad ds (a ++ b) = cdf T zero one mul nquad ds a ++ cdf T zero one mul nquad ds b).
  Proof.
    unfold cdf. split; [apply map_length|]. split.
    - intros r x H. now rewrite nth_error_map, H.
    - intros a b. apply map_app.
  Qed.
  Theorem cdf_input_forms (ds : list (dim T)) :
    (forall v, cdf_in T zero one mul of_int nquad ds (VecF v) = cdf_in T zero one mul of_int nquad ds (MatF [v])) /\
    (forall v, cdf_in T zero one mul of_int nquad ds (VecI v) = cdf_in T zero one mul of_int nquad ds (VecF (map of_int v))) /\
    (forall m, cdf_in T zero one mul of_int nquad ds (MatI m) = cdf_in T zero one mul of_int nquad ds (MatF (map (map of_int) m))).
  Proof. repeat split; reflexivity. Qed.
  Theorem marginal_pointwise (ds : list (dim T)) dimi (a b : list T) :
    marginal_pdf T zero one inf mul of_int nquad ds (ArrF (a ++ b)) dimi =
      match marginal_pdf T zero one inf mul of_int nquad ds (ArrF a) dimi, marginal_pdf T zero one inf mul of_int nquad ds (ArrF b) dimi with
      | Some ya, Some yb => Some (ya ++ yb) | _, _ => None end /\
    marginal_cdf T zero one inf mul of_int nquad ds (ArrF (a ++ b)) dimi =
      match marginal_cdf T zero one inf mul of_int nquad ds (ArrF a) dimi, marginal_cdf T zero one inf mul of_int nquad ds (ArrF b) dimi with
      | Some ya, Some yb => Some (ya ++ yb) | _, _ => None end.
  Proof.
    unfold marginal_pdf, marginal_cdf. destruct (nth_error ds dimi) as [d|]; [|split; reflexivity].
    destruct (cond d); cbn [as_vals]; rewrite !map_app; split; reflexivity.
  Qed.

  (* conditional variable: the quantile of column dim of ONE Monte-Carlo sample of the whole model, drawn with the
     caller's random_state -- hence reproducible by seed and independent of the global state for an int seed *)
  Theorem marginal_icdf_conditional (ds : list (dim T)) (sds : list (sdim T G P)) dimi d j ps mc g rs :
    nth_error ds dimi = Some d -> cond d = Some j ->
    marginal_icdf T zero G P seed_state quantile ds sds ps dimi mc g rs =
    Some (quantile (map (fun row => nth dimi row zero) (draw_sample T zero G P seed_state sds mc g rs)) ps).
  Proof. intros H1 H2. unfold marginal_icdf. now rewrite H1, H2. Qed.

  Theorem marginal_icdf_reproducible (ds : list (dim T)) (sds : list (sdim T G P)) dimi ps mc g g' rs rs' :
    initial_state G seed_state g rs = initial_state G seed_state g' rs' ->
    marginal_icdf T zero G P seed_state quantile ds sds ps dimi mc g rs =
    marginal_icdf T zero G P seed_state quantile ds sds ps dimi mc g' rs'.
  Proof.
    intros H. unfold marginal_icdf, draw_sample.
    now rewrite (draw_function_of_state_early sds mc g g' rs rs' H).
  Qed.
End MarginalRoundTrip.

Lemma fmc_size_at_least ps pf n : fmc_size ps pf = Some n -> (100000 <= n)%Z.
Proof. unfold fmc_size. destruct (truncZ _); intros H; inversion H. apply Z.le_max_r. Qed.

(* the unrepaired container (np.empty_like of an integer array) loses the product: a witness *)
Local Open Scope float_scope.
Definition trunc_store (x : float) : float := match truncZ x with Some z => FloatBits.of_Z z | None => x end.
Example int_container_loses_product :
  let d := mkdim None (fun _ _ => 0.5) (fun _ _ => 0) (fun _ _ => 0) in
  pdf_stored float 0 1 PrimFloat.mul trunc_store [d; d] [[3; 7]] = [0] /\
  pdf float 0 1 PrimFloat.mul [d; d] [[3; 7]] = [0.25].
Proof. vm_compute. split; reflexivity. Qed.
Local Close Scope float_scope.

(* ------------------------------------------------------------------ draw_sample: data flow *)
Section Draw.
  Variable T : Type.
  Variable zero : T.
  Variables G P : Type.
  Variable seed_state : Z -> G.
  Notation sdim := (sdim T G P).
  Notation call := (call G P).
  Notation draw_cols := (draw_cols T zero G P).
  Notation call_of := (call_of T zero G P).
  Notation run_call := (run_call T G P).
  Notation rows_of_cols := (rows_of_cols T zero).
  Notation column := (column T zero).

  (* new columns / calls are appended, one per dimension *)
  Lemma draw_cols_prefix : forall (ds : list sdim) n g cols tr cols' tr' g',
    draw_cols ds n g cols tr = (cols', tr', g') ->
    exists nc nt, cols' = cols ++ nc /\ tr' = tr ++ nt /\ length nc = length ds /\ length nt = length ds.
  Proof.
    induction ds as [|d ds IH]; intros n g cols tr cols' tr' g' H; cbn [Joint.draw_cols] in H.
    - inversion H; subst. exists [], []. now rewrite !app_nil_r.
    - destruct (run_call d (call_of d n g cols)) as [col g1] eqn:E.
      destruct (IH _ _ _ _ _ _ _ H) as [nc [nt [A [B [C D]]]]].
      exists (col :: nc), (call_of d n g cols :: nt). rewrite <- !app_assoc in *. cbn in *. repeat split; auto.
  Qed.

  (* the loop composes: the state (and columns) after the first dimensions is what the next one starts from *)
  Theorem draw_cols_app : forall (ds1 ds2 : list sdim) n g cols tr,
    draw_cols (ds1 ++ ds2) n g cols tr =
    let '(c1, t1, g1) := draw_cols ds1 n g cols tr in draw_cols ds2 n g1 c1 t1.
  Proof.
    induction ds1 as [|d ds1 IH]; intros ds2 n g cols tr; [reflexivity|].
    cbn [app Joint.draw_cols]. destruct (run_call d (call_of d n g cols)) as [col g1]. apply IH.
  Qed.

  (* column i: one rvs call, with the state left by column i-1, on the columns written so far *)
  Theorem draw_column_spec (ds1 : list sdim) d ds2 n g cols' tr' g' :
    draw_cols (ds1 ++ d :: ds2) n g [] [] = (cols', tr', g') ->
    exists c1 t1 g1,
      draw_cols ds1 n g [] [] = (c1, t1, g1) /\
      c1 = firstn (length ds1) cols' /\ t1 = firstn (length ds1) tr' /\
      let c := call_of d n g1 c1 in
      nth_error tr' (length ds1) = Some c /\
      nth_error cols' (length ds1) = Some (fst (run_call d c)) /\
      draw_cols ds2 n (snd (run_call d c)) (c1 ++ [fst (run_call d c)]) (t1 ++ [c]) = (cols', tr', g').
  Proof.
    intros H. rewrite draw_cols_app in H. destruct (draw_cols ds1 n g [] []) as [[c1 t1] g1] eqn:E1.
    destruct (draw_cols_prefix _ _ _ _ _ _ _ _ E1) as [nc1 [nt1 [A1 [B1 [C1 D1]]]]]. cbn [app] in A1, B1. subst nc1 nt1.
    cbn [Joint.draw_cols] in H. destruct (run_call d (call_of d n g1 c1)) as [col g2] eqn:E2.
    destruct (draw_cols_prefix _ _ _ _ _ _ _ _ H) as [nc [nt [A [B [C D]]]]].
    exists c1, t1, g1. split; [reflexivity|]. subst cols' tr'. rewrite <- !app_assoc. cbn [app].
    split; [now rewrite <- C1, firstn_app, firstn_all, Nat.sub_diag, app_nil_r|].
    split; [now rewrite <- D1, firstn_app, firstn_all, Nat.sub_diag, app_nil_r|].
    cbn zeta. rewrite E2. cbn [fst snd].
    split; [rewrite nth_error_app2 by lia; now rewrite D1, Nat.sub_diag|].
    split; [rewrite nth_error_app2 by lia; now rewrite C1, Nat.sub_diag|].
    rewrite <- !app_assoc in H. exact H.
  Qed.

  (* the first k columns (and calls) of a sample are exactly what the first k dimensions alone produce from the same
     initial state: later dimensions neither change them nor influence them *)
  Theorem draw_prefix_independent (ds1 ds2 : list sdim) n g cols' tr' g' :
    draw_cols (ds1 ++ ds2) n g [] [] = (cols', tr', g') ->
    exists g1, draw_cols ds1 n g [] [] = (firstn (length ds1) cols', firstn (length ds1) tr', g1) /\
               draw_cols ds2 n g1 (firstn (length ds1) cols') (firstn (length ds1) tr') = (cols', tr', g').
  Proof.
    intros H. rewrite draw_cols_app in H. destruct (draw_cols ds1 n g [] []) as [[c1 t1] g1] eqn:E1.
    destruct (draw_cols_prefix _ _ _ _ _ _ _ _ E1) as [nc1 [nt1 [A1 [B1 [C1 D1]]]]]. cbn [app] in A1, B1. subst nc1 nt1.
    destruct (draw_cols_prefix _ _ _ _ _ _ _ _ H) as [nc [nt [A [B _]]]].
    exists g1. subst cols' tr'.
    assert (Ec : firstn (length ds1) (c1 ++ nc) = c1).
    { rewrite <- C1, firstn_app, firstn_all, Nat.sub_diag. cbn [firstn]. apply app_nil_r. }
    assert (Et : firstn (length ds1) (t1 ++ nt) = t1).
    { rewrite <- D1, firstn_app, firstn_all, Nat.sub_diag. cbn [firstn]. apply app_nil_r. }
    rewrite Ec, Et. split; [reflexivity|exact H].
  Qed.

  (* oracle contract: rvs honours the requested size *)
  Definition rvs_len (d : sdim) : Prop :=
    (forall p n g, length (fst (rvs_n d p n g)) = n) /\ (forall ps g, length (fst (rvs_par d ps g)) = length ps).

  Lemma column_length j n cols : (forall c, In c cols -> length c = n) -> length (column j n cols) = n.
  Proof.
    intros H. unfold Joint.column. destruct (Nat.lt_ge_cases j (length cols)) as [Hj|Hj].
    - apply H, nth_In, Hj.
    - rewrite nth_overflow by exact Hj. apply repeat_length.
  Qed.

  Lemma draw_cols_lengths : forall (ds : list sdim) n g cols tr cols' tr' g',
    (forall d, In d ds -> rvs_len d) -> (forall c, In c cols -> length c = n) ->
    draw_cols ds n g cols tr = (cols', tr', g') -> forall c, In c cols' -> length c = n.
  Proof.
    induction ds as [|d ds IH]; intros n g cols tr cols' tr' g' Hc Hl H; cbn [Joint.draw_cols] in H.
    - inversion H; subst. exact Hl.
    - destruct (run_call d (call_of d n g cols)) as [col g1] eqn:E.
      intros c0 Hc0. refine (IH _ _ _ _ _ _ _ (fun d' Hd => Hc d' (or_intror Hd)) _ H c0 Hc0).
      intros c Hin. apply in_app_or in Hin. destruct Hin as [Hin|[<-|[]]]; [now apply Hl|].
      destruct (Hc d (or_introl eq_refl)) as [Hn Hp]. unfold Joint.call_of in E.
      destruct (scond d) as [j|]; cbn [Joint.run_call] in E.
      + pose proof (Hp (map (theta d) (column j n cols)) g) as L. rewrite E in L. cbn in L.
        now rewrite L, map_length, column_length.
      + pose proof (Hn (own d) n g) as L. now rewrite E in L.
  Qed.

  (* reading column j of the returned (n, n_dim) array gives back the j-th column drawn *)
  Lemma rows_column n cols j : (forall c, In c cols -> length c = n) -> j < length cols ->
    map (fun row => nth j row zero) (rows_of_cols n cols) = nth j cols (repeat zero n).
  Proof.
    intros Hl Hj. unfold Joint.rows_of_cols. rewrite map_map.
    rewrite (map_ext _ (fun r => nth r (nth j cols (repeat zero n)) zero)).
    - rewrite <- (Hl (nth j cols (repeat zero n))) at 1 by (now apply nth_In). apply map_nth_seq.
    - intros r. now rewrite (nth_map_in _ _ _ (repeat zero n)).
  Qed.

  Theorem sample_shape n cols :
    length (rows_of_cols n cols) = n /\ forall row, In row (rows_of_cols n cols) -> length row = length cols.
  Proof.
    unfold Joint.rows_of_cols. split; [now rewrite map_length, seq_length|].
    intros row H. apply in_map_iff in H. destruct H as [r [<- _]]. apply map_length.
  Qed.

  Lemma sample_entry n cols r i : r < n ->
    nth i (nth r (rows_of_cols n cols) []) zero = nth r (nth i cols []) zero.
  Proof.
    intros Hr. unfold Joint.rows_of_cols.
    rewrite (nth_map_in _ _ _ 0) by (now rewrite seq_length). rewrite seq_nth by exact Hr. cbn [Nat.add].
    destruct (Nat.lt_ge_cases i (length cols)) as [Hi|Hi].
    - now rewrite (nth_map_in _ _ _ []).
    - rewrite (nth_overflow (map _ cols)) by (now rewrite map_length).
      rewrite (nth_overflow cols) by exact Hi. destruct r; reflexivity.
  Qed.

  (* ROW PAIRING: the parameter vector handed to the engine for a conditional column i has, at
     position r, the parameter tuple computed from row r of column conditional_on[i] of the sample *)
  Theorem draw_row_pairing (ds1 : list sdim) d ds2 n g cols' tr' g' j :
    (forall d', In d' (ds1 ++ d :: ds2) -> rvs_len d') ->
    draw_cols (ds1 ++ d :: ds2) n g [] [] = (cols', tr', g') ->
    scond d = Some j -> j < length ds1 ->
    let rows := rows_of_cols n cols' in
    exists gi,
      nth_error tr' (length ds1) = Some (CallPar (map (fun row => theta d (nth j row zero)) rows) gi) /\
      map (fun row => nth (length ds1) row zero) rows =
        fst (rvs_par d (map (fun row => theta d (nth j row zero)) rows) gi) /\
      length (map (fun row => theta d (nth j row zero)) rows) = n.
  Proof.
    intros Hc H Hs Hj rows.
    pose proof (draw_cols_lengths _ _ _ _ _ _ _ _ Hc (fun c (F : In c []) => match F with end) H) as Hlen.
    destruct (draw_cols_prefix _ _ _ _ _ _ _ _ H) as [nc [nt [A [B [C D]]]]]. cbn [app] in A, B. subst nc nt.
    rewrite app_length in C. cbn [length] in C.
    destruct (draw_column_spec _ _ _ _ _ _ _ _ H) as [c1 [t1 [g1 [E1 [Ec [Et [Hcall [Hcol _]]]]]]]].
    exists g1.
    assert (Hcolj : column j n c1 = map (fun row => nth j row zero) rows).
    { unfold rows. rewrite rows_column by (auto; lia). unfold Joint.column. subst c1.
      rewrite <- (firstn_skipn (length ds1) cols') at 2.
      assert (length (firstn (length ds1) cols') = length ds1) by (rewrite firstn_length; lia).
      now rewrite app_nth1 by lia. }
    unfold Joint.call_of in Hcall, Hcol. rewrite Hs in Hcall, Hcol. rewrite Hcolj, map_map in Hcall, Hcol.
    split; [exact Hcall|]. split.
    - unfold rows at 1. rewrite rows_column by (auto; lia).
      apply nth_error_nth with (d := repeat zero n) in Hcol. rewrite Hcol. reflexivity.
    - rewrite map_length. apply sample_shape.
  Qed.

  (* consequence for ANY elementwise relation between a parameter tuple and a drawn value (e.g. "lies in
     the support of", "is the quantile at the r-th uniform of"): if the engine draws element r with the
     r-th parameter tuple, every row's entry in column i is related to the parameters computed from THE
     SAME ROW's entry in column conditional_on[i] *)
  Theorem draw_elementwise (Drawn : P -> T -> Prop) (ds1 : list sdim) d ds2 n g cols' tr' g' j :
    (forall d', In d' (ds1 ++ d :: ds2) -> rvs_len d') ->
    (forall ps gi r dP dT, r < length ps -> Drawn (nth r ps dP) (nth r (fst (rvs_par d ps gi)) dT)) ->
    draw_cols (ds1 ++ d :: ds2) n g [] [] = (cols', tr', g') ->
    scond d = Some j -> j < length ds1 ->
    forall r row, nth_error (rows_of_cols n cols') r = Some row ->
      Drawn (theta d (nth j row zero)) (nth (length ds1) row zero).
  Proof.
    intros Hc Hel H Hs Hj r row Hrow.
    destruct (draw_row_pairing ds1 d ds2 n g cols' tr' g' j Hc H Hs Hj) as [gi [_ [Hcol Hlen]]].
    set (rows := rows_of_cols n cols') in *.
    assert (Hr : r < length rows) by (apply nth_error_Some; congruence).
    assert (Hn : nth r rows [] = row) by (now apply nth_error_nth).
    set (ps := map (fun row0 => theta d (nth j row0 zero)) rows) in *.
    assert (Hrp : r < length ps) by (unfold ps; now rewrite map_length).
    pose proof (Hel ps gi r (theta d zero) zero Hrp) as HD.
    rewrite <- Hcol in HD.
    unfold ps in HD at 1. rewrite (nth_map_in _ _ _ []) in HD by exact Hr.
    rewrite (nth_map_in _ _ _ []) in HD by exact Hr. now rewrite Hn in HD.
  Qed.

  (* an unconditional column: one call with the distribution's own parameters and size n *)
  Theorem draw_unconditional (ds1 : list sdim) d ds2 n g cols' tr' g' :
    draw_cols (ds1 ++ d :: ds2) n g [] [] = (cols', tr', g') -> scond d = None ->
    exists gi, nth_error tr' (length ds1) = Some (CallN (own d) n gi) /\
               nth_error cols' (length ds1) = Some (fst (rvs_n d (own d) n gi)).
  Proof.
    intros H Hs. destruct (draw_column_spec _ _ _ _ _ _ _ _ H) as [c1 [t1 [g1 [_ [_ [_ [Hcall [Hcol _]]]]]]]].
    exists g1. unfold Joint.call_of in Hcall, Hcol. rewrite Hs in Hcall, Hcol. split; assumption.
  Qed.

  (* GENERATOR THREADING: the first call uses the initial state; every later call uses the state the
     previous call left; the final state is the one the last call left *)
  Theorem draw_threading : forall (ds : list sdim) n g cols tr cols' tr' g',
    draw_cols ds n g cols tr = (cols', tr', g') ->
    exists nt, tr' = tr ++ nt /\ length nt = length ds /\
      (forall c0, nth_error nt 0 = Some c0 -> call_state G P c0 = g) /\
      (forall i d c c', nth_error ds i = Some d -> nth_error nt i = Some c -> nth_error nt (S i) = Some c' ->
                        call_state G P c' = snd (run_call d c)) /\
      (match ds with [] => g' = g | _ => forall d c, nth_error ds (length ds - 1) = Some d ->
                                         nth_error nt (length ds - 1) = Some c -> g' = snd (run_call d c) end).
  Proof.
    induction ds as [|d ds IH]; intros n g cols tr cols' tr' g' H; cbn [Joint.draw_cols] in H.
    - inversion H; subst. exists []. rewrite app_nil_r. split; [reflexivity|]. split; [reflexivity|]. split; [|split].
      + intros c0 Hc0. discriminate.
      + intros i d c c' Hd. destruct i; discriminate.
      + reflexivity.
    - destruct (run_call d (call_of d n g cols)) as [col g1] eqn:E.
      destruct (IH _ _ _ _ _ _ _ H) as [nt [A [B [C0 [C1 C2]]]]].
      exists (call_of d n g cols :: nt). rewrite <- app_assoc in A. cbn [app] in A.
      split; [exact A|]. split; [cbn; now rewrite B|]. split; [|split].
      + intros c0 Hc0. cbn in Hc0. inversion Hc0; subst. unfold Joint.call_of. destruct (scond d); reflexivity.
      + intros i d0 c c' Hd Hc Hc'. destruct i as [|i]; cbn in Hd, Hc, Hc'.
        * inversion Hd; subst. inversion Hc; subst. rewrite E. cbn [snd]. now apply C0.
        * now apply (C1 i d0 c c').
      + intros d0 c Hd Hc. replace (length (d :: ds) - 1) with (length ds) in Hd, Hc by (cbn [length]; lia).
        destruct ds as [|d1 ds].
        * rewrite C2. cbn in Hd, Hc. injection Hd as <-. injection Hc as <-. now rewrite E.
        * cbn [length nth_error] in Hd, Hc.
          apply (C2 d0 c); replace (length (d1 :: ds) - 1) with (length ds) by (cbn [length]; lia); assumption.
  Qed.

  (* DETERMINISM: the sample is a function of (model, n, initial generator state); an int seed and a
     Generator in the state default_rng(seed) produces give the same sample, calls and final state,
     whatever the global state is; random_state=None is the same function of the global state *)
  Theorem draw_seed_reproducible (ds : list sdim) n glob glob' s :
    draw_full T zero G P seed_state ds n glob (RSInt s) = draw_full T zero G P seed_state ds n glob' (RSGen (seed_state s)) /\
    draw_full T zero G P seed_state ds n glob (RSInt s) = draw_full T zero G P seed_state ds n glob' (RSInt s).
  Proof. split; reflexivity. Qed.
  Theorem draw_function_of_state (ds : list sdim) n glob glob' rs rs' :
    initial_state G seed_state glob rs = initial_state G seed_state glob' rs' ->
    draw_full T zero G P seed_state ds n glob rs = draw_full T zero G P seed_state ds n glob' rs'.
  Proof. intros H. unfold draw_full. now rewrite H. Qed.

  Theorem draw_sample_shape (ds : list sdim) n glob rs :
    let s := draw_sample T zero G P seed_state ds n glob rs in
    length s = n /\ forall row, In row s -> length row = length ds.
  Proof.
    unfold draw_sample, draw_full. destruct (draw_cols ds n (initial_state G seed_state glob rs) [] []) as [[cols tr] g'] eqn:E.
    cbn [fst]. destruct (draw_cols_prefix _ _ _ _ _ _ _ _ E) as [nc [nt [A [_ [C _]]]]]. cbn [app] in A. subst nc.
    rewrite <- C. apply sample_shape.
  Qed.
End Draw.

(* ------------------------------------------------------------------ _get_rvs_size *)
Section RvsSizeProofs.
  Variable T : Type.
  Definition is_vec (p : par T) : bool := match p with PVec _ => true | PScal _ => false end.

  Lemma get_rvs_size_aux n L : forall (pars : list (par T)) acc,
    (forall v, In (PVec v) pars -> length v = L) ->
    fold_left (fun acc p => match p with PScal _ => acc | PVec v => SizeNL n (length v) end) pars acc =
    if existsb is_vec pars then SizeNL n L else acc.
  Proof.
    induction pars as [|p pars IH]; intros acc H; [reflexivity|]. cbn [fold_left existsb].
    destruct p as [x|v]; cbn [is_vec orb].
    - apply IH. intros v Hv. apply H. now right.
    - rewrite IH by (intros v' Hv; apply H; now right). rewrite (H v) by (now left). now destruct (existsb is_vec pars).
  Qed.

  (* scalar parameters: size n; vector parameters of one common length L: size (n, L) *)
  Theorem get_rvs_size_spec n L (pars : list (par T)) :
    (forall v, In (PVec v) pars -> length v = L) ->
    get_rvs_size n pars = if existsb is_vec pars then SizeNL n L else SizeN n.
  Proof. apply get_rvs_size_aux. Qed.
End RvsSizeProofs.
