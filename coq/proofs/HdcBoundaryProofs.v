(* C15: the cells of HDC = HDR - binary_erosion(HDR, ones(3,..,3)) are exactly the region cells with a neighbour (one
   of the 3^n - 1) outside the region or outside the grid, for any number of dimensions; the per-label index sets
   list every boundary cell exactly once (label array = oracle with its contract as hypothesis). *)
From Coq Require Import List Bool Arith Lia Permutation Sorted.
From V.model Require Import Hdc.
From V.proofs Require Import HdcArrayProofs.
Import ListNotations.

(* ------------------------------------------------------------------ the structuring element *)
Lemma prod_repeat3 n : prod (repeat 3 n) = 3 ^ n.
Proof. induction n as [|n IH]; [reflexivity|]. change (prod (repeat 3 (S n))) with (3 * prod (repeat 3 n)). rewrite IH. simpl. lia. Qed.

Lemma offsets_length n : length (offsets n) = 3 ^ n.
Proof. unfold offsets. rewrite all_idx_length. apply prod_repeat3. Qed.
Lemma offsets_nodup n : NoDup (offsets n).
Proof. apply all_idx_nodup. Qed.
Lemma offsets_in n off : In off (offsets n) <-> length off = n /\ Forall (fun o => o < 3) off.
Proof.
  unfold offsets. rewrite all_idx_in. unfold in_shape. revert off. induction n as [|n IH]; intros off; simpl.
  - split; [intros H; inversion H; auto|intros [H _]; destruct off; [constructor|discriminate]].
  - split.
    + intros H. inversion H; subst. apply IH in H4. destruct H4. split; [simpl; lia|constructor; auto].
    + intros [Hl Hf]. destruct off as [|o off]; [discriminate|]. inversion Hf; subst. constructor; auto. apply IH. split; auto.
Qed.
Lemma centre_in n : In (centre n) (offsets n).
Proof. apply offsets_in. unfold centre. split; [apply repeat_length|]. induction n; simpl; constructor; auto. Qed.

(* ------------------------------------------------------------------ neighbours *)
Lemma neighbour_centre : forall sh idx, length idx = length sh -> neighbour sh idx (centre (length sh)) = Some idx.
Proof.
  induction sh as [|n sh IH]; intros idx H; destruct idx as [|i idx]; simpl in *; try lia; auto.
  rewrite IH by lia. reflexivity.
Qed.

Lemma shift1_some n i o i' : i < n -> o < 3 -> shift1 n i o = Some i' -> i' < n /\ i' + 1 = i + o.
Proof.
  intros Hi Ho H. unfold shift1 in H. destruct o as [|[|[|o]]]; try lia.
  - destruct i; [discriminate|]. inversion H; subst. lia.
  - inversion H; subst. lia.
  - destruct (S i <? n) eqn:El; [|discriminate]. inversion H; subst. apply Nat.ltb_lt in El. lia.
Qed.
Lemma shift1_none n i o : i < n -> o < 3 -> shift1 n i o = None -> i + o = 0 \/ i + o = n + 1.
Proof.
  intros Hi Ho H. unfold shift1 in H. destruct o as [|[|[|o]]]; try lia.
  - destruct i; [lia|discriminate].
  - discriminate.
  - destruct (S i <? n) eqn:El; [discriminate|]. apply Nat.ltb_ge in El. lia.
Qed.

(* Some j: j = idx + off - 1 on every axis, and j is a cell of the grid *)
Lemma neighbour_some : forall sh idx off j, in_shape sh idx -> Forall (fun o => o < 3) off ->
  neighbour sh idx off = Some j ->
  in_shape sh j /\ forall a, a < length sh -> nth a j 0 + 1 = nth a idx 0 + nth a off 0.
Proof.
  unfold in_shape. induction sh as [|n sh IH]; intros idx off j Hin Ho H; destruct idx as [|i idx]; destruct off as [|o off];
    simpl in H; try discriminate.
  - inversion H; subst. split; [constructor|]. intros a Ha. simpl in Ha. lia.
  - inversion Hin as [|? ? ? ? Hi Hrest]; subst. inversion Ho as [|? ? Ho1 Ho2]; subst.
    destruct (shift1 n i o) as [i'|] eqn:Es; [|discriminate].
    destruct (neighbour sh idx off) as [r|] eqn:En; [|discriminate]. inversion H; subst.
    destruct (IH _ _ _ Hrest Ho2 En) as [Hl Hr].
    destruct (shift1_some _ _ _ _ Hi Ho1 Es) as [A B].
    split; [constructor; assumption|]. intros a Ha. destruct a as [|a]; simpl; [exact B|]. apply Hr. simpl in Ha. lia.
Qed.

(* None: on some axis idx + off - 1 is -1 or the axis length: the neighbour lies outside the grid *)
Lemma neighbour_none : forall sh idx off, in_shape sh idx -> length off = length sh -> Forall (fun o => o < 3) off ->
  neighbour sh idx off = None ->
  exists a, a < length sh /\ (nth a idx 0 + nth a off 0 = 0 \/ nth a idx 0 + nth a off 0 = nth a sh 0 + 1).
Proof.
  unfold in_shape. induction sh as [|n sh IH]; intros idx off Hin Hl Ho H; destruct idx as [|i idx]; destruct off as [|o off];
    simpl in *; try discriminate; try (inversion Hin; fail).
  inversion Hin as [|? ? ? ? Hi Hrest]; subst. inversion Ho as [|? ? Ho1 Ho2]; subst.
  destruct (shift1 n i o) as [i'|] eqn:Es.
  - destruct (neighbour sh idx off) as [r|] eqn:En; [discriminate|].
    destruct (IH idx off Hrest) as [a [Ha Hor]]; auto. exists (S a). split; [lia|exact Hor].
  - exists 0. split; [lia|]. simpl. apply shift1_none; assumption.
Qed.

(* ------------------------------------------------------------------ boundary cells *)
(* (a) a cell is in HDC iff it is in the region and one of its 3^n - 1 neighbours (an offset other than the centre)
   is outside the grid or outside the region *)
Theorem boundary_characterisation sh m idx : in_shape sh idx ->
  (boundary_at sh m idx = true <->
   mget sh m idx = true /\
   exists off, In off (offsets (length sh)) /\ off <> centre (length sh) /\
     (neighbour sh idx off = None \/ exists j, neighbour sh idx off = Some j /\ mget sh m j = false)).
Proof.
  intros Hin. unfold boundary_at, erode_at. rewrite andb_true_iff, negb_true_iff. split.
  - intros [Hm He]. split; [exact Hm|].
    assert (Hex : exists off, In off (offsets (length sh)) /\
               match neighbour sh idx off with None => false | Some j => mget sh m j end = false).
    { clear -He. induction (offsets (length sh)) as [|o l IH]; simpl in He; [discriminate|].
      apply andb_false_iff in He. destruct He as [He|He].
      - exists o. split; [left; reflexivity|exact He].
      - destruct (IH He) as [off [A B]]. exists off. split; [right; exact A|exact B]. }
    destruct Hex as [off [Ho Hf]]. exists off. split; [exact Ho|]. split.
    + intros ->. rewrite neighbour_centre in Hf by (apply in_shape_length; exact Hin). congruence.
    + destruct (neighbour sh idx off) as [j|]; [right; exists j; auto|left; reflexivity].
  - intros [Hm [off [Ho [_ Hor]]]]. split; [exact Hm|].
    apply not_true_is_false. intros Hall. rewrite forallb_forall in Hall. specialize (Hall off Ho).
    destruct Hor as [Hn|[j [Hj Hf]]]; [rewrite Hn in Hall; discriminate|rewrite Hj in Hall; congruence].
Qed.

(* the flat HDC array: position k holds the boundary test of the cell unravel k *)
Lemma boundary_flat sh m k : k < prod sh ->
  length (boundary sh m) = prod sh /\ nth k (boundary sh m) false = boundary_at sh m (unravel sh k).
Proof.
  intros Hk. unfold boundary. split; [rewrite map_length; apply all_idx_length|].
  rewrite (nth_map_lt _ _ k false []) by (rewrite all_idx_length; exact Hk).
  rewrite all_idx_unravel by exact Hk. reflexivity.
Qed.
Lemma erode_flat sh m k : k < prod sh ->
  length (erode sh m) = prod sh /\ nth k (erode sh m) false = erode_at sh m (unravel sh k).
Proof.
  intros Hk. unfold erode. split; [rewrite map_length; apply all_idx_length|].
  rewrite (nth_map_lt _ _ k false []) by (rewrite all_idx_length; exact Hk).
  rewrite all_idx_unravel by exact Hk. reflexivity.
Qed.

(* ------------------------------------------------------------------ per-label index sets *)
Lemma filter_disjoint_app {A} (p q : A -> bool) : forall l, (forall x, In x l -> p x = true -> q x = false) ->
  Permutation (filter p l ++ filter q l) (filter (fun x => p x || q x) l).
Proof.
  induction l as [|x l IH]; intros H; simpl; auto.
  assert (IH' := IH (fun y Hy => H y (or_intror Hy))).
  destruct (p x) eqn:Ep; simpl.
  - rewrite (H x (or_introl eq_refl) Ep). apply perm_skip. exact IH'.
  - destruct (q x); simpl; auto. eapply perm_trans; [apply Permutation_sym, Permutation_middle|]. apply perm_skip. exact IH'.
Qed.

Lemma regions_concat labels : forall m,
  Permutation (concat (regions labels m))
              (filter (fun k => (1 <=? nth k labels 0) && (nth k labels 0 <=? m)) (seq 0 (length labels))).
Proof.
  unfold regions. induction m as [|m IH].
  - cbn [seq map concat]. assert (E : filter (fun k => (1 <=? nth k labels 0) && (nth k labels 0 <=? 0)) (seq 0 (length labels)) = []).
    { induction (seq 0 (length labels)) as [|k l IHl]; simpl; auto.
      destruct (nth k labels 0); simpl; auto. }
    rewrite E. constructor.
  - rewrite seq_S, map_app, concat_app. simpl. rewrite app_nil_r.
    eapply perm_trans; [apply Permutation_app_tail; exact IH|].
    unfold region_cells.
    eapply perm_trans; [apply filter_disjoint_app|].
    + intros k _ Hk. apply andb_true_iff in Hk. destruct Hk as [_ Hk]. apply Nat.leb_le in Hk.
      apply Nat.eqb_neq. lia.
    + erewrite filter_ext; [apply Permutation_refl|]. intros k. simpl.
      destruct (nth k labels 0 =? S m) eqn:E.
      * apply Nat.eqb_eq in E. rewrite E. rewrite Nat.leb_refl. simpl. rewrite orb_true_r. reflexivity.
      * apply Nat.eqb_neq in E. rewrite orb_false_r. f_equal.
        destruct (nth k labels 0 <=? m) eqn:E1; destruct (nth k labels 0 <=? S m) eqn:E2; auto;
          [apply Nat.leb_le in E1; apply Nat.leb_gt in E2; lia|apply Nat.leb_gt in E1; apply Nat.leb_le in E2; lia].
Qed.

(* (b) with the contract of scipy.ndimage.label -- label 0 exactly off the boundary, labels at most n_modes -- the
   concatenated per-label index sets are a permutation of the boundary cells: every boundary cell exactly once *)
Theorem regions_partition_boundary (bnd : list bool) labels m :
  length labels = length bnd ->
  (forall k, k < length bnd -> (nth k labels 0 <> 0 <-> nth k bnd false = true) /\ nth k labels 0 <= m) ->
  Permutation (concat (regions labels m)) (filter (fun k => nth k bnd false) (seq 0 (length bnd))).
Proof.
  intros Hl Hc. eapply perm_trans; [apply regions_concat|]. rewrite Hl.
  erewrite filter_ext_in; [apply Permutation_refl|]. intros k Hk. apply in_seq in Hk.
  destruct (Hc k) as [A B]; [lia|]. cbv beta.
  destruct (nth k bnd false) eqn:Eb.
  - assert (nth k labels 0 <> 0) by (apply A; reflexivity).
    rewrite (proj2 (Nat.leb_le _ _)) by lia. rewrite (proj2 (Nat.leb_le _ _)) by lia. reflexivity.
  - assert (E : nth k labels 0 = 0).
    { destruct (nth k labels 0) eqn:E; auto. exfalso. assert (S n <> 0) by lia. apply A in H. discriminate. }
    rewrite E. reflexivity.
Qed.

(* each index set is in C order without repetition and holds exactly the cells with that label *)
Lemma region_cells_spec labels i k : In k (region_cells labels i) <-> k < length labels /\ nth k labels 0 = i.
Proof. unfold region_cells. rewrite filter_In, in_seq, Nat.eqb_eq. lia. Qed.
Lemma region_cells_sorted labels i : NoDup (region_cells labels i) /\ Sorted.StronglySorted lt (region_cells labels i).
Proof.
  unfold region_cells. split; [apply NoDup_filter, seq_NoDup|].
  assert (G : forall s n, Sorted.StronglySorted lt (seq s n)).
  { intros s n. revert s. induction n as [|n IH]; intros s; simpl; constructor; auto.
    rewrite Forall_forall. intros x Hx. apply in_seq in Hx. lia. }
  generalize (G 0 (length labels)). generalize (seq 0 (length labels)) as l.
  induction l as [|x l IH]; intros S; simpl; [constructor|]. inversion S; subst.
  destruct (nth x labels 0 =? i); auto. constructor; auto.
  rewrite Forall_forall in *. intros y Hy. apply filter_In in Hy. apply H2. tauto.
Qed.

(* the coordinate sets: centres of the boundary cells, each cell exactly once *)
Theorem coordinates_are_boundary_cells {T} (d0 : T) sh coords (bnd : list bool) labels m :
  length labels = length bnd ->
  (forall k, k < length bnd -> (nth k labels 0 <> 0 <-> nth k bnd false = true) /\ nth k labels 0 <= m) ->
  Permutation (concat (map (region_coords d0 sh coords) (regions labels m)))
              (map (fun k => centre_of d0 coords (unravel sh k)) (filter (fun k => nth k bnd false) (seq 0 (length bnd)))).
Proof.
  intros Hl Hc. unfold region_coords. rewrite <- concat_map.
  apply Permutation_map. apply regions_partition_boundary; assumption.
Qed.

(* (d) what _compute stores: one (N, n) array for one region (sorted line in 2-D), else one coordinate set per region *)
Lemma dispatch_spec {T} n_dim (sets : list (list (list T))) :
  (forall pts, sets = [pts] -> dispatch n_dim sets = if n_dim =? 2 then SortedLine pts else OneRegion pts) /\
  (length sets <> 1 -> dispatch n_dim sets = ManyRegions sets).
Proof.
  split.
  - intros pts ->. reflexivity.
  - intros H. destruct sets as [|a [|b l]]; simpl in *; try reflexivity. lia.
Qed.
