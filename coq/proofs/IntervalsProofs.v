(* Lemmas for C10: partition of the covered range by the intervals of ONE edge vector, for an
   abstract boolean order (only transitivity / totality are assumed, as stated per lemma). *)
From Coq Require Import List Bool Arith Lia Permutation PrimFloat.
From V.model Require Import Intervals.
Import ListNotations.

Section Cut.
  Variable T : Type.
  Variable c : T -> bool.   (* "edge e is at or below the datum" *)
  Definition cutin (iv : T * T) : bool := c (fst iv) && negb (c (snd iv)).
  Definition cnt (e : list T) : nat := length (filter cutin (intervals T e)).

  Lemma last_default : forall (l : list T) x y, l <> [] -> last l x = last l y.
  Proof. induction l as [|a l IH]; intros x y H; [congruence|]. destruct l; simpl; auto. apply IH. congruence. Qed.

  Lemma intervals_cons a b e : intervals T (a :: b :: e) = (a, b) :: intervals T (b :: e).
  Proof. reflexivity. Qed.

  (* discrete intermediate value: no hypothesis on the order of the edges *)
  Lemma cut_ge1 : forall e a, c a = true -> c (last (a :: e) a) = false -> 1 <= cnt (a :: e).
  Proof.
    induction e as [|b e IH]; intros a Ha Hl.
    - simpl in Hl. congruence.
    - unfold cnt. rewrite intervals_cons. cbn [filter]. unfold cutin at 1. cbn [fst snd]. rewrite Ha. cbn [andb].
      destruct (c b) eqn:Hb; cbn [negb].
      + assert (E : last (a :: b :: e) a = last (b :: e) b).
        { change (last (a :: b :: e) a) with (last (b :: e) a). apply last_default. congruence. }
        rewrite E in Hl. apply (IH b Hb Hl).
      + cbn [length]. lia.
  Qed.

  Fixpoint anti (e : list T) : Prop :=
    match e with a :: ((b :: _) as tl) => (c b = true -> c a = true) /\ anti tl | _ => True end.

  Lemma cut_zero_below : forall e a, anti (a :: e) -> c a = false -> cnt (a :: e) = 0.
  Proof.
    induction e as [|b e IH]; intros a Hs Ha; [reflexivity|].
    unfold cnt. rewrite intervals_cons. cbn [filter]. unfold cutin at 1. cbn [fst snd]. rewrite Ha. cbn [andb].
    destruct Hs as [Hab Hs]. apply IH; auto. destruct (c b); auto. rewrite Hab in Ha; auto.
  Qed.

  Lemma cut_le1 : forall e, anti e -> cnt e <= 1.
  Proof.
    induction e as [|a e IH]; intros Hs; [unfold cnt; simpl; lia|].
    destruct e as [|b e]; [unfold cnt; simpl; lia|].
    unfold cnt. rewrite intervals_cons. cbn [filter]. destruct Hs as [Hab Hs].
    destruct (cutin (a, b)) eqn:E.
    - unfold cutin in E. cbn [fst snd] in E. apply andb_true_iff in E. destruct E as [_ E].
      apply negb_true_iff in E. pose proof (cut_zero_below e b Hs E) as H0. unfold cnt in H0.
      cbn [length]. rewrite H0. lia.
    - apply IH. exact Hs.
  Qed.

  Lemma cut_exactly1 : forall e a, anti (a :: e) -> c a = true -> c (last (a :: e) a) = false -> cnt (a :: e) = 1.
  Proof. intros e a Hs Ha Hl. pose proof (cut_ge1 e a Ha Hl). pose proof (cut_le1 (a :: e) Hs). lia. Qed.

  (* all edges at or below the datum: no interval contains it *)
  Lemma cut_zero_above : forall e, anti e -> (forall x, In x e -> c x = true) -> cnt e = 0.
  Proof.
    induction e as [|a e IH]; intros Hs Hall; [reflexivity|]. destruct e as [|b e]; [reflexivity|].
    unfold cnt. rewrite intervals_cons. cbn [filter]. unfold cutin at 1. cbn [fst snd].
    rewrite (Hall b) by (right; left; reflexivity). rewrite andb_false_r.
    destruct Hs as [_ Hs]. apply IH; auto. intros x Hx. apply Hall. right. exact Hx.
  Qed.
End Cut.

Section Order.
  Variable T : Type.
  Variable leb : T -> T -> bool.
  Hypothesis leb_trans : forall a b c, leb a b = true -> leb b c = true -> leb a c = true.
  Notation ltb := (ltb T leb).
  Notation inb := (inb T leb).

  Fixpoint sorted (e : list T) : Prop :=
    match e with a :: ((b :: _) as tl) => leb a b = true /\ sorted tl | _ => True end.

  (* number of intervals of kind k (last one closed iff cl) that contain d *)
  Definition memberships (k : kind) (cl : bool) (e : list T) (d : T) : nat :=
    length (filter (fun p => inb (fst p) (snd p) d)
                   (combine (kinds k cl (length (intervals T e))) (intervals T e))).

  Lemma kinds_false_all k n : kinds k false n = repeat k n.
  Proof. induction n as [|n IH]; [reflexivity|]. destruct n; [reflexivity|]. change (kinds k false (S (S n))) with (k :: kinds k false (S n)). rewrite IH. reflexivity. Qed.

  Lemma filter_combine_repeat (k : kind) (f : kind -> T * T -> bool) (l : list (T * T)) :
    length (filter (fun p => f (fst p) (snd p)) (combine (repeat k (length l)) l)) = length (filter (f k) l).
  Proof. induction l as [|x l IH]; [reflexivity|]. cbn [length repeat combine filter fst snd].
    destruct (f k x); cbn [length]; rewrite IH; reflexivity. Qed.

  Lemma memberships_open k e d :
    memberships k false e d = length (filter (fun iv => inb k iv d) (intervals T e)).
  Proof. unfold memberships. rewrite kinds_false_all.
    apply (filter_combine_repeat k (fun k iv => inb k iv d)). Qed.

  Definition cutR (d : T) : T -> bool := fun e => leb e d.
  Definition cutL (d : T) : T -> bool := fun e => ltb e d.

  Lemma inb_right_cut d iv : inb RightOpen iv d = cutin T (cutR d) iv.
  Proof. reflexivity. Qed.
  Lemma inb_left_cut d iv : inb LeftOpen iv d = cutin T (cutL d) iv.
  Proof. unfold Intervals.inb, cutin, cutL, Intervals.ltb. rewrite negb_involutive. reflexivity. Qed.

  Lemma sorted_antiR d e : sorted e -> anti T (cutR d) e.
  Proof. induction e as [|a e IH]; [simpl; auto|]. destruct e as [|b e]; [simpl; auto|].
    intros [Hab Hs]. split; [|apply IH; exact Hs]. unfold cutR. intros Hb. exact (leb_trans _ _ _ Hab Hb). Qed.
  Lemma sorted_antiL d e : sorted e -> anti T (cutL d) e.
  Proof. induction e as [|a e IH]; [simpl; auto|]. destruct e as [|b e]; [simpl; auto|].
    intros [Hab Hs]. split; [|apply IH; exact Hs]. unfold cutL, Intervals.ltb. intros Hb.
    apply negb_true_iff in Hb. apply negb_true_iff. destruct (leb d a) eqn:E; auto.
    rewrite (leb_trans _ _ _ E Hab) in Hb. discriminate. Qed.

  (* (a) at least one interval, ANY edge vector *)
  Theorem right_open_at_least_one e a d :
    leb a d = true -> ltb d (last (a :: e) a) = true -> 1 <= memberships RightOpen false (a :: e) d.
  Proof. intros H1 H2. rewrite memberships_open.
    rewrite (filter_ext _ (cutin T (cutR d))) by (intros; apply inb_right_cut).
    apply cut_ge1; unfold cutR; auto. unfold Intervals.ltb in H2. now apply negb_true_iff in H2. Qed.

  (* (b) at most one when the edge vector is non-decreasing *)
  Theorem right_open_at_most_one e d : sorted e -> memberships RightOpen false e d <= 1.
  Proof. intros Hs. rewrite memberships_open.
    rewrite (filter_ext _ (cutin T (cutR d))) by (intros; apply inb_right_cut).
    apply cut_le1. apply sorted_antiR. exact Hs. Qed.

  (* (c) exactly one: right-open [a,b) intervals *)
  Theorem right_open_exactly_one e a d : sorted (a :: e) ->
    leb a d = true -> ltb d (last (a :: e) a) = true -> memberships RightOpen false (a :: e) d = 1.
  Proof. intros Hs H1 H2. pose proof (right_open_at_least_one e a d H1 H2). pose proof (right_open_at_most_one (a :: e) d Hs). lia. Qed.

  (* exactly one: left-open (a,b] intervals *)
  Theorem left_open_exactly_one e a d : sorted (a :: e) ->
    ltb a d = true -> leb d (last (a :: e) a) = true -> memberships LeftOpen false (a :: e) d = 1.
  Proof. intros Hs H1 H2. rewrite memberships_open.
    rewrite (filter_ext _ (cutin T (cutL d))) by (intros; apply inb_left_cut).
    apply cut_exactly1; [apply sorted_antiL; exact Hs|exact H1|].
    unfold cutL, Intervals.ltb. rewrite H2. reflexivity. Qed.

  (* ---- last interval closed (include_max) *)
  Lemma intervals_length e : length (intervals T e) = length e - 1.
  Proof. induction e as [|a e IH]; [reflexivity|]. destruct e as [|b e]; [reflexivity|].
    rewrite intervals_cons. cbn [length] in *. rewrite IH. lia. Qed.

  Lemma memberships_closed_cons a b c0 e d :
    memberships RightOpen true (a :: b :: c0 :: e) d =
    (if inb RightOpen (a, b) d then 1 else 0) + memberships RightOpen true (b :: c0 :: e) d.
  Proof. unfold memberships. rewrite !intervals_cons. cbn [length].
    change (kinds RightOpen true (S (S (length (intervals T (c0 :: e))))))
      with (RightOpen :: kinds RightOpen true (S (length (intervals T (c0 :: e))))).
    cbn [combine filter fst snd]. destruct (inb RightOpen (a, b) d); cbn [length]; lia. Qed.

  Lemma memberships_closed_single a b d :
    memberships RightOpen true [a; b] d = if inb Closed (a, b) d then 1 else 0.
  Proof. unfold memberships. cbn. destruct (leb a d && leb d b); reflexivity. Qed.

  (* (c') exactly one with the last interval closed: every d with e_0 <= d <= e_n *)
  Theorem closed_last_exactly_one : forall e a b d, sorted (a :: b :: e) ->
    leb a d = true -> leb d (last (b :: e) b) = true ->
    memberships RightOpen true (a :: b :: e) d = 1.
  Proof.
    induction e as [|c0 e IH]; intros a b d Hs H1 H2.
    - rewrite memberships_closed_single. unfold Intervals.inb. cbn [fst snd]. cbn in H2. rewrite H1, H2. reflexivity.
    - rewrite memberships_closed_cons. destruct Hs as [Hab Hs].
      unfold Intervals.inb at 1. cbn [fst snd]. rewrite H1. cbn [andb]. unfold Intervals.ltb.
      destruct (leb b d) eqn:Hbd; cbn [negb].
      + rewrite IH; auto.
        change (last (b :: c0 :: e) b) with (last (c0 :: e) b) in H2.
        rewrite (last_default T (c0 :: e) b c0) in H2 by congruence. exact H2.
      + (* d < b: no later interval contains it *)
        assert (Z : memberships RightOpen true (b :: c0 :: e) d = 0).
        { clear IH H2 H1 Hab a. revert b c0 Hs Hbd. induction e as [|c1 e IHe]; intros b c0 Hs Hbd.
          - rewrite memberships_closed_single. unfold Intervals.inb. cbn [fst snd]. rewrite Hbd. reflexivity.
          - rewrite memberships_closed_cons. unfold Intervals.inb at 1. cbn [fst snd]. rewrite Hbd. cbn [andb].
            destruct Hs as [Hbc Hs]. apply IHe; auto. destruct (leb c0 d) eqn:E; auto.
            rewrite (leb_trans _ _ _ Hbc E) in Hbd. discriminate. }
        rewrite Z. reflexivity.
  Qed.

  (* members lie inside the reported boundaries (weakly); needs totality for the open side *)
  Hypothesis leb_total : forall a b, leb a b = false -> leb b a = true.
  Lemma member_in_bounds k iv d : inb k iv d = true -> leb (fst iv) d = true /\ leb d (snd iv) = true.
  Proof. destruct k; unfold Intervals.inb, Intervals.ltb; intros H; apply andb_true_iff in H; destruct H as [A B].
    - split; auto. apply negb_true_iff in B. apply leb_total. exact B.
    - split; auto. apply negb_true_iff in A. apply leb_total. exact A.
    - split; auto. Qed.

  (* neighbouring reported boundaries share their edge: upper_i is (the value) lower_{i+1} *)
  Lemma boundaries_abut : forall e i lo hi lo' hi' dflt,
    nth_error (intervals T e) i = Some (lo, hi) -> nth_error (intervals T e) (S i) = Some (lo', hi') ->
    hi = lo' /\ nth (S i) e dflt = hi.
  Proof.
    induction e as [|a e IH]; intros i lo hi lo' hi' dflt H1 H2; [destruct i; discriminate|].
    destruct e as [|b e]; [destruct i; discriminate|]. rewrite intervals_cons in *.
    destruct i as [|i].
    - cbn in H1. inversion H1; subst. destruct e as [|c0 e]; [discriminate|]. rewrite intervals_cons in H2. cbn in H2. inversion H2; subst. auto.
    - cbn [nth_error] in H1, H2. destruct (IH i lo hi lo' hi' dflt H1 H2) as [A B]. split; auto.
  Qed.
End Order.

(* (d) alignment of masks with input positions *)
Section Align.
  Variable T : Type.
  Variable leb : T -> T -> bool.
  Lemma mask_length k iv data : length (mask T leb k iv data) = length data.
  Proof. apply map_length. Qed.
  Lemma mask_aligned k iv data j d0 : j < length data ->
    nth j (mask T leb k iv data) false = inb T leb k iv (nth j data d0).
  Proof. intros H. unfold mask. rewrite (nth_indep _ false (inb T leb k iv d0)) by (rewrite map_length; exact H).
    apply map_nth. Qed.
  (* a mask entry depends on the datum at that position only *)
  Lemma mask_pointwise k iv d1 d2 j x : j < length d1 -> j < length d2 -> nth j d1 x = nth j d2 x ->
    nth j (mask T leb k iv d1) false = nth j (mask T leb k iv d2) false.
  Proof. intros H1 H2 E. rewrite (mask_aligned k iv d1 j x H1), (mask_aligned k iv d2 j x H2), E. reflexivity. Qed.

  (* (f) dropping keeps exactly the rows with enough members, in order *)
  Lemma drop_spec {R} m (rs : list (row T R)) r :
    In r (drop T m rs) <-> In r rs /\ m <= count_true (r_mask r).
  Proof. unfold drop. rewrite filter_In. rewrite Nat.leb_le. tauto. Qed.
  Lemma drop_app {R} m (a b : list (row T R)) : drop T m (a ++ b) = drop T m a ++ drop T m b.
  Proof. apply filter_app. Qed.
  Lemma drop_zero {R} (rs : list (row T R)) : drop T 0 rs = rs.
  Proof. unfold drop. induction rs as [|r rs IH]; [reflexivity|]. cbn [filter]. change (0 <=? count_true (r_mask r)) with true. cbv iota. f_equal. exact IH. Qed.
  (* (g) RuntimeError iff too few intervals remain *)
  Lemma finish_error {R} m (rs : list (row T R)) : finish T m rs = None <-> length rs < m.
  Proof. unfold finish. destruct (Nat.ltb_spec (length rs) m); split; intros; try discriminate; try lia; auto. Qed.
  Lemma finish_ok {R} m (rs : list (row T R)) : m <= length rs -> finish T m rs = Some rs.
  Proof. unfold finish. intros H. destruct (Nat.ltb_spec (length rs) m); [lia|reflexivity]. Qed.
End Align.

(* PointsPerIntervalSlicer: the chunk masks partition the positions, for any sorting permutation *)
Section PPI.
  Lemma nth_map_seq {A} (f : nat -> A) len j d : j < len -> nth j (map f (seq 0 len)) d = f j.
  Proof. intros H. rewrite (nth_indep _ d (f 0)) by (rewrite map_length, seq_length; exact H).
    rewrite (map_nth f (seq 0 len) 0 j). rewrite seq_nth by exact H. reflexivity. Qed.
  Lemma chunks_concat n : 0 < n -> forall fuel l, length l <= fuel -> concat (chunks n fuel l) = l.
  Proof.
    intros Hn. induction fuel as [|f IH]; intros l Hl.
    - destruct l; [reflexivity|simpl in Hl; lia].
    - destruct l as [|x l]; [reflexivity|]. cbn [chunks concat].
      rewrite IH.
      + apply firstn_skipn.
      + rewrite skipn_length. cbn [length] in *. lia.
  Qed.

  Lemma ppi_chunks_concat n lf perm : 0 < n -> concat (ppi_chunks n lf perm) = perm.
  Proof.
    intros Hn. unfold ppi_chunks. destruct (length perm mod n =? 0).
    - apply chunks_concat; auto.
    - destruct lf.
      + cbn [concat]. rewrite chunks_concat; auto. { apply firstn_skipn. } rewrite skipn_length. lia.
      + rewrite concat_app. cbn [concat]. rewrite app_nil_r. rewrite chunks_concat; auto.
        { apply firstn_skipn. } rewrite firstn_length. lia.
  Qed.

  Lemma mem_spec j l : mem j l = true <-> In j l.
  Proof. unfold mem. rewrite existsb_exists. split.
    - intros [x [H E]]. apply Nat.eqb_eq in E. now subst.
    - intros H. exists j. split; auto. apply Nat.eqb_refl. Qed.

  Lemma NoDup_app_r {A} (a b : list A) : NoDup (a ++ b) -> NoDup b.
  Proof. induction a as [|x a IH]; [auto|]. cbn. intros H. inversion H; auto. Qed.

  Lemma one_chunk : forall (cs : list (list nat)) j, NoDup (concat cs) -> In j (concat cs) ->
    length (filter (mem j) cs) = 1.
  Proof.
    induction cs as [|c0 cs IH]; intros j ND Hin; [contradiction|].
    cbn [concat] in *. cbn [filter]. pose proof (NoDup_app_r _ _ ND) as ND2.
    destruct (mem j c0) eqn:E.
    - apply mem_spec in E. cbn [length]. f_equal.
      assert (Hn : ~ In j (concat cs)).
      { intro Hc. clear IH ND2 Hin. induction c0 as [|x c0 IHc]; [contradiction|].
        cbn in ND. inversion ND as [|? ? Hx Hnd]; subst. destruct E as [->|E].
        - apply Hx. apply in_or_app. right. exact Hc.
        - apply IHc; auto. }
      clear -Hn. induction cs as [|c1 cs IH]; [reflexivity|]. cbn [filter].
      destruct (mem j c1) eqn:E1.
      + exfalso. apply Hn. cbn [concat]. apply in_or_app. left. apply mem_spec. exact E1.
      + apply IH. intro Hc. apply Hn. cbn [concat]. apply in_or_app. right. exact Hc.
    - apply IH; auto. apply in_app_or in Hin. destruct Hin as [H|H]; auto.
      apply mem_spec in H. congruence.
  Qed.

  (* every position 0..len-1 is in exactly one interval mask *)
  Theorem ppi_partition n lf perm j : 0 < n -> Permutation perm (seq 0 (length perm)) -> j < length perm ->
    length (filter (fun m => nth j m false) (ppi_masks n lf perm)) = 1.
  Proof.
    intros Hn HP Hj. unfold ppi_masks.
    assert (E : forall cs, length (filter (fun m => nth j m false) (map (mask_of_idc (length perm)) cs))
                           = length (filter (mem j) cs)).
    { induction cs as [|c0 cs IH]; [reflexivity|]. cbn [map filter].
      assert (N : nth j (mask_of_idc (length perm) c0) false = mem j c0).
      { unfold mask_of_idc. exact (nth_map_seq (fun j0 => mem j0 c0) _ _ _ Hj). }
      rewrite N. destruct (mem j c0); cbn [length]; rewrite IH; reflexivity. }
    rewrite E. apply one_chunk; rewrite ppi_chunks_concat by exact Hn.
    - apply (Permutation_NoDup (Permutation_sym HP)). apply seq_NoDup.
    - apply (Permutation_in _ (Permutation_sym HP)). apply in_seq. lia.
  Qed.

  (* ... and the masks are aligned: interval i's mask is true exactly at the positions its chunk names *)
  Lemma ppi_mask_positions len idc j : j < len -> nth j (mask_of_idc len idc) false = true <-> In j idc.
  Proof. intros Hj. unfold mask_of_idc. rewrite (nth_map_seq (fun j0 => mem j0 idc) _ _ _ Hj). apply mem_spec. Qed.
End PPI.

(* link to the model's output: the number of returned rows whose mask is set at position j is the
   number of intervals (of the edge vector) that contain the j-th datum *)
Section Rows.
  Variable T : Type.
  Variable leb : T -> T -> bool.
  Definition rows_true_at {R} (j : nat) (rs : list (row T R)) : nat :=
    length (filter (fun r => nth j (r_mask r) false) rs).

  Lemma kinds_length k cl n : length (kinds k cl n) = n.
  Proof. induction n as [|n IH]; [reflexivity|]. destruct n; [reflexivity|].
    change (kinds k cl (S (S n))) with (k :: kinds k cl (S n)). cbn [length]. rewrite IH. reflexivity. Qed.

  Lemma filter_map_length {A B} (p : B -> bool) (f : A -> B) l :
    length (filter p (map f l)) = length (filter (fun x => p (f x)) l).
  Proof. induction l as [|x l IH]; [reflexivity|]. cbn [map filter]. destruct (p (f x)); cbn [length]; rewrite IH; reflexivity. Qed.

  Lemma filter_combine_fst {A B} (g : A -> bool) : forall (l : list A) (r : list B), length l = length r ->
    length (filter (fun x => g (fst x)) (combine l r)) = length (filter g l).
  Proof. induction l as [|x l IH]; intros r H; [reflexivity|]. destruct r as [|y r]; [discriminate|].
    cbn [combine filter fst]. destruct (g x); cbn [length]; rewrite IH; auto. Qed.

  Theorem rows_memberships {R} k cl e (refs : list R) data j d0 :
    length refs = length (intervals T e) -> j < length data ->
    rows_true_at j (rows_of T leb k cl e refs data) = memberships T leb k cl e (nth j data d0).
  Proof.
    intros Hl Hj. unfold rows_true_at, rows_of, memberships. rewrite filter_map_length. cbn [r_mask].
    rewrite (filter_ext _ (fun x => (fun p => inb T leb (fst p) (snd p) (nth j data d0)) (fst x))).
    - apply (filter_combine_fst (fun p => inb T leb (fst p) (snd p) (nth j data d0))). rewrite combine_length, kinds_length, Nat.min_id. auto.
    - intros [[k0 iv] rf]. cbn [fst snd]. apply mask_aligned. exact Hj.
  Qed.

  Lemma rows_of_length {R} k cl e (refs : list R) data :
    length refs = length (intervals T e) -> length (rows_of T leb k cl e refs data) = length (intervals T e).
  Proof. intros H. unfold rows_of. rewrite map_length, !combine_length, kinds_length, Nat.min_id, H, Nat.min_id. reflexivity. Qed.
End Rows.

Section Combined.
  Variable T : Type.
  Variable leb : T -> T -> bool.
  Hypothesis leb_trans : forall a b c, leb a b = true -> leb b c = true -> leb a c = true.

  Lemma partition_right_open {R} e a (refs : list R) data j d0 :
    sorted T leb (a :: e) -> length refs = length (intervals T (a :: e)) -> j < length data ->
    leb a (nth j data d0) = true -> ltb T leb (nth j data d0) (last (a :: e) a) = true ->
    rows_true_at T j (rows_of T leb RightOpen false (a :: e) refs data) = 1.
  Proof. intros Hs Hl Hj H1 H2. rewrite (rows_memberships T leb RightOpen false (a :: e) refs data j d0 Hl Hj).
    apply right_open_exactly_one; auto. Qed.

  Lemma partition_left_open {R} e a (refs : list R) data j d0 :
    sorted T leb (a :: e) -> length refs = length (intervals T (a :: e)) -> j < length data ->
    ltb T leb a (nth j data d0) = true -> leb (nth j data d0) (last (a :: e) a) = true ->
    rows_true_at T j (rows_of T leb LeftOpen false (a :: e) refs data) = 1.
  Proof. intros Hs Hl Hj H1 H2. rewrite (rows_memberships T leb LeftOpen false (a :: e) refs data j d0 Hl Hj).
    apply left_open_exactly_one; auto. Qed.

  Lemma partition_include_max {R} e a b (refs : list R) data j d0 :
    sorted T leb (a :: b :: e) -> length refs = length (intervals T (a :: b :: e)) -> j < length data ->
    leb a (nth j data d0) = true -> leb (nth j data d0) (last (b :: e) b) = true ->
    rows_true_at T j (rows_of T leb RightOpen true (a :: b :: e) refs data) = 1.
  Proof. intros Hs Hl Hj H1 H2. rewrite (rows_memberships T leb RightOpen true (a :: b :: e) refs data j d0 Hl Hj).
    apply closed_last_exactly_one; auto. Qed.

  Lemma at_least_one_any_edges {R} e a (refs : list R) data j d0 :
    length refs = length (intervals T (a :: e)) -> j < length data ->
    leb a (nth j data d0) = true -> ltb T leb (nth j data d0) (last (a :: e) a) = true ->
    1 <= rows_true_at T j (rows_of T leb RightOpen false (a :: e) refs data).
  Proof. intros Hl Hj H1 H2. rewrite (rows_memberships T leb RightOpen false (a :: e) refs data j d0 Hl Hj).
    apply right_open_at_least_one; auto. Qed.
End Combined.

(* the Width slicer's executable binary64 entry point, with nothing dropped, is rows_of over its edge vector *)
Section WidthFloat.
  Lemma intervals_snoc_length {T} (l : list T) x : l <> [] -> length (intervals T (l ++ [x])) = length l.
  Proof. intros H. rewrite intervals_length, app_length. cbn. destruct l; [congruence|cbn; lia]. Qed.
  Lemma width_refs_length r starts w : length (width_refs r starts w) = length starts.
  Proof. destruct r; cbn; rewrite ?map_length; reflexivity. Qed.
  Lemma width_slice_nodrop width r ro vmin vmax data :
    width_slice width r ro vmin vmax 0 0 data =
    let dmin := match vmin with Some v => v | None => 0%float end in
    let dmax := match vmax with Some v => v | None => FloatBits.fmax data end in
    Some (rows_of PrimFloat.float fleb (if ro then RightOpen else LeftOpen) false (snd (width_edges dmin dmax width))
                  (width_refs r (fst (width_edges dmin dmax width)) width) data).
  Proof. unfold width_slice. cbn zeta. unfold width_edges. cbn [fst snd]. rewrite drop_zero. reflexivity. Qed.
End WidthFloat.
