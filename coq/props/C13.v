(* C13 -- exponentiated-Weibull least squares = weighted quantile regression, any weights (free delta partial) *)
From Coq Require Import Reals List Lra.
From V.base Require Import Num.
From V.model Require Import EwLsq.
From V.gen Require Import EwLsqGen.
From V.proofs Require Import EwLsqProofs EwLsqGenProofs.
Import ListNotations.
Local Open Scope R_scope.

(* hence: what the CURRENT code returns is (10^a_hat, 1/b_hat) of the weighted regression line that minimises the weighted squared error of log10 x = a + b p* over all lines, for every positive weight vector *)
Theorem C13_generated_code_optimal :
  forall (delta : R) (x p w : list R),
       length p = length x ->
       length w = length x ->
       let l := obs_list delta x p w in
       l <> [] ->
       Forall (fun o : obsR => 0 < Wr o) l ->
       0 < Dg l ->
       exists a_hat b_hat : R,
         ew_estimate_alpha_beta RN delta x p w = (Rpower 10 a_hat, 1 / b_hat) /\
         a_hat = ahat l /\ b_hat = bhat l /\ (forall a b : R, SSE a_hat b_hat l <= SSE a b l).
Proof. exact (@ew_generated_optimal). Qed.

(* the array code of _estimate_alpha_beta REGENERATED from distributions.py on every run (tools/py2v.py, numpy vector subset) computes exactly the hand model on the observations (w_i, p*_i, x*_i) of the non-zero data *)
Theorem C13_generated_code_is_model :
  forall (delta : R) (x p w : list R),
       length p = length x ->
       length w = length x -> ew_estimate_alpha_beta RN delta x p w = alpha_beta RN (obs_list delta x p w).
Proof. exact (@ew_generated_is_model). Qed.

(* what _estimate_alpha_beta computes (hand model, weights normalised where used) is the general weighted regression (ahat, bhat) of the ORIGINAL weights, and beta = 1/b_hat *)
Theorem C13_estimate_is_weighted_regression :
  forall l : list obsR,
       S1 l <> 0 ->
       Dg l <> 0 ->
       let
       '(a_hat, b_hat, dividend, divisor) := estimate RN l in
        a_hat = ahat l /\ b_hat = bhat l /\ divisor / dividend = 1 / b_hat.
Proof. exact (@estimate_is_general). Qed.

(* it minimises the weighted squared error of log10 x = a + b p* over ALL lines, for EVERY positive weight vector of every length *)
Theorem C13_estimate_optimal :
  forall (l : list obsR) (a b : R),
       l <> [] ->
       Forall (fun o : obsR => 0 < Wr o) l ->
       0 < Dg l -> let '(a_hat, b_hat, _, _) := estimate RN l in SSE a_hat b_hat l <= SSE a b l.
Proof. exact (@estimate_optimal). Qed.

(* (the underlying optimality of the normal-equation solution) *)
Theorem C13_regression_optimal :
  forall (l : list obsR) (a b : R),
       l <> [] -> Forall (fun o : obsR => 0 < Wr o) l -> 0 < Dg l -> SSE (ahat l) (bhat l) l <= SSE a b l.
Proof. exact (@regression_optimal). Qed.

(* irrespective of how the weights are normalised: rescaling all weights by c <> 0 gives the same (a_hat, b_hat) *)
Theorem C13_scale_invariant :
  forall (c : R) (l : list obsR),
       c <> 0 ->
       S1 l <> 0 ->
       Dg l <> 0 ->
       let
       '(a1, b1, _, _) := estimate RN (scale_w c l) in
        let '(a2, b2, _, _) := estimate RN l in a1 = a2 /\ b1 = b2.
Proof. exact (@estimate_scale_invariant). Qed.

(* the estimate depends on the observations (w_i, p*_i, x*_i) only as a multiset: every reordering of the triples (array weights travelling with their observation) gives the same a_hat, b_hat; that an observation's p* is its rank's plotting position is numpy.argsort's contract *)
Theorem C13_estimate_order_invariant :
  forall l l' : list obsR, Permutation.Permutation l l' -> estimate RN l = estimate RN l'.
Proof. exact (@estimate_order_invariant). Qed.

(* alpha = 10^a_hat, beta = divisor/dividend *)
Theorem C13_alpha_beta :
  forall l : list obsR,
       alpha_beta RN l =
       (let '(a_hat, _, dividend, divisor) := estimate RN l in (Rpower 10 a_hat, divisor / dividend)).
Proof. exact (@alpha_beta_spec). Qed.

(* zero observations are dropped (with their plotting position and weight) before the regression *)
Theorem C13_zero_observations_ignored :
  forall x : R, nonzero RN x = true <-> x <> 0.
Proof. exact (@nonzero_spec). Qed.

(* ... by filtering the aligned lists *)
Theorem C13_keep_nonzero :
  forall (A : Type) (xs : list R) (l : list A),
       keep_nonzero RN xs l = map snd (filter (fun p : R * A => nonzero RN (fst p)) (combine xs l)).
Proof. exact (@keep_nonzero_spec). Qed.

(* fixed-delta branch iff only delta is fixed *)
Theorem C13_dispatch_fixed_delta :
  forall fa fb fd : bool, lsq_dispatch fa fb fd = FixedDelta <-> fd = true /\ fa = false /\ fb = false.
Proof. exact (@lsq_dispatch_spec). Qed.

(* free-delta branch iff nothing is fixed.  PARTIAL: that scipy's fmin returns a local minimiser of the x-space error is an oracle, validated numerically *)
Theorem C13_dispatch_free_delta_partial :
  forall fa fb fd : bool, lsq_dispatch fa fb fd = FreeDelta <-> fa = false /\ fb = false /\ fd = false.
Proof. exact (@lsq_dispatch_free). Qed.

(* weights=None is plain least squares (equal weights) *)
Theorem C13_none_is_equal_weights :
  forall x arr : list R, kw_weights RN WNone x arr = map (fun _ : R => 1) x.
Proof. exact (@kw_none_equal). Qed.

Example C13_nonvacuous : let l := [(2, 0, 1); (2, 1, 3); (2, 2, 5)] in 0 < Dg l /\ Forall (fun o => 0 < Wr o) l /\ bhat l = 2.
Proof. cbv [Dg bhat S1 Spp Sp Spx Sx sumf fold_right W P X fst snd]. split; [lra|]. split; [repeat constructor; cbn; lra|]. field. Qed.

Print Assumptions C13_generated_code_optimal.
Print Assumptions C13_generated_code_is_model.
Print Assumptions C13_estimate_is_weighted_regression.
Print Assumptions C13_estimate_optimal.
Print Assumptions C13_regression_optimal.
Print Assumptions C13_scale_invariant.
Print Assumptions C13_estimate_order_invariant.
Print Assumptions C13_alpha_beta.
Print Assumptions C13_zero_observations_ignored.
Print Assumptions C13_keep_nonzero.
Print Assumptions C13_dispatch_fixed_delta.
Print Assumptions C13_dispatch_free_delta_partial.
Print Assumptions C13_none_is_equal_weights.
