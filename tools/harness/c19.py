"""C19 -- evaluation is pure and repeatable; predefined models share no state (DESIGN.md section 6, C19).

proof gate      props/C19.v (frame, history, template, arrays, disjoint regions, repeatability over the footprint
                semantics of model/Heap.v)
correspondence  random histories (<= 6 operations: evaluate pdf/cdf/icdf/marginals/conditionals/seeded and unseeded
                sampling, every contour class with a supplied sample, design conditions, plotting, saving to a temp
                dir, fit-this-or-another-model) on pools of 2-3 models built from FRESH calls of the predefined
                getters (2-D, transformed) and a 3-D model; before and after EVERY operation all models, all caller
                arrays / lists / dicts, numpy's global random state and matplotlib's figure registry are deep-
                snapshotted; the observed write set (changed paths mapped to cells) must lie inside the model's
                footprint `wset` evaluated by vm_compute; where `same_result_if_reseeded` says so, a repeated
                deterministic operation must return bit-identical results.
search          the same snapshots are the property oracle: a model cell changed by anything but a fit of that model,
                a caller's array changed, the template changed by fitting, different results of a repeated
                deterministic evaluation, a mutable object shared between the results of two getter calls -> shrunk
                history -> VIOLATION.
"""
import hashlib
import os
import shutil
import tempfile
import types
import warnings
from functools import partial

import numpy as np

import vlib

warnings.simplefilter("ignore")

ROLES = ["data0", "data1", "points", "probs", "sample", "limits", "deltas", "semantics", "fit_desc",
         "edge_points", "edge_probs", "edge_vec", "dc", "levels", "par_rename", "steps", "hdc_limits", "boundary"]
NROLES = len(ROLES)


def arr_no(k, role):
    """number of the caller's object `role` of model k (World lays them out in this order)"""
    return NROLES * k + ROLES.index(role)


GETTERS = ["get_DNVGL_Hs_Tz", "get_DNVGL_Hs_U", "get_OMAE2020_Hs_Tz", "get_OMAE2020_V_Hs",
           "get_Windmeier_EW_Hs_S", "get_Nonzero_EW_Hs_S"]
DATA_KIND = {"get_DNVGL_Hs_Tz": "hs_tz", "get_DNVGL_Hs_U": "hs_u", "get_OMAE2020_Hs_Tz": "hs_tz",
             "get_OMAE2020_V_Hs": "v_hs", "get_Windmeier_EW_Hs_S": "hs_tz", "get_Nonzero_EW_Hs_S": "hs_tz",
             "custom3d": "hs_tz_v", "custom3d_chain": "hs_tz_v"}
LIMITS = {"hs_tz": [(0, 12), (0, 25)], "hs_u": [(0, 12), (0, 45)], "v_hs": [(0, 40), (0, 14)], "hs_tz_v": [(0, 10), (0, 20), (0, 40)]}
DELTAS = {"hs_tz": [0.3, 0.5], "hs_u": [0.3, 1.0], "v_hs": [1.0, 0.3], "hs_tz_v": [1.0, 2.0, 4.0]}


def _v():
    import virocon
    return virocon


# ====================================================================== data
def synth(kind, n, seed):
    r = np.random.default_rng([seed, 19])
    hs = 0.3 + r.weibull(1.5, n) * 1.8
    if kind == "hs_tz":
        tz = np.exp(r.normal(np.log(4 + 1.2 * np.sqrt(hs)), 0.12 + 0.1 / (1 + hs)))
        return np.c_[hs, tz]
    if kind == "hs_u":
        return np.c_[hs, (3 + 2.5 * hs ** 0.9) * r.weibull(3.0, n)]
    if kind == "v_hs":
        v = r.weibull(2.0, n) * 9
        return np.c_[v, (0.4 + 0.03 * v ** 1.8) * r.weibull(2.0, n) + 0.05]
    tz = np.exp(r.normal(np.log(4 + 1.2 * np.sqrt(hs)), 0.12 + 0.1 / (1 + hs)))
    return np.c_[hs, tz, (3 + 2.5 * hs ** 0.9) * r.weibull(3.0, n)]


# ====================================================================== models
def custom3d_description(v, chain=False):
    def _power3(x, a, b, c):
        return a + b * x ** c

    def _exp3(x, a, b, c):
        return a + b * np.exp(c * x)
    bounds = [(0, None), (0, None), (None, None)]
    d0 = {"distribution": v.WeibullDistribution(), "intervals": v.WidthOfIntervalSlicer(width=0.5, min_n_points=30)}
    d1 = {"distribution": v.LogNormalDistribution(), "conditional_on": 0,
          "parameters": {"mu": v.DependenceFunction(_power3, bounds), "sigma": v.DependenceFunction(_exp3, bounds)}}
    d2 = {"distribution": v.WeibullDistribution(f_gamma=0), "conditional_on": 1 if chain else 0,
          "parameters": {"alpha": v.DependenceFunction(_power3, bounds), "beta": v.DependenceFunction(_power3, bounds)}}
    return [d0, d1, d2], None, None


def make_model(name):
    """a model from a FRESH description; returns a record"""
    v = _v()
    if name in ("custom3d", "custom3d_chain"):
        out = custom3d_description(v, chain=(name == "custom3d_chain"))
    else:
        out = getattr(v, name)()
    dd, fd, sem = out[0], out[1], out[2]
    m = v.GlobalHierarchicalModel(dd)
    inner = m
    if len(out) == 4:
        t = out[3]
        m = v.TransformedModel(m, t["transform"], t["inverse"], t["jacobian"], precision_factor=0.05, random_state=42)
    return {"name": name, "model": m, "inner": inner, "getter_out": out, "fit_desc": fd, "semantics": sem,
            "transformed": len(out) == 4, "kind": DATA_KIND[name], "n_dim": inner.n_dim}


def shape_of(rec):
    sh = []
    for i, d in enumerate(rec["inner"].distributions):
        sh.append(None if rec["inner"].conditional_on[i] is None else len(d.conditional_parameters))
    return sh


# ====================================================================== deep snapshot
ATOMS = (int, float, str, bool, bytes, type(None), complex)
PER_INTERVAL = {"distributions_per_interval", "parameters_per_interval", "data_intervals", "conditioning_values",
                "conditioning_interval_boundaries"}


def digest(a):
    a = np.ascontiguousarray(a)
    return ("nd", str(a.dtype), a.shape, hashlib.sha1(a.tobytes()).hexdigest())


def snap(obj, path, out, memo, depth=0):
    """flat {path: leaf}; objects are visited once (first path, or the canonical path pre-seeded in memo)"""
    if isinstance(obj, (np.floating, np.integer, np.bool_)):
        out[path] = ("np", repr(obj.item()))
        return
    if isinstance(obj, float):
        out[path] = ("f", obj.hex())
        return
    if isinstance(obj, ATOMS):
        out[path] = ("a", repr(obj))
        return
    oid = id(obj)
    if oid in memo and memo[oid] != path:
        out[path] = ("ref", memo[oid])
        return
    memo[oid] = path
    if depth > 40:
        out[path] = ("deep", type(obj).__name__)
        return
    if isinstance(obj, np.ndarray):
        if obj.dtype == object:
            out[path] = ("ndobj", obj.shape)
            for i, e in enumerate(obj.ravel()):
                snap(e, "%s<%d>" % (path, i), out, memo, depth + 1)
        else:
            out[path] = digest(obj)
        return
    if isinstance(obj, (list, tuple)):
        out[path] = (type(obj).__name__, len(obj))
        for i, e in enumerate(obj):
            snap(e, "%s[%d]" % (path, i), out, memo, depth + 1)
        return
    if isinstance(obj, dict):
        out[path] = ("dict", tuple(repr(k) for k in obj.keys()))
        for k, e in obj.items():
            snap(e, "%s[%r]" % (path, k), out, memo, depth + 1)
        return
    if isinstance(obj, (set, frozenset)):
        out[path] = ("set", tuple(sorted(memo.get(id(e), repr(type(e))) if not isinstance(e, ATOMS) else repr(e) for e in obj)))
        return
    if isinstance(obj, partial):
        out[path] = ("partial", tuple(obj.keywords.keys()))
        snap(obj.func, path + ".func", out, memo, depth + 1)
        snap(obj.args, path + ".args", out, memo, depth + 1)
        for k, e in obj.keywords.items():
            snap(e, "%s.keywords[%r]" % (path, k), out, memo, depth + 1)
        return
    if isinstance(obj, (types.FunctionType, types.LambdaType)):
        out[path] = ("fn", obj.__qualname__)
        for i, c in enumerate(obj.__closure__ or ()):
            try:
                snap(c.cell_contents, "%s.closure<%d>" % (path, i), out, memo, depth + 1)
            except ValueError:
                pass
        if obj.__defaults__:
            snap(obj.__defaults__, path + ".defaults", out, memo, depth + 1)
        if obj.__dict__:
            snap(obj.__dict__, path + ".fdict", out, memo, depth + 1)
        return
    if isinstance(obj, (type, types.ModuleType, types.BuiltinFunctionType, types.MethodType, np.ufunc)):
        out[path] = ("static", getattr(obj, "__name__", str(obj)))
        return
    if isinstance(obj, np.random.Generator):
        out[path] = ("gen", repr(obj.bit_generator.state))
        return
    if isinstance(obj, np.random.RandomState):
        st = obj.get_state()
        out[path] = ("randomstate", st[0], hashlib.sha1(np.asarray(st[1]).tobytes()).hexdigest(), st[2], st[3], repr(st[4]))
        return
    if isinstance(obj, np.random.BitGenerator):
        out[path] = ("bitgen", repr(obj.state))
        return
    mod = type(obj).__module__ or ""
    if mod.startswith("virocon") and hasattr(obj, "__dict__"):
        out[path] = ("obj", type(obj).__name__, tuple(obj.__dict__.keys()))
        for k, e in obj.__dict__.items():
            snap(e, "%s.%s" % (path, k), out, memo, depth + 1)
        return
    out[path] = ("opaque", type(obj).__module__, type(obj).__name__)


def canonical_memo(rec, root):
    """dependence functions are reachable through several paths (dependents / partial keywords): pin the path
    under conditional_parameters as the canonical one"""
    memo = {}
    inner = rec["inner"]
    pre = root + (".model" if rec["transformed"] else "")
    for i, d in enumerate(inner.distributions):
        if inner.conditional_on[i] is not None:
            for par, f in d.conditional_parameters.items():
                memo.setdefault(id(f), "%s.distributions[%d].conditional_parameters[%r]" % (pre, i, par))
    return memo


def snap_model(rec, k):
    root = "model%d" % k
    out = {}
    snap(rec["model"], root, out, canonical_memo(rec, root))
    return out


def cell_of_path(rec, k, path):
    """abstract cell (as in model/Heap.v) of a snapshot path of model k"""
    import re
    inner = rec["inner"]
    p = path[len("model%d" % k):]
    if rec["transformed"]:
        if p.startswith("._sample"):
            return ("M", k, "SampleCache")
        if not p.startswith(".model"):
            return ("M", k, "Struct")
        p = p[len(".model"):]
    m = re.match(r"^\.distributions\[(\d+)\](.*)$", p)
    if m:
        i, rest = int(m.group(1)), m.group(2)
        if inner.conditional_on[i] is None:
            return ("M", k, ("DistParams", i))
        if rest.startswith(".distribution.") or rest == ".distribution":
            return ("M", k, ("Template", i))
        m2 = re.match(r"^\.conditional_parameters\[('[^']*')\](.*)$", rest)
        if m2:
            if m2.group(2) == "":
                pass
            names = list(inner.distributions[i].conditional_parameters.keys())
            par = m2.group(1).strip("'")
            return ("M", k, ("DepFun", i, names.index(par)))
        a = rest.split(".")[1].split("[")[0] if "." in rest else ""
        if a in PER_INTERVAL:
            return ("M", k, ("PerInterval", i))
        return ("M", k, "Struct")
    m = re.match(r"^\.interval_slicers\[(\d+)\]", p)
    if m:
        return ("M", k, ("Slicer", int(m.group(1))))
    return ("M", k, "Struct")


def diff_paths(a, b):
    return sorted(p for p in set(a) | set(b) if a.get(p) != b.get(p))


# ====================================================================== id()-graph of getter results
def mutable_graph(obj, path, out, seen, depth=0):
    """{id: (type, path)} of the mutable objects reachable from obj"""
    if isinstance(obj, ATOMS) or isinstance(obj, (np.floating, np.integer, np.bool_)):
        return
    if isinstance(obj, (type, types.ModuleType, types.BuiltinFunctionType, np.ufunc)):
        return
    oid = id(obj)
    if oid in seen or depth > 40:
        return
    seen.add(oid)
    if isinstance(obj, (list, dict, set, bytearray, np.ndarray)):
        out[oid] = (type(obj).__name__, path)
    if isinstance(obj, np.ndarray):
        if obj.dtype == object:
            for i, e in enumerate(obj.ravel()):
                mutable_graph(e, "%s<%d>" % (path, i), out, seen, depth + 1)
        return
    if isinstance(obj, (list, tuple, set, frozenset)):
        for i, e in enumerate(obj):
            mutable_graph(e, "%s[%d]" % (path, i), out, seen, depth + 1)
        return
    if isinstance(obj, dict):
        for k2, e in obj.items():
            mutable_graph(e, "%s[%r]" % (path, k2), out, seen, depth + 1)
        return
    if isinstance(obj, partial):
        mutable_graph(obj.func, path + ".func", out, seen, depth + 1)
        mutable_graph(obj.args, path + ".args", out, seen, depth + 1)
        mutable_graph(obj.keywords, path + ".keywords", out, seen, depth + 1)
        return
    if isinstance(obj, (types.FunctionType, types.LambdaType)):
        if obj.__module__ and not obj.__module__.startswith("virocon.predefined") and obj.__closure__ is None:
            return      # module-level library function: code, no state
        for i, c in enumerate(obj.__closure__ or ()):
            try:
                mutable_graph(c.cell_contents, "%s.closure<%d>" % (path, i), out, seen, depth + 1)
            except ValueError:
                pass
        if obj.__defaults__:
            mutable_graph(obj.__defaults__, path + ".defaults", out, seen, depth + 1)
        if obj.__dict__:
            out[id(obj.__dict__)] = ("fdict", path)
        return
    if isinstance(obj, types.MethodType):
        mutable_graph(obj.__self__, path + ".__self__", out, seen, depth + 1)
        return
    if hasattr(obj, "__dict__"):
        out[oid] = (type(obj).__name__, path)
        for k2, e in obj.__dict__.items():
            mutable_graph(e, "%s.%s" % (path, k2), out, seen, depth + 1)


def getter_graph_check(ctx):
    v = _v()
    graphs = []
    for g in GETTERS:
        for rep in range(2):
            out = getattr(v, g)()
            gr = {}
            mutable_graph(out, "%s()#%d" % (g, rep), gr, set())
            # and the model built from it (kept alive: ids of collected objects are reused by CPython)
            rec_out = {}
            m = v.GlobalHierarchicalModel(out[0])
            graphs.append((g, rep, out, gr, m))
            mutable_graph(m, "GHM(%s()#%d)" % (g, rep), rec_out, set())
            gr.update({k: val for k, val in rec_out.items() if k not in gr})
    npairs = 0
    for i in range(len(graphs)):
        for j in range(i + 1, len(graphs)):
            npairs += 1
            common = set(graphs[i][3]) & set(graphs[j][3])
            ctx.count(("getter-graph", graphs[i][0], graphs[i][1], graphs[j][0], graphs[j][1]), graphs[i][0] == graphs[j][0])
            if common:
                oid = sorted(common)[0]
                ctx.violation({"clause": "shared-state", "site": "predefined getters", "getter": graphs[i][0]},
                              "%s and %s share the mutable %s object at %s / %s" % (
                                  graphs[i][3][oid][1].split(")")[0] + ")", graphs[j][3][oid][1].split(")")[0] + ")",
                                  graphs[i][3][oid][0], graphs[i][3][oid][1], graphs[j][3][oid][1]),
                              {"kind": "getter-graph", "a": graphs[i][0], "b": graphs[j][0]})
    ctx.notes["getter_graph"] = {"getter_calls": len(graphs), "pairs_compared": npairs,
                                 "mutable_objects_per_result": sorted(len(g[3]) for g in graphs)[::5]}


# ====================================================================== every distribution family, utility functions
def family_and_utility_sweep(ctx):
    """pdf / cdf / icdf / seeded draw_sample of EVERY distribution family (also wrapped in a ConditionalDistribution),
    DependenceFunction.__call__, sort_points_to_form_continuous_line, the variable transformations: the distribution's
    attributes and the caller's float arrays (negative, zero, positive entries; probabilities 0 and 1) are compared
    before / after, and the call is repeated and must return identical bits"""
    v = _v()
    from virocon.distributions import ConditionalDistribution
    import virocon.variable_transform as vt
    import scipy.stats as sts

    class _Gamma(v.ScipyDistribution):
        scipy_dist_name = "gamma"
    fams = [("WeibullDistribution", lambda: v.WeibullDistribution(2.0, 1.5, 0.1)), ("LogNormalDistribution", lambda: v.LogNormalDistribution(0.5, 0.3)),
            ("NormalDistribution", lambda: v.NormalDistribution(1.0, 2.0)), ("LogNormalNormFitDistribution", lambda: __import__("virocon.distributions", fromlist=["x"]).LogNormalNormFitDistribution(2.0, 0.7)),
            ("ExponentiatedWeibullDistribution", lambda: v.ExponentiatedWeibullDistribution(1.5, 1.2, 2.0)),
            ("GeneralizedGammaDistribution", lambda: v.GeneralizedGammaDistribution(2.0, 1.5, 0.8)),
            ("VonMisesDistribution", lambda: v.VonMisesDistribution(2.0, 0.5)), ("ScipyDistribution(gamma)", lambda: _Gamma(a=2.0, loc=0.0, scale=1.5))]
    ncall, bad = 0, 0

    def judge(site, call, owner, arrays):
        nonlocal ncall, bad
        ncall += 1
        b_owner, b_arr = {}, [a.copy() for a in arrays]
        snap(owner, "o", b_owner, {})
        b_int, backup = interp_state(), interp_backup()
        try:
            r1 = call()
            r2 = call()
        except Exception:  # noqa  (rejected input: nothing to compare, the writes are still judged)
            r1 = r2 = None
        a_owner = {}
        snap(owner, "o", a_owner, {})
        what = None
        if diff_paths(b_owner, a_owner):
            what = ("evaluation-mutates-model", "%s changed its object: %s" % (site, diff_paths(b_owner, a_owner)[0]))
        for i, (x0, x1) in enumerate(zip(b_arr, arrays)):
            if x0.tobytes() != x1.tobytes():
                what = ("input-array", "%s overwrote its argument %d: %r -> %r" % (site, i, x0.tolist(), x1.tolist()))
        a_int = interp_state()
        if a_int != b_int:
            k2 = [k for k in a_int if a_int[k] != b_int[k]][0]
            what = ("module-state", "%s changed interpreter-global state %s" % (site, k2))
            interp_restore(backup)
        if r1 is not None and result_value(np.asarray(r1, dtype=float)) != result_value(np.asarray(r2, dtype=float)):
            what = ("repeatability", "%s returned different results when repeated" % site)
        ctx.count(("sweep", site), True)
        if what:
            bad += 1
            ctx.violation({"clause": what[0], "site": site}, what[1], {"kind": "sweep", "site": site})
    for name, mk in fams:
        d = mk()
        xs = np.array([-0.5, 0.0, 0.3, 1.7, 4.0])
        ps = np.array([0.0, 0.2, 0.5, 0.9, 1.0])
        judge(name + ".pdf", lambda: d.pdf(xs), d, [xs])
        judge(name + ".cdf", lambda: d.cdf(xs), d, [xs])
        judge(name + ".icdf", lambda: d.icdf(ps), d, [ps])
        judge(name + ".draw_sample(seeded)", lambda: d.draw_sample(50, random_state=11), d, [])
        if name.startswith("Scipy"):
            continue
        # the same family as the template of a conditional distribution: every parameter a dependence function
        pars = list(d.parameters)
        deps = {}
        for i, pn in enumerate(pars):
            val = float(d.parameters[pn])
            deps[pn] = v.DependenceFunction(lambda x, a, b: a + b * x * 0.01, bounds=None)
            deps[pn].parameters = {"a": val, "b": 1.0}
        cd = ConditionalDistribution(mk(), deps)
        g = np.array([-0.5, 0.0, 0.5, 1.0, 2.0])
        judge("Conditional" + name + ".pdf", lambda: cd.pdf(xs, g), cd, [xs, g])
        judge("Conditional" + name + ".cdf", lambda: cd.cdf(xs, g), cd, [xs, g])
        judge("Conditional" + name + ".icdf", lambda: cd.icdf(ps, g), cd, [ps, g])
        judge("Conditional" + name + ".draw_sample(seeded)", lambda: cd.draw_sample(1, g, random_state=5), cd, [g])
        judge("DependenceFunction.__call__", lambda: deps[pars[0]](g), deps[pars[0]], [g])
    r = np.random.default_rng(3)
    px, py = np.cos(np.linspace(0, 6, 40)) + 0.01 * r.standard_normal(40), np.sin(np.linspace(0, 6, 40))
    perm = r.permutation(40)
    px, py = px[perm].copy(), py[perm].copy()
    holder = types.SimpleNamespace()
    judge("sort_points_to_form_continuous_line", lambda: np.array(v.sort_points_to_form_continuous_line(px, py, search_for_optimal_start=True)), holder, [px, py])
    hs, tz = np.array([0.0, 0.5, 2.0, 6.0]), np.array([3.0, 4.0, 6.0, 9.0])
    for fn in ("hs_tz_to_s_d", "hs_s_to_hs_tz", "hs_d_to_s_tz", "s_d_to_hs_tz", "hs_tz_to_hs_s") if False else [n for n in dir(vt) if "_to_" in n]:
        f = getattr(vt, fn)
        a1, a2 = hs.copy(), tz.copy() if "tz_to" in fn else np.array([0.0, 0.01, 0.03, 0.06])
        judge("variable_transform." + fn, lambda: np.array(f(a1, a2)), holder, [a1, a2])
    ctx.notes["family_and_utility_sweep"] = {"calls_judged": ncall, "violations": bad}


# ====================================================================== operations
# python entry -> (Coq entry class, needs)   The Coq class fixes the footprint.
ENTRY_CLASS = {
    "marginal_cdf_dep": "MarginalCdf", "dist0_pdf": "DistPdf", "dist0_cdf": "DistCdf", "dist0_icdf": "DistIcdf",
    "cdf_boundary": "Cdf", "pdf_boundary": "Pdf", "direct_sampling_mc": "AndC",
    "pdf": "Pdf", "cdf": "Cdf", "marginal_pdf": "MarginalPdf", "marginal_cdf0": "MarginalCdf", "marginal_icdf0": "MarginalPdf",
    "marginal_icdf_seeded": "MarginalIcdfSeeded", "iform_seeded": "IFORMSeeded", "conditional_cdf_mc": "ConditionalCdf",
    "conditional_icdf_mc": "ConditionalIcdf", "conditional_sample": "ConditionalSample", "dep_call": "DepCall",
    "marginal_icdf_mc": "MarginalIcdf", "conditional_cdf": "ConditionalCdf", "conditional_icdf": "ConditionalIcdf",
    "draw_sample_seeded": "DrawSampleSeeded", "draw_sample": "DrawSample", "empirical_cdf_cached": "EmpiricalCdf",
    "empirical_cdf_sample": "Cdf", "dist_pdf": "DistPdf", "dist_cdf": "DistCdf", "dist_icdf": "DistIcdf",
    "dist_sample_seeded": "DistSampleSeeded", "iform": "IFORM", "isorm": "ISORM", "hdc": "HDC", "hdc_default": "HDCDefaultGrid",
    "direct_sampling": "DirectSampling", "and": "AndC", "or": "OrC", "plot_marginal_quantiles": "PlotMarginalQuantiles",
    "plot_dependence_functions": "PlotDependenceFunctions", "plot_histograms": "PlotHistograms", "plot_isodensity": "PlotIsodensity",
}
EDGE_OK = {"dep_call", "pdf", "marginal_pdf", "marginal_cdf0", "marginal_icdf0", "conditional_cdf", "conditional_icdf", "dist_pdf", "dist_cdf",
           "dist_icdf", "dist0_pdf", "dist0_cdf", "dist0_icdf", "empirical_cdf_sample"}
GHM2 = ["direct_sampling_mc", "cdf_boundary", "pdf_boundary", "marginal_icdf_seeded", "conditional_sample", "dep_call", "dist0_pdf", "dist0_cdf", "dist0_icdf", "draw_sample_seeded", "dist_sample_seeded", "pdf", "marginal_pdf", "marginal_cdf0", "marginal_icdf0", "marginal_icdf_mc", "conditional_cdf", "conditional_icdf",
        "draw_sample_seeded", "draw_sample", "dist_pdf", "dist_cdf", "dist_icdf", "dist_sample_seeded", "iform", "isorm", "hdc",
        "hdc_default", "direct_sampling", "and", "or", "plot_marginal_quantiles", "plot_dependence_functions", "plot_histograms",
        "plot_isodensity"]
GHM3 = ["pdf_boundary", "marginal_icdf_seeded", "conditional_sample", "dep_call", "dist0_pdf", "dist0_cdf", "dist0_icdf", "draw_sample_seeded", "pdf", "marginal_cdf0", "draw_sample_seeded", "draw_sample", "dist_pdf", "dist_cdf", "dist_icdf", "dist_sample_seeded",
        "iform", "isorm", "hdc", "plot_dependence_functions"]
TRANS = ["draw_sample_seeded", "marginal_icdf_seeded", "conditional_sample", "dep_call", "pdf", "draw_sample", "empirical_cdf_sample", "direct_sampling", "and", "or"]
# operations that sample WITHOUT a seed: they must draw from numpy's global generator (so that np.random.seed makes them
# reproducible) and therefore advance it
MUST_ADVANCE = {"draw_sample", "marginal_icdf_mc", "and", "or", "hdc_default", "plot_marginal_quantiles", "direct_sampling_mc"}
CONTOURS = {"direct_sampling_mc", "iform", "iform_seeded", "isorm", "hdc", "hdc_default", "direct_sampling", "and", "or"}
SLOW = {"cdf": 3.0, "empirical_cdf_cached": 1.0, "hdc_default": 1.0}


def interp_state():
    """interpreter-global state an evaluation can leak into: the warnings filter list, numpy's error and print settings,
    matplotlib's rcParams, python's own random module"""
    import random as _random
    import matplotlib
    return {"warnings.filters": tuple((f[0], repr(f[1]), getattr(f[2], "__name__", repr(f[2])), repr(f[3]), f[4]) for f in warnings.filters),
            "warnings.defaultaction": getattr(warnings, "defaultaction", None),
            "numpy.geterr": tuple(sorted(np.geterr().items())),
            "numpy.printoptions": tuple(sorted((k, repr(v)) for k, v in np.get_printoptions().items())),
            "matplotlib.rcParams": hashlib.sha1(repr(sorted((k, repr(v)) for k, v in matplotlib.rcParams.items())).encode()).hexdigest(),
            "random.getstate": hashlib.sha1(repr(_random.getstate()).encode()).hexdigest()}


def interp_backup():
    import random as _random
    import matplotlib
    return (list(warnings.filters), dict(np.geterr()), dict(np.get_printoptions()), dict(matplotlib.rcParams), _random.getstate())


def interp_restore(b):
    """after a leak has been recorded: put the interpreter back so that the following operations are judged on their own"""
    import random as _random
    import matplotlib
    warnings.filters[:] = b[0]
    if hasattr(warnings, "_filters_mutated"):
        warnings._filters_mutated()
    np.seterr(**b[1])
    np.set_printoptions(**{k: v for k, v in b[2].items() if k != "override_repr"})
    with warnings.catch_warnings():
        warnings.simplefilter("ignore")
        matplotlib.rcParams.update(b[3])
    _random.setstate(b[4])


class World:
    """one history's universe: models, the caller's arrays, temp dir"""

    def __init__(self, names, seed):
        self.seed = seed
        self.recs = []
        self.arrays = []          # the caller's objects (arrays, lists, dicts) by number
        self.arr_role = []
        self.tmp = tempfile.mkdtemp(prefix="c19-", dir=os.path.join(vlib.BUILD, "C19"))
        self.live = {}            # position in the history -> contour object built there
        for k, nm in enumerate(names):
            # initial state: every model is fitted once to its own data before the history starts; if scipy's
            # optimiser gives up on a data set, a fresh model and another data set are taken
            for attempt in range(8):
                r = make_model(nm)
                d0 = synth(r["kind"], 3000, seed + 7 * k + 1000 * attempt)
                try:
                    r["model"].fit(d0, [dict(x) if x is not None else None for x in r["fit_desc"]] if r["fit_desc"] is not None else None)
                    break
                except RuntimeError:
                    continue
            self.recs.append(r)
            r["arr"] = {}
            d1 = synth(r["kind"], 2500, seed + 7 * k + 1)
            pts = d0[:6].copy()
            if not r["transformed"]:
                pts[5, -1] = 0.0        # a point on the edge of the support (in-place masking would show)
            for role, a in (("data0", d0), ("data1", d1), ("points", pts), ("probs", np.array([0.1, 0.35, 0.5, 0.8, 0.97, 0.6])),
                            ("sample", d1[:2000].copy()), ("limits", [tuple(t) for t in LIMITS[r["kind"]]]),
                            ("deltas", list(DELTAS[r["kind"]]) if k % 2 == 0 else np.array(DELTAS[r["kind"]], dtype=float)),
                            ("semantics", {"names": ["Var %d" % i for i in range(r["n_dim"])], "symbols": ["X_%d" % i for i in range(r["n_dim"])],
                                           "units": ["u%d" % i for i in range(r["n_dim"])]}),
                            ("fit_desc", r["fit_desc"]),
                            # float ndarrays with negative, zero and positive entries / probabilities 0 and 1: in-place
                            # "sanitising" of an argument is the typical way a caller's array gets written
                            ("edge_points", np.vstack([np.full(r["n_dim"], -0.5), np.zeros(r["n_dim"]), d0[6], d0[7]]).astype(float)),
                            ("edge_probs", np.array([0.0, 0.5, 1.0, 0.25])),
                            ("edge_vec", np.array([-0.5, 0.0, float(d0[6, -1])])),
                            # caller-owned arguments of the plotting / design-condition functions
                            ("dc", np.array(d0[10:14, :2], dtype=float)), ("levels", [1e-3, 1e-2, 1e-1]),
                            ("par_rename", {"mu": "$\\mu$", "alpha": "$\\alpha$"}),
                            ("steps", [float(np.quantile(d0[:, 0], q)) for q in (0.3, 0.5, 0.7)]),
                            # points with a coordinate exactly ON the lower boundary of the support / integration range
                            # HighestDensityContour keeps the caller's limits object: pairs as lists, an ndarray with reversed
                            # (max, min) pairs, tuples with one reversed pair -- all accepted (min/max are taken), none may be rewritten
                            ("hdc_limits", [[list(map(float, t)) for t in LIMITS[r["kind"]]],
                                            np.array([[t[1], t[0]] for t in LIMITS[r["kind"]]], dtype=float),
                                            [tuple(t) if i else (t[1], t[0]) for i, t in enumerate(LIMITS[r["kind"]])]][(seed + k) % 3]),
                            ("boundary", np.vstack([np.where(np.arange(r["n_dim"]) == i, 0.0, d0[8]) for i in range(r["n_dim"])]
                                                   + [np.zeros(r["n_dim"])]).astype(float))):
                assert ROLES[len(r["arr"])] == role
                r["arr"][role] = len(self.arrays)
                self.arrays.append(a)
                self.arr_role.append((k, role))
            r["fitted_with"] = "data0"

    def close(self):
        import matplotlib.pyplot as plt
        plt.close("all")
        shutil.rmtree(self.tmp, ignore_errors=True)

    def snapshot(self):
        import matplotlib.pyplot as plt
        s = {}
        for k, r in enumerate(self.recs):
            s.update(snap_model(r, k))
        for a, obj in enumerate(self.arrays):
            if self.arr_role[a][1] == "fit_desc":
                snap(obj, "fitdesc%d" % a, s, {})
            else:
                snap(obj, "arr%d" % a, s, {})
        memo = {}
        for k, r in enumerate(self.recs):
            memo[id(r["model"])] = "model%d" % k
            memo[id(r["inner"])] = "model%d%s" % (k, ".model" if r["transformed"] else "")
        for a, obj in enumerate(self.arrays):
            if obj is not None:
                memo[id(obj)] = "arr%d" % a
        for pos, obj in sorted(self.live.items()):
            snap(obj, "obj%d" % pos, s, memo)
        import sys
        for mn, mod in sorted(sys.modules.items()):
            if mn == "virocon" or mn.startswith("virocon."):
                for nm, val in sorted(vars(mod).items()):
                    if nm.startswith("__"):
                        continue
                    is_virocon_obj = (type(val).__module__ or "").startswith("virocon") and hasattr(val, "__dict__") \
                        and not isinstance(val, (type, types.ModuleType, types.FunctionType))
                    if isinstance(val, (list, dict, set, bytearray, np.ndarray, np.random.RandomState, np.random.Generator,
                                        np.random.BitGenerator)) or is_virocon_obj:
                        snap(val, "glob:%s.%s" % (mn, nm), s, {})
        for k2, v2 in interp_state().items():
            s["glob:interpreter." + k2] = ("interp", v2)
        st = np.random.get_state()
        s["rng"] = ("rng", hashlib.sha1(st[1].tobytes()).hexdigest(), st[2], st[3])
        s["figs"] = ("figs", tuple(plt.get_fignums()))
        return s

    def cell_of(self, path):
        if path == "rng":
            return "Rng"
        if path == "figs":
            return "Figs"
        if path.startswith("obj"):
            return ("Obj", int(path[3:].split("[")[0].split(".")[0].split("<")[0]))
        if path.startswith("glob:"):
            return ("Globals", path[5:].split("[")[0])
        if path.startswith("arr"):
            return ("Arr", int(path[3:].split("[")[0].split(".")[0].split("<")[0]))
        if path.startswith("fitdesc"):
            return ("FitDesc", int(path[7:].split("[")[0].split(".")[0]))
        k = int(path[5:].split(".")[0].split("[")[0])
        return cell_of_path(self.recs[k], k, path)


def result_value(obj):
    """canonical, comparable value of what an operation returned"""
    v = _v()
    if isinstance(obj, np.ndarray):
        if obj.dtype == object:
            return ("ndobj", obj.shape, tuple(result_value(o) for o in obj.ravel()))
        return ("nd", obj.dtype.str, obj.shape, obj.tobytes())
    if isinstance(obj, (float, int, np.floating, np.integer)):
        return ("num", repr(float(obj)))
    if isinstance(obj, tuple):
        return tuple(result_value(o) for o in obj)
    if isinstance(obj, list):
        return tuple(result_value(o) for o in obj)
    if hasattr(obj, "coordinates"):
        c = obj.coordinates
        if isinstance(c, list):
            return ("contour-list", tuple(result_value(np.asarray(x, dtype=float)) for x in c))
        return ("contour", result_value(np.asarray(c, dtype=float)))
    if hasattr(obj, "get_lines"):       # matplotlib axes
        return ("axes", tuple(result_value(np.asarray(l.get_xydata(), dtype=float)) for l in obj.get_lines()),
                tuple(result_value(np.asarray(c.get_offsets(), dtype=float)) for c in obj.collections if hasattr(c, "get_offsets")),
                tuple(result_value(np.asarray(pt.get_xy(), dtype=float)) for pt in obj.patches if hasattr(pt, "get_xy")))
    if isinstance(obj, bytes):
        return ("bytes", obj)
    return ("other", type(obj).__name__)


def scribble(tag):
    """unrelated small allocations, filled and released again: a result array that is allocated with np.empty and not
    completely written afterwards shows whatever the previous user of the block left there -- different at every step"""
    keep = []
    for n in list(range(1, 13)) * 6:
        keep.append(np.full(n, 1000.0 + 17.0 * tag + n))
    del keep


def execute(world, op, results):
    """runs one operation on the real code; returns the object it produced"""
    v = _v()
    import matplotlib.pyplot as plt
    if op["op"] == "fit":
        r = world.recs[op["k"]]
        fd = world.arrays[op["fd"]] if op.get("fd") is not None else None
        r["model"].fit(world.arrays[op["data"]], fd)
        r["fitted_with"] = world.arr_role[op["data"]][1]
        return None
    if op["op"] == "post":
        c = results.get(op["c"])
        if c is None:
            return None
        r = world.recs[op["k"]]
        if op["post"] == "DesignConditions":
            steps = world.arrays[r["arr"]["steps"]] if op.get("steps") == "list" else op.get("steps")
            return v.calculate_design_conditions(c, steps=steps, swap_axis=op.get("swap", False))
        if op["post"] == "PlotContour":
            out = v.plot_2D_contour(c, sample=world.arrays[r["arr"]["sample"]],
                                    design_conditions=world.arrays[r["arr"]["dc"]] if op.get("dc") else True,
                                    semantics=world.arrays[r["arr"]["semantics"]], swap_axis=op.get("swap", False))
            return out
        path = os.path.join(world.tmp, "contour_of_step_%d" % op["c"])      # ONE path per contour: a second save overwrites
        v.save_contour_coordinates(c, path, world.arrays[r["arr"]["semantics"]])
        return open(path + ".txt", "rb").read()
    r = world.recs[op["k"]]
    m, inner, A = r["model"], r["inner"], r["arr"]
    X, P, S = world.arrays[A["points"]], world.arrays[A["probs"]], world.arrays[A["sample"]]
    if op.get("edge"):
        X, P = world.arrays[A["edge_points"]], world.arrays[A["edge_probs"]]
    sem = world.arrays[A["semantics"]]
    e = op["entry"]
    last = r["n_dim"] - 1
    alpha = op.get("alpha", 0.05)
    if e == "pdf":
        return m.pdf(X)
    if e == "cdf":
        return m.cdf(X[:1])
    if e == "cdf_boundary":             # every integration range is empty in some dimension: cheap, and must be repeatable
        return m.cdf(world.arrays[A["boundary"]])
    if e == "pdf_boundary":
        return m.pdf(world.arrays[A["boundary"]])
    if e == "marginal_pdf":
        return m.marginal_pdf(X[:, 1] if op.get("edge") else X[:2, 1], 1)
    if e == "marginal_cdf_dep":         # dependent dimension: nquad per point, so a short vector
        return m.marginal_cdf(world.arrays[A["edge_vec"]], 1)
    if e == "dist0_pdf":
        return inner.distributions[0].pdf(X[:, 0])
    if e == "dist0_cdf":
        return inner.distributions[0].cdf(X[:, 0])
    if e == "dist0_icdf":
        return inner.distributions[0].icdf(P)
    if e == "marginal_cdf0":
        return m.marginal_cdf(X[:, 0], 0)
    if e == "marginal_icdf0":
        return m.marginal_icdf(P, 0)
    if e == "marginal_icdf_mc":
        return m.marginal_icdf(P, 1)
    if e == "conditional_cdf":
        return m.conditional_cdf(X[:, last], last, X)
    if e == "conditional_icdf":
        return m.conditional_icdf(P, last, X)
    if e == "draw_sample_seeded":
        return m.draw_sample(400, random_state=op.get("rs", 7))
    if e == "marginal_icdf_seeded":     # Monte Carlo on a dependent dimension, seeded (keyword-only random_state)
        return m.marginal_icdf(P, last, random_state=op.get("rs", 5))
    if e == "iform_seeded":             # TransformedModel built with random_state=42
        return v.IFORMContour(m, alpha, n_points=3)
    if e == "conditional_cdf_mc":
        return m.conditional_cdf(X[:1, 1], 1, X[:1, :1], random_state=3)
    if e == "conditional_icdf_mc":
        return m.conditional_icdf(P[:2], 1, X[:2, :1], random_state=3)
    if e == "conditional_sample":
        return m.conditional_sample(300, last, X[0, :last], random_state=op.get("rs", 3))
    if e == "dep_call":
        f = list(inner.distributions[last].conditional_parameters.values())[0]
        return f(X[:, inner.conditional_on[last]])
    if e == "draw_sample":
        return m.draw_sample(400)
    if e == "empirical_cdf_cached":
        return m.empirical_cdf(X)
    if e == "empirical_cdf_sample":
        return m.empirical_cdf(X, sample=S)
    d = inner.distributions[last]
    given = X[:, inner.conditional_on[last]]
    if e == "dist_pdf":
        return d.pdf(X[:, last], given=given)
    if e == "dist_cdf":
        return d.cdf(X[:, last], given=given)
    if e == "dist_icdf":
        return d.icdf(P, given=given)
    if e == "dist_sample_seeded":
        return d.draw_sample(1, given, random_state=op.get("rs", 3))
    if e == "iform":
        return v.IFORMContour(m, alpha, n_points=op.get("n_points", 24))
    if e == "isorm":
        return v.ISORMContour(m, alpha, n_points=op.get("n_points", 24))
    if e == "hdc":
        return v.HighestDensityContour(m, alpha, limits=world.arrays[A["hdc_limits"]], deltas=world.arrays[A["deltas"]])
    if e == "hdc_default":
        return v.HighestDensityContour(m, alpha)
    if e == "direct_sampling_mc":       # no sample supplied: the contour draws its own, unseeded
        return v.DirectSamplingContour(m, alpha, n=2000, deg_step=op.get("deg_step", 10))
    if e == "direct_sampling":
        return v.DirectSamplingContour(m, alpha, sample=S, deg_step=op.get("deg_step", 10))
    if e == "and":
        return v.AndContour(m, alpha, sample=S, deg_step=op.get("deg_step", 10))
    if e == "or":
        return v.OrContour(m, alpha, sample=S, deg_step=op.get("deg_step", 10))
    if e == "plot_marginal_quantiles":
        return v.plot_marginal_quantiles(m, S[:300], semantics=sem)
    if e == "plot_dependence_functions":
        return v.plot_dependence_functions(m, semantics=sem, par_rename=world.arrays[A["par_rename"]])
    if e == "plot_histograms":
        return v.plot_histograms_of_interval_distributions(m, world.arrays[A[r["fitted_with"]]], semantics=sem)[1]
    if e == "plot_isodensity":
        return v.plot_2D_isodensity(m, S[:300], semantics=sem, n_grid_steps=40, limits=world.arrays[A["limits"]],
                                    levels=world.arrays[A["levels"]])
    raise KeyError(e)


# ====================================================================== history generation
def gen_history(rng, names, quick, maxlen=6):
    recs_kind = ["T" if n in ("get_Windmeier_EW_Hs_S", "get_Nonzero_EW_Hs_S") else ("3" if n.startswith("custom3d") else "2") for n in names]
    ops = []
    L = rng.randrange(3, maxlen + 1)
    nid = 0

    def arr(k, role):
        return arr_no(k, role)
    while len(ops) < L:
        u = rng.random()
        dets = [o for o in ops if o["op"] in ("eval", "post") and (o["det"] or o.get("entry") in MUST_ADVANCE)]
        if len(ops) == L - 1 and dets and rng.random() < 0.7:
            u = 0.0                                 # close the history with a repetition
        conts = [o for o in ops if o["op"] == "eval" and o["entry"] in CONTOURS and o["dim2"]]
        if u < 0.25 and dets:                       # repeat an earlier deterministic evaluation
            o = dict(rng.choice(dets))
            o["repeat_of"] = o.get("repeat_of", o["id"])
        elif u < 0.45:                              # fit this or another model (fresh or same data, with/without descriptions)
            k = rng.randrange(len(names))
            o = {"op": "fit", "k": k, "data": arr(k, rng.choice(["data0", "data1", "data1"])),
                 "fd": arr(k, "fit_desc") if names[k] not in ("get_DNVGL_Hs_Tz", "get_DNVGL_Hs_U", "custom3d", "custom3d_chain") and rng.random() < 0.8 else None}
        elif u < 0.6 and conts:                     # design conditions / plot / save of an earlier contour
            c = rng.choice(conts)
            o = {"op": "post", "k": c["k"], "c": c["id"], "post": rng.choice(["DesignConditions", "PlotContour", "SaveContour"]),
                 "swap": rng.random() < 0.3, "det": True}
            if o["post"] == "DesignConditions" and rng.random() < 0.6:
                o["steps"] = rng.choice([4, 7, "list"])
            if o["post"] == "PlotContour" and rng.random() < 0.5:
                o["dc"] = True
        else:
            k = rng.randrange(len(names))
            pool = {"2": GHM2, "3": GHM3, "T": TRANS}[recs_kind[k]]
            e = rng.choice(pool)
            if not quick and rng.random() < 0.04:
                e = {"2": "cdf", "3": "pdf", "T": "empirical_cdf_cached"}[recs_kind[k]]
            o = {"op": "eval", "k": k, "entry": e, "dim2": recs_kind[k] != "3",
                 "alpha": rng.choice([0.1, 0.05, 0.02])}
            if e in EDGE_OK and rng.random() < 0.4:
                o["edge"] = True                   # arguments with negative / zero / boundary entries
            o["det"] = ENTRY_CLASS[e] not in ("MarginalIcdf", "DrawSample", "EmpiricalCdf", "HDCDefaultGrid", "AndC", "OrC",
                                              "PlotMarginalQuantiles")
        o = dict(o)
        o["id"] = nid
        nid += 1
        ops.append(o)
    return ops


def op_args(world, op):
    """numbers of the caller's objects an operation is given"""
    if op["op"] != "eval":
        r = world.recs[op["k"]]
        if op.get("post") == "DesignConditions":
            return [r["arr"]["steps"]] if op.get("steps") == "list" else []
        extra = [r["arr"]["dc"]] if op.get("dc") else []
        return sorted([r["arr"]["sample"], r["arr"]["semantics"]] + extra) if op.get("post") in ("PlotContour", "SaveContour") else []
    A = world.recs[op["k"]]["arr"]
    e = op["entry"]
    use = {"points"} if e in ("pdf", "cdf", "marginal_pdf", "marginal_cdf0", "conditional_cdf", "dist_pdf", "dist_cdf", "dist_sample_seeded",
                              "empirical_cdf_cached") else set()
    if e in ("marginal_icdf0", "marginal_icdf_mc", "dist_icdf"):
        use = {"probs"}
    if e in ("conditional_icdf", "dist_icdf"):
        use = {"probs", "points"}
    if e == "empirical_cdf_sample":
        use = {"points", "sample"}
    if e in ("direct_sampling", "and", "or", "plot_marginal_quantiles", "plot_isodensity"):
        use = {"sample"}
    if e == "hdc":
        use = {"hdc_limits", "deltas"}
    if e == "plot_histograms":
        use = {world.recs[op["k"]]["fitted_with"]}
    if e in ("dist0_pdf", "dist0_cdf", "dep_call", "conditional_sample", "conditional_cdf_mc"):
        use = {"points"}
    if e == "marginal_icdf_seeded":
        use = {"probs"}
    if e == "conditional_icdf_mc":
        use = {"probs", "points"}
    if e == "plot_dependence_functions":
        use = {"par_rename"}
    if e == "plot_isodensity":
        use = {"sample", "limits", "levels"}
    if e == "dist0_icdf":
        use = {"probs"}
    if op.get("edge"):
        use = {{"points": "edge_points", "probs": "edge_probs"}.get(u, u) for u in use}
    if e == "marginal_cdf_dep":
        use = {"edge_vec"}
    if e in ("cdf_boundary", "pdf_boundary"):
        use = {"boundary"}
    if e.startswith("plot"):
        use = use | {"semantics"}
    return sorted(A[u] for u in use)


def coq_op(world, op, pos_of):
    if op["op"] == "fit":
        return "(Fit %d %d %s)" % (op["k"], op["data"], "None" if op.get("fd") is None else "(Some %d)" % op["fd"])
    args = "[" + "; ".join("%d" % a for a in op_args(world, op)) + "]"
    if op["op"] == "post":
        return "(OnContour %d %s %s)" % (pos_of.get(op["c"], 0), op["post"], args)
    return "(Eval %d %s %s)" % (op["k"], ENTRY_CLASS[op["entry"]], args)


def same_op(a, b):
    keys = ("op", "k", "entry", "alpha", "c", "post", "swap", "steps", "data", "fd", "edge", "dc")
    return all(a.get(x) == b.get(x) for x in keys)


PRELUDE = """From V.model Require Import Heap.
Local Open Scope nat_scope.
"""


def cell_term(c):
    """parsed Coq cell -> python tuple form used by World.cell_of"""
    if isinstance(c, tuple):
        if c[0] == "M":
            return ("M", c[1], cell_term(c[2]) if isinstance(c[2], tuple) else c[2])
        return tuple(c)
    return c


# ====================================================================== running a history
def run_history(names, ops, seed, keep_results=False):
    """executes the history on fresh models; returns per-step observations"""
    world = World(names, seed)
    try:
        steps = []
        results, values = {}, {}
        pos_of = {}
        for pos, op in enumerate(ops):
            pos_of[op["id"]] = pos
            if op["op"] == "post" and op["c"] not in results:
                steps.append({"skipped": True, "changed": [], "cells": set(), "err": None})
                continue
            import zlib
            if op.get("entry") in MUST_ADVANCE:
                # the caller's np.random.seed(s): the same s for every occurrence of the same unseeded operation
                np.random.seed((world.seed * 31 + zlib.crc32(("%s/%d" % (op["entry"], op["k"])).encode())) % (2 ** 31))
            else:
                np.random.seed((world.seed * 31 + op["id"] * 7) % (2 ** 31))
            backup = interp_backup()
            before = world.snapshot()
            err = None
            import signal

            def _too_long(signum, frame):
                raise TimeoutError("operation exceeded its time budget (nquad); writes are judged, the result is not")
            old = signal.signal(signal.SIGALRM, _too_long)
            signal.setitimer(signal.ITIMER_REAL, 12.0 if op.get("entry") == "marginal_cdf_dep" else 40.0)
            try:
                scribble(pos)
                res = execute(world, op, results)
            except Exception as e:  # noqa  (numerical failures of the engines are not the property's business)
                res, err = None, "%s: %s" % (type(e).__name__, str(e)[:100])
            finally:
                signal.setitimer(signal.ITIMER_REAL, 0)
                signal.signal(signal.SIGALRM, old)
            after = world.snapshot()
            import matplotlib.pyplot as plt
            changed = diff_paths(before, after)
            if any(pth.startswith("glob:interpreter.") for pth in changed):
                interp_restore(backup)
            cells = {}
            for p in changed:
                cells.setdefault(world.cell_of(p), []).append(p)
            extra = None
            if op.get("entry") in MUST_ADVANCE and err is None and before["rng"] == after["rng"]:
                extra = ("sampled without a seed but left numpy's global random state untouched: it does not draw from the global "
                         "generator, np.random.seed(s) cannot make it reproducible")
            if op["op"] == "post" and op["post"] == "SaveContour" and isinstance(res, bytes):
                # read-back: header + one line per contour point, whatever the file held before
                rows = len(np.asarray(results[op["c"]].coordinates))
                lines = res.decode("utf-8", "replace").splitlines()
                if len(lines) != rows + 1:
                    extra = "the file read back after save_contour_coordinates has %d lines, the contour %d points (+1 header line)" % (len(lines), rows)
            if op["op"] == "eval" and op["entry"] in CONTOURS and res is not None:
                results[op["id"]] = res
                world.live[pos] = res
            if res is not None:
                values[op["id"]] = result_value(res)
            plt.close("all")
            steps.append({"skipped": False, "changed": changed, "cells": cells, "err": err, "extra": extra,
                          "coq": coq_op(world, op, pos_of)})
        shapes = [shape_of(r) for r in world.recs]
        return {"steps": steps, "values": values, "shapes": shapes, "pos_of": pos_of}
    finally:
        world.close()


def classify(names, ops, obs, wsets):
    """property oracle + footprint comparison; returns (violations, mismatches)"""
    viol, mism = [], []
    for pos, (op, st) in enumerate(zip(ops, obs["steps"])):
        if st["skipped"]:
            continue
        allowed = set(wsets[pos]) if wsets is not None else None
        if st.get("extra"):
            if op["op"] == "post":
                viol.append(({"clause": "export", "site": "SaveContour"}, "post(SaveContour) on model %d (%s): %s" % (op["k"], names[op["k"]], st["extra"])))
            else:
                viol.append(({"clause": "global-seed", "site": op["entry"]}, "eval(%s) on model %d (%s) %s" % (op["entry"], op["k"], names[op["k"]], st["extra"])))
        for cell, paths in st["cells"].items():
            where = "%s(%s) on model %d (%s)" % (op["op"], op.get("entry") or op.get("post") or "", op["k"], names[op["k"]])
            if isinstance(cell, tuple) and cell[0] == "Arr":
                viol.append(({"clause": "input-array", "site": op.get("entry") or op.get("post") or "fit"},
                             "%s changed the caller's object %s (the `%s` argument prepared for model %d)"
                             % (where, paths[0], ROLES[cell[1] % NROLES], cell[1] // NROLES)))
            elif isinstance(cell, tuple) and cell[0] == "Obj":
                viol.append(({"clause": "contour-mutated", "site": op.get("entry") or op.get("post") or "fit"},
                             "%s changed the contour object built at step %d: %s" % (where, cell[1], paths[0])))
            elif isinstance(cell, tuple) and cell[0] == "Globals":
                viol.append(({"clause": "module-state", "site": op.get("entry") or op.get("post") or "fit"},
                             "%s changed %s state %s (shared by every model%s)" % (
                                 where, "interpreter-global" if cell[1].startswith("interpreter.") else "module-level", cell[1],
                                 ": later evaluations that emit a warning now raise" if "warnings" in cell[1] else "")))
            elif isinstance(cell, tuple) and cell[0] == "M":
                k2, f = cell[1], cell[2]
                fixed = f == "Struct" or (isinstance(f, tuple) and f[0] in ("Template", "Slicer"))
                if op["op"] != "fit" and f != "SampleCache":
                    viol.append(({"clause": "evaluation-mutates-model", "site": op.get("entry") or op.get("post")},
                                 "%s changed %s of model %d: %s" % (where, f, k2, paths[0])))
                elif op["op"] == "fit" and k2 != op["k"]:
                    viol.append(({"clause": "fit-changes-other-model", "site": "fit"},
                                 "fitting model %d (%s) changed %s of model %d (%s): %s" % (op["k"], names[op["k"]], f, k2, names[k2], paths[0])))
                elif op["op"] == "fit" and fixed:
                    viol.append(({"clause": "template", "site": "fit"},
                                 "fitting model %d (%s) changed its %s: %s" % (k2, names[k2], f, paths[0])))
                elif f == "SampleCache" and not (op["op"] == "fit" or op.get("entry") == "empirical_cdf_cached"):
                    viol.append(({"clause": "evaluation-mutates-model", "site": op.get("entry") or op.get("post")},
                                 "%s changed the cached sample of model %d" % (where, k2)))
            if allowed is not None and cell not in allowed:
                mism.append((pos, cell, paths[0]))
    return viol, mism


def repeat_pairs(ops):
    out = []
    for j, b in enumerate(ops):
        if b.get("det") or b.get("entry") in MUST_ADVANCE:
            for i in range(j):
                if same_op(ops[i], b):
                    out.append((i, j))
                    break
    return out


def check_history(ctx, names, ops, seed, coq_info=None):
    obs = run_history(names, ops, seed)
    wsets = coq_info["wsets"] if coq_info else None
    viol, mism = classify(names, ops, obs, wsets)
    pairs = coq_info["pairs"] if coq_info else [(i, j, True) for i, j in repeat_pairs(ops) if all(
        not (o["op"] == "fit" and o["k"] == ops[i]["k"]) for o in ops[i:j])]
    for i, j, guaranteed in pairs:
        a, b = obs["values"].get(ops[i]["id"]), obs["values"].get(ops[j]["id"])
        if guaranteed and a is not None and b is not None and a != b:
            viol.append(({"clause": "repeatability", "site": ops[i].get("entry") or ops[i].get("post")},
                         "%s on model %d (%s) returned different results at steps %d and %d although the model was not fitted in between"
                         % (ops[i].get("entry") or ops[i].get("post"), ops[i]["k"], names[ops[i]["k"]], i, j)))
    return obs, viol, mism


def replay(ctx, rp):
    if rp.get("kind") == "getter-graph":
        class C:
            def __init__(s):
                s.v = []
                s.notes = {}

            def count(s, *a, **k):
                pass

            def violation(s, sig, what, r):
                s.v.append(what)
        c = C()
        getter_graph_check(c)
        for w in c.v[:3]:
            print("  ", w)
        return bool(c.v)
    if rp.get("kind") == "sweep":
        class C2:
            def __init__(s):
                s.v, s.notes = [], {}

            def count(s, *a, **k):
                pass

            def violation(s, sig, what, r):
                if sig["site"] == rp["site"]:
                    s.v.append(what)
        c2 = C2()
        family_and_utility_sweep(c2)
        for w in c2.v[:3]:
            print("  ", w)
        return bool(c2.v)
    os.makedirs(os.path.join(vlib.BUILD, "C19"), exist_ok=True)
    obs, viol, _ = check_history(ctx, rp["models"], rp["ops"], rp["seed"])
    for sig, msg in viol[:3]:
        print("  ", msg)
    return bool(viol)


# ====================================================================== run
def run(ctx):
    ctx.proof_gate()
    rng = ctx.rng
    os.makedirs(os.path.join(vlib.BUILD, "C19"), exist_ok=True)
    getter_graph_check(ctx)
    family_and_utility_sweep(ctx)
    nh = ctx.n(42, 200)
    names_pool = GETTERS + ["custom3d", "custom3d_chain"]
    hist = []
    for h in range(nh):
        K = rng.choice([2, 2, 3])
        names = [rng.choice(names_pool) for _ in range(K)]
        if rng.random() < 0.35:
            names[1] = names[0]                     # two models from two fresh calls of the SAME getter
        ops = gen_history(rng, names, ctx.quick())
        hist.append({"models": names, "ops": ops, "seed": rng.randrange(1 << 20)})
    # every run: IFORM and ISORM contours of a 3-D model computed twice in this process, interleaved with a fit of
    # ANOTHER model and an evaluation; the repetitions must be bit-identical (NSphere's seeded point cloud included)
    for other in ("custom3d", rng.choice(GETTERS)):
        k3 = {"op": "eval", "k": 0, "dim2": False, "det": True, "alpha": 0.05}
        mand = [dict(k3, entry="iform"), dict(k3, entry="isorm"),
                {"op": "fit", "k": 1, "data": arr_no(1, "data1"), "fd": None}, dict(k3, entry="pdf"),
                dict(k3, entry="iform", repeat_of=0), dict(k3, entry="isorm", repeat_of=1)]
        for i, o in enumerate(mand):
            o["id"] = i
        hist.insert(0, {"models": ["custom3d", other], "ops": mand, "seed": rng.randrange(1 << 20)})
    # every run: the entry points that the random stream reaches rarely or that are costly (joint cdf by nquad, the
    # Monte-Carlo paths of MultivariateModel / TransformedModel with a seed, IFORM of a TransformedModel, the cached
    # empirical cdf), each once, with a repetition of the seeded ones after another model was fitted
    gT = rng.choice(["get_Windmeier_EW_Hs_S", "get_Nonzero_EW_Hs_S"])
    gG = rng.choice(["get_DNVGL_Hs_Tz", "get_OMAE2020_Hs_Tz", "get_DNVGL_Hs_U", "get_OMAE2020_V_Hs"])
    ev = {"op": "eval", "k": 0, "dim2": True, "det": True, "alpha": 0.05}
    fit1 = {"op": "fit", "k": 1, "data": arr_no(1, "data1"), "fd": None}
    cover = [
        ([gT, gG], [dict(ev, entry="iform_seeded"), dict(ev, entry="cdf"), dict(ev, entry="empirical_cdf_cached", det=False),
                    dict(ev, entry="conditional_cdf_mc"), dict(fit1), dict(ev, entry="iform_seeded")]),
        ([gT, gT], [dict(ev, entry="draw_sample_seeded"), dict(ev, entry="conditional_icdf_mc"), dict(ev, entry="marginal_icdf_seeded"),
                    dict(fit1), dict(ev, entry="draw_sample_seeded"), dict(ev, entry="marginal_icdf_seeded")]),
        ([gG, "custom3d_chain"], [dict(ev, entry="cdf"), dict(ev, entry="marginal_icdf_seeded"), dict(ev, entry="conditional_sample"),
                                  dict(fit1), dict(ev, entry="marginal_icdf_seeded"), dict(ev, entry="conditional_sample")]),
    ]
    cover += [
        # joint cdf / pdf at points ON the lower boundary (2-D and 3-D), repeated after unrelated work
        # (3-D: the density only -- nquad over a degenerate 3-D box can take a minute)
        ([gG, "custom3d"], [dict(ev, entry="cdf_boundary"), dict(ev, entry="pdf_boundary", k=1, dim2=False), dict(ev, entry="draw_sample_seeded"),
                            dict(ev, entry="cdf_boundary"), dict(ev, entry="pdf_boundary"), dict(ev, entry="cdf_boundary")]),
    ]
    mc = dict(ev, det=False)
    cover += [
        # np.random.seed(s); unseeded sampling; np.random.seed(s); the same again -> identical results, generator advanced
        ([gG, gG], [dict(mc, entry="draw_sample"), dict(mc, entry="marginal_icdf_mc"), dict(mc, entry="direct_sampling_mc"), dict(fit1),
                    dict(mc, entry="draw_sample"), dict(mc, entry="direct_sampling_mc")]),
        # HDC with caller-owned limits in all three container shapes, computed twice
        ([gG, gG, gG], [dict(ev, entry="hdc"), dict(ev, entry="hdc", k=1), dict(ev, entry="hdc", k=2), dict(ev, entry="hdc"),
                        dict(ev, entry="hdc", k=1), dict(ev, entry="hdc", k=2)]),
    ]
    po = {"op": "post", "k": 0, "det": True, "swap": False}
    cover += [
        # contour pipelines with caller-owned arguments: design conditions (list of abscissae), plot (sample, semantics,
        # precomputed design conditions), export, histograms of the fitted intervals
        ([gG, gT], [dict(ev, entry="direct_sampling"), dict(po, c=0, post="DesignConditions", steps="list"), dict(po, c=0, post="PlotContour", dc=True),
                    dict(po, c=0, post="SaveContour"), dict(ev, entry="plot_histograms"), dict(po, c=0, post="DesignConditions", steps="list")]),
        ([gG, gG], [dict(ev, entry="and", det=False), dict(ev, entry="or", det=False), dict(po, c=1, post="PlotContour", swap=True),
                    dict(ev, entry="hdc"), dict(po, c=3, post="SaveContour"), dict(po, c=3, post="SaveContour")]),
        ([gT, gG], [dict(ev, entry="direct_sampling"), dict(po, c=0, post="DesignConditions", steps=5), dict(po, c=0, post="PlotContour"),
                    dict(po, c=0, post="SaveContour"), dict(ev, entry="and", det=False), dict(po, c=0, post="SaveContour")]),
    ]
    for models, ops in cover:
        for i, o in enumerate(ops):
            o["id"] = i
        hist.insert(0, {"models": models, "ops": ops, "seed": rng.randrange(1 << 20)})
    # every run: whatever entry point of the alphabet the histories generated so far do not reach gets a filler history
    def kind_of(nm):
        return "T" if nm in ("get_Windmeier_EW_Hs_S", "get_Nonzero_EW_Hs_S") else ("3" if nm.startswith("custom3d") else "2")
    planned = {(kind_of(hh["models"][o["k"]]), o["entry"]) for hh in hist for o in hh["ops"] if o["op"] == "eval"}
    for kd, pool, nm in (("2", GHM2, gG), ("T", TRANS, gT), ("3", GHM3, "custom3d")):
        missing = [e for e in dict.fromkeys(pool) if (kd, e) not in planned]
        for s0 in range(0, len(missing), 6):
            ops = [{"op": "eval", "k": 0, "entry": e, "dim2": kd != "3", "alpha": 0.05, "id": i,
                    "det": ENTRY_CLASS[e] not in ("MarginalIcdf", "DrawSample", "EmpiricalCdf", "HDCDefaultGrid", "AndC", "OrC", "PlotMarginalQuantiles")}
                   for i, e in enumerate(missing[s0:s0 + 6])]
            hist.append({"models": [nm, gG], "ops": ops, "seed": rng.randrange(1 << 20)})
    ctx.notes["filler_histories_for_unreached_entry_points"] = sum(1 for _ in hist) - nh - len(cover) - 2
    # every run: marginal_cdf AND marginal_pdf of a DEPENDENT dimension, the joint pdf and the distribution-level
    # pdf/cdf/icdf forwarders on float ndarrays holding negative, zero and positive entries (probabilities 0 and 1)
    g2 = rng.choice(["get_DNVGL_Hs_Tz", "get_OMAE2020_Hs_Tz"])      # nquad on the other two can take a minute per point
    e2 = {"op": "eval", "k": 0, "dim2": True, "det": True, "alpha": 0.05, "edge": True}
    mand = [dict(e2, entry="marginal_cdf_dep"), dict(e2, entry="marginal_pdf"), dict(e2, entry="pdf"),
            dict(e2, entry="dist_cdf"), dict(e2, entry="dist_icdf"), dict(e2, entry="marginal_pdf", repeat_of=1)]
    for i, o in enumerate(mand):
        o["id"] = i
    hist.insert(0, {"models": [g2, rng.choice(GETTERS)], "ops": mand, "seed": rng.randrange(1 << 20)})
    if not ctx.quick():
        # all interleavings of a 4-operation alphabet on two models of the same getter
        import itertools
        for g in ("get_OMAE2020_V_Hs", "get_DNVGL_Hs_Tz"):
            alpha = [{"op": "eval", "k": 0, "entry": "pdf", "det": True, "dim2": True},
                     {"op": "eval", "k": 0, "entry": "direct_sampling", "det": True, "dim2": True, "alpha": 0.05},
                     {"op": "fit", "k": 1, "data": arr_no(1, "data1"), "fd": None}, {"op": "fit", "k": 0, "data": arr_no(0, "data1"), "fd": None}]
            for seq in itertools.product(range(4), repeat=4):
                ops = []
                for i, a in enumerate(seq):
                    o = dict(alpha[a])
                    o["id"] = i
                    ops.append(o)
                hist.append({"models": [g, g], "ops": ops, "seed": 5})
    # ---- run the real code
    observations = []
    entry_stat, err_stat = {}, {}
    for hh in hist:
        obs = run_history(hh["models"], hh["ops"], hh["seed"])
        observations.append(obs)
        for op, st in zip(hh["ops"], obs["steps"]):
            key = op.get("entry") or op.get("post") or "fit"
            entry_stat[key] = entry_stat.get(key, 0) + 1
            if st["err"]:
                err_stat[key + ": " + st["err"].split(":")[0]] = err_stat.get(key + ": " + st["err"].split(":")[0], 0) + 1
        nontriv = any(o["op"] == "fit" for o in hh["ops"]) and bool(repeat_pairs(hh["ops"]))
        ctx.count(("history", tuple(hh["models"]), tuple((o["op"], o["k"], o.get("entry"), o.get("post"), o.get("data")) for o in hh["ops"])), nontriv)
    ctx.notes["operations_executed"] = entry_stat
    ctx.notes["operations_raising (engine failures, not judged)"] = err_stat
    ctx.sample({"models": hist[0]["models"], "ops": hist[0]["ops"]})
    # ---- model footprints (vm_compute)
    items = []
    per = 40
    for s in range(0, len(hist), per):
        body = PRELUDE
        for n, (hh, obs) in enumerate(zip(hist[s:s + per], observations[s:s + per])):
            shp = "[" + "; ".join("[" + "; ".join("None" if x is None else "(Some %d)" % x for x in sh) + "]" for sh in obs["shapes"]) + "]"
            coq_ops = "[" + "; ".join(st.get("coq", "(Eval 0 Pdf [])") for st in obs["steps"]) + "]"
            prs = repeat_pairs(hh["ops"])
            body += "Definition shape%d (k : nat) : list (option nat) := nth k %s [].\n" % (n, shp)
            body += "Eval vm_compute in (wsets shape%d 0 %s, map (fun ij => same_result_if_reseeded shape%d %s (fst ij) (snd ij)) [%s]).\n" % (
                n, coq_ops, n, coq_ops, "; ".join("(%d, %d)" % p for p in prs))
        items.append(("hist_%d" % (s // per), body))
    outs = ctx.coq_eval_many(items, jobs=12)
    infos = []
    for s, o in zip(range(0, len(hist), per), outs):
        chunk = hist[s:s + per]
        if o is None or len(o) != len(chunk):
            infos += [None] * len(chunk)
            continue
        for hh, txt in zip(chunk, o):
            ws, guar = vlib.parse_term(txt)
            ws = [[cell_term(c) for c in w] for w in ws]
            prs = repeat_pairs(hh["ops"])
            infos.append({"wsets": ws, "pairs": [(i, j, bool(g)) for (i, j), g in zip(prs, guar)]})
    # ---- compare + property oracle
    nmis, nguar, nrep, ncells = 0, 0, 0, 0
    suspects = []
    for hh, obs, info in zip(hist, observations, infos):
        viol, mism = classify(hh["models"], hh["ops"], obs, info["wsets"] if info else None)
        ncells += sum(len(st["cells"]) for st in obs["steps"])
        for pos, cell, path in mism:
            nmis += 1
            ctx.mismatch("history footprint", "step %d %r of %r wrote %r (%s) outside the model's write set" % (
                pos, {k2: v2 for k2, v2 in hh["ops"][pos].items() if k2 in ("op", "k", "entry", "post")}, hh["models"], cell, path))
        pairs = info["pairs"] if info else []
        for i, j, g in pairs:
            nrep += 1
            a, b = obs["values"].get(hh["ops"][i]["id"]), obs["values"].get(hh["ops"][j]["id"])
            if g:
                nguar += 1
                if a is not None and b is not None and a != b:
                    viol.append(({"clause": "repeatability", "site": hh["ops"][i].get("entry") or hh["ops"][i].get("post")},
                                 "%s on model %d (%s) returned different results at steps %d and %d although nothing it reads was written in between%s"
                                 % (hh["ops"][i].get("entry") or hh["ops"][i].get("post"), hh["ops"][i]["k"], hh["models"][hh["ops"][i]["k"]], i, j,
                                    " (np.random.seed(s) with the same s before both)" if hh["ops"][i].get("entry") in MUST_ADVANCE else "")))
        if viol or mism:
            suspects.append((hh, viol))
    ctx.notes["correspondence"] = {"histories": len(hist), "observed_written_cells": ncells, "outside_model_write_set": nmis,
                                   "repeated_deterministic_operations": nrep, "of_which_guaranteed_equal_by_the_model": nguar}
    ctx.cov["programs"] = 2
    # ---- report (shrunk) violations
    reported = 0
    seen = set()
    todo = []
    for hh, viol in suspects:
        clauses = set()
        for sig, msg in viol:            # one report per distinct clause of a history
            if sig["clause"] not in clauses:
                clauses.add(sig["clause"])
                todo.append((hh, sig, msg))
    for hh, sig, msg in todo:
        key = (sig["clause"], sig.get("site"))
        if key in seen or reported >= 6:
            continue
        seen.add(key)

        def fails(ops):
            try:
                _, v2, _ = check_history(ctx, hh["models"], list(ops), hh["seed"])
            except Exception:
                return False
            return any(s2["clause"] == sig["clause"] for s2, _ in v2)
        ops = vlib.shrink_list(hh["ops"], fails)
        try:
            _, v2, _ = check_history(ctx, hh["models"], ops, hh["seed"])
            v2 = [x for x in v2 if x[0]["clause"] == sig["clause"]] or [(sig, msg)]
        except Exception:
            ops, v2 = hh["ops"], [(sig, msg)]
        if ctx.violation(v2[0][0], v2[0][1], {"kind": "history", "models": hh["models"], "ops": ops, "seed": hh["seed"]}):
            reported += 1
    ctx.notes["input_distribution"] = {"histories": len(hist), "operations_per_history": "3-6 (thorough: + all 256 interleavings of a 4-operation alphabet on 2 getters)",
                                       "models_per_history": "2-3, from fresh getter calls (35% two calls of the same getter) or a fresh 3-D description"}
    ctx.cov["rule"] = ("histories of evaluate / contour / design-conditions / plot / save / fit operations over 2-3 models from fresh descriptions; "
                       "non-trivial = the history contains a fit and a repeated deterministic operation; distinct = hash of (models, operations); "
                       "plus the id()-graphs of 12 getter results compared pairwise (non-trivial = two calls of the same getter)")
    ctx.cov["trusted_base"] = ["Coq 8.16.1 kernel + vm_compute", "harness tools/harness/c19.py: deep snapshot (attribute / container / ndarray bytes / closure walk), path -> cell map",
                               "footprints of model/Heap.v are written from the code and validated only dynamically (observed write sets must lie inside them)",
                               "mutation inside numpy/scipy/matplotlib C code is visible only through the snapshots"]
    ctx.assumptions += ["operations stay inside their tabulated footprints (validated per run, not proved)",
                        "models come from separate descriptions (fresh getter calls); two models built from ONE description share its objects by construction and are outside the property",
                        "GlobalHierarchicalModel.fit writes defaults into the caller's fit_descriptions list (recorded in the footprint as FitDesc; not an array or a model)"]
