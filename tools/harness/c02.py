"""C02 -- the highest-density contour encloses the highest-density region of content 1-alpha (DESIGN.md section 6, C02).

proof gate: props/C02.v (selection by stable descending sort + cumulative sum: prefix, content <= 1-alpha, first excluded
    cell overshoots, density order, fm = least dense enclosed cell, super-level set up to ties, mask positions, warning
    fallback, cell probability at EVERY multi-index = product of CDF differences for any number of dimensions)
correspondence: the binary64 instance of model/Hdc.v (vm_compute) vs virocon.contours.HighestDensityContour:
    A. cumsum_biggest_until on generated arrays (ties, zeros, limits exactly on partial sums, error branches)
    B. whole contours on random 2-D / 3-D hierarchical models: grid (_check_grid, arange), cell_averaged_joint_pdf from the
       recorded cdf tables, HDR mask, fm, RuntimeWarning
search: property oracle on the real objects (exact rational arithmetic for A; independent recomputation of the cell
    probabilities from the model's cdfs for B), on disagreeing inputs first, then on the whole stream incl. large grids
"""
import math
import warnings
from fractions import Fraction

import numpy as np

import vlib
from vlib import fl, fl_list, bool_list

from harness import _c02_models as M


def _hdc():
    import virocon
    return virocon.HighestDensityContour


# ------------------------------------------------------------------ part A: cumsum_biggest_until
def gen_cbu_case(rng, big=False):
    nd = rng.choice([1, 1, 2, 2, 3])
    if big:
        shape = [rng.randrange(4, 14) for _ in range(nd)]
    else:
        shape = [rng.randrange(1, 6) for _ in range(nd)]
    n = int(np.prod(shape))
    kind = rng.choice(["dyadic", "dyadic", "ties", "zeros", "decay", "equal", "float"])
    if kind == "dyadic":
        vals = [rng.randrange(0, 4096) / 4096.0 for _ in range(n)]
    elif kind == "ties":
        base = [rng.randrange(1, 64) / 64.0 for _ in range(max(1, n // 3))]
        vals = [rng.choice(base) for _ in range(n)]
    elif kind == "zeros":
        vals = [0.0 if rng.random() < 0.5 else rng.randrange(1, 256) / 256.0 for _ in range(n)]
    elif kind == "decay":
        vals = [math.ldexp(rng.randrange(1, 16), -rng.randrange(0, 12)) for _ in range(n)]
    elif kind == "equal":
        v = rng.randrange(1, 32) / 32.0
        vals = [v] * n
    else:
        vals = [rng.random() ** 3 for _ in range(n)]
    tot = sum(vals)
    if tot > 0 and kind != "float" and rng.random() < 0.7:     # normalise by a power of two: sums stay exact
        sc = 2.0 ** (-math.ceil(math.log2(tot))) if tot > 0 else 1.0
        vals = [v * sc for v in vals]
    srt = sorted(vals, reverse=True)
    cs = list(np.cumsum(np.array(srt, dtype=float)))
    r = rng.random()
    if r < 0.45:
        lim = float(cs[rng.randrange(len(cs))])                 # exactly on a partial sum
    elif r < 0.55:
        lim = float(np.nextafter(cs[rng.randrange(len(cs))], rng.choice([0.0, 10.0])))
    elif r < 0.75:
        lim = float(cs[-1]) * rng.random()
    elif r < 0.85:
        lim = float(cs[-1]) + rng.choice([0.0, 2.0 ** -20, 0.25])      # all cells / not reachable
    elif r < 0.92:
        lim = srt[0] * rng.choice([0.5, 0.99])                   # nothing can be selected
    else:
        lim = 1 - 10 ** rng.uniform(-6, -0.5)
    data = [float(v) for v in vals]
    if rng.random() < 0.02:
        data[rng.randrange(n)] = float("nan")
    return {"kind": "cbu", "shape": shape, "data": data, "limit": float(lim)}


def run_cbu(c):
    HDC = _hdc()
    arr = np.array(c["data"], dtype=float).reshape(c["shape"])
    with warnings.catch_warnings(record=True) as wl:
        warnings.simplefilter("always")
        try:
            mask, last = HDC.cumsum_biggest_until(arr, c["limit"])
        except ValueError:
            return {"err": 1}
        except IndexError:
            return {"err": 2}
        except Exception as e:  # noqa
            return {"err": 9, "exc": type(e).__name__}
    warn = any(issubclass(w.category, RuntimeWarning) for w in wl)
    return {"err": 0, "mask": [bool(v) for v in np.asarray(mask).ravel()], "mask_shape": list(np.shape(mask)),
            "last": float(last), "warn": warn}


CBU_PRELUDE = M.GRID_PRELUDE + """
(* 0 ok; 1 error branch differs; 2 mask; 3 last_summed; 4 warning flag *)
Definition cmp_cbu (data : list float) (lim : float) (err : Z) (emask : list bool) (elast : float) (ewarn : bool) : Z :=
  match f_cbu data lim with
  | CbuNan => if (err =? 1)%Z then 0%Z else 1%Z
  | CbuIndexError => if (err =? 2)%Z then 0%Z else 1%Z
  | CbuOk sel last warn =>
      if negb (err =? 0)%Z then 1%Z
      else if negb (beq_list (mask_of (List.length data) sel) emask) then 2%Z
      else if negb (fbits_eq last elast) then 3%Z
      else if negb (Bool.eqb warn ewarn) then 4%Z else 0%Z
  end.
"""


def coq_cbu_case(c, r):
    if r["err"] != 0:
        return "cmp_cbu %s %s %d%%Z [] 0 false" % (fl_list(c["data"]), fl(c["limit"]), r["err"])
    return "cmp_cbu %s %s 0%%Z %s %s %s" % (fl_list(c["data"]), fl(c["limit"]), bool_list(r["mask"]), fl(r["last"]),
                                           "true" if r["warn"] else "false")


def oracle_cbu(c, r=None):
    """exact-arithmetic restatement of the selection clauses on the real cumsum_biggest_until.
    Returns None (holds / outside the property) or (signature, message)."""
    data = c["data"]
    if any(math.isnan(v) for v in data):
        return None
    r = r or run_cbu(c)
    n = len(data)
    lim = Fraction(c["limit"])
    p = [Fraction(v) for v in data]
    if any(v < 0 for v in p):
        return None
    if n == 0 or max(p) > lim:
        return None                     # densest cell alone exceeds the limit: IndexError, outside the property's grids (L14)
    if r["err"] != 0:
        return ({"site": "cumsum_biggest_until", "clause": "unexpected-exception"},
                "cumsum_biggest_until raised although the densest cell fits the limit (error code %d)" % r["err"])
    # float cumulative sums must be exact for an exact judgement; otherwise stay away from the borderline
    srt = sorted(data, reverse=True)
    cs = np.cumsum(np.array(srt, dtype=float))
    exact = all(Fraction(float(a)) == b for a, b in zip(cs, _partial(srt)))
    if not exact:
        if any(abs(float(a) - c["limit"]) <= 1e-12 * max(1.0, abs(c["limit"])) for a in cs):
            return "unjudgeable"
    if r["mask_shape"] != list(c["shape"]):
        return ({"site": "cumsum_biggest_until", "clause": "mask-shape"}, "summed_fields has shape %r, input %r" % (r["mask_shape"], c["shape"]))
    sel = [i for i in range(n) if r["mask"][i]]
    exc = [i for i in range(n) if not r["mask"][i]]
    if not sel:
        return ({"site": "cumsum_biggest_until", "clause": "content"}, "nothing enclosed")
    S = sum(p[i] for i in sel)
    tol = Fraction(0) if exact else Fraction(1, 10 ** 12)
    if S > lim + tol:
        return ({"site": "cumsum_biggest_until", "clause": "content"}, "enclosed probability %r exceeds the limit %r" % (float(S), c["limit"]))
    if exc:
        pe = max(p[i] for i in exc)
        if not (lim - S < pe + tol):
            return ({"site": "cumsum_biggest_until", "clause": "misses-by-less"},
                    "limit - content = %r is not less than the densest excluded cell %r" % (float(lim - S), float(pe)))
        if min(p[i] for i in sel) < pe:
            return ({"site": "cumsum_biggest_until", "clause": "density-order"},
                    "an enclosed cell (%r) is less dense than an excluded one (%r)" % (float(min(p[i] for i in sel)), float(pe)))
    if Fraction(r["last"]) != min(p[i] for i in sel):
        return ({"site": "cumsum_biggest_until", "clause": "threshold"},
                "last_summed %r is not the least dense enclosed cell %r" % (r["last"], float(min(p[i] for i in sel))))
    tot = sum(p)
    if exact or abs(float(tot) - c["limit"]) > 1e-12:
        if r["warn"] != (tot < lim):
            return ({"site": "cumsum_biggest_until", "clause": "warning"},
                    "RuntimeWarning %s although total %r %s limit %r" % ("raised" if r["warn"] else "missing", float(tot), "<" if tot < lim else ">=", c["limit"]))
    return None


def _partial(xs):
    acc = Fraction(0)
    out = []
    for x in xs:
        acc += Fraction(x)
        out.append(acc)
    return out


# ------------------------------------------------------------------ part B: whole contours
def gen_alpha(rng):
    """mostly the property's range [1e-6, 0.3]; some far smaller (1 - alpha next to 1) and some large (small regions,
    down to the IndexError branch when the densest cell alone exceeds 1 - alpha)"""
    r = rng.random()
    if r < 0.8:
        return float(10 ** rng.uniform(-6, math.log10(0.3)))
    if r < 0.9:
        return float(10 ** rng.uniform(-13, -6))
    return float(rng.choice([0.5, 0.7, 0.9, 0.97]))


def gen_grid_case(rng, max_cells, n_dim=None, big=False, desc=None):
    n = n_dim or rng.choice([2, 2, 2, 3, 3, 4])
    desc = desc or M.gen_model_desc(rng, n)
    model = M.build_model(desc)
    alpha = gen_alpha(rng)
    g = M.gen_grid(rng, model, desc, max_cells, alpha=alpha, min_axis=(20 if big else (5 if len(desc["dims"]) >= 4 else 6)))
    return {"kind": "grid", "desc": desc, "alpha": alpha, "limits": g["limits"], "deltas": g["deltas"],
            "lim_form": g["lim_form"], "dl_form": g["dl_form"]}


def gen_int_grid_case(rng, max_cells):
    """limits and (some) deltas as Python / NumPy integers: np.arange then yields an integer grid for those axes"""
    n = rng.choice([2, 2, 3])
    desc = M.gen_model_desc(rng, n)
    model = M.build_model(desc)
    alpha = float(10 ** rng.uniform(-4, math.log10(0.3)))
    ups = M.typical_upper(model, desc, min(1 - 1e-10, 1 - alpha / 30.0))
    per = max(6, int(max_cells ** (1.0 / n)))
    lims, dls = [], []
    for d in range(n):
        hi = max(4, int(math.ceil(ups[d])))
        lo = -4 if desc["dims"][d]["family"] == "vonmises" else 0
        if desc["dims"][d]["family"] == "vonmises":
            hi = 4
        step = max(1, int(math.ceil((hi - lo) / per)))
        if rng.random() < 0.35:
            step = float(step) * rng.choice([0.5, 1.0])       # a float axis next to integer axes
        lims.append([lo, hi])
        dls.append(step)
    deltas = dls
    dl_form = rng.choice(["asis", "tuple", "npint"])
    if len(set(dls)) == 1 and isinstance(dls[0], int) and rng.random() < 0.5:
        deltas, dl_form = dls[0], rng.choice(["asis", "npint"])
    return {"kind": "grid", "desc": desc, "alpha": alpha, "limits": lims, "deltas": deltas,
            "lim_form": rng.choice(["tuples", "lists", "ndarray"]), "dl_form": dl_form}


def gen_million_cell_case(rng, alpha=None):
    """a fine 3-D grid with more than a million cells (about 105 per axis)"""
    while True:
        desc = M.gen_model_desc(rng, 3)
        if all(d["family"] != "vonmises" for d in desc["dims"]):
            break
    model = M.build_model(desc)
    alpha = alpha or float(rng.choice([1e-2, 1e-3, 1e-5]))
    ups = M.typical_upper(model, desc, min(1 - 1e-10, 1 - alpha / 30.0))
    while True:
        ns = [rng.randrange(96, 116) for _ in range(3)]
        if (ns[0] + 1) * (ns[1] + 1) * (ns[2] + 1) > 1.03e6:
            break
    lims = [[0.0, float(u)] for u in ups]
    return {"kind": "grid", "desc": desc, "alpha": alpha, "limits": lims, "deltas": [float(u) / k for u, k in zip(ups, ns)],
            "lim_form": "tuples", "dl_form": "asis"}


def gen_default_case(rng, what):
    """default limits and / or default deltas (2-D; alpha large enough for the Monte-Carlo default limits)"""
    desc = M.gen_model_desc(rng, 3 if what == "limits3" else 2)
    model = M.build_model(desc)
    alpha = float(10 ** rng.uniform(-2.3, math.log10(0.3)))
    g = M.gen_grid(rng, model, desc, 1200, alpha=alpha)
    if what == "limits3":
        what = "limits"
    c = {"kind": "grid", "desc": desc, "alpha": alpha, "limits": g["limits"], "deltas": g["deltas"], "np_seed": rng.randrange(2 ** 31)}
    if what in ("limits", "both"):
        c["limits"] = None
        if what == "limits":
            ups = M.typical_upper(model, desc, 1 - 0.04 * alpha)
            c["deltas"] = [float(u / rng.randrange(12, 30)) for u in ups]
    if what in ("deltas", "both"):
        c["deltas"] = None
    return c


TWEAK = {"weibull": ("alpha", 1.35), "lognormal": ("sigma", 1.5), "expweibull": ("alpha", 1.35), "normal": ("sigma", 1.4)}


def gen_history_case(rng, max_cells, what):
    """a contour, then the SAME model object gets other parameters (attribute assignment / a second fit), then a contour on
    the same explicit grid: the second contour must be the contour of the CURRENT model"""
    if what == "insufficient":
        # several contours in a row on ONE explicit grid that cannot capture 1 - alpha (same model with other alphas, and
        # another model): every one of them must raise the RuntimeWarning
        desc = M.gen_model_desc(rng, rng.choice([2, 2, 3]))
        c = gen_grid_case(rng, max_cells, desc=desc)
        c["alpha"] = float(10 ** rng.uniform(-7, -4))
        c["limits"] = [[l[0], l[0] + 0.45 * (l[1] - l[0])] if l[1] > l[0] else [l[1] + 0.45 * (l[0] - l[1]), l[1]] for l in c["limits"]]
        c["prior"] = {"type": "insufficient", "alphas": [float(10 ** rng.uniform(-7, -4)) for _ in range(rng.choice([1, 2]))],
                      "other": M.gen_model_desc(rng, len(desc["dims"])) if rng.random() < 0.5 else None}
        return c
    if what == "refit":
        name = rng.choice(["get_DNVGL_Hs_Tz", "get_OMAE2020_Hs_Tz"])
        first, second = rng.sample(["ec-benchmark_dataset_A_1year.txt", "ec-benchmark_dataset_B_1year.txt", "ec-benchmark_dataset_C_1year.txt"], 2)
        c = gen_grid_case(rng, max_cells, desc=M.predefined_desc(name))
        c["prior"] = {"type": "refit", "name": name, "first": first, "second": second}
        return c
    while True:
        desc = M.gen_model_desc(rng, rng.choice([2, 2, 3]))
        if desc["dims"][0]["family"] in TWEAK:
            break
    c = gen_grid_case(rng, max_cells, desc=desc)
    par, fac = TWEAK[desc["dims"][0]["family"]]
    c["prior"] = {"type": "params", "set": {par: float(desc["dims"][0]["params"][par] / fac)}, "alpha": gen_alpha(rng)}
    return c


def build_with_history(c):
    """the model object as it is when the judged contour is computed (runs the earlier contour of the history first)"""
    import virocon as vc
    pr = c.get("prior")
    if pr is None:
        return M.build_model(c["desc"])
    lim, dl = M.apply_forms(c["limits"], c["deltas"], c.get("lim_form", "tuples"), c.get("dl_form", "asis"))
    with warnings.catch_warnings():
        warnings.simplefilter("ignore")
        if pr["type"] == "insufficient":
            model = M.build_model(c["desc"])
            for a in pr["alphas"]:
                try:
                    vc.HighestDensityContour(model, a, lim, dl)
                except Exception:  # noqa
                    pass
            if pr.get("other"):
                try:
                    vc.HighestDensityContour(M.build_model(pr["other"]), c["alpha"], lim, dl)
                except Exception:  # noqa
                    pass
        elif pr["type"] == "refit":
            model = M.fit_predefined_fresh(pr["name"], pr["first"])
            try:
                vc.HighestDensityContour(model, c["alpha"], lim, dl)
            except Exception:  # noqa
                pass
            M.refit_predefined(model, pr["name"], pr["second"])
        else:
            model = M.build_model(c["desc"])
            final = {k: getattr(model.distributions[0], k) for k in pr["set"]}
            for k, v in pr["set"].items():           # the earlier state of the same object
                setattr(model.distributions[0], k, v)
            try:
                vc.HighestDensityContour(model, pr.get("alpha", c["alpha"]), lim, dl)
            except Exception:  # noqa
                pass
            for k, v in final.items():               # parameter change by attribute assignment
                setattr(model.distributions[0], k, v)
    return model


def run_grid(c):
    model = build_with_history(c)
    if c.get("np_seed") is not None:
        np.random.seed(c["np_seed"])
    out = M.run_hdc(model, c["alpha"], c["limits"], c["deltas"], c.get("lim_form", "tuples"), c.get("dl_form", "asis"))
    out["model"] = model
    return out


def independent_cell_probabilities(model, desc, coords, deltas):
    """P[idx] = prod_d (F_d(x_d + delta_d/2 | x_cond(d)) - F_d(x_d - delta_d/2 | x_cond(d))), written directly from the
    property text (own loops; does not use cell_averaged_pdf / cell_averaged_joint_pdf).
    Also returns N[idx] = sum_d 2^-52 / |dF_d|: a bound on the RELATIVE rounding noise of P[idx] (a cdf value near 1 carries an
    absolute error of one unit in the last place, which is large relative to a small difference: numerical saturation)."""
    n = len(coords)
    shape = [len(c) for c in coords]
    P = np.ones(shape, dtype=float)
    N = np.zeros(shape, dtype=float)
    eps = 2.0 ** -52
    for d in range(n):
        dist = model.distributions[d]
        x = np.asarray(coords[d], dtype=float)
        h = 0.5 * float(deltas[d])
        cond = desc["dims"][d].get("cond")
        if cond is None:
            diff = np.asarray(dist.cdf(x + h), dtype=float) - np.asarray(dist.cdf(x - h), dtype=float)
            sh = [1] * n
            sh[d] = len(x)
            full = diff.reshape(sh)
        else:
            g = np.asarray(coords[cond], dtype=float)
            tab = np.empty((len(g), len(x)))
            for i, gv in enumerate(g):
                tab[i, :] = np.asarray(dist.cdf(x + h, given=gv), dtype=float) - np.asarray(dist.cdf(x - h, given=gv), dtype=float)
            # place on axes (cond, d) explicitly
            full = np.empty([shape[k] if k in (cond, d) else 1 for k in range(n)])
            for i in range(len(g)):
                sl = [slice(None) if k == d else (i if k == cond else 0) for k in range(n)]
                full[tuple(sl)] = tab[i, :]
        P = P * full
        with np.errstate(divide="ignore", invalid="ignore"):
            N = N + np.where(full != 0, eps / np.abs(full), np.inf)
    return P, N


def own_grid(c, out):
    """the grid as the documentation describes it: per dimension the cell centres min, min + delta, ... up to the first
    value >= max; default limits (0, marginal_icdf(1 - 0.2^n alpha)) with the recorded oracle values, default deltas 0.25 %
    of the range.  None if the default limits were not recorded."""
    n = len(c["desc"]["dims"])
    lims = c["limits"]
    if lims is None:
        if len(out.get("micdf", [])) != n:
            return None
        lims = [[0.0, m[3]] for m in out["micdf"]]
    dl = c["deltas"]
    if dl is None:
        dl = [(float(l[1]) - float(l[0])) * 0.0025 for l in lims]
    else:
        try:
            dl = [float(v) for v in dl]
        except TypeError:
            dl = [float(dl)] * n
    coords = []
    for (a, b), d in zip(lims, dl):
        lo, hi = float(min(a, b)), float(max(a, b))
        if not d > 0:
            return None
        k = int(math.ceil((hi - lo) / d - 1e-9)) + 1
        if abs((hi + d - lo) / d - round((hi + d - lo) / d)) < 1e-9:      # arange end-point ambiguity: accept either length
            k = None
        if k is None:
            k = len(np.arange(lo, hi + d, d))
        coords.append(lo + d * np.arange(k))
    return coords, dl


def pdf_crosscheck(model, desc, coords, deltas, P):
    """cell-averaged density vs. the distributions' POINT pdfs: for sampled cells and every dimension d the CDF difference
    F_d(x + delta/2 | g) - F_d(x - delta/2 | g) is compared with the Gauss-Legendre integral of pdf_d(. | g) over the cell
    side, g = the conditioning cell's CENTRE value (the contour conditions on cell centres; the joint point pdf integrated
    over a coarse cell is a different number and is not what the property states).  Only smooth integrands are judged
    (5- and 9-node rules agree to 1e-7).  Returns (n compared, worst relative difference, message or None)."""
    n = len(coords)
    flat = P.ravel()
    cand = np.flatnonzero(flat > 1e-3 * flat.max())
    if len(cand) == 0:
        return 0, 0.0, None
    pick = cand[np.linspace(0, len(cand) - 1, min(8, len(cand))).astype(int)]
    rules = {k: np.polynomial.legendre.leggauss(k) for k in (5, 9)}
    ncmp, worst, msg = 0, 0.0, None
    for fidx in pick:
        idx = np.unravel_index(fidx, P.shape)
        for d in range(n):
            dist = model.distributions[d]
            if not hasattr(dist, "pdf"):
                continue
            x, h = float(coords[d][idx[d]]), 0.5 * float(deltas[d])
            cond = desc["dims"][d].get("cond")
            kw = {} if cond is None else {"given": float(coords[cond][idx[cond]])}
            with np.errstate(all="ignore"):
                dF = float(np.asarray(dist.cdf(np.array([x + h]), **kw))[0] - np.asarray(dist.cdf(np.array([x - h]), **kw))[0])
                q = {}
                for k, (xs, ws) in rules.items():
                    q[k] = float((np.asarray(dist.pdf(x + h * xs, **kw), dtype=float) * ws).sum() * h)
            if not np.isfinite(q[9]) or q[9] <= 1e-12 or abs(q[9] - q[5]) > 1e-7 * q[9]:
                continue
            ncmp += 1
            rel = abs(dF - q[9]) / q[9]
            if rel > worst:
                worst = rel
                if rel > 1e-5:
                    msg = "dimension %d, cell %r: CDF difference %r, integral of the distribution's pdf over the cell %r" % (
                        d, tuple(int(v) for v in idx), dF, q[9])
    return ncmp, worst, msg


def oracle_grid(c, out=None, notes=None):
    """property oracle on one real contour.  None = holds, "unjudgeable", or (signature, message)."""
    out = out or run_grid(c)
    desc = c["desc"]
    n = len(desc["dims"])
    sig0 = {"site": "HighestDensityContour", "n_dim": n}
    if "err" in out:
        if out["err"] == "ValueError" and "n_neighbors" in out.get("err_msg", ""):
            return "unjudgeable"   # fewer than 3 boundary cells: sklearn rejects the point set (line sorter, C15)
        if out["err"] in ("IndexError", "ValueError"):
            # L14 / nan branch: legitimate only when the densest cell alone exceeds 1-alpha / a cell probability is nan
            g = own_grid(c, out)
            if g is None:
                return "unjudgeable"
            coords0, deltas0 = g
            if any(len(cc) < 2 for cc in coords0):
                return None
            with np.errstate(all="ignore"):
                P0, _ = independent_cell_probabilities(out["model"], desc, coords0, deltas0)
            if out["err"] == "ValueError" and "nan" in out.get("err_msg", ""):
                if np.isnan(P0).any():
                    return None
                return (dict(sig0, clause="unexpected-exception"), "ValueError (nan) although no cell probability is nan")
            if out["err"] == "IndexError":
                if np.isnan(P0).any():
                    return "unjudgeable"
                lim0 = 1 - c["alpha"]
                if float(P0.max()) > lim0 * (1 - 1e-9):
                    return None
                return (dict(sig0, clause="unexpected-exception"),
                        "IndexError although the densest cell (%r) does not exceed 1-alpha = %r" % (float(P0.max()), lim0))
        return (dict(sig0, clause="unexpected-exception"), "HighestDensityContour raised %s: %s" % (out["err"], out.get("err_msg", "")))
    cont = out["contour"]
    g = own_grid(c, out)
    if g is not None:
        for d, (want, got) in enumerate(zip(g[0], cont.cell_center_coordinates)):
            got = np.asarray(got, dtype=float)
            if len(want) != len(got) or np.abs(got - want).max() > 1e-9 * max(1.0, float(np.abs(want).max())):
                return (dict(sig0, clause="grid"), "axis %d: cell centres %r... (%d) are not min + k*delta up to max (%r..., %d)" % (
                    d, [float(v) for v in got[:3]], len(got), [float(v) for v in want[:3]], len(want)))
        if [float(v) for v in cont.deltas] != [float(v) for v in g[1]]:
            return (dict(sig0, clause="grid"), "deltas %r, expected %r" % (list(cont.deltas), g[1]))
    coords = cont.cell_center_coordinates
    deltas = [float(d) for d in cont.deltas]
    if any(len(cc) < 2 for cc in coords):
        return None
    alpha = c["alpha"]
    lim = 1 - alpha
    P, N = independent_cell_probabilities(out["model"], desc, coords, deltas)
    rt = 1e-9 + 8 * N          # relative tolerance per cell: 1e-9 plus the rounding noise of saturated cdf values
    if np.isnan(P).any():
        return "unjudgeable"
    vol = float(np.prod(deltas))
    # cell probabilities are the documented CDF differences
    f_impl = np.asarray(out["f"], dtype=float)
    if f_impl.shape != P.shape:
        return (dict(sig0, clause="cell-probabilities"), "cell_averaged_joint_pdf has shape %r, grid %r" % (f_impl.shape, P.shape))
    judge = np.isfinite(rt) & (rt < 1e-3)        # cells whose probability is numerically meaningful
    bad = judge & (np.abs(f_impl * vol - P) > np.where(judge, rt, 0) * np.abs(P) + 1e-300)
    if bad.any():
        k = tuple(int(v) for v in np.argwhere(bad)[0])
        return (dict(sig0, clause="cell-probabilities"),
                "cell %r: cell_averaged_joint_pdf*prod(deltas) = %r, product of CDF differences = %r" % (k, float(f_impl[k] * vol), float(P[k])))
    if desc.get("table") is None and not any(dd.get("family") == "mixture" for dd in desc["dims"]):
        ncmp, worst, msg = pdf_crosscheck(out["model"], desc, [np.asarray(cc, dtype=float) for cc in coords], deltas, P)
        if notes is not None:
            notes["pdf_crosscheck_cells"] = notes.get("pdf_crosscheck_cells", 0) + ncmp
            notes["pdf_crosscheck_worst_rel"] = max(notes.get("pdf_crosscheck_worst_rel", 0.0), worst)
        if msg:
            return (dict(sig0, clause="cell-average-vs-pdf"), msg)
    tot = float(P.sum())
    near = abs(tot - lim) <= 1e-10
    fm = float(cont.fm)
    if out["warned"] or tot < lim:
        if near:
            return "unjudgeable"
        if tot < lim and not out["warned"]:
            return (dict(sig0, clause="warning"), "grid captures %r < 1-alpha = %r but no RuntimeWarning was raised" % (tot, lim))
        if out["warned"] and not tot < lim:
            return (dict(sig0, clause="warning"), "RuntimeWarning although the grid captures %r >= 1-alpha = %r" % (tot, lim))
        hdr = out["erosions"][0][0] if out["erosions"] else None
        if fm != 0.0 or (hdr is not None and not np.all(hdr != 0)):
            return (dict(sig0, clause="warning"), "after the RuntimeWarning the whole grid must be returned with fm = 0 (fm = %r)" % fm)
        return None
    f = P / vol
    hdr = out["erosions"][0][0] if out["erosions"] else None
    if hdr is None:
        return (dict(sig0, clause="region"), "no enclosed region was handed to binary_erosion")
    enclosed = np.asarray(hdr) != 0
    if not enclosed.any():
        return (dict(sig0, clause="content"), "nothing enclosed")
    # region = cells with density >= fm (ties with the threshold may fall on either side); saturated cells are not judged
    lo_bad = enclosed & judge & (f < fm * (1 - np.where(judge, rt, 0)))
    if lo_bad.any():
        k = tuple(int(v) for v in np.argwhere(lo_bad)[0])
        return (dict(sig0, clause="threshold"), "enclosed cell %r has density %r < fm = %r" % (k, float(f[k]), fm))
    hi_bad = (~enclosed) & judge & (f > fm * (1 + np.where(judge, rt, 0)))
    if hi_bad.any():
        k = tuple(int(v) for v in np.argwhere(hi_bad)[0])
        return (dict(sig0, clause="density-order"), "excluded cell %r has density %r > fm = %r" % (k, float(f[k]), fm))
    kmin = np.unravel_index(np.argmin(np.where(enclosed, f, np.inf)), f.shape)
    fmin = float(f[kmin])
    if judge[kmin] and abs(fm - fmin) > float(rt[kmin]) * max(abs(fm), abs(fmin)):
        return (dict(sig0, clause="threshold"), "fm = %r is not the density of the least dense enclosed cell %r" % (fm, fmin))
    if not judge[kmin] and notes is not None:
        notes["saturated_threshold_cell"] = notes.get("saturated_threshold_cell", 0) + 1
    content = float(P[enclosed].sum())
    tol = 1e-10
    if content > lim + tol:
        return (dict(sig0, clause="content"), "enclosed probability %r exceeds 1-alpha = %r" % (content, lim))
    if (~enclosed).any():
        pe = float(P[~enclosed].max())
        if not (lim - content < pe + tol):
            return (dict(sig0, clause="misses-by-less"),
                    "1-alpha - content = %r is not less than the densest excluded cell's probability %r" % (lim - content, pe))
        if abs((lim - content) - pe) <= tol and notes is not None:
            notes["borderline_content"] = notes.get("borderline_content", 0) + 1
    return None


def coarsen(c, k):
    c2 = dict(c)
    d = c["deltas"]
    if d is None:
        return None
    try:
        c2["deltas"] = [float(x) * k for x in d]
    except TypeError:
        c2["deltas"] = float(d) * k
    return c2


def shrink_grid(c, sig):
    cur = c
    for _ in range(3):
        c2 = coarsen(cur, 2.0)
        if c2 is None:
            break
        try:
            o = oracle_grid(c2)
        except Exception:
            break
        if isinstance(o, tuple) and o[0].get("clause") == sig.get("clause"):
            cur = c2
        else:
            break
    return cur


def replay(ctx, c):
    if c.get("kind") == "cbu":
        o = oracle_cbu(c)
    else:
        o = oracle_grid(c)
    if isinstance(o, tuple):
        print("  ", o[1])
        return True
    return False


def nontrivial_cbu(c, r):
    return r["err"] == 0 and any(r["mask"]) and not all(r["mask"])


# ------------------------------------------------------------------ run
def run(ctx):
    ctx.proof_gate()
    rng = ctx.rng
    # ---------------- A
    n_a = ctx.n(500, 8000)
    cases_a = [gen_cbu_case(rng, big=(i % 8 == 0)) for i in range(n_a)]
    res_a = [run_cbu(c) for c in cases_a]
    dist = {}
    for c, r in zip(cases_a, res_a):
        k = "cbu/%dd/%s" % (len(c["shape"]), {0: "ok", 1: "ValueError", 2: "IndexError"}.get(r["err"], "other"))
        if r["err"] == 0 and r["warn"]:
            k += "+warn"
        dist[k] = dist.get(k, 0) + 1
        ctx.count(("cbu", tuple(c["shape"]), tuple(c["data"]), c["limit"]), nontrivial_cbu(c, r))
    shard = 250
    items = []
    for s in range(0, len(cases_a), shard):
        body = CBU_PRELUDE + "Definition results : list Z := [\n" + ";\n".join(
            coq_cbu_case(c, r) for c, r in zip(cases_a[s:s + shard], res_a[s:s + shard])) + "].\nEval vm_compute in results.\n"
        items.append(("cbu_%d" % (s // shard), body))
    # ---------------- B (small grids through Coq)
    n_b = ctx.n(48, 480)
    max_cells = ctx.n(1200, 2500)
    cases_b, outs_b = [], []
    for i in range(n_b):
        c = gen_grid_case(rng, max_cells)
        cases_b.append(c)
        outs_b.append(run_grid(c))
    for what in ["limits", "limits3", "deltas", "both"]:
        c = gen_default_case(rng, what)
        cases_b.append(c)
        outs_b.append(run_grid(c))
    # every predefined model structure, fitted to its shipped dataset (the fitted objects are the real classes)
    for name in sorted(M.PREDEFINED):
        for rep in range(ctx.n(1, 4)):
            c = gen_grid_case(rng, max_cells, desc=M.predefined_desc(name))
            cases_b.append(c)
            outs_b.append(run_grid(c))
    # 4-D models on small grids, the error branches (alpha near 1: IndexError; nan in the joint pdf: ValueError)
    # integer limits / deltas (integer np.arange grids), histories on one model object (parameter change, second fit)
    for rep in range(ctx.n(5, 30)):
        c = gen_int_grid_case(rng, max_cells)
        cases_b.append(c)
        outs_b.append(run_grid(c))
    for what in ["params", "params", "refit", "insufficient", "insufficient", "insufficient"] * ctx.n(1, 5):
        c = gen_history_case(rng, max_cells, what)
        cases_b.append(c)
        outs_b.append(run_grid(c))
    for rep in range(ctx.n(3, 20)):
        c = gen_grid_case(rng, max_cells, n_dim=4)
        cases_b.append(c)
        outs_b.append(run_grid(c))
    for rep in range(ctx.n(3, 20)):
        c = gen_grid_case(rng, max_cells, n_dim=rng.choice([2, 3]))
        c["alpha"] = rng.choice([0.9, 0.99, 0.999999, 1.0])
        cases_b.append(c)
        outs_b.append(run_grid(c))
    c = gen_grid_case(rng, max_cells, desc=M.predefined_desc("get_Windmeier_EW_Hs_S"))
    c["limits"] = [[0.0, l[1]] for l in c["limits"]]          # dependence functions undefined at hs = 0: nan -> ValueError
    cases_b.append(c)
    outs_b.append(run_grid(c))
    gshard = 4
    coq_b = []        # indices of cases that go through Coq
    coq_err = []      # error branches: the model must take the same branch
    for i, (c, o) in enumerate(zip(cases_b, outs_b)):
        key = "grid/%dd/%s%s" % (len(c["desc"]["dims"]), o.get("err", "ok"), "+warn" if o.get("warned") else "")
        if c["limits"] is None:
            key += "/default-limits"
        if c["deltas"] is None:
            key += "/default-deltas"
        dist[key] = dist.get(key, 0) + 1
        nt = "contour" in o and not o["warned"]
        ctx.count(("grid", repr(c["desc"]), c["alpha"], repr(c["limits"]), repr(c["deltas"])), nt)
        if c.get("prior"):
            dist["history/" + c["prior"]["type"]] = dist.get("history/" + c["prior"]["type"], 0) + 1
        if c["desc"].get("predefined"):
            dist["predefined/" + c["desc"]["predefined"]] = dist.get("predefined/" + c["desc"]["predefined"], 0) + 1
        fk = "forms/limits:%s deltas:%s" % (c.get("lim_form", "tuples") if c["limits"] is not None else "None",
                                            c.get("dl_form", "asis") if c["deltas"] is not None else "None")
        dist[fk] = dist.get(fk, 0) + 1
        if "contour" in o and o["f"].size <= 3000:
            coq_b.append(i)
        elif o.get("err") in ("IndexError", "ValueError") and "n_neighbors" not in o.get("err_msg", "") and o["calls_compute"]:
            coq_err.append(i)
    for s in range(0, len(coq_b), gshard):
        body = M.GRID_PRELUDE
        for k, i in enumerate(coq_b[s:s + gshard]):
            c, o = cases_b[i], outs_b[i]
            body += M.coq_grid_case(k, c["desc"], c["alpha"], c["limits"], c["deltas"], o)
        items.append(("grid_%d" % (s // gshard), body))
    n_grid_items = len(items)
    for s in range(0, len(coq_err), gshard):
        body = M.GRID_PRELUDE
        for k, i in enumerate(coq_err[s:s + gshard]):
            c, o = cases_b[i], outs_b[i]
            body += M.coq_grid_error_case(k, c["desc"], c["alpha"], c["limits"], c["deltas"], o)
        items.append(("griderr_%d" % (s // gshard), body))
    outs = ctx.coq_eval_many(items, jobs=12)
    # ---- evaluate A
    na_cmp, mism_a = 0, []
    n_ashards = (len(cases_a) + shard - 1) // shard
    for k in range(n_ashards):
        o = outs[k]
        if o is None:
            continue
        codes = vlib.parse_term(o[0])
        for i, code in enumerate(codes):
            na_cmp += 1
            if code != 0:
                mism_a.append((k * shard + i, code))
    names = {1: "error branch", 2: "mask", 3: "last_summed", 4: "warning flag"}
    suspects = []
    for idx, code in mism_a:
        ctx.mismatch("cumsum_biggest_until case %d" % idx, "%s differs: shape %r limit %r data %r" % (
            names.get(code, code), cases_a[idx]["shape"], cases_a[idx]["limit"], cases_a[idx]["data"][:12]))
        suspects.append(cases_a[idx])
    # ---- evaluate B
    nb_cmp, bitexact, ncells, mism_b = 0, 0, 0, []
    fields = ["cell_center_coordinates", "shape of the joint pdf", None, "cell_averaged_joint_pdf", "enclosed region (HDR)", None, "fm", "RuntimeWarning"]
    for k in range(n_ashards, n_grid_items):
        o = outs[k]
        if o is None:
            continue
        s = (k - n_ashards) * gshard
        for j, rtxt in enumerate(o):
            i = coq_b[s + j]
            t = vlib.parse_term(rtxt)
            nb_cmp += 1
            ncells += outs_b[i]["f"].size
            bitexact += t[2]
            badf = []
            if not t[0]:
                badf.append(fields[0])
            if not t[1]:
                badf.append(fields[1])
            if not t[3]:
                badf.append(fields[3])
            if t[4] != 0:
                badf.append(fields[4] + " code %d" % t[4])
            if not t[6]:
                badf.append(fields[6])
            if not t[7]:
                badf.append(fields[7])
            if badf:
                mism_b.append(i)
                ctx.mismatch("contour case %d" % i, "%s differ: %r" % (", ".join(badf), {k2: cases_b[i][k2] for k2 in ("desc", "alpha", "limits", "deltas")}))
    n_err_cmp, n_err_bad = 0, 0
    for k in range(n_grid_items, len(outs)):
        o = outs[k]
        if o is None:
            continue
        s0 = (k - n_grid_items) * gshard
        for j, rtxt in enumerate(o):
            i = coq_err[s0 + j]
            kind, ncell = vlib.parse_term(rtxt)
            want = 2 if outs_b[i]["err"] == "IndexError" else 1
            g = own_grid(cases_b[i], outs_b[i])
            wantcells = int(np.prod([len(x) for x in g[0]])) if g else ncell
            n_err_cmp += 1
            if kind != want or ncell != wantcells:
                n_err_bad += 1
                mism_b.append(i)
                ctx.mismatch("contour error case %d" % i, "implementation raised %s, model branch %d (0 ok, 1 nan, 2 IndexError), %d cells (expected %d): %r" % (
                    outs_b[i]["err"], kind, ncell, wantcells, {k2: cases_b[i][k2] for k2 in ("desc", "alpha", "limits", "deltas")}))
    # default-limit cases: the probability handed to marginal_icdf (checked here, the returned values are oracle values)
    for c, o in zip(cases_b, outs_b):
        if c["limits"] is None and "contour" in o:
            n = len(c["desc"]["dims"])
            want = 1 - 0.2 ** n * c["alpha"]
            ok = [m[1] for m in o["micdf"]] == list(range(n)) and all(abs(m[0] - want) <= 1e-15 and m[2] == 0.05 for m in o["micdf"])
            if not ok:
                ctx.mismatch("default limits", "marginal_icdf calls %r, expected p = %r for dims 0..%d with precision_factor 0.05" % (o["micdf"], want, n - 1))
    ctx.cov["programs"] = 2
    ctx.notes["correspondence"] = {"cumsum_biggest_until_cases": na_cmp, "cbu_mismatches": len(mism_a),
                                   "contours_compared": nb_cmp, "contour_mismatches": len(mism_b),
                                   "joint_pdf_cells_compared": ncells, "joint_pdf_cells_bit_exact": bitexact,
                                   "error_branches_compared": n_err_cmp, "error_branch_mismatches": n_err_bad}
    # ---------------- search: property oracle, disagreeing inputs first
    found, unjudge = 0, 0
    for c in suspects + cases_a:
        if found >= 6:
            break
        o = oracle_cbu(c)
        if o == "unjudgeable":
            unjudge += 1
        elif o is not None:
            sig, msg = o

            def fails(xs, c=c, sig=sig):
                if not xs:
                    return False
                o2 = oracle_cbu({"kind": "cbu", "shape": [len(xs)], "data": list(xs), "limit": c["limit"]})
                return isinstance(o2, tuple) and o2[0]["clause"] == sig["clause"]
            small = dict(c)
            if fails(c["data"]):
                small = {"kind": "cbu", "shape": None, "data": vlib.shrink_list(c["data"], fails), "limit": c["limit"]}
                small["shape"] = [len(small["data"])]
            o2 = oracle_cbu(small)
            o2 = o2 if isinstance(o2, tuple) else o
            if ctx.violation(o2[0], "cumsum_biggest_until: " + o2[1], small):
                found += 1
    order = mism_b + [i for i in range(len(cases_b)) if i not in mism_b]
    gnotes = {}
    for i in order:
        if found >= 8:
            break
        o = oracle_grid(cases_b[i], outs_b[i], gnotes)
        if o == "unjudgeable":
            unjudge += 1
        elif o is not None:
            sig, msg = o
            small = shrink_grid(cases_b[i], sig)
            o2 = oracle_grid(small) if small is not cases_b[i] else o
            o2 = o2 if isinstance(o2, tuple) else o
            if ctx.violation(o2[0], "HighestDensityContour: " + o2[1], small):
                found += 1
    # large grids: oracle only (the Coq model is quadratic in the number of cells)
    n_big = ctx.n(5, 40)
    big_cells = ctx.n(60000, 160000)
    nbig = 0
    max_oracle_cells = 0
    million = [gen_million_cell_case(rng, a) for a in ([1e-3] if ctx.quick() else [1e-2, 1e-3, 1e-5])]
    for i in range(n_big + len(million)):
        if found >= 8:
            break
        c = million[i - n_big] if i >= n_big else gen_grid_case(rng, big_cells, n_dim=(2 if i % 3 else 3), big=True)
        out = run_grid(c)
        nbig += 1
        key = "biggrid/%dd/%s%s" % (len(c["desc"]["dims"]), out.get("err", "ok"), "+warn" if out.get("warned") else "")
        if "f" in out:
            max_oracle_cells = max(max_oracle_cells, int(out["f"].size))
            if out["f"].size > 1e6:
                key += "/million-cells"
        dist[key] = dist.get(key, 0) + 1
        ctx.count(("grid", repr(c["desc"]), c["alpha"], repr(c["limits"]), repr(c["deltas"])), "contour" in out and not out["warned"])
        o = oracle_grid(c, out, gnotes)
        if o == "unjudgeable":
            unjudge += 1
        elif o is not None:
            sig, msg = o
            small = shrink_grid(c, sig)
            o2 = oracle_grid(small) if small is not c else o
            o2 = o2 if isinstance(o2, tuple) else o
            if ctx.violation(o2[0], "HighestDensityContour: " + o2[1], small):
                found += 1
    ctx.notes["input_distribution"] = dist
    ctx.notes["unjudgeable"] = unjudge
    ctx.notes.update(gnotes)
    ctx.notes["grid_sizes"] = {"coq_cells_max": max([outs_b[i]["f"].size for i in coq_b] or [0]),
                               "oracle_cells_max": max_oracle_cells, "large_grids": nbig}
    for c, r in list(zip(cases_a, res_a))[:2]:
        ctx.sample({"case": {k: (v if k != "data" else v[:8]) for k, v in c.items()}, "implementation": {k: (v if k != "mask" else v[:8]) for k, v in r.items()}})
    for c, o in list(zip(cases_b, outs_b))[:2]:
        ctx.sample({"case": c, "fm": float(o["contour"].fm) if "contour" in o else None, "warned": o.get("warned"), "err": o.get("err")})
    ctx.cov["rule"] = ("A: generated arrays of 1-3 dims (dyadic values, ties, zeros, decaying, equal, random floats; limits exactly on / next to "
                       "partial sums, unreachable, below the maximum, nan) through cumsum_biggest_until; B: random 2-D/3-D hierarchical models over "
                       "Weibull / log-normal / exponentiated Weibull / generalised gamma / normal with power3 / exp3 / linear dependence, alpha log-uniform "
                       "in [1e-6, 0.3], limits and deltas scalar / list / default, isotropic and anisotropic (ratio <= 10), reversed limit tuples, ints; "
                       "non-trivial = the selection is a proper non-empty subset (A) / a contour without RuntimeWarning (B); distinct = hash of the full input")
    ctx.cov["trusted_base"] = ["Coq 8.16.1 kernel + vm_compute (primitive floats)", "harness tools/harness/c02.py + _c02_models.py (generators, recorders, comparison)",
                               "the distributions' cdf as oracle (recorded tables; contract 'vectorised call = pointwise' is a theorem hypothesis)",
                               "marginal_icdf values for default limits are oracle values (Monte-Carlo)"]
    ctx.assumptions += ["cell probabilities are non-negative (cdfs non-decreasing)", "each variable is conditional on an EARLIER variable (cond(d) < d); see C18",
                        "exact arithmetic in the theorems; binary64 rounding is modelled (bit-exact correspondence), not bounded",
                        "grid spacing dx_d = delta_d in exact arithmetic (arange)"]
