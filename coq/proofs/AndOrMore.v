(* More lemmas for C04 (audit round): the warning is emitted exactly after 100 iterations, one exceedance count per
   iteration, rays follow the angles, the OR error branch, sample size, the exceedance fraction is antitone along a ray
   (what the search direction relies on), distance of the returned point. *)
From Coq Require Import Reals Lra Psatz List ZArith Lia Bool.
From V.model Require Import AndOr.
From V.proofs Require Import AndOrProofs.
Import ListNotations.

Section Search2.
  Variable T : Type.
  Variable K : ops T.
  Variable m : mode.
  Variable sample : list (T * T).
  Variables (alpha allowed : T) (u : T * T) (maxd : T).

  (* the warning is emitted iff all the remaining fuel is used up: from fuel = 100, after exactly 100 iterations *)
  Lemma search_warned_length : forall fuel rd rs pe vec trace, (1 <= fuel)%nat ->
    let r := search T K fuel m sample alpha allowed u maxd rd rs pe vec trace in
    (r_warned r = true -> length (r_trace r) = (length trace + fuel)%nat) /\
    (r_warned r = false -> (length (r_trace r) < length trace + fuel)%nat).
  Proof.
    induction fuel as [|f IH]; intros rd rs pe vec trace Hf; [lia|]. destruct f as [|f].
    - rewrite search_last. destruct (not_precise T K alpha allowed pe); cbn.
      + split; [intros _; rewrite app_length; cbn; lia|discriminate].
      + split; [discriminate|intros _; lia].
    - rewrite search_step. destruct (not_precise T K alpha allowed pe).
      + cbv zeta. destruct (IH (next_rd T K alpha rd rs (pe_at T K m sample (point_at T K u rd maxd)))
                              (next_rs T K alpha rs (pe_at T K m sample (point_at T K u rd maxd)))
                              (pe_at T K m sample (point_at T K u rd maxd)) (Some (point_at T K u rd maxd))
                              (trace ++ [count T K m (point_at T K u rd maxd) sample]) ltac:(lia)) as [I1 I2].
        rewrite app_length in I1, I2. cbn [length] in I1, I2. split.
        * intros H. rewrite (I1 H). lia.
        * intros H. specialize (I2 H). lia.
      + cbn. split; [discriminate|intros _; lia].
  Qed.

  (* an exit without warning leaves the loop because the condition is false, a warned exit happens with the condition
     having been true before each of the iterations: in both cases the returned pe is that of the last iteration *)
  Lemma search_trace_grows : forall fuel rd rs pe vec trace,
    exists more, r_trace (search T K fuel m sample alpha allowed u maxd rd rs pe vec trace) = trace ++ more.
  Proof.
    induction fuel as [|f IH]; intros rd rs pe vec trace.
    - cbn. destruct (not_precise T K alpha allowed pe); exists []; cbn; rewrite app_nil_r; reflexivity.
    - destruct f as [|f].
      + rewrite search_last. destruct (not_precise T K alpha allowed pe); cbn; [eexists; reflexivity|exists []; rewrite app_nil_r; reflexivity].
      + rewrite search_step. destruct (not_precise T K alpha allowed pe); [|exists []; cbn; rewrite app_nil_r; reflexivity].
        cbv zeta. destruct (IH (next_rd T K alpha rd rs (pe_at T K m sample (point_at T K u rd maxd)))
                              (next_rs T K alpha rs (pe_at T K m sample (point_at T K u rd maxd)))
                              (pe_at T K m sample (point_at T K u rd maxd)) (Some (point_at T K u rd maxd))
                              (trace ++ [count T K m (point_at T K u rd maxd) sample])) as [more E].
        rewrite E, <- app_assoc. eexists. reflexivity.
  Qed.
End Search2.

Section Clauses2.
  Variable T : Type.
  Variable K : ops T.

  Lemma ray_warned_iff_100 m sample alpha allowed xm ym theta :
    let r := search_ray T K m sample alpha allowed xm ym theta in
    (r_warned r = true -> length (r_trace r) = 100%nat) /\ (r_warned r = false -> (length (r_trace r) < 100)%nat).
  Proof.
    unfold search_ray.
    destruct (search_warned_length T K m sample alpha allowed (unit_vec T K theta) (max_distance T K xm ym) max_iterations
                (c02 K) (c01 K) (zero K) None [] fuel_pos) as [H1 H2].
    cbv zeta. split.
    - intros H. rewrite (H1 H). reflexivity.
    - intros H. exact (H2 H).
  Qed.

  (* one ray per angle, in the order of the angles *)
  Lemma rays_follow_thetas m sample alpha allowed xm ym thetas :
    length (rays T K m sample alpha allowed xm ym thetas) = length thetas /\
    forall i d, (i < length thetas)%nat ->
      nth i (rays T K m sample alpha allowed xm ym thetas) (search_ray T K m sample alpha allowed xm ym d) =
      search_ray T K m sample alpha allowed xm ym (nth i thetas d).
  Proof.
    unfold rays. split; [apply map_length|]. intros i d _. apply (map_nth (search_ray T K m sample alpha allowed xm ym)).
  Qed.

  (* OrContour fails (IndexError / unbound name in the source) iff some ray has no vector or no searched point is in range *)
  Lemma or_contour_error sample alpha allowed xm ym thetas dflt :
    let xmax := mul K (c11 K) (maxl T K (map fst sample) dflt) in
    let ymax := mul K (c11 K) (maxl T K (map snd sample) dflt) in
    fst (or_contour T K sample alpha allowed xm ym thetas dflt) = None <->
    (exists theta, In theta thetas /\ r_vec (search_ray T K Or sample alpha allowed xm ym theta) = None) \/
    (exists pts, points T (rays T K Or sample alpha allowed xm ym thetas) = Some pts /\ filter (in_range T K xmax ymax) pts = []).
  Proof.
    intros xmax ymax. unfold or_contour. cbn [fst]. unfold or_coords. fold xmax ymax.
    destruct (points T (rays T K Or sample alpha allowed xm ym thetas)) as [pts|] eqn:E.
    - unfold or_close. split.
      + intros H. right. exists pts. split; [reflexivity|]. destruct (filter (in_range T K xmax ymax) pts); [reflexivity|discriminate].
      + intros [[theta [Hin Hr]]|[pts' [E' F]]].
        * exfalso. assert (X : points T (rays T K Or sample alpha allowed xm ym thetas) = None).
          { apply points_none. exists (search_ray T K Or sample alpha allowed xm ym theta). split; [|exact Hr]. unfold rays. apply in_map. exact Hin. }
          congruence.
        * inversion E'; subst pts'. rewrite F. reflexivity.
    - split; [|reflexivity]. intros _. left. apply points_none in E. destruct E as [r [Hin Hr]].
      unfold rays in Hin. apply in_map_iff in Hin. destruct Hin as [theta [<- Hin]]. exists theta. auto.
  Qed.

  Lemma sample_size_clauses S (draw : Z -> S) (smp : S) n n_opt alpha :
    used_sample T K draw None None alpha = draw (trunc K (div K (c100 K) alpha)) /\
    used_sample T K draw None (Some n) alpha = draw n /\
    used_sample T K draw (Some smp) n_opt alpha = smp.
  Proof. repeat split. Qed.
End Clauses2.

Local Open Scope R_scope.

Lemma sample_size_R alpha : IZR (sample_size R Rops None alpha) <= 100 / alpha < IZR (sample_size R Rops None alpha) + 1.
Proof. cbn. pose proof (base_Int_part (100 / alpha)). lra. Qed.

Section Monotone.
  Lemma filter_length_mono {A} (f g : A -> bool) l : (forall x, In x l -> f x = true -> g x = true) ->
    (length (filter f l) <= length (filter g l))%nat.
  Proof.
    induction l as [|a l IH]; intros H; [reflexivity|]. cbn.
    assert (IH' : (length (filter f l) <= length (filter g l))%nat) by (apply IH; intros x Hx; apply H; right; exact Hx).
    destruct (f a) eqn:E.
    - rewrite (H a (or_introl eq_refl) E). cbn. lia.
    - destruct (g a); cbn; lia.
  Qed.

  (* farther out along a ray of the first quadrant, fewer observations exceed: the count (hence pe) is antitone in
     rel_dist, for AND and for OR -- the reason why 'pe > alpha => move outward' converges towards pe = alpha *)
  Lemma exceedance_antitone m (sample : list (R * R)) (u : R * R) maxd rd1 rd2 :
    0 <= fst u -> 0 <= snd u -> 0 <= maxd -> rd1 <= rd2 ->
    (count R Rops m (point_at R Rops u rd2 maxd) sample <= count R Rops m (point_at R Rops u rd1 maxd) sample)%nat.
  Proof.
    intros Hx Hy Hm Hr. unfold count. apply filter_length_mono. intros p _.
    assert (A : fst u * (rd1 * maxd) <= fst u * (rd2 * maxd)) by (apply Rmult_le_compat_l; [exact Hx|apply Rmult_le_compat_r; assumption]).
    assert (B : snd u * (rd1 * maxd) <= snd u * (rd2 * maxd)) by (apply Rmult_le_compat_l; [exact Hy|apply Rmult_le_compat_r; assumption]).
    destruct m.
    - rewrite !exceeds_and_R. unfold point_at. cbn [fst snd mul Rops]. intros [H1 H2]. split; lra.
    - rewrite !exceeds_or_R. unfold point_at. cbn [fst snd mul Rops]. intros [H1|H2]; [left|right]; lra.
  Qed.

  (* the unit vector has length one: the returned point is at distance rel_dist * max_distance from the origin *)
  Lemma point_distance theta rd maxd :
    let v := point_at R Rops (unit_vec R Rops theta) rd maxd in
    fst v * fst v + snd v * snd v = (rd * maxd) * (rd * maxd).
  Proof.
    unfold point_at, unit_vec. cbn [fst snd mul div cosf sinf c180 pi Rops].
    pose proof (sin2_cos2 (theta / 180 * PI)) as E. unfold Rsqr in E. nra.
  Qed.

  (* for angles of the first quadrant the unit vector has non-negative components *)
  Lemma unit_vec_first_quadrant theta : 0 <= theta <= 90 ->
    0 <= fst (unit_vec R Rops theta) /\ 0 <= snd (unit_vec R Rops theta).
  Proof.
    intros [H0 H1]. unfold unit_vec. cbn [fst snd mul div cosf sinf c180 pi Rops]. pose proof PI_RGT_0.
    assert (0 <= theta / 180 * PI <= PI / 2) by (split; nra).
    split; [apply cos_ge_0; lra|apply sin_ge_0; lra].
  Qed.
End Monotone.
