#!/usr/bin/env python3
"""seedtest.py <seeded-id|patch.diff> [PROPS...] [--tier quick|thorough] -- run checks against a scratch worktree of /repo
with the seeded change applied; prints which checks raise an alarm.  Never touches /repo's working tree."""
import json, os, subprocess, sys, time, shutil
V = os.path.dirname(os.path.dirname(os.path.abspath(__file__)))
args = [a for a in sys.argv[1:] if not a.startswith("--")]
tier = "quick"
if "--tier" in sys.argv:
    tier = sys.argv[sys.argv.index("--tier") + 1]
    args = [a for a in args if a != tier]
src = args[0]
if os.path.isdir(os.path.join(V, "seeded", src)):
    d = os.path.join(V, "seeded", src)
    patch = os.path.join(d, "patch.diff")
    meta = json.load(open(os.path.join(d, "meta.json")))
    props = args[1:] or [meta["property"]]
else:
    patch, props = src, args[1:]
wt = "/tmp/mut-%d" % os.getpid()
subprocess.run(["git", "-C", "/repo", "worktree", "add", "--detach", wt, "HEAD", "-q"], check=True)
try:
    r = subprocess.run(["git", "-C", wt, "apply", os.path.abspath(patch)], capture_output=True, text=True)
    if r.returncode != 0:
        print("PATCH DOES NOT APPLY:", r.stderr[:500]); sys.exit(2)
    env = dict(os.environ, VIROCON_REPO=wt)
    for p in props:
        t0 = time.time()
        r = subprocess.run([os.path.join(V, "check.sh"), p, tier], capture_output=True, text=True, env=env, cwd=V)
        vio = [l for l in r.stdout.splitlines() if l.startswith("VIOLATION") or l.startswith("  what:")]
        print("%s %s exit=%d %.0fs %s" % (p, "DETECTED" if r.returncode != 0 else "missed", r.returncode, time.time() - t0, ""))
        for l in vio[:4]:
            print("    " + l[:300])
finally:
    subprocess.run(["git", "-C", "/repo", "worktree", "remove", "--force", wt])
    # restore evidence (and generated files) from the real tree
    for p in props:
        if os.environ.get("SEEDTEST_NO_RESTORE") != "1":   # (a throw-away copy of /verif needs no restoring)
            subprocess.run([os.path.join(V, "check.sh"), p, "quick"], capture_output=True, text=True, cwd=V)
